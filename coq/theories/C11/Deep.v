(* C11 - proofs of the deepening pass: the fuel of the breadth-first descent is sufficient,
   the reader's coordinate-variable search, injectivity of flattened names in every regime
   (hash = Section variable), and the meaning theorem (what the writer emits as a reference is
   resolved, renamed and un-flattened to the element the writer meant). *)
From Coq Require Import DecimalString DecimalNat DecimalFacts FinFun.
From CfdmV Require Import Common.Base Tables.FlattenRules C11.Model C11.Lemmas.
Open Scope nat_scope.

Local Opaque slash.

(* ------------------------------------------------------------------ induction over the rose tree *)
Fixpoint group_ind' (P : group -> Prop)
  (H : forall n d v subs, Forall P subs -> P (G n d v subs)) (g : group) : P g :=
  match g with
  | G n d v subs =>
      H n d v subs
        ((fix go (l : list group) : Forall P l :=
            match l with
            | [] => Forall_nil P
            | c :: r => Forall_cons c (group_ind' P H c) (go r)
            end) subs)
  end.

(* ------------------------------------------------------------------ heights *)
Fixpoint maxh (l : list group) : nat :=
  match l with [] => 0 | c :: r => Nat.max (height c) (maxh r) end.

Lemma height_eq : forall n d v subs, height (G n d v subs) = S (maxh subs).
Proof.
  intros. reflexivity.
Qed.

Lemma height_pos : forall g, 1 <= height g.
Proof. intros [n d v subs]. rewrite height_eq. lia. Qed.

Lemma maxh_zero_nil : forall l, maxh l = 0 -> l = [].
Proof.
  intros [|c r] H; [reflexivity|]. simpl in H. pose proof (height_pos c). lia.
Qed.

Lemma maxh_app : forall a b, maxh (a ++ b) = Nat.max (maxh a) (maxh b).
Proof. induction a as [|c a IH]; intros b; simpl; [reflexivity|rewrite IH; lia]. Qed.

Lemma maxh_in : forall l c, In c l -> height c <= maxh l.
Proof.
  induction l as [|x l IH]; intros c I; [contradiction|]. simpl. destruct I as [->|I]; [lia|].
  specialize (IH c I). lia.
Qed.

Lemma child_in : forall l n c, child l n = Some c -> In c l /\ gname c = n.
Proof.
  induction l as [|x l IH]; intros n c H; simpl in H; [discriminate|].
  destruct (str_eqb (gname x) n) eqn:E.
  - inversion H; subst. split; [left; reflexivity|apply str_eqb_eq; assumption].
  - destruct (IH _ _ H) as [I N]. split; [right; assumption|assumption].
Qed.

Lemma gsubs_height : forall g, height g = S (maxh (gsubs g)).
Proof. intros [n d v subs]. apply height_eq. Qed.

Lemma find_group_height : forall p g g', find_group g p = Some g' -> height g' <= height g.
Proof.
  induction p as [|n p IH]; intros g g' H; simpl in H.
  - inversion H; subst. lia.
  - destruct (child (gsubs g) n) as [c|] eqn:C; [|discriminate].
    apply child_in in C as [I _]. apply maxh_in in I. specialize (IH _ _ H).
    rewrite (gsubs_height g). lia.
Qed.

(* ------------------------------------------------------------------ levels *)
Definition lheight (level : list (list str * group)) : nat := maxh (map snd level).

Lemma next_level_app : forall a b, next_level (a ++ b) = next_level a ++ next_level b.
Proof. intros. unfold next_level. apply flat_map_app. Qed.

Lemma next_level_cons : forall p g r,
  next_level ((p, g) :: r) = map (fun c => (p ++ [gname c], c)) (gsubs g) ++ next_level r.
Proof. reflexivity. Qed.

Lemma map_snd_children : forall (p : list str) subs,
  map snd (map (fun c : group => (p ++ [gname c], c)) subs) = subs.
Proof. intros. rewrite map_map. simpl. apply map_id. Qed.

(* every step down loses at least one unit of height *)
Lemma lheight_next : forall level, lheight (next_level level) <= pred (lheight level).
Proof.
  induction level as [|[p g] r IH]; [simpl; lia|].
  rewrite next_level_cons. unfold lheight in *. rewrite map_app, maxh_app, map_snd_children.
  simpl map. simpl maxh. rewrite (gsubs_height g). lia.
Qed.

Lemma below_nil : forall d, below d [] = [].
Proof. induction d as [|d IH]; [reflexivity|]. rewrite below_S. exact IH. Qed.

Lemma below_app : forall d a b, below d (a ++ b) = below d a ++ below d b.
Proof.
  induction d as [|d IH]; intros a b; [reflexivity|].
  rewrite !below_S, next_level_app. apply IH.
Qed.

Lemma below_mono : forall d x level y, In x level -> In y (below d [x]) -> In y (below d level).
Proof.
  intros d x level y I H. apply in_split in I as [l1 [l2 ->]].
  change (x :: l2) with ([x] ++ l2). rewrite !below_app. apply in_or_app. right. apply in_or_app. left. exact H.
Qed.

(* a group reached by a path of names is on the level of that depth *)
Lemma find_group_in_below : forall comps p g g',
  find_group g comps = Some g' -> In (p ++ comps, g') (below (length comps) [(p, g)]).
Proof.
  induction comps as [|n r IH]; intros p g g' H; simpl in H.
  - inversion H; subst. rewrite app_nil_r. left. reflexivity.
  - destruct (child (gsubs g) n) as [c|] eqn:C; [|discriminate].
    apply child_in in C as [I N]. simpl length. rewrite below_S.
    apply below_mono with (x := (p ++ [n], c)).
    + rewrite next_level_cons. apply in_or_app. left. apply in_map_iff. exists c. subst n. split; [reflexivity|assumption].
    + specialize (IH (p ++ [n]) c g' H). rewrite <- app_assoc in IH. exact IH.
Qed.

(* ------------------------------------------------------------------ the fuel of the descent *)
Lemma bfs_nil : forall fuel sd ref, bfs fuel sd ref [] = None.
Proof. destruct fuel; reflexivity. Qed.

(* With fuel at least (height of the level) - 1 the descent is exhaustive: when it returns
   nothing, no group on any level below holds the element ... *)
Lemma bfs_complete : forall fuel sd ref level,
  lheight level <= S fuel -> bfs fuel sd ref level = None ->
  forall d q g', In (q, g') (below d level) -> has_elt sd g' ref = false.
Proof.
  induction fuel as [|f IH]; intros sd ref level Hh H d q g' I.
  - destruct level as [|x r]; [rewrite below_nil in I; contradiction|].
    cbn [bfs] in H. destruct (first_holding sd ref (x :: r)) eqn:E; [discriminate|].
    destruct d as [|d].
    + apply (first_holding_none _ _ _ E q g' I).
    + rewrite below_S in I. pose proof (lheight_next (x :: r)) as L.
      assert (Z : next_level (x :: r) = []).
      { assert (M : lheight (next_level (x :: r)) = 0) by lia.
        unfold lheight in M. apply maxh_zero_nil in M. destruct (next_level (x :: r)); [reflexivity|discriminate]. }
      rewrite Z, below_nil in I. contradiction.
  - destruct level as [|x r]; [rewrite below_nil in I; contradiction|].
    cbn [bfs] in H. destruct (first_holding sd ref (x :: r)) eqn:E; [discriminate|].
    destruct d as [|d].
    + apply (first_holding_none _ _ _ E q g' I).
    + rewrite below_S in I. pose proof (lheight_next (x :: r)) as L.
      assert (L2 : lheight (next_level (x :: r)) <= S f) by lia.
      apply (IH sd ref (next_level (x :: r)) L2 H d q g' I).
Qed.

(* ... and more fuel never changes the answer: the out-of-fuel branch is unreachable. *)
Lemma bfs_fuel_irrelevant : forall fuel extra sd ref level,
  lheight level <= S fuel -> bfs (fuel + extra) sd ref level = bfs fuel sd ref level.
Proof.
  induction fuel as [|f IH]; intros extra sd ref level Hh.
  - destruct level as [|x r]; [rewrite !bfs_nil; reflexivity|].
    simpl Nat.add. destruct extra as [|e]; [reflexivity|].
    cbn [bfs]. destruct (first_holding sd ref (x :: r)); [reflexivity|].
    pose proof (lheight_next (x :: r)) as L.
    assert (M : lheight (next_level (x :: r)) = 0) by lia.
    unfold lheight in M. apply maxh_zero_nil in M.
    destruct (next_level (x :: r)); [apply bfs_nil|discriminate].
  - destruct level as [|x r]; [rewrite !bfs_nil; reflexivity|].
    simpl Nat.add. cbn [bfs]. destruct (first_holding sd ref (x :: r)); [reflexivity|].
    pose proof (lheight_next (x :: r)) as L. apply IH. lia.
Qed.

(* the call made by search_by_proximity: fuel [height root], from a group of the tree *)
Lemma lateral_level_height : forall root p g, find_group root p = Some g ->
  lheight (next_level [(p, g)]) <= S (height root).
Proof.
  intros root p g F. pose proof (lheight_next [(p, g)]) as L. apply find_group_height in F.
  assert (E : lheight [(p, g)] = Nat.max (height g) 0) by reflexivity.
  rewrite E in L. lia.
Qed.

Lemma lateral_complete : forall root p g sd ref,
  find_group root p = Some g ->
  bfs (height root) sd ref (next_level [(p, g)]) = None ->
  forall comps g', comps <> [] -> find_group g comps = Some g' -> has_elt sd g' ref = false.
Proof.
  intros root p g sd ref F H comps g' NE F'.
  destruct comps as [|n r]; [contradiction|].
  pose proof (find_group_in_below (n :: r) p g g' F') as I. simpl length in I. rewrite below_S in I.
  apply (bfs_complete (height root) sd ref _ (lateral_level_height root p g F) H _ _ _ I).
Qed.

Lemma lateral_fuel : forall root p g sd ref extra,
  find_group root p = Some g ->
  bfs (height root + extra) sd ref (next_level [(p, g)]) = bfs (height root) sd ref (next_level [(p, g)]).
Proof.
  intros. apply bfs_fuel_irrelevant. apply lateral_level_height. assumption.
Qed.

Example lateral_complete_nonvacuous :
  find_group ex_tree [s "h"] <> None /\
  bfs (height ex_tree) false (s "y") (next_level [([], ex_tree)]) = None.
Proof. split; [discriminate|reflexivity]. Qed.

(* ------------------------------------------------------------------ the reader's coordinate-variable search *)
Definition vid (v : rvar) : list str * str := (v_groups v, v_name v).
Definition is_prefix (a b : list str) : Prop := exists r, b = a ++ r.

Lemma path_eqb_eq : forall a b : list str, list_eqb str_eqb a b = true <-> a = b.
Proof. apply list_eqb_eq. apply str_eqb_eq. Qed.

Lemma id_eqb_eq : forall a b, id_eqb a b = true <-> a = b.
Proof.
  intros [a1 a2] [b1 b2]. unfold id_eqb. simpl. rewrite andb_true_iff, path_eqb_eq, str_eqb_eq.
  split; [intros [-> ->]; reflexivity|intros E; inversion E; split; reflexivity].
Qed.

Lemma ids_eqb_eq : forall a b, list_eqb id_eqb a b = true <-> a = b.
Proof. apply list_eqb_eq. apply id_eqb_eq. Qed.

Lemma firstn_prefix : forall a b : list str,
  list_eqb str_eqb (firstn (length a) b) a = true <-> is_prefix a b.
Proof.
  intros a b. rewrite path_eqb_eq. split.
  - intros E. exists (skipn (length a) b). rewrite <- E at 1. symmetry. apply firstn_skipn.
  - intros [r ->]. rewrite firstn_app, Nat.sub_diag, firstn_all. simpl. apply app_nil_r.
Qed.

(* a Unidata coordinate variable for [dim] in scope of it: another variable than the data
   variable, spanning exactly that dimension, of the dimension's basename, in the dimension's
   group or below it *)
Definition cand_b (hash : str -> str) (field dim : list str * str) (v : rvar) : bool :=
  negb (id_eqb (v_groups v, v_name v) field) &&
  list_eqb id_eqb (v_dims v) [dim] &&
  str_eqb (basename_of hash (v_groups v) (v_name v)) (dim_basename_gen true hash (fst dim) (snd dim)) &&
  list_eqb str_eqb (firstn (length (fst dim)) (v_groups v)) (fst dim).

Definition candidate (hash : str -> str) (vars : list rvar) (field dim : list str * str) (v : rvar) : Prop :=
  In v vars /\ vid v <> field /\ v_dims v = [dim] /\
  basename_of hash (v_groups v) (v_name v) = dim_basename_gen true hash (fst dim) (snd dim) /\
  is_prefix (fst dim) (v_groups v).

Lemma cand_b_spec : forall hash vars field dim v,
  In v (filter (cand_b hash field dim) vars) <-> candidate hash vars field dim v.
Proof.
  intros. rewrite filter_In. unfold cand_b, candidate, vid.
  rewrite !andb_true_iff, negb_true_iff, ids_eqb_eq, str_eqb_eq, firstn_prefix.
  split.
  - intros [I [[[N D] B] P]]. splits; try assumption.
    intro E. apply id_eqb_eq in E. congruence.
  - intros [I [N [D [B P]]]]. splits; try assumption.
    destruct (id_eqb (v_groups v, v_name v) field) eqn:E; [|reflexivity].
    apply id_eqb_eq in E. contradiction.
Qed.

(* proximal = the candidate's group is the data variable's group or an ancestor of it *)
Definition prox_b (field : list str * str) (v : rvar) : bool :=
  list_eqb str_eqb (firstn (length (v_groups v)) (fst field)) (v_groups v).

Lemma prox_b_spec : forall field v, prox_b field v = true <-> is_prefix (v_groups v) (fst field).
Proof. intros. apply firstn_prefix. Qed.

Definition own_b (vars : list rvar) (dim : list str * str) : bool :=
  existsb (fun v => id_eqb (v_groups v, v_name v) dim && list_eqb id_eqb (v_dims v) [dim]) vars.

Lemma find_coord_unfold : forall hash vars field dim,
  find_coord hash true vars field dim =
    let cands := filter (cand_b hash field dim) vars in
    match first_longest None (filter (prox_b field) cands) with
    | Some v => Some (vid v)
    | None =>
        if own_b vars dim then Some dim
        else match first_shortest None (filter (fun v => negb (prox_b field v)) cands) with
             | None => None
             | Some v =>
                 if Nat.eqb (count_len (length (v_groups v)) (filter (fun v => negb (prox_b field v)) cands)) 1
                 then Some (vid v) else None
             end
    end.
Proof. reflexivity. Qed.

Definition glen (v : rvar) : nat := length (v_groups v).

Lemma first_longest_spec : forall l best r, first_longest best l = Some r ->
  (In r l \/ best = Some r) /\
  (forall w, In w l -> glen w <= glen r) /\
  (forall b, best = Some b -> glen b <= glen r).
Proof.
  induction l as [|v l IH]; intros best r H; simpl in H.
  - subst best. splits; [right; reflexivity|intros w []|intros b E; inversion E; lia].
  - destruct best as [b|].
    + destruct (length (v_groups b) <? length (v_groups v)) eqn:C.
      * apply Nat.ltb_lt in C. destruct (IH _ _ H) as [A [B D]]. specialize (D v eq_refl). unfold glen in *. splits.
        -- destruct A as [A|A]; [left; right; assumption|inversion A; subst; left; left; reflexivity].
        -- intros w [<-|I]; [assumption|apply B; assumption].
        -- intros b' E. inversion E; subst. lia.
      * apply Nat.ltb_ge in C. destruct (IH _ _ H) as [A [B D]]. specialize (D b eq_refl). unfold glen in *. splits.
        -- destruct A as [A|A]; [left; right; assumption|right; assumption].
        -- intros w [<-|I]; [lia|apply B; assumption].
        -- intros b' E. inversion E; subst. assumption.
    + destruct (IH _ _ H) as [A [B D]]. specialize (D v eq_refl). splits.
      * destruct A as [A|A]; [left; right; assumption|inversion A; subst; left; left; reflexivity].
      * intros w [<-|I]; [assumption|apply B; assumption].
      * intros b' E. discriminate.
Qed.

Lemma first_longest_none : forall l best, first_longest best l = None -> best = None /\ l = [].
Proof.
  induction l as [|v l IH]; intros best H; simpl in H; [split; [assumption|reflexivity]|].
  destruct best as [b|].
  - destruct (length (v_groups b) <? length (v_groups v)); destruct (IH _ H) as [E _]; discriminate.
  - destruct (IH _ H) as [E _]; discriminate.
Qed.

Lemma first_shortest_spec : forall l best r, first_shortest best l = Some r ->
  (In r l \/ best = Some r) /\
  (forall w, In w l -> glen r <= glen w) /\
  (forall b, best = Some b -> glen r <= glen b).
Proof.
  induction l as [|v l IH]; intros best r H; simpl in H.
  - subst best. splits; [right; reflexivity|intros w []|intros b E; inversion E; lia].
  - destruct best as [b|].
    + destruct (length (v_groups v) <? length (v_groups b)) eqn:C.
      * apply Nat.ltb_lt in C. destruct (IH _ _ H) as [A [B D]]. specialize (D v eq_refl). unfold glen in *. splits.
        -- destruct A as [A|A]; [left; right; assumption|inversion A; subst; left; left; reflexivity].
        -- intros w [<-|I]; [assumption|apply B; assumption].
        -- intros b' E. inversion E; subst. lia.
      * apply Nat.ltb_ge in C. destruct (IH _ _ H) as [A [B D]]. specialize (D b eq_refl). unfold glen in *. splits.
        -- destruct A as [A|A]; [left; right; assumption|right; assumption].
        -- intros w [<-|I]; [lia|apply B; assumption].
        -- intros b' E. inversion E; subst. assumption.
    + destruct (IH _ _ H) as [A [B D]]. specialize (D v eq_refl). splits.
      * destruct A as [A|A]; [left; right; assumption|inversion A; subst; left; left; reflexivity].
      * intros w [<-|I]; [assumption|apply B; assumption].
      * intros b' E. discriminate.
Qed.

Lemma first_shortest_none : forall l best, first_shortest best l = None -> best = None /\ l = [].
Proof.
  induction l as [|v l IH]; intros best H; simpl in H; [split; [assumption|reflexivity]|].
  destruct best as [b|].
  - destruct (length (v_groups v) <? length (v_groups b)); destruct (IH _ H) as [E _]; discriminate.
  - destruct (IH _ H) as [E _]; discriminate.
Qed.

Lemma length1_unique {A} : forall (l : list A) x y, length l = 1 -> In x l -> In y l -> x = y.
Proof.
  intros [|a [|b l]] x y H Ix Iy; try discriminate.
  destruct Ix as [<-|[]]. destruct Iy as [<-|[]]. reflexivity.
Qed.

Lemma nodup_two {A} : forall (l : list A) x, NoDup l -> In x l -> length l <> 1 -> exists y, In y l /\ y <> x.
Proof.
  intros [|a [|b l]] x ND I L; [contradiction|exfalso; apply L; reflexivity|].
  inversion ND as [|? ? NA _]; subst.
  destruct I as [<-|I].
  - exists b. split; [right; left; reflexivity|]. intro E. subst. apply NA. left. reflexivity.
  - exists a. split; [left; reflexivity|]. intro E. subst. contradiction.
Qed.

Definition lateral_cand hash vars field dim v : Prop :=
  candidate hash vars field dim v /\ ~ is_prefix (v_groups v) (fst field).

Lemma lateral_filter : forall hash vars field dim v,
  In v (filter (fun v => negb (prox_b field v)) (filter (cand_b hash field dim) vars)) <->
  lateral_cand hash vars field dim v.
Proof.
  intros. rewrite filter_In, cand_b_spec, negb_true_iff. unfold lateral_cand. split.
  - intros [C P]. split; [assumption|]. intro X. apply prox_b_spec in X. congruence.
  - intros [C P]. split; [assumption|]. destruct (prox_b field v) eqn:E; [|reflexivity].
    apply prox_b_spec in E. contradiction.
Qed.

(* WHAT IS FOUND.  In a dataset with groups the coordinate variable of [dim] for the data
   variable [field] is
     (a) the candidate nearest to the data variable on its ancestor path (proximal search); or
     (b) when no candidate lies on that path: [dim] itself, if the variable named like the
         dimension in the dimension's own group spans it (the Unidata shortcut as repaired by
         5e5cf7d: then that variable can only be the data variable); or
     (c) otherwise the candidate nearest to the dimension's group (lateral search), provided
         it is the only one at that depth. *)
Lemma find_coord_sound : forall hash vars field dim c,
  find_coord hash true vars field dim = Some c ->
  (exists v, candidate hash vars field dim v /\ c = vid v /\ is_prefix (v_groups v) (fst field) /\
     forall w, candidate hash vars field dim w -> is_prefix (v_groups w) (fst field) -> glen w <= glen v)
  \/
  ((forall w, candidate hash vars field dim w -> ~ is_prefix (v_groups w) (fst field)) /\
   ((own_b vars dim = true /\ c = dim)
    \/
    (own_b vars dim = false /\
     exists v, lateral_cand hash vars field dim v /\ c = vid v /\
       (forall w, lateral_cand hash vars field dim w -> glen v <= glen w) /\
       (forall w, lateral_cand hash vars field dim w -> glen w = glen v -> w = v)))).
Proof.
  intros hash vars field dim c H. rewrite find_coord_unfold in H. cbv zeta in H.
  set (cands := filter (cand_b hash field dim) vars) in *.
  destruct (first_longest None (filter (prox_b field) cands)) as [v|] eqn:FL.
  - left. inversion H; subst c. apply first_longest_spec in FL as [[I|I] [B _]]; [|discriminate].
    apply filter_In in I as [I P]. apply cand_b_spec in I. apply prox_b_spec in P.
    exists v. splits; try assumption; try reflexivity.
    intros w Cw Pw. apply B. apply filter_In. split; [apply cand_b_spec; assumption|apply prox_b_spec; assumption].
  - right. apply first_longest_none in FL as [_ FL].
    assert (NP : forall w, candidate hash vars field dim w -> ~ is_prefix (v_groups w) (fst field)).
    { intros w Cw Pw. assert (I : In w (filter (prox_b field) cands)).
      { apply filter_In. split; [apply cand_b_spec; assumption|apply prox_b_spec; assumption]. }
      rewrite FL in I. contradiction. }
    split; [exact NP|].
    destruct (own_b vars dim) eqn:O.
    + left. inversion H; subst. split; reflexivity.
    + right. split; [reflexivity|].
      set (lat := filter (fun v => negb (prox_b field v)) cands) in *.
      destruct (first_shortest None lat) as [v|] eqn:FS; [|discriminate].
      destruct (Nat.eqb (count_len (length (v_groups v)) lat) 1) eqn:CN; [|discriminate].
      inversion H; subst c. apply Nat.eqb_eq in CN.
      apply first_shortest_spec in FS as [[I|I] [B _]]; [|discriminate].
      exists v. splits.
      * apply lateral_filter. exact I.
      * reflexivity.
      * intros w Lw. apply B. apply lateral_filter. exact Lw.
      * intros w Lw E. unfold count_len in CN.
        apply (length1_unique _ w v CN); apply filter_In; split;
          try (apply Nat.eqb_eq; unfold glen in E; congruence); try reflexivity.
        -- apply lateral_filter. exact Lw.
        -- exact I.
Qed.

(* WHAT IS NOT FOUND.  No coordinate variable is reported only when no candidate lies on the
   ancestor path, the shortcut does not apply, and either there is no candidate at all or two
   different candidates are equally near to the dimension's group (the ambiguity CF 2.7 leaves
   undefined). *)
Lemma find_coord_none : forall hash vars field dim,
  NoDup vars ->
  find_coord hash true vars field dim = None ->
  (forall w, candidate hash vars field dim w -> ~ is_prefix (v_groups w) (fst field)) /\
  own_b vars dim = false /\
  ((forall w, ~ candidate hash vars field dim w)
   \/
   exists v w, v <> w /\ lateral_cand hash vars field dim v /\ lateral_cand hash vars field dim w /\
     glen v = glen w /\ forall u, lateral_cand hash vars field dim u -> glen v <= glen u).
Proof.
  intros hash vars field dim ND H. rewrite find_coord_unfold in H. cbv zeta in H.
  set (cands := filter (cand_b hash field dim) vars) in *.
  destruct (first_longest None (filter (prox_b field) cands)) as [v|] eqn:FL; [discriminate|].
  apply first_longest_none in FL as [_ FL].
  assert (NP : forall w, candidate hash vars field dim w -> ~ is_prefix (v_groups w) (fst field)).
  { intros w Cw Pw. assert (I : In w (filter (prox_b field) cands)).
    { apply filter_In. split; [apply cand_b_spec; assumption|apply prox_b_spec; assumption]. }
    rewrite FL in I. contradiction. }
  split; [exact NP|].
  destruct (own_b vars dim) eqn:O; [discriminate|]. split; [reflexivity|].
  set (lat := filter (fun v => negb (prox_b field v)) cands) in *.
  destruct (first_shortest None lat) as [v|] eqn:FS.
  - right. destruct (Nat.eqb (count_len (length (v_groups v)) lat) 1) eqn:CN; [discriminate|].
    apply Nat.eqb_neq in CN. apply first_shortest_spec in FS as [[I|I] [B _]]; [|discriminate].
    unfold count_len in CN.
    assert (NDl : NoDup (filter (fun v0 : rvar => length (v_groups v0) =? length (v_groups v)) lat)).
    { apply NoDup_filter. apply NoDup_filter. apply NoDup_filter. exact ND. }
    assert (Iv : In v (filter (fun v0 : rvar => length (v_groups v0) =? length (v_groups v)) lat)).
    { apply filter_In. split; [exact I|apply Nat.eqb_eq; reflexivity]. }
    destruct (nodup_two _ v NDl Iv CN) as [w [Iw Nw]].
    apply filter_In in Iw as [Iw Ew]. apply Nat.eqb_eq in Ew.
    exists v, w. splits.
    + congruence.
    + apply lateral_filter. exact I.
    + apply lateral_filter. exact Iw.
    + unfold glen. congruence.
    + intros u Lu. apply B. apply lateral_filter. exact Lu.
  - left. apply first_shortest_none in FS as [_ FS]. intros w Cw.
    assert (I : In w lat).
    { apply lateral_filter. split; [assumption|apply NP; assumption]. }
    rewrite FS in I. contradiction.
Qed.

(* every proximal candidate makes the search succeed *)
Lemma find_coord_proximal_complete : forall hash vars field dim w,
  candidate hash vars field dim w -> is_prefix (v_groups w) (fst field) ->
  find_coord hash true vars field dim <> None.
Proof.
  intros hash vars field dim w Cw Pw H. rewrite find_coord_unfold in H. cbv zeta in H.
  destruct (first_longest None (filter (prox_b field) (filter (cand_b hash field dim) vars))) eqn:FL; [discriminate|].
  apply first_longest_none in FL as [_ FL].
  assert (I : In w (filter (prox_b field) (filter (cand_b hash field dim) vars))).
  { apply filter_In. split; [apply cand_b_spec; assumption|apply prox_b_spec; assumption]. }
  rewrite FL in I. contradiction.
Qed.

(* for slash-free names the basename test is a test of names (in every regime of the flattened
   names: the repaired reader takes the basename from the absolute path) *)
Lemma basename_of_name : forall hash p n, free slash (p ++ [n]) -> basename_of hash p n = n.
Proof.
  intros hash p n F. unfold basename_of. rewrite (unflatten_var_spec _ p n F). destruct p; reflexivity.
Qed.

Lemma dim_basename_name : forall hash p n, free slash (p ++ [n]) -> dim_basename_gen true hash p n = n.
Proof.
  intros hash p n F. unfold dim_basename_gen. rewrite (unflatten_dim_spec _ p n F). destruct p; reflexivity.
Qed.

Lemma candidate_names : forall hash vars field dim v,
  free slash (v_groups v ++ [v_name v]) -> free slash (fst dim ++ [snd dim]) ->
  (candidate hash vars field dim v <->
   In v vars /\ vid v <> field /\ v_dims v = [dim] /\ v_name v = snd dim /\ is_prefix (fst dim) (v_groups v)).
Proof.
  intros hash vars field dim v Fv Fd. unfold candidate.
  rewrite (basename_of_name hash _ _ Fv), (dim_basename_name hash _ _ Fd). reflexivity.
Qed.

(* a file as cfdm's writer makes it: the coordinate variable sits beside its dimension and is
   the only candidate; it is found from anywhere below *)
Lemma find_coord_writer_made : forall hash vars field dim v,
  candidate hash vars field dim v -> vid v = dim -> is_prefix (fst dim) (fst field) ->
  (forall w, candidate hash vars field dim w -> w = v) ->
  find_coord hash true vars field dim = Some dim.
Proof.
  intros hash vars field dim v Cv Ev Pf U.
  assert (Pv : is_prefix (v_groups v) (fst field)).
  { unfold vid in Ev. destruct dim as [dg dn]. inversion Ev; subst. exact Pf. }
  destruct (find_coord hash true vars field dim) as [c|] eqn:H.
  - apply find_coord_sound in H as [[w [Cw [-> _]]]|[NP _]].
    + rewrite (U w Cw). f_equal. exact Ev.
    + exfalso. apply (NP v Cv Pv).
  - exfalso. apply (find_coord_proximal_complete hash vars field dim v Cv Pv H).
Qed.

Example find_coord_nonvacuous :
  let vars := [mkVar [] (s "x") [([], s "x")]; mkVar [s "g"] (s "x") [([], s "x")];
               mkVar [s "g"; s "h"] (s "ta") [([], s "x")]] in
  candidate (fun x => x) vars ([s "g"; s "h"], s "ta") ([], s "x") (mkVar [s "g"] (s "x") [([], s "x")]) /\
  find_coord (fun x => x) true vars ([s "g"; s "h"], s "ta") ([], s "x") = Some ([s "g"], s "x").
Proof.
  split; [|reflexivity]. unfold candidate. splits; try reflexivity.
  - right; left; reflexivity.
  - discriminate.
  - exists [s "g"]. reflexivity.
Qed.

(* ------------------------------------------------------------------ flattened names: every regime *)
(* generate_flattened_name replaces the group path, or the whole name, by a SHA-1 digest when the
   name would reach 256 characters.  The digest function is a Section variable; what is assumed
   of it is stated as Section hypotheses and becomes the premises of the theorem. *)
Section Hashed.
  Variable hash : str -> str.
  Hypothesis hash_inj : forall a b, hash a = hash b -> a = b.
  (* a hexadecimal digest: not empty, no underscore at the end, no double underscore *)
  Hypothesis hash_good : forall a, good (hash a).

  (* the "__"-separated components of a flattened name *)
  Definition repr (p : list str) (n : str) : list str :=
    match p with
    | [] => [n]
    | _ =>
        let full := join sep2 p ++ sep2 ++ n in
        if length full <? cfg_max_name_len then p ++ [n]
        else if length (hash (group_path p) ++ sep2 ++ n) <? cfg_max_name_len
             then [hash (group_path p); n] else [hash full]
    end.

  Lemma flat_name_repr : forall p n, flat_name hash p n = join sep2 (repr p n).
  Proof.
    intros p n. unfold flat_name, repr. destruct p as [|a p]; [reflexivity|]. cbv zeta.
    destruct (length (join sep2 (a :: p) ++ sep2 ++ n) <? cfg_max_name_len).
    - rewrite join_snoc2 by discriminate. reflexivity.
    - destruct (length (hash (group_path (a :: p)) ++ sep2 ++ n) <? cfg_max_name_len); reflexivity.
  Qed.

  Lemma repr_cases : forall p n,
    (p = [] /\ repr p n = [n]) \/
    (p <> [] /\ repr p n = p ++ [n]) \/
    (p <> [] /\ repr p n = [hash (group_path p); n]) \/
    (p <> [] /\ repr p n = [hash (join sep2 (p ++ [n]))]).
  Proof.
    intros p n. destruct p as [|a p]; [left; split; reflexivity|right].
    unfold repr. cbv zeta.
    destruct (length (join sep2 (a :: p) ++ sep2 ++ n) <? cfg_max_name_len);
      [left; split; [discriminate|reflexivity]|right].
    destruct (length (hash (group_path (a :: p)) ++ sep2 ++ n) <? cfg_max_name_len);
      [left; split; [discriminate|reflexivity]|right].
    split; [discriminate|]. rewrite join_snoc2 by discriminate. reflexivity.
  Qed.

  Lemma repr_good : forall p n, Forall good (p ++ [n]) -> Forall good (repr p n).
  Proof.
    intros p n Gd. assert (Gn : good n).
    { apply Forall_app in Gd as [_ X]. inversion X; assumption. }
    destruct (repr_cases p n) as [[_ ->]|[[_ ->]|[[_ ->]|[_ ->]]]].
    - constructor; [assumption|constructor].
    - assumption.
    - constructor; [apply hash_good|constructor; [assumption|constructor]].
    - constructor; [apply hash_good|constructor].
  Qed.

  Lemma repr_ne : forall p n, repr p n <> [].
  Proof.
    intros p n. destruct (repr_cases p n) as [[_ ->]|[[_ ->]|[[_ ->]|[_ ->]]]]; try discriminate.
    destruct p; discriminate.
  Qed.

  Lemma snoc_single {A} : forall (p : list A) n x, p <> [] -> p ++ [n] <> [x].
  Proof. intros [|a [|b p]] n x NE E; [contradiction|discriminate|discriminate]. Qed.

  Lemma group_path_inj : forall p1 p2, p1 <> [] -> p2 <> [] -> free slash p1 -> free slash p2 ->
    group_path p1 = group_path p2 -> p1 = p2.
  Proof.
    intros p1 p2 N1 N2 F1 F2 E. unfold group_path in E. inversion E as [E'].
    apply (join_inj_chr slash); assumption.
  Qed.

  (* no group and no variable is named like a digest *)
  Definition no_digest (l : list str) : Prop := forall c a, In c l -> c <> hash a.

  Lemma flat_injective_all : forall p1 n1 p2 n2,
    Forall good (p1 ++ [n1]) -> Forall good (p2 ++ [n2]) ->
    free slash p1 -> free slash p2 ->
    no_digest (p1 ++ [n1]) -> no_digest (p2 ++ [n2]) ->
    flat_name hash p1 n1 = flat_name hash p2 n2 -> p1 = p2 /\ n1 = n2.
  Proof.
    intros p1 n1 p2 n2 G1 G2 F1 F2 D1 D2 E. rewrite !flat_name_repr in E.
    apply join_sep2_inj in E; try apply repr_ne; try (apply repr_good; assumption).
    assert (In1 : In n1 (p1 ++ [n1])) by (apply in_or_app; right; left; reflexivity).
    assert (In2 : In n2 (p2 ++ [n2])) by (apply in_or_app; right; left; reflexivity).
    destruct (repr_cases p1 n1) as [[P1 R1]|[[P1 R1]|[[P1 R1]|[P1 R1]]]];
    destruct (repr_cases p2 n2) as [[P2 R2]|[[P2 R2]|[[P2 R2]|[P2 R2]]]];
    rewrite R1, R2 in E.
    - (* root / root *) inversion E. subst. split; reflexivity.
    - (* root / plain *) exfalso. symmetry in E. apply (snoc_single _ _ _ P2 E).
    - discriminate.
    - (* root / whole-name digest *) exfalso. inversion E as [E']. apply (D1 n1 _ In1 E').
    - exfalso. apply (snoc_single _ _ _ P1 E).
    - (* plain / plain *) apply app_inj_tail in E. exact E.
    - (* plain / group digest: a group named like the digest of another group path *)
      exfalso. destruct p1 as [|a p1]; [contradiction|]. inversion E as [[Ea Er]].
      apply (D1 a _ ltac:(left; reflexivity) Ea).
    - exfalso. apply (snoc_single _ _ _ P1 E).
    - discriminate.
    - exfalso. destruct p2 as [|a p2]; [contradiction|]. inversion E as [[Ea Er]].
      symmetry in Ea. apply (D2 a _ ltac:(left; reflexivity) Ea).
    - (* group digest / group digest *)
      inversion E as [[Eh En]]. apply hash_inj in Eh. split; [|reflexivity].
      apply group_path_inj; assumption.
    - discriminate.
    - exfalso. inversion E as [E']. symmetry in E'. apply (D2 n2 _ In2 E').
    - exfalso. symmetry in E. apply (snoc_single _ _ _ P2 E).
    - discriminate.
    - (* whole-name digest / whole-name digest *)
      inversion E as [Eh]. apply hash_inj in Eh.
      apply join_sep2_inj in Eh; try assumption; try (destruct p1; discriminate); try (destruct p2; discriminate).
      apply app_inj_tail in Eh. exact Eh.
  Qed.
End Hashed.

(* Non-vacuity.  (1) The two hypotheses on the digest are satisfiable: an injective stand-in
   whose every value is a good name ("h", then each character followed by "a").
   (2) Both hashed regimes of [repr] are reached - shown with a 4-character stand-in, since no
   length-doubling function can give the short group digest that SHA-1 gives. *)
Definition enc_body (x : str) : str := flat_map (fun c => [c; "a"%char]) x.
Definition enc (x : str) : str := "h"%char :: enc_body x.

Lemma enc_body_inj : forall a b, enc_body a = enc_body b -> a = b.
Proof.
  induction a as [|c a IH]; intros [|d b] E; simpl in E; try discriminate; [reflexivity|].
  inversion E; subst. f_equal. apply IH. assumption.
Qed.

Lemma enc_inj : forall a b, enc a = enc b -> a = b.
Proof. intros a b E. inversion E. apply enc_body_inj. assumption. Qed.

Lemma enc_body_no_dbl : forall x, no_dbl (enc_body x) = true /\ last (enc_body x) "a"%char = "a"%char.
Proof.
  induction x as [|c x [IH1 IH2]]; [split; reflexivity|].
  change (enc_body (c :: x)) with (c :: "a"%char :: enc_body x). split.
  - cbn [no_dbl]. rewrite IH1. change (Ascii.eqb "a" us) with false. rewrite andb_false_r. simpl negb.
    destruct (enc_body x); reflexivity.
  - destruct (enc_body x) eqn:E; [reflexivity|]. exact IH2.
Qed.

Lemma enc_good : forall a, good (enc a).
Proof.
  intros a. destruct (enc_body_no_dbl a) as [N L]. unfold good, enc. split.
  - destruct (enc_body a) as [|c r] eqn:E; [discriminate|].
    change (last ("h"%char :: c :: r) us) with (last (c :: r) us).
    assert (X : forall d, last (c :: r) d = last (c :: r) "a"%char).
    { intros d. clear. revert c. induction r as [|y r IH]; intros c; [reflexivity|]. apply (IH y). }
    rewrite X, L. discriminate.
  - cbn [no_dbl]. rewrite N. change (Ascii.eqb "h" us) with false. simpl. destruct (enc_body a); reflexivity.
Qed.

Definition h4 (x : str) : str := s "0a1b".
Definition long_name (c : ascii) : str := repeat c 130.

Definition la : str := long_name "a"%char.
Definition lb : str := long_name "b"%char.
Definition lcd : str := long_name "c"%char ++ long_name "d"%char.

Example hashed_regimes_nonvacuous :
  (repr h4 [la; lb] (s "x") = [h4 (group_path [la; lb]); s "x"]) /\
  (repr h4 [s "g"] lcd = [h4 (join sep2 ([s "g"] ++ [lcd]))]).
Proof. split; vm_compute; reflexivity. Qed.

(* ------------------------------------------------------------------ the name map of the flattener *)
Definition var_map_subs (hash : str -> str) (p : list str) : list group -> list (str * str) :=
  fix go (l : list group) : list (str * str) :=
    match l with [] => [] | c :: r => var_map hash (p ++ [gname c]) c ++ go r end.

Lemma var_map_subs_cons : forall hash p c r,
  var_map_subs hash p (c :: r) = var_map hash (p ++ [gname c]) c ++ var_map_subs hash p r.
Proof. reflexivity. Qed.

Lemma var_map_eq : forall hash p n d v subs,
  var_map hash p (G n d v subs) =
    map (fun x => (pathname p (fst x), flat_name hash p (fst x))) v ++ var_map_subs hash p subs.
Proof. reflexivity. Qed.

(* netCDF names never contain "/" *)
Fixpoint tree_okb (g : group) : bool :=
  forallb (fun v => negb (mem_chr slash (fst v))) (gvars g) &&
  (fix go (l : list group) : bool :=
     match l with [] => true | c :: r => negb (mem_chr slash (gname c)) && tree_okb c && go r end) (gsubs g).

Fixpoint subs_okb (l : list group) : bool :=
  match l with [] => true | c :: r => negb (mem_chr slash (gname c)) && tree_okb c && subs_okb r end.

Lemma tree_okb_eq : forall n d v subs,
  tree_okb (G n d v subs) = forallb (fun x => negb (mem_chr slash (fst x))) v && subs_okb subs.
Proof. reflexivity. Qed.

Lemma pathname_is_abs : forall p n, pathname p n = abs_name p n.
Proof. intros [|a p] n; [reflexivity|apply pathname_abs; discriminate]. Qed.

Lemma pathname_inj : forall p n q m, free slash (p ++ [n]) -> free slash (q ++ [m]) ->
  pathname p n = pathname q m -> p = q /\ n = m.
Proof.
  intros p n q m Fp Fq E. rewrite !pathname_is_abs in E. unfold abs_name in E.
  apply join_inj_chr in E; try discriminate.
  - inversion E as [E']. apply app_inj_tail in E'. exact E'.
  - constructor; [reflexivity|assumption].
  - constructor; [reflexivity|assumption].
Qed.

Lemma free_snoc : forall p n, free slash p -> mem_chr slash n = false -> free slash (p ++ [n]).
Proof. intros. apply free_app; [assumption|constructor; [assumption|constructor]]. Qed.

(* every entry of the map is (absolute path, flattened name) of one element of the tree *)
Lemma var_map_entries : forall hash g p, tree_okb g = true -> free slash p ->
  forall k f, In (k, f) (var_map hash p g) ->
  exists q m, free slash (q ++ [m]) /\ k = pathname q m /\ f = flat_name hash q m.
Proof.
  intros hash g. induction g as [n d v subs IH] using group_ind'. intros p OK Fp k f I.
  rewrite tree_okb_eq in OK. apply andb_true_iff in OK as [OKv OKs].
  rewrite var_map_eq in I. apply in_app_or in I as [I|I].
  - apply in_map_iff in I as [x [E Ix]]. inversion E; subst. exists p, (fst x). splits; try reflexivity.
    rewrite forallb_forall in OKv. specialize (OKv x Ix). apply negb_true_iff in OKv.
    apply free_snoc; assumption.
  - clear OKv. induction subs as [|c r IHr]; [contradiction|].
    simpl in OKs. apply andb_true_iff in OKs as [OKs OKr]. apply andb_true_iff in OKs as [OKn OKc].
    apply negb_true_iff in OKn. inversion IH as [|? ? IHc IHrest]; subst.
    rewrite var_map_subs_cons in I. apply in_app_or in I as [I|I].
    + apply (IHc (p ++ [gname c]) OKc (free_snoc _ _ Fp OKn) k f I).
    + apply (IHr IHrest OKr I).
Qed.

Lemma var_map_subs_in : forall hash p l c e, In c l -> In e (var_map hash (p ++ [gname c]) c) ->
  In e (var_map_subs hash p l).
Proof.
  induction l as [|x l IH]; intros c e I H; [contradiction|]. rewrite var_map_subs_cons. apply in_or_app.
  destruct I as [->|I]; [left; assumption|right; apply (IH c e I H)].
Qed.

Lemma var_map_has : forall hash comps g p g' n,
  find_group g comps = Some g' -> In n (map fst (gvars g')) ->
  In (pathname (p ++ comps) n, flat_name hash (p ++ comps) n) (var_map hash p g).
Proof.
  induction comps as [|c r IH]; intros g p g' n F I; simpl in F.
  - inversion F; subst g'. rewrite app_nil_r. destruct g as [gn d v subs]. rewrite var_map_eq.
    apply in_or_app. left. simpl in I. apply in_map_iff in I as [x [<- Ix]].
    apply in_map_iff. exists x. split; [reflexivity|assumption].
  - destruct (child (gsubs g) c) as [cg|] eqn:C; [|discriminate].
    apply child_in in C as [Ic Nc]. destruct g as [gn d v subs]. rewrite var_map_eq.
    apply in_or_app. right. simpl in Ic. apply var_map_subs_in with (c := cg); [assumption|].
    rewrite Nc. specialize (IH cg (p ++ [c]) g' n F I). rewrite <- app_assoc in IH. exact IH.
Qed.

Lemma assoc_str_unique : forall k f l, In (k, f) l -> (forall f', In (k, f') l -> f' = f) ->
  assoc_str k l = Some f.
Proof.
  induction l as [|[a b] l IH]; intros I U; [contradiction|]. simpl.
  destruct (str_eqb a k) eqn:E.
  - apply str_eqb_eq in E. subst a. f_equal. apply U. left. reflexivity.
  - apply IH.
    + destruct I as [I|I]; [|assumption]. inversion I; subst. rewrite str_eqb_refl in E. discriminate.
    + intros f' I'. apply U. right. assumption.
Qed.

Lemma mem_str_in : forall x l, mem_str x l = true <-> In x l.
Proof.
  induction l as [|y l IH]; simpl; [split; [discriminate|contradiction]|].
  rewrite orb_true_iff, str_eqb_eq, IH. split; intros [H|H]; auto.
Qed.

(* the renaming pass maps the absolute path of an element to its flattened name *)
Lemma assoc_var_map : forall hash root p n g,
  tree_okb root = true -> find_group root p = Some g -> mem_str n (map fst (gvars g)) = true ->
  free slash (p ++ [n]) ->
  assoc_str (pathname p n) (var_map hash [] root) = Some (flat_name hash p n).
Proof.
  intros hash root p n g OK F M Fr. apply mem_str_in in M.
  apply assoc_str_unique.
  - apply (var_map_has hash p root [] g n F M).
  - intros f' I. destruct (var_map_entries hash root [] OK ltac:(constructor) _ _ I) as [q [m [Fq [E ->]]]].
    apply pathname_inj in E as [-> ->]; [reflexivity|assumption|assumption].
Qed.

(* ------------------------------------------------------------------ the meaning theorem *)
(* no group from the referring group up to (not including) the root holds a variable of that
   name - nor, when the search stops at the local apex, a dimension of that name *)
Definition unshadowed (root : group) (isc : bool) (rp : list str) (n : str) : Prop :=
  forall j, j < length rp ->
    exists g, find_group root (rev (skipn j rp)) = Some g /\ has_elt false g n = false /\
              (isc = true -> mem_str n (gdims g) = false).

Lemma prox_to_root : forall root n isc rp apex,
  (isc = true -> apex = false) -> has_elt false root n = true -> unshadowed root isc rp n ->
  prox_gen true root false n rp apex isc = Some [].
Proof.
  induction rp as [|x rp IH]; intros apex A H U.
  - cbn [prox_gen rev find_group]. rewrite H. reflexivity.
  - destruct (U 0 ltac:(simpl; lia)) as [g [F [E D]]]. simpl skipn in F.
    cbn [prox_gen]. rewrite F, E.
    assert (U' : unshadowed root isc rp n).
    { intros j Lj. destruct (U (S j) ltac:(simpl; lia)) as [g' X]. exists g'. exact X. }
    destruct isc.
    + rewrite (A eq_refl), (D eq_refl). simpl. apply IH; [reflexivity|assumption|assumption].
    + simpl. apply IH; [discriminate|assumption|assumption].
Qed.

(* a rule for references to variables (all but cell_methods, tie_point_mapping and the
   dimension rules of the table) *)
Definition var_rule (rl : rules) : Prop := r_dim rl = 0 /\ 0 < r_var rl /\ r_scalar rl = false.

Lemma resolve_writer_ref : forall root rl strict rp coords p n g,
  var_rule rl -> find_group root p = Some g -> mem_str n (map fst (gvars g)) = true ->
  mem_chr slash n = false ->
  (p = [] -> unshadowed root (r_apex rl) rp n) ->
  resolve_gen true root rl strict rp coords (name_of p n) = RStr (pathname p n).
Proof.
  intros root rl strict rp coords p n g [Rd [Rv Rs]] F M Fn U.
  destruct p as [|a p].
  - simpl name_of. simpl in F. inversion F; subst g.
    unfold resolve_gen. rewrite Rd, Rs.
    assert (S0 : starts_with [slash] n = false).
    { destruct n as [|c n]; [reflexivity|]. simpl. simpl in Fn. apply orb_false_iff in Fn as [Fc _].
      rewrite Fc. reflexivity. }
    rewrite S0, Fn.
    assert (L : r_var rl <? 0 = false) by (apply Nat.ltb_ge; lia). rewrite L.
    rewrite (prox_to_root root n (r_apex rl) rp false (fun _ => eq_refl) M (U eq_refl)).
    reflexivity.
  - unfold name_of. rewrite pathname_is_abs. destruct (abs_name_shape a p n) as [pre E]. rewrite E.
    apply resolve_absolute.
Qed.

(* ---- the names actually used: clashing names get a counter, the keys are untouched ---- *)
Lemma dedup_from_keys : forall l used, map fst (dedup_from used l) = map fst l.
Proof. induction l as [|[k f] r IH]; intros used; simpl; [reflexivity|rewrite IH; reflexivity]. Qed.

Lemma assoc_str_in_keys : forall k l, In k (map fst l) -> exists f, assoc_str k l = Some f /\ In (k, f) l.
Proof.
  induction l as [|[a b] l IH]; intros I; [contradiction|]. simpl.
  destruct (str_eqb a k) eqn:E.
  - apply str_eqb_eq in E. subst a. exists b. split; [reflexivity|left; reflexivity].
  - destruct I as [I|I]; [simpl in I; subst a; rewrite str_eqb_refl in E; discriminate|].
    destruct (IH I) as [f [A B]]. exists f. split; [assumption|right; assumption].
Qed.

Lemma uniq_unused : forall used name, mem_str name used = false -> uniq used name = name.
Proof. intros used name H. unfold uniq. rewrite H. reflexivity. Qed.

(* when no two elements are given the same name, nothing is renamed *)
Lemma dedup_from_id : forall l used, NoDup (map snd l ++ used) -> dedup_from used l = l.
Proof.
  induction l as [|[k f] r IH]; intros used ND; [reflexivity|]. simpl in *.
  inversion ND as [|? ? NI ND']; subst.
  assert (M : mem_str f used = false).
  { destruct (mem_str f used) eqn:E; [|reflexivity]. apply mem_str_in in E. exfalso. apply NI.
    apply in_or_app. right. assumption. }
  rewrite (uniq_unused _ _ M). f_equal. apply IH.
  apply (NoDup_Add (Add_app f (map snd r) used)). split; assumption.
Qed.

Lemma dedup_id : forall l, NoDup (map snd l) -> dedup l = l.
Proof. intros l ND. apply dedup_from_id. rewrite app_nil_r. assumption. Qed.

Lemma adapt_writer_ref : forall hash root rl strict p n g,
  var_rule rl -> find_group root p = Some g ->
  mem_str n (map fst (gvars g)) = true ->
  substrb not_found (pathname p n) = false ->
  exists f, adapt hash root rl strict (pathname p n) = RStr f /\ In (pathname p n, f) (var_map_u hash root).
Proof.
  intros hash root rl strict p n g [Rd [Rv Rs]] F M NF. unfold adapt. rewrite NF, Rd.
  assert (L1 : r_var rl <? 0 = false) by (apply Nat.ltb_ge; lia).
  assert (L2 : 0 <? r_var rl = true) by (apply Nat.ltb_lt; lia).
  rewrite L1, L2. apply mem_str_in in M.
  assert (K : In (pathname p n) (map fst (var_map_u hash root))).
  { unfold var_map_u, dedup. rewrite dedup_from_keys.
    apply in_map_iff. exists (pathname p n, flat_name hash p n). split; [reflexivity|].
    apply (var_map_has hash p root [] g n F M). }
  destruct (assoc_str_in_keys _ _ K) as [f [A I]]. exists f. rewrite A. split; [reflexivity|assumption].
Qed.

(* MEANING.  Let (p, n) be a variable of a grouped dataset and [name_of p n] the name cfdm
   records for it and the writer emits as a reference to it ("/g1/../gk/n", or the bare "n" in
   the root group).  From any referring group, under any variable-reference rule:
   - grouped file: the flattener resolves and renames that reference (strict or not, never an
     exception) to the name [f] under which the mapping attribute records exactly "/p/n" -
     the proposed flattened name of (p, n) itself when no two elements clash ...
   - ... from which entry the reader recovers the group path, the basename and, as the
     recorded name, the very name the writer was given (whatever [f] is);
   - flat file: with group=False the same recorded name is reduced to the basename and placed
     in the root group, where the reference is the name itself;
   - and the recorded name written again with group=True goes back into group p.
   Exact guard, for a root-group target only: [unshadowed] (see the refuted statement). *)
Lemma meaning : forall hash root rl strict rp coords p n g,
  var_rule rl ->
  find_group root p = Some g -> mem_str n (map fst (gvars g)) = true ->
  free slash (p ++ [n]) -> n <> [] ->
  substrb not_found (pathname p n) = false ->
  (p = [] -> unshadowed root (r_apex rl) rp n) ->
  (exists f,
     flatten_ref hash root rl strict rp coords (name_of p n) = RStr f /\
     In (pathname p n, f) (var_map_u hash root) /\
     (tree_okb root = true -> NoDup (map snd (var_map hash [] root)) -> f = flat_name hash p n) /\
     forall x, p <> [] \/ x = n -> unflatten_var x (pathname p n) = (p, name_of p n, n)) /\
  remove_group_structure (name_of p n) = n /\
  parent_group_path false (name_of p n) = Some [] /\
  parent_group_path true (name_of p n) = Some p.
Proof.
  intros hash root rl strict rp coords p n g VR F M Fr NE NF U.
  assert (Fp : free slash p /\ mem_chr slash n = false).
  { unfold free in *. apply Forall_app in Fr as [F1 F2]. inversion F2; subst. split; assumption. }
  destruct Fp as [Fp Fn]. splits.
  - destruct (adapt_writer_ref hash root rl strict p n g VR F M NF) as [f [A I]].
    exists f. splits.
    + unfold flatten_ref, flatten_ref_gen.
      rewrite (resolve_writer_ref root rl strict rp coords p n g VR F M Fn U). exact A.
    + exact I.
    + intros OK ND. unfold var_map_u in I. rewrite (dedup_id _ ND) in I.
      destruct (var_map_entries hash root [] OK ltac:(constructor) _ _ I) as [q [m [Fq [E ->]]]].
      apply pathname_inj in E as [-> ->]; [reflexivity|assumption|assumption].
    + intros x Hx. rewrite (unflatten_var_spec x p n Fr). unfold name_of.
      destruct p as [|a p]; [|rewrite pathname_is_abs; reflexivity].
      destruct Hx as [Hx|Hx]; [contradiction|subst; reflexivity].
  - destruct (groups_roundtrip p [] n Fp ltac:(constructor) Fn NE) as [name' [_ [_ [R [_ E]]]]].
    unfold name_of. rewrite <- E. exact R.
  - reflexivity.
  - destruct (groups_roundtrip p [] n Fp ltac:(constructor) Fn NE) as [name' [_ [_ [_ [P E]]]]].
    unfold name_of. rewrite <- E. exact P.
Qed.

(* Without the guard (new finding, variable-shadowed): root variable aux, variable /g1/aux, data
   variable in /g1/g2 with coordinates="aux /g1/aux": the bare name written for the root
   variable is captured by the nearer /g1/aux. *)
Definition shadow_tree : group :=
  G [] [s "dim"] [(s "aux", 1)]
    [G (s "g1") [] [(s "aux", 1)] [G (s "g2") [] [(s "ta", 1)] []]].

Lemma meaning_shadowed : exists rl,
  var_rule rl /\ lookup_rules "coordinates" flattening_rules_table = Some rl /\
  tree_okb shadow_tree = true /\ mem_str (s "aux") (map fst (gvars shadow_tree)) = true /\
  flatten_ref (fun x => x) shadow_tree rl false [s "g2"; s "g1"] None (name_of [] (s "aux"))
    = RStr (flat_name (fun x => x) [s "g1"] (s "aux")).
Proof.
  eexists. splits; [| vm_compute; reflexivity | reflexivity | reflexivity | vm_compute; reflexivity].
  unfold var_rule. simpl. splits; [reflexivity|lia|reflexivity].
Qed.

Example meaning_nonvacuous :
  exists rl, lookup_rules "coordinates" flattening_rules_table = Some rl /\ var_rule rl /\
  tree_okb ex_tree = true /\ find_group ex_tree [] = Some ex_tree /\
  mem_str (s "x") (map fst (gvars ex_tree)) = true /\
  substrb not_found (pathname [] (s "x")) = false /\
  unshadowed ex_tree (r_apex rl) [s "g"] (s "x").
Proof.
  eexists. splits; [vm_compute; reflexivity| | reflexivity | reflexivity | reflexivity | reflexivity |].
  - unfold var_rule. simpl. splits; [reflexivity|lia|reflexivity].
  - intros j Lj. simpl in Lj. assert (j = 0) by lia. subst j.
    eexists. splits; [vm_compute; reflexivity|reflexivity|reflexivity].
Qed.

(* ------------------------------------------------------------------ lateral search: when nothing is found *)
(* The search for a coordinate variable reports nothing only if nothing is there to be found:
   either no group from the referring group up to the root holds the name or is a local apex,
   or the local apex was reached and no group anywhere below it holds the name (the descent is
   exhaustive: its fuel never runs out). *)
Lemma prox_lateral_none : forall root sd ref rp,
  find_group root (rev rp) <> None ->
  prox root sd ref rp false true = None ->
  (forall j, ~ holds root sd ref (skipn j rp) /\ ~ apexdim root ref (skipn j rp))
  \/
  (exists k g, find_group root (rev (skipn k rp)) = Some g /\ mem_str ref (gdims g) = true /\
     (forall j, j <= k -> ~ holds root sd ref (skipn j rp)) /\
     (forall j, j < k -> ~ apexdim root ref (skipn j rp)) /\
     forall comps g', comps <> [] -> find_group g comps = Some g' -> has_elt sd g' ref = false).
Proof.
  unfold prox. induction rp as [|x rp IH]; intros EX H.
  - cbn [prox_gen rev find_group] in H. destruct (has_elt sd root ref) eqn:E; [discriminate|].
    destruct (mem_str ref (gdims root)) eqn:M; simpl in H.
    + right. exists 0, root. splits; try reflexivity; try assumption; try (intros; lia).
      * intros j _ [g' [F' E']]. rewrite skipn_nil in F'. simpl in F'. inversion F'; subst. congruence.
      * apply (lateral_complete root [] root sd ref eq_refl H).
    + left. intros j. rewrite skipn_nil. split.
      * intros [g' [F' E']]. simpl in F'. inversion F'; subst. congruence.
      * intros [g' [F' E']]. simpl in F'. inversion F'; subst. congruence.
  - cbn [prox_gen] in H. destruct (find_group root (rev (x :: rp))) as [g|] eqn:F; [|contradiction].
    destruct (has_elt sd g ref) eqn:E; [discriminate|].
    assert (N0 : ~ holds root sd ref (x :: rp)).
    { intros [g' [F' E']]. rewrite F in F'. inversion F'; subst. congruence. }
    destruct (mem_str ref (gdims g)) eqn:M; simpl in H.
    + right. exists 0, g. splits; try assumption; try (intros; lia).
      * intros j Lj. assert (j = 0) by lia. subst. exact N0.
      * apply (lateral_complete root (rev (x :: rp)) g sd ref F H).
    + assert (A0 : ~ apexdim root ref (x :: rp)).
      { intros [g' [F' E']]. rewrite F in F'. inversion F'; subst. congruence. }
      assert (EX' : find_group root (rev rp) <> None).
      { apply (ancestors_exist root (x :: rp) 1). rewrite F. discriminate. }
      destruct (IH EX' H) as [A|[k [g1 [F1 [M1 [Hh [Ha B]]]]]]].
      * left. intros j. destruct j as [|j]; [split; assumption|apply (A j)].
      * right. exists (S k), g1. splits; try assumption.
        -- intros j Lj. destruct j as [|j]; [assumption|]. apply Hh. lia.
        -- intros j Lj. destruct j as [|j]; [assumption|]. apply Ha. lia.
Qed.

(* ------------------------------------------------------------------ the writer refuses hidden dimensions *)
(* The repaired check is exact: walking up from the variable's group (at gd ++ rev rr) to the
   dimension's group gd it finds no dimension of that name if and only if netCDF binds the
   basename to the dimension of gd. *)
Lemma no_hiding_exact : forall root gd n g0 rr,
  find_group root gd = Some g0 -> mem_str n (gdims g0) = true ->
  find_group root (rev (rr ++ rev gd)) <> None ->
  (no_hiding root (rr ++ rev gd) (length rr) n = true <-> nc_lookup_dim root (rr ++ rev gd) n = Some gd).
Proof.
  induction rr as [|x rr IH]; intros F M EX.
  - simpl app. simpl length. cbn [no_hiding]. split; [intros _|reflexivity].
    rewrite <- (rev_involutive gd) at 2. apply nc_lookup_here with g0; [|assumption].
    rewrite rev_involutive. assumption.
  - change ((x :: rr) ++ rev gd) with (x :: (rr ++ rev gd)) in *.
    destruct (find_group root (rev (x :: rr ++ rev gd))) as [g|] eqn:Fg; [|contradiction].
    assert (EX' : find_group root (rev (rr ++ rev gd)) <> None).
    { apply (ancestors_exist root (x :: rr ++ rev gd) 1). rewrite Fg. discriminate. }
    simpl length. cbn [no_hiding]. rewrite Fg. simpl tl.
    destruct (mem_str n (gdims g)) eqn:Mg.
    + cbn [negb andb]. split; [discriminate|]. intros H.
      rewrite (nc_lookup_here root (x :: rr ++ rev gd) n g Fg Mg) in H. inversion H as [E].
      apply (f_equal (@length str)) in E. simpl in E.
      rewrite !app_length, !rev_length, app_length, rev_length in E. simpl in E. lia.
    + cbn [negb andb]. rewrite (nc_lookup_step root x (rr ++ rev gd) n g Fg Mg). apply IH; assumption.
Qed.

(* the witness of F11f is now refused *)
Example hidden_dimension_refused :
  let root := G [] [s "x"] [] [G (s "a") [s "x"] [] []] in
  dims_visible true (s "/a/b/ta") [s "x"; s "/a/x"] = true /\
  writer_accepts root true (s "/a/b/ta") [s "x"; s "/a/x"] = false /\
  writer_accepts root true (s "/a/ta") [s "/a/x"] = true /\
  writer_accepts (G [] [s "x"; s "y"] [] [G (s "a") [s "x"] [] []]) true (s "/a/b/ta") [s "y"; s "/a/x"] = true.
Proof. intros root. splits; reflexivity. Qed.

(* ------------------------------------------------------------------ the names in the flattened file are distinct *)
Lemma to_uint_nonnil : forall n, Nat.to_uint n <> Decimal.Nil.
Proof.
  intros n H. pose proof (Unsigned.to_of (Nat.to_uint n)) as T. rewrite Unsigned.of_to in T.
  rewrite T in H. apply (unorm_nonnil _ H).
Qed.

Lemma dec_inj : forall a b, dec a = dec b -> a = b.
Proof.
  intros a b E. unfold dec in E. apply (f_equal string_of_list_ascii) in E.
  rewrite !string_of_list_ascii_of_string in E. apply (f_equal NilZero.uint_of_string) in E.
  rewrite !NilZero.usu in E by apply to_uint_nonnil. inversion E as [E'].
  apply Unsigned.to_uint_inj. exact E'.
Qed.

Definition cand (name : str) (m : nat) : str := name ++ [("_")%char] ++ dec m.

Lemma cand_inj : forall name, Injective (cand name).
Proof. intros name a b E. unfold cand in E. apply app_inv_head in E. apply app_inv_head in E. apply dec_inj. exact E. Qed.

Lemma uniq_from_spec : forall used name fuel n,
  exists m, uniq_from fuel n used name = cand name m /\ n <= m <= n + fuel /\
    (forall j, n <= j < m -> In (cand name j) used) /\
    (m < n + fuel -> ~ In (cand name m) used).
Proof.
  intros used name. induction fuel as [|f IH]; intros n.
  - exists n. simpl. splits; [reflexivity|lia|lia|intros; lia|intros; lia].
  - cbn [uniq_from]. fold (cand name n). destruct (mem_str (cand name n) used) eqn:M.
    + destruct (IH (S n)) as [m [E [R [A B]]]]. exists m. splits; [assumption|lia|lia| |intros; apply B; lia].
      intros j Hj. destruct (Nat.eq_dec j n) as [->|Nj]; [apply mem_str_in; assumption|apply A; lia].
    + exists n. splits; [reflexivity|lia|lia|intros; lia|].
      intros _ I. apply mem_str_in in I. congruence.
Qed.

(* pigeonhole: k different candidates can not all be among fewer than k names *)
Lemma cands_bounded : forall used name n k,
  (forall j, n <= j < n + k -> In (cand name j) used) -> k <= length used.
Proof.
  intros used name n k H.
  assert (ND : NoDup (map (cand name) (seq n k))).
  { apply Injective_map_NoDup; [apply cand_inj|apply seq_NoDup]. }
  assert (IN : incl (map (cand name) (seq n k)) used).
  { intros x I. apply in_map_iff in I as [j [<- Ij]]. apply in_seq in Ij. apply H. lia. }
  pose proof (NoDup_incl_length ND IN) as L. rewrite map_length, seq_length in L. exact L.
Qed.

(* unique_flattened_name always returns a name that is not in use: the search for a free
   counter cannot run out (the out-of-fuel value of the model is itself a free name) *)
Lemma uniq_fresh : forall used name, ~ In (uniq used name) used.
Proof.
  intros used name. unfold uniq. destruct (mem_str name used) eqn:M.
  - destruct (uniq_from_spec used name (length used) 1) as [m [E [R [A B]]]]. rewrite E.
    destruct (Nat.lt_ge_cases m (1 + length used)) as [L|L]; [apply B; assumption|].
    intros I. assert (m = 1 + length used) by lia. subst m.
    assert (K : S (length used) <= length used).
    { apply (cands_bounded used name 1 (S (length used))). intros j Hj.
      destruct (Nat.eq_dec j (1 + length used)) as [->|Nj]; [assumption|apply A; lia]. }
    lia.
  - intros I. apply mem_str_in in I. congruence.
Qed.

Lemma dedup_from_distinct : forall l used,
  NoDup (map snd (dedup_from used l)) /\
  forall x, In x (map snd (dedup_from used l)) -> ~ In x used.
Proof.
  induction l as [|[k f] r IH]; intros used; [split; [constructor|intros x []]|].
  cbn [dedup_from map snd]. destruct (IH (uniq used f :: used)) as [ND DJ]. split.
  - constructor; [|assumption]. intros I. apply (DJ _ I). left. reflexivity.
  - intros x [<-|I]; [apply uniq_fresh|]. intros Iu. apply (DJ _ I). right. assumption.
Qed.

(* FLATTENED NAMES ARE DISTINCT, whatever the names in the grouped dataset: every variable
   (dimension) of the flattened dataset has a name of its own, the mapping attribute has one
   entry per element, and so it can be inverted *)
Lemma flat_names_distinct : forall hash root,
  NoDup (map snd (var_map_u hash root)) /\ NoDup (map snd (dim_map_u hash root)) /\
  map fst (var_map_u hash root) = map fst (var_map hash [] root) /\
  map fst (dim_map_u hash root) = map fst (dim_map hash [] root).
Proof.
  intros. unfold var_map_u, dim_map_u, dedup. splits;
    try apply (proj1 (dedup_from_distinct _ [])); apply dedup_from_keys.
Qed.

(* the collision of F11b is resolved by a counter *)
Example flat_names_distinct_witness :
  var_map_u (fun x => x) (G [] [s "x"] [(s "a__b", 1)] [G (s "a") [] [(s "b", 1)] []]) =
    [(s "/a__b", s "a__b"); (s "/a/b", s "a__b_1")].
Proof. vm_compute. reflexivity. Qed.

(* ------------------------------------------------------------------ packaged statements for Props.v *)
Lemma lateral_fuel_and_complete : forall root p g sd ref,
  find_group root p = Some g ->
  (forall extra, bfs (height root + extra) sd ref (next_level [(p, g)]) =
                 bfs (height root) sd ref (next_level [(p, g)])) /\
  (bfs (height root) sd ref (next_level [(p, g)]) = None ->
   forall comps g', comps <> [] -> find_group g comps = Some g' -> has_elt sd g' ref = false).
Proof.
  intros root p g sd ref F. split.
  - intros extra. exact (lateral_fuel root p g sd ref extra F).
  - exact (lateral_complete root p g sd ref F).
Qed.

Lemma digest_hypotheses_satisfiable :
  (forall a b, enc a = enc b -> a = b) /\ (forall a, good (enc a)).
Proof. split; [exact enc_inj|exact enc_good]. Qed.

(* ------------------------------------------------------------------ a whole attribute: position by position *)
(* (since 8d03027) the flattened attribute has exactly the items and words of the original, each
   the resolution of the one at the same position; nothing is merged, dropped or reordered *)
Definition item_rel (rl : rules) (f : str -> rres) (x y : str * option (list str)) : Prop :=
  (if r_key rl then f (fst x) = RStr (fst y) else fst y = fst x) /\
  match snd x, snd y with
  | None, None => True
  | Some vs, Some ws => if r_val rl then Forall2 (fun v w => f v = RStr w) vs ws else ws = vs
  | _, _ => False
  end.

Lemma map_res_spec : forall f l t, map_res f l = Some t <-> Forall2 (fun v w => f v = RStr w) l t.
Proof.
  intros f. induction l as [|x l IH]; intros t; simpl.
  - split; [intros H; inversion H; constructor|intros H; inversion H; reflexivity].
  - destruct (f x) as [y|] eqn:E.
    + destruct (map_res f l) as [t'|] eqn:M.
      * split.
        -- intros H. inversion H; subst. constructor; [assumption|apply IH; reflexivity].
        -- intros H. inversion H as [|? w ? t'' Hx Hl]; subst. rewrite E in Hx. inversion Hx; subst.
           apply IH in Hl. inversion Hl; subst. reflexivity.
      * split; [discriminate|]. intros H. inversion H as [|? w ? t'' Hx Hl]; subst.
        apply IH in Hl. discriminate.
    + split; [discriminate|]. intros H. inversion H as [|? w ? t'' Hx Hl]; subst. rewrite E in Hx. discriminate.
Qed.

Lemma map_attr_spec : forall rl f a b, map_attr rl f a = Some b <-> Forall2 (item_rel rl f) a b.
Proof.
  intros rl f. induction a as [|[k v] a IH]; intros b.
  - simpl. split; [intros H; inversion H; constructor|intros H; inversion H; reflexivity].
  - cbn [map_attr]. split.
    + intros H.
      destruct (if r_key rl then f k else RStr k) as [k'|] eqn:K; [|discriminate].
      assert (HK : if r_key rl then f k = RStr k' else k' = k).
      { destruct (r_key rl); [assumption|inversion K; reflexivity]. }
      destruct v as [vs|].
      * destruct (r_val rl) eqn:RV.
        -- destruct (map_res f vs) as [vs'|] eqn:M; [|discriminate].
           destruct (map_attr rl f a) as [t|] eqn:T; [|discriminate]. inversion H; subst.
           constructor; [|apply IH; reflexivity]. split; [exact HK|]. simpl. rewrite RV. apply map_res_spec. assumption.
        -- destruct (map_attr rl f a) as [t|] eqn:T; [|discriminate]. inversion H; subst.
           constructor; [|apply IH; reflexivity]. split; [exact HK|]. simpl. rewrite RV. reflexivity.
      * destruct (map_attr rl f a) as [t|] eqn:T; [|discriminate]. inversion H; subst.
        constructor; [|apply IH; reflexivity]. split; [exact HK|exact I].
    + intros H. inversion H as [|? [k' w] ? t [HK HV] Hl]; subst. simpl in HK, HV.
      apply IH in Hl. rewrite Hl.
      assert (K : (if r_key rl then f k else RStr k) = RStr k').
      { destruct (r_key rl); [assumption|subst; reflexivity]. }
      rewrite K. destruct v as [vs|]; destruct w as [ws|]; try contradiction; [|reflexivity].
      destruct (r_val rl).
      * apply map_res_spec in HV. rewrite HV. reflexivity.
      * subst. reflexivity.
Qed.

(* the words of an attribute in order, each tagged "is a name before a colon / a list item" *)
Definition words (a : pattr) : list (bool * str) :=
  flat_map (fun kv => (true, fst kv) :: map (pair false) (match snd kv with Some vs => vs | None => [] end)) a.

Definition word_rel (rl : rules) (f : str -> rres) (x y : bool * str) : Prop :=
  fst y = fst x /\
  (if (if fst x then r_key rl else r_val rl) then f (snd x) = RStr (snd y) else snd y = snd x).

Lemma items_words : forall rl f a b, Forall2 (item_rel rl f) a b -> Forall2 (word_rel rl f) (words a) (words b).
Proof.
  intros rl f a b H. induction H as [|[k v] [k' w] a b [HK HV] Hl IH]; [constructor|].
  simpl in HK, HV. cbn [words flat_map fst snd]. fold (words a). fold (words b).
  constructor; [split; [reflexivity|exact HK]|]. apply Forall2_app; [|exact IH].
  destruct v as [vs|]; destruct w as [ws|]; try contradiction; [|constructor].
  destruct (r_val rl) eqn:RV.
  - induction HV; simpl; constructor; [split; [reflexivity|simpl; rewrite RV; assumption]|assumption].
  - subst. induction vs; simpl; constructor; [split; [reflexivity|simpl; rewrite RV; reflexivity]|assumption].
Qed.

Lemma Forall2_compose {A B C} : forall (R1 : A -> B -> Prop) (R2 : B -> C -> Prop) (R : A -> C -> Prop),
  (forall x y z, R1 x y -> R2 y z -> R x z) ->
  forall a b c, Forall2 R1 a b -> Forall2 R2 b c -> Forall2 R a c.
Proof.
  intros R1 R2 R HR a b c H1. revert c. induction H1; intros c H2; inversion H2; subst; constructor; eauto.
Qed.

Lemma item_rel_compose : forall rl (f1 f2 : str -> rres) x y z,
  item_rel rl f1 x y -> item_rel rl f2 y z ->
  item_rel rl (fun w => match f1 w with RExc => RExc | RStr m => f2 m end) x z.
Proof.
  intros rl f1 f2 [k v] [k1 v1] [k2 v2] [K1 V1] [K2 V2]. simpl in *. split; simpl.
  - destruct (r_key rl); [rewrite K1; exact K2|congruence].
  - destruct v as [vs|]; destruct v1 as [ms|]; destruct v2 as [ws|]; try contradiction; [|exact I].
    destruct (r_val rl); [|congruence].
    apply (Forall2_compose (fun v w => f1 v = RStr w) (fun v w => f2 v = RStr w)) with (b := ms); try assumption.
    intros a b c H1 H2. rewrite H1. exact H2.
Qed.

Lemma Forall2_len {A B} : forall (R : A -> B -> Prop) a b, Forall2 R a b -> length a = length b.
Proof. intros R a b H. induction H; simpl; [reflexivity|f_equal; assumption]. Qed.

(* the two passes of the flattener over one attribute *)
Lemma flatten_attr_positional : forall hash root rl strict rp coords a out,
  flatten_attr hash root rl strict rp coords a = Some out ->
  exists b, out = attr_str b /\
    Forall2 (item_rel rl (flatten_ref hash root rl strict rp coords)) a b /\
    Forall2 (word_rel rl (flatten_ref hash root rl strict rp coords)) (words a) (words b) /\
    length b = length a /\ length (words b) = length (words a).
Proof.
  intros hash root rl strict rp coords a out H. unfold flatten_attr, flatten_attr_gen in H.
  destruct (map_attr rl (resolve_gen true root rl strict rp coords) a) as [a1|] eqn:M1; [|discriminate].
  destruct (map_attr rl (adapt hash root rl strict) a1) as [a2|] eqn:M2; [|discriminate].
  inversion H; subst. apply map_attr_spec in M1, M2.
  assert (F : Forall2 (item_rel rl (flatten_ref hash root rl strict rp coords)) a a2).
  { apply (Forall2_compose _ _ _ (item_rel_compose rl _ _) _ _ _ M1 M2). }
  exists a2. splits; [reflexivity|exact F|apply items_words; exact F| |].
  - symmetry. apply (Forall2_len _ _ _ F).
  - symmetry. apply (Forall2_len _ _ _ (items_words _ _ _ _ F)).
Qed.

(* the dict version lost an occurrence: cell methods over an axis named twice, and two spellings
   of one target *)
Definition pos_tree : group :=
  G [] [s "x"; s "y"] [(s "x", 1); (s "y", 1)]
    [G (s "m") [] [(s "q1", 0)] [G (s "k") [] [(s "q0", 0)] []]].

Lemma dict_version_loses_occurrences : exists rl1 rl2,
  lookup_rules "cell_methods" flattening_rules_table = Some rl1 /\
  lookup_rules "geometry" flattening_rules_table = Some rl2 /\
  (* "x: y: maximum y: x: mean" *)
  flatten_attr (fun x => x) pos_tree rl1 false [s "k"; s "m"] None
     [(s "x", Some []); (s "y", Some [s "maximum"]); (s "y", Some []); (s "x", Some [s "mean"])]
     = Some (s "x: y: maximum y: x: mean") /\
  flatten_attr_dict (fun x => x) pos_tree rl1 false [s "k"; s "m"] None
     [(s "x", Some []); (s "y", Some [s "maximum"]); (s "y", Some []); (s "x", Some [s "mean"])]
     = Some (s "x: mean y:") /\
  (* "../q1 /m/q1": one variable named relatively and absolutely *)
  flatten_attr (fun x => x) pos_tree rl2 false [s "k"; s "m"] None [(s "../q1", None); (s "/m/q1", None)]
     = Some (s "m__q1 m__q1") /\
  flatten_attr_dict (fun x => x) pos_tree rl2 false [s "k"; s "m"] None [(s "../q1", None); (s "/m/q1", None)]
     = Some (s "m__q1").
Proof. eexists. eexists. splits; vm_compute; reflexivity. Qed.

(* ====================================================================== third pass *)
Lemma str_eqb_sym : forall a b, str_eqb a b = str_eqb b a.
Proof.
  intros a b. destruct (str_eqb a b) eqn:E.
  - apply str_eqb_eq in E. subst. symmetry. apply str_eqb_refl.
  - destruct (str_eqb b a) eqn:E2; [|reflexivity]. apply str_eqb_eq in E2. subst. rewrite str_eqb_refl in E. discriminate.
Qed.

Lemma attr_get_set : forall k k' v d,
  assoc_str k (attr_set k' v d) = if str_eqb k' k then Some v else assoc_str k d.
Proof.
  induction d as [|[a b] d IH]; simpl.
  - destruct (str_eqb k' k); reflexivity.
  - destruct (str_eqb a k') eqn:E1.
    + apply str_eqb_eq in E1. subst a. simpl. destruct (str_eqb k' k); reflexivity.
    + simpl. destruct (str_eqb a k) eqn:E2.
      * apply str_eqb_eq in E2. subst a. rewrite str_eqb_sym, E1. reflexivity.
      * exact IH.
Qed.

Lemma assoc_str_notin : forall k (e : attrs), ~ In k (map fst e) -> assoc_str k e = None.
Proof.
  induction e as [|[a b] e IH]; intros N; [reflexivity|]. simpl.
  destruct (str_eqb a k) eqn:E.
  - apply str_eqb_eq in E. subst. exfalso. apply N. left. reflexivity.
  - apply IH. intro I. apply N. right. assumption.
Qed.

Lemma update_get : forall k e d, NoDup (map fst e) ->
  assoc_str k (dict_update d e) = match assoc_str k e with Some x => Some x | None => assoc_str k d end.
Proof.
  unfold dict_update. induction e as [|[a b] e IH]; intros d ND; [reflexivity|].
  simpl in *. inversion ND as [|? ? NI ND']; subst. rewrite (IH _ ND'). rewrite attr_get_set.
  destruct (str_eqb a k) eqn:E.
  - apply str_eqb_eq in E. subst a. rewrite (assoc_str_notin k e NI). reflexivity.
  - reflexivity.
Qed.

Lemma attr_set_keys : forall k v d, NoDup (map fst d) -> NoDup (map fst (attr_set k v d)) /\
  forall x, In x (map fst (attr_set k v d)) -> x = k \/ In x (map fst d).
Proof.
  induction d as [|[a b] d IH]; intros ND; simpl.
  - split; [constructor; [intros []|constructor]|intros x [<-|[]]; left; reflexivity].
  - inversion ND as [|? ? NI ND']; subst. destruct (str_eqb a k) eqn:E.
    + apply str_eqb_eq in E. subst a. simpl. split; [exact ND|]. intros x H. right. exact H.
    + destruct (IH ND') as [N2 S2]. simpl. split.
      * constructor; [|assumption]. intros I. destruct (S2 _ I) as [->|I'];
          [rewrite str_eqb_refl in E; discriminate|contradiction].
      * intros x [<-|I]; [right; left; reflexivity|]. destruct (S2 _ I) as [->|I']; [left; reflexivity|right; right; assumption].
Qed.

Lemma update_keys : forall e d, NoDup (map fst d) -> NoDup (map fst (dict_update d e)).
Proof.
  unfold dict_update. induction e as [|[a b] e IH]; intros d ND; [assumption|]. simpl.
  apply IH. apply (proj1 (attr_set_keys a b d ND)).
Qed.

Definition wf_fa (fa : list (list str * attrs)) : Prop := Forall (fun pe => NoDup (map fst (snd pe))) fa.

Lemma gattr_lookup_wf : forall fa p e, wf_fa fa -> gattr_lookup p fa = Some e -> NoDup (map fst e).
Proof.
  induction fa as [|[q e'] fa IH]; intros p e W H; simpl in H; [discriminate|].
  inversion W; subst. destruct (list_eqb str_eqb q p); [inversion H; subst; assumption|eapply IH; eassumption].
Qed.

(* the attribute of that name in the nearest group at or above groups = pre ++ rest, below pre *)
Fixpoint nearest_group_attr (fa : list (list str * attrs)) (pre rest : list str) (k : str) : option str :=
  match rest with
  | [] => None
  | g :: r =>
      match nearest_group_attr fa (pre ++ [g]) r k with
      | Some x => Some x
      | None => match gattr_lookup (pre ++ [g]) fa with Some e => assoc_str k e | None => None end
      end
  end.

Lemma group_attrs_down_get : forall fa k rest pre acc, wf_fa fa ->
  assoc_str k (group_attrs_down fa pre rest acc) =
    match nearest_group_attr fa pre rest k with Some x => Some x | None => assoc_str k acc end.
Proof.
  intros fa k. induction rest as [|g r IH]; intros pre acc W; [reflexivity|].
  cbn [group_attrs_down nearest_group_attr]. rewrite (IH _ _ W).
  destruct (nearest_group_attr fa (pre ++ [g]) r k); [reflexivity|].
  destruct (gattr_lookup (pre ++ [g]) fa) as [e|] eqn:L; [|reflexivity].
  rewrite (update_get k e acc (gattr_lookup_wf fa _ e W L)). reflexivity.
Qed.

Lemma group_attrs_down_keys : forall fa rest pre acc, NoDup (map fst acc) ->
  NoDup (map fst (group_attrs_down fa pre rest acc)).
Proof.
  induction rest as [|g r IH]; intros pre acc ND; [assumption|]. cbn [group_attrs_down].
  apply IH. destruct (gattr_lookup (pre ++ [g]) fa); [apply update_keys|]; assumption.
Qed.

(* GROUP ATTRIBUTES: a property of the field read from a grouped dataset is the data variable's
   own attribute if it has one, else the attribute of the NEAREST enclosing non-root group that
   has one, else the global attribute *)
Lemma field_props_get : forall glob fa groups vattrs k,
  wf_fa fa -> NoDup (map fst vattrs) ->
  assoc_str k (field_props glob fa groups vattrs) =
    match assoc_str k vattrs with
    | Some x => Some x
    | None => match nearest_group_attr fa [] groups k with
              | Some x => Some x
              | None => assoc_str k glob
              end
    end.
Proof.
  intros glob fa groups vattrs k W NV. unfold field_props, group_attrs.
  rewrite (update_get k vattrs _ NV). destruct (assoc_str k vattrs); [reflexivity|].
  rewrite update_get by (apply group_attrs_down_keys; constructor).
  rewrite (group_attrs_down_get fa k groups [] [] W). simpl.
  destruct (nearest_group_attr fa [] groups k); reflexivity.
Qed.

Lemma recorded_group_attrs_spec : forall fa groups vattrs k, wf_fa fa ->
  In k (map fst (recorded_group_attrs fa groups vattrs)) <-> nearest_group_attr fa [] groups k <> None.
Proof.
  intros fa groups vattrs k W. unfold recorded_group_attrs. rewrite map_map. simpl.
  pose proof (group_attrs_down_get fa k groups [] [] W) as G. fold (group_attrs fa groups) in G. simpl in G.
  split.
  - intros I N. rewrite N in G.
    assert (X : exists v, assoc_str k (group_attrs fa groups) = Some v).
    { destruct (assoc_str_in_keys k (group_attrs fa groups) I) as [f [A _]]. exists f. exact A. }
    destruct X as [v X]. congruence.
  - intros N. destruct (nearest_group_attr fa [] groups k) as [x|] eqn:E; [|contradiction].
    clear N. revert G. generalize (group_attrs fa groups). induction a as [|[a b] l IH]; simpl; [discriminate|].
    destruct (str_eqb a k) eqn:Ek; [apply str_eqb_eq in Ek; subst; intros _; left; reflexivity|].
    intros H. right. apply IH. exact H.
Qed.

Example group_attrs_nonvacuous :
  let fa := [([s "a"], [(s "comment", s "A"); (s "source", s "S")]); ([s "a"; s "b"], [(s "comment", s "B")])] in
  wf_fa fa /\
  assoc_str (s "comment") (field_props [(s "comment", s "G")] fa [s "a"; s "b"] []) = Some (s "B") /\
  assoc_str (s "source") (field_props [(s "comment", s "G")] fa [s "a"; s "b"] []) = Some (s "S") /\
  assoc_str (s "comment") (field_props [(s "comment", s "G")] fa [s "a"] []) = Some (s "A") /\
  assoc_str (s "comment") (field_props [(s "comment", s "G")] fa [s "c"] []) = Some (s "G") /\
  assoc_str (s "comment") (field_props [(s "comment", s "G")] fa [s "a"; s "b"] [(s "comment", s "V")]) = Some (s "V").
Proof.
  intros fa. splits; try reflexivity.
  repeat constructor; simpl; intuition discriminate.
Qed.

(* the upward variant lets the OUTER group win *)
Lemma group_attrs_up_outer_wins :
  let fa := [([s "a"], [(s "comment", s "A")]); ([s "a"; s "b"], [(s "comment", s "B")])] in
  assoc_str (s "comment") (group_attrs fa [s "a"; s "b"]) = Some (s "B") /\
  assoc_str (s "comment") (group_attrs_up fa (rev [s "a"; s "b"]) []) = Some (s "A").
Proof. split; reflexivity. Qed.

(* ------------------------------------------------------------------ h5netcdf: get_dims *)
Lemma mem_remove_all : forall n d l, mem_str n (remove_all d l) = if str_eqb n d then false else mem_str n l.
Proof.
  induction l as [|y l IH]; simpl; [destruct (str_eqb n d); reflexivity|].
  destruct (str_eqb d y) eqn:E.
  - apply str_eqb_eq in E. subst y. rewrite IH. destruct (str_eqb n d); reflexivity.
  - simpl. rewrite IH. destruct (str_eqb n d) eqn:E2; [|reflexivity].
    apply str_eqb_eq in E2. subst n. rewrite E. reflexivity.
Qed.

Lemma pget_pset : forall n d v acc, pget n (pset d v acc) = if str_eqb d n then Some v else pget n acc.
Proof.
  induction acc as [|[a b] acc IH]; simpl.
  - destruct (str_eqb d n); reflexivity.
  - destruct (str_eqb a d) eqn:E1.
    + apply str_eqb_eq in E1. subst a. simpl. destruct (str_eqb d n); reflexivity.
    + simpl. destruct (str_eqb a n) eqn:E2.
      * apply str_eqb_eq in E2. subst a. rewrite str_eqb_sym, E1. reflexivity.
      * exact IH.
Qed.

Lemma h5_step_spec : forall path n gd names acc,
  let st := h5_step true path gd (names, acc) in
  if mem_str n names && mem_str n gd
  then mem_str n (fst st) = false /\ pget n (snd st) = Some path
  else mem_str n (fst st) = mem_str n names /\ pget n (snd st) = pget n acc.
Proof.
  intros path n. unfold h5_step. induction gd as [|d r IH]; intros names acc.
  - simpl. rewrite andb_false_r. split; reflexivity.
  - cbn [fold_left fst snd]. destruct (mem_str d names) eqn:Md.
    + specialize (IH (remove_all d names) (pset d path acc)). cbv zeta in *.
      rewrite mem_remove_all, pget_pset in IH. cbn [mem_str].
      destruct (str_eqb n d) eqn:End.
      * apply str_eqb_eq in End. subst d. rewrite Md. simpl orb. simpl andb. cbv iota.
        simpl andb in IH. cbv iota in IH. rewrite str_eqb_refl in IH. exact IH.
      * simpl orb. rewrite (str_eqb_sym d n), End in IH. exact IH.
    + specialize (IH names acc). cbv zeta in *. cbn [mem_str].
      destruct (str_eqb n d) eqn:End.
      * apply str_eqb_eq in End. subst d. rewrite Md in *. simpl andb in *. exact IH.
      * simpl orb. exact IH.
Qed.

Lemma h5_walk_spec : forall root n rp names acc,
  pget n (h5_walk true root rp names acc) =
    if mem_str n names
    then match nc_lookup_dim root rp n with Some q => Some q | None => pget n acc end
    else pget n acc.
Proof.
  intros root n. induction rp as [|x rp IH]; intros names acc.
  - cbn [h5_walk nc_lookup_dim]. destruct (find_group root (rev [])) as [g|]; [|destruct (mem_str n names); reflexivity].
    pose proof (h5_step_spec (rev []) n (gdims g) names acc) as S. cbv zeta in S.
    destruct (mem_str n names); simpl andb in S.
    + destruct (mem_str n (gdims g)); destruct S as [_ S]; rewrite S; reflexivity.
    + destruct S as [_ S]. exact S.
  - cbn [h5_walk nc_lookup_dim]. destruct (find_group root (rev (x :: rp))) as [g|]; [|destruct (mem_str n names); reflexivity].
    pose proof (h5_step_spec (rev (x :: rp)) n (gdims g) names acc) as S. cbv zeta in S.
    destruct (fst (h5_step true (rev (x :: rp)) (gdims g) (names, acc))) as [|y names'] eqn:Fs.
    + destruct (mem_str n names); simpl andb in S.
      * destruct (mem_str n (gdims g)); destruct S as [S1 S2]; [rewrite S2; reflexivity|simpl in S1; discriminate].
      * destruct S as [_ S]. exact S.
    + rewrite IH. destruct (mem_str n names); simpl andb in S.
      * destruct (mem_str n (gdims g)); destruct S as [S1 S2]; rewrite S1, S2; reflexivity.
      * destruct S as [S1 S2]. rewrite S1, S2. reflexivity.
Qed.

(* H5NETCDF: the flattener gives every dimension name of a variable the nearest enclosing
   definition - the dimension netCDF itself binds the name to - also when the variable spans a
   dimension twice (repaired code) *)
Lemma h5_get_dims_nearest : forall root rp vdims,
  h5_get_dims root rp vdims = map (nc_lookup_dim root rp) vdims.
Proof.
  intros root rp vdims. unfold h5_get_dims, h5_get_dims_gen. apply map_ext_in. intros n I.
  rewrite h5_walk_spec. apply mem_str_in in I. rewrite I. destruct (nc_lookup_dim root rp n); reflexivity.
Qed.

(* before C11-fix3-1: v(x, x) in /g/h with x defined in / and in /g was given the root dimension *)
Lemma h5_get_dims_old_repeated : exists root,
  h5_get_dims_old root [s "h"; s "g"] [s "x"; s "x"] = [Some []; Some []] /\
  h5_get_dims root [s "h"; s "g"] [s "x"; s "x"] = [Some [s "g"]; Some [s "g"]] /\
  h5_get_dims_old root [s "h"; s "g"] [s "x"] = [Some [s "g"]].
Proof. exists (G [] [s "x"] [] [G (s "g") [s "x"] [] [G (s "h") [] [] []]]). splits; reflexivity. Qed.

(* the merged loop (seeded change s6): the outermost definition wins *)
Lemma h5_merged_outer_wins : exists root,
  pget (s "x") (h5_walk_merged root [s "g"] [s "x"] []) = Some [] /\
  h5_get_dims root [s "g"] [s "x"] = [Some [s "g"]].
Proof. exists (G [] [s "x"] [] [G (s "g") [s "x"] [] []]). split; reflexivity. Qed.
