(* C11 - evaluation entry points for the correspondence harness.  Imports the model
   only, so it still evaluates when a proof is broken. *)
From CfdmV Require Import Common.Base Tables.FlattenRules C11.Model.
Open Scope nat_scope.

(* Correspondence cases keep every flattened name below the length limit (checked by
   [names_short]), so the hash function is never consulted. *)
Definition hash0 (x : str) : str := x.

Definition ostr_eqb (a b : option str) : bool := option_eqb str_eqb a b.

Definition path_eqb (a b : list str) : bool := list_eqb str_eqb a b.

(* ---- one reference attribute through the flattener -------------------------------
   (tree, attribute name, strict, reversed group path of the referring variable,
    its "coordinates" attribute, the parsed attribute, observed: Some string | None = raised) *)
Definition model_attr (fixed : bool) (root : group) (attr : string) (strict : bool) (rp : list str)
           (coords : option str) (a : pattr) : option str :=
  match lookup_rules attr flattening_rules_table with
  | None => Some (attr_str a)
  | Some rl => flatten_attr_gen fixed hash0 root rl strict rp coords a
  end.

Definition check_ref (c : group * string * bool * list str * option str * pattr * option str) : bool :=
  let '(root, attr, strict, rp, coords, a, obs) := c in
  ostr_eqb (model_attr true root attr strict rp coords a) obs.

Definition check_ref_old (c : group * string * bool * list str * option str * pattr * option str) : bool :=
  let '(root, attr, strict, rp, coords, a, obs) := c in
  ostr_eqb (model_attr false root attr strict rp coords a) obs.

(* ---- the name maps: (is_dim, group path, name, observed flattened name, observed absolute path):
   the reader's un-flattening of one entry (the flattened name itself is checked by check_maps) *)
Definition check_name (c : bool * list str * str * str * str) : bool :=
  let '(is_dim, p, n, flat, abs) := c in
  str_eqb (pathname p n) abs &&
  (if is_dim then
     let '(g, nm, b) := unflatten_dim_gen true flat abs in
     path_eqb g p && str_eqb nm (match p with [] => n | _ => abs end) && str_eqb b n
   else
     let '(g, nm, b) := unflatten_var flat abs in
     path_eqb g p && str_eqb nm (match p with [] => n | _ => abs end) && str_eqb b n).

(* the whole map in file order: the model's traversal, with clashing names given a counter,
   against the observed attribute *)
Definition pair_eqb (a b : str * str) : bool := str_eqb (fst a) (fst b) && str_eqb (snd a) (snd b).
Definition check_maps (c : group * list (str * str) * list (str * str)) : bool :=
  let '(root, vm, dm) := c in
  list_eqb pair_eqb (var_map_u hash0 root) vm && list_eqb pair_eqb (dim_map_u hash0 root) dm.

(* ---- the reader's coordinate-variable search ------------------------------------------
   (has_groups, variables, field, dimension, observed coordinate variable) *)
Definition oid_eqb (a b : option (list str * str)) : bool := option_eqb id_eqb a b.

Definition check_coord (c : bool * list rvar * (list str * str) * (list str * str) * option (list str * str)) : bool :=
  let '(hg, vars, field, dim, obs) := c in
  oid_eqb (find_coord hash0 hg vars field dim) obs.

Definition check_coord_old (c : bool * list rvar * (list str * str) * (list str * str) * option (list str * str)) : bool :=
  let '(hg, vars, field, dim, obs) := c in
  oid_eqb (find_coord_old hash0 hg vars field dim) obs.

(* ---- the writer: (dimensions in the file when the variable is created (as a tree), group flag,
   variable name, dimension names, observed acceptance of the two checks, observed placement:
   group path and basename) *)
Definition check_writer (c : group * bool * str * list str * bool * option (list str * str)) : bool :=
  let '(root, grp, ncvar, ncdims, accepted, placed) := c in
  Bool.eqb (writer_accepts root grp ncvar ncdims) accepted &&
  match placed with
  | None => true
  | Some (p, b) =>
      match parent_group_path grp ncvar with
      | Some p' => path_eqb p p' && str_eqb (if grp then remove_group_structure ncvar else ncvar) b
      | None => false
      end
  end.

(* ---- name accessors: op 0 = nc_set, 1 = nc_set_groups, 2 = nc_clear_groups;
   observed: the stored name and the groups reported afterwards, None = ValueError *)
Definition check_nc (c : nat * str * list str * option (str * list str)) : bool :=
  let '(op, name, groups, obs) := c in
  let m :=
    match op with
    | 0 => nc_set name
    | 1 => match nc_set name with Some n0 => nc_set_groups groups n0 | None => None end
    | _ => match nc_set name with Some n0 => nc_clear_groups n0 | None => None end
    end in
  match m, obs with
  | None, None => true
  | Some n, Some (n', g') => str_eqb n n' && path_eqb (nc_groups n) g'
  | _, _ => false
  end.

(* ---- group attributes: (global attributes, attributes of each non-root group, groups of the
   data variable, its own attributes, a name, the observed property of the field) *)
Definition check_gattr (c : attrs * list (list str * attrs) * list str * attrs * str * option str) : bool :=
  let '(glob, fa, groups, va, k, obs) := c in
  ostr_eqb (assoc_str k (field_props glob fa groups va)) obs.

(* the names recorded by nc_set_group_attributes, as a set *)
Definition check_gattr_recorded (c : list (list str * attrs) * list str * attrs * list str) : bool :=
  let '(fa, groups, va, obs) := c in
  let m := map fst (recorded_group_attrs fa groups va) in
  forallb (fun k => mem_str k obs) m && forallb (fun k => mem_str k m) obs.

(* ---- the dimensions of one variable in the flattened dataset: (tree, reversed group path of the
   variable, basenames of its dimensions, observed flattened dimension names, through h5netcdf?) *)
Definition check_vardims (c : group * list str * list str * list str * bool) : bool :=
  let '(root, rp, ds, obs, h5) := c in
  let homes := if h5 then h5_get_dims root rp ds else map (nc_lookup_dim root rp) ds in
  list_eqb (option_eqb str_eqb)
    (map (fun hd => match fst hd with
                    | Some q => assoc_str (pathname q (snd hd)) (dim_map_u hash0 root)
                    | None => None
                    end) (combine homes ds))
    (map (@Some str) obs).
