(* C11 - the property theorems, nothing else.  Each is closed by [exact] of a lemma from
   Lemmas.v and followed by Print Assumptions. *)
From CfdmV Require Import Common.Base Tables.FlattenRules C11.Model C11.Lemmas C11.Deep.

(* ABSOLUTE.  A reference that starts with "/" is taken as it stands, whatever the rule, the
   referring group and the strictness. *)
Theorem C11_absolute :
  forall fixed root rl strict rp coords r,
  resolve_gen fixed root rl strict rp coords (slash :: r) = RStr (slash :: r).
Proof. exact resolve_absolute. Qed.
Print Assumptions C11_absolute.

(* RELATIVE.  "../" x k followed by g1/../gm/name, written in a variable of the group whose
   reversed path is rp (any depth), denotes the element [name] of the group reached by going k
   levels up and then down g1 .. gm, and nothing else; it is unresolved - never an exception
   (F11a) - when that walk leaves the tree or the element is not there. *)
Theorem C11_relative :
  forall root k comps n rp sd,
  no_up (join [slash] (comps ++ [n])) -> free slash (comps ++ [n]) ->
  find_group root (rev rp) <> None ->
  search_rel root (ups k ++ join [slash] (comps ++ [n])) rp sd =
    if k <=? length rp then
      match find_group root (rev (skipn k rp) ++ comps) with
      | Some g => if has_elt sd g n then SFound (rev (skipn k rp) ++ comps) n else SNone
      | None => SNone
      end
    else SNone.
Proof. exact search_rel_spec. Qed.
Print Assumptions C11_relative.

(* the guard [no_up] holds whenever the first component is not ".." *)
Theorem C11_relative_guard :
  forall c l, mem_chr slash c = false -> c <> [dot; dot] -> no_up (join [slash] (c :: l)).
Proof. exact no_up_join. Qed.
Print Assumptions C11_relative_guard.

(* PROXIMAL.  A reference without a path denotes the nearest enclosing definition: the group
   found is an ancestor-or-self of the referring group that holds the name, and no group
   nearer to the referring group holds it ... *)
Theorem C11_proximal :
  forall fixed root sd ref rp apex q,
  prox_gen fixed root sd ref rp apex false = Some q ->
  exists k, q = rev (skipn k rp) /\ holds root sd ref (skipn k rp) /\
            forall j, j < k -> ~ holds root sd ref (skipn j rp).
Proof. exact prox_nearest. Qed.
Print Assumptions C11_proximal.

(* ... and it is unresolved only if no ancestor-or-self holds it. *)
Theorem C11_proximal_complete :
  forall fixed root sd ref rp apex,
  find_group root (rev rp) <> None ->
  prox_gen fixed root sd ref rp apex false = None ->
  forall k, ~ holds root sd ref (skipn k rp).
Proof. exact prox_none. Qed.
Print Assumptions C11_proximal_complete.

(* LATERAL.  For a coordinate variable the upward search stops at the local apex (the nearest
   group that defines a dimension of that name): the result is either the nearest enclosing
   definition not above the apex, or what a breadth-first descent from the apex finds ... *)
Theorem C11_lateral :
  forall root sd ref rp q,
  prox root sd ref rp false true = Some q ->
  (exists k, q = rev (skipn k rp) /\ holds root sd ref (skipn k rp) /\
     forall j, j < k -> ~ holds root sd ref (skipn j rp) /\ ~ apexdim root ref (skipn j rp))
  \/
  (exists k g, find_group root (rev (skipn k rp)) = Some g /\ mem_str ref (gdims g) = true /\
     (forall j, j <= k -> ~ holds root sd ref (skipn j rp)) /\
     (forall j, j < k -> ~ apexdim root ref (skipn j rp)) /\
     bfs (height root) sd ref (next_level [(rev (skipn k rp), g)]) = Some q).
Proof. exact prox_lateral_phase. Qed.
Print Assumptions C11_lateral.

(* ... and the descent is width-wise: the group found holds the name and no group on a
   shallower level does (CF 2.7; the pinned code went depth first, see Refuted.v). *)
Theorem C11_lateral_breadth_first :
  forall fuel sd ref level q, bfs fuel sd ref level = Some q ->
  exists d g, In (q, g) (below d level) /\ has_elt sd g ref = true /\
    forall d', d' < d -> forall q' g', In (q', g') (below d' level) -> has_elt sd g' ref = false.
Proof. exact bfs_sound. Qed.
Print Assumptions C11_lateral_breadth_first.

(* FLATTENED NAMES as generate_flattened_name proposes them are injective - distinct (group
   path, name) pairs get distinct names - provided no name ends with "_" or contains "__", below
   the length at which hashing starts (all regimes: C11_flat_injective_all; the names actually
   used are always distinct: C11_flat_names_distinct). *)
Theorem C11_flat_injective :
  forall hash p1 n1 p2 n2,
  Forall good (p1 ++ [n1]) -> Forall good (p2 ++ [n2]) -> short p1 n1 -> short p2 n2 ->
  flat_name hash p1 n1 = flat_name hash p2 n2 -> p1 = p2 /\ n1 = n2.
Proof. exact flat_injective. Qed.
Print Assumptions C11_flat_injective.

(* Both clauses of the guard are needed (F11b: a root variable a__b and /a/b; /a_/b and /a/_b). *)
Theorem C11_flat_injective_unguarded_refuted :
  exists p1 n1 p2 n2,
  (p1, n1) <> (p2, n2) /\ short p1 n1 /\ short p2 n2 /\
  Forall (fun c => last c us <> us) (p1 ++ [n1]) /\ Forall (fun c => last c us <> us) (p2 ++ [n2]) /\
  flat_name (fun x => x) p1 n1 = flat_name (fun x => x) p2 n2.
Proof. exact flat_collision_sep. Qed.
Print Assumptions C11_flat_injective_unguarded_refuted.

Theorem C11_flat_injective_trailing_refuted :
  exists p1 n1 p2 n2,
  (p1, n1) <> (p2, n2) /\ short p1 n1 /\ short p2 n2 /\
  Forall (fun c => no_dbl c = true) (p1 ++ [n1]) /\ Forall (fun c => no_dbl c = true) (p2 ++ [n2]) /\
  flat_name (fun x => x) p1 n1 = flat_name (fun x => x) p2 n2.
Proof. exact flat_collision_trailing. Qed.
Print Assumptions C11_flat_injective_trailing_refuted.

(* GROUP MEMBERSHIP.  Setting groups on a named construct records exactly those groups and
   keeps the basename; the name recorded is the one the reader records for an element of that
   group, and the writer puts an element of that name into exactly that group - so the layout
   read is the layout written again. *)
Theorem C11_groups_roundtrip :
  forall groups old n,
  free slash groups -> free slash old -> mem_chr slash n = false -> n <> [] ->
  let name0 := match old with [] => n | _ => abs_name old n end in
  exists name', nc_set_groups groups name0 = Some name' /\
    nc_groups name' = groups /\
    remove_group_structure name' = n /\
    parent_group_path true name' = Some groups /\
    name' = match groups with [] => n | _ => abs_name groups n end.
Proof. exact groups_roundtrip. Qed.
Print Assumptions C11_groups_roundtrip.

(* VISIBILITY.  The writer's check (a comparison of strings) accepts a variable exactly when
   every one of its dimensions lies in the variable's group or in an ancestor of it ... *)
Theorem C11_visible :
  forall gv nv dims,
  free slash gv -> mem_chr slash nv = false ->
  Forall (fun d => free slash (fst d) /\ mem_chr slash (snd d) = false) dims ->
  dims_visible true (name_of gv nv) (map (fun d => name_of (fst d) (snd d)) dims) = true <->
  (forall d, In d dims -> exists r, gv = fst d ++ r).
Proof. exact dims_visible_spec. Qed.
Print Assumptions C11_visible.

(* ... and the basename handed to netCDF is bound to the intended dimension, provided no group
   strictly between the dimension's group and the variable's group defines a dimension of the
   same name (exact guard: F11f; the repaired writer tests exactly this and refuses otherwise,
   see C11_writer_refuses_hidden) *)
Theorem C11_visible_binding :
  forall root gd n g0 rr,
  find_group root gd = Some g0 -> mem_str n (gdims g0) = true ->
  (forall a b, rr = a ++ b -> b <> [] ->
     exists g, find_group root (gd ++ rev b) = Some g /\ mem_str n (gdims g) = false) ->
  nc_lookup_dim root (rr ++ rev gd) n = Some gd.
Proof. exact lookup_unshadowed. Qed.
Print Assumptions C11_visible_binding.

Theorem C11_visible_binding_unguarded_refuted :
  exists root gv dims,
  dims_visible true (name_of gv (s "ta")) (map (fun d => name_of (fst d) (snd d)) dims) = true /\
  In ([], s "x") dims /\
  nc_lookup_dim root (rev gv) (s "x") <> Some [].
Proof. exact visible_but_shadowed. Qed.
Print Assumptions C11_visible_binding_unguarded_refuted.

(* THE RULES TABLE as it is in config.py now: with any of its rules the renaming pass of a
   non-strict flattening (the mode cfdm.read uses) never raises. *)
Theorem C11_rules_total :
  forall hash root name rl x,
  lookup_rules name flattening_rules_table = Some rl -> adapt hash root rl false x <> RExc.
Proof. exact adapt_total. Qed.
Print Assumptions C11_rules_total.

(* UN-FLATTENING.  From one entry "flattened name: absolute path" of the mapping attributes the
   reader recovers exactly the group path, the name it records on the construct (the absolute
   path, or the bare name in the root group) and the basename - for variables and for
   dimensions, and whatever the flattened name is (plain, hashed, or with a counter: the repaired
   reader, C11-fix2-1, takes everything from the absolute path; in the root group the flattened
   name is the name). *)
Theorem C11_unflatten :
  forall flat p n, free slash (p ++ [n]) ->
  unflatten_var flat (pathname p n) =
    (p, match p with [] => n | _ => pathname p n end, match p with [] => flat | _ => n end).
Proof. exact unflatten_var_spec. Qed.
Print Assumptions C11_unflatten.

Theorem C11_unflatten_dimension :
  forall flat p n, free slash (p ++ [n]) ->
  unflatten_dim_gen true flat (pathname p n) =
    (p, match p with [] => n | _ => pathname p n end, match p with [] => flat | _ => n end).
Proof. exact unflatten_dim_spec. Qed.
Print Assumptions C11_unflatten_dimension.

(* ====================================================================== deepening pass *)

(* LATERAL, completeness and fuel.  The search for a coordinate variable reports nothing only if
   nothing is there: no group up to the root holds the name or is a local apex, or the apex was
   reached and no group anywhere below it (any depth) holds the name ... *)
Theorem C11_lateral_complete :
  forall root sd ref rp,
  find_group root (rev rp) <> None ->
  prox root sd ref rp false true = None ->
  (forall j, ~ holds root sd ref (skipn j rp) /\ ~ apexdim root ref (skipn j rp))
  \/
  (exists k g, find_group root (rev (skipn k rp)) = Some g /\ mem_str ref (gdims g) = true /\
     (forall j, j <= k -> ~ holds root sd ref (skipn j rp)) /\
     (forall j, j < k -> ~ apexdim root ref (skipn j rp)) /\
     forall comps g', comps <> [] -> find_group g comps = Some g' -> has_elt sd g' ref = false).
Proof. exact prox_lateral_none. Qed.
Print Assumptions C11_lateral_complete.

(* ... because the fuel [height root] of the descent is sufficient: with it the descent from any
   group of the tree is exhaustive, and more fuel never changes the answer (the out-of-fuel
   branch of the model is unreachable). *)
Theorem C11_lateral_fuel :
  forall root p g sd ref,
  find_group root p = Some g ->
  (forall extra, bfs (height root + extra) sd ref (next_level [(p, g)]) =
                 bfs (height root) sd ref (next_level [(p, g)])) /\
  (bfs (height root) sd ref (next_level [(p, g)]) = None ->
   forall comps g', comps <> [] -> find_group g comps = Some g' -> has_elt sd g' ref = false).
Proof. exact lateral_fuel_and_complete. Qed.
Print Assumptions C11_lateral_fuel.

(* THE READER'S COORDINATE VARIABLE (_find_coordinate_variable as repaired by 5e5cf7d), in a
   dataset with groups.  What is found is (a) the candidate nearest to the data variable on its
   ancestor path; or, when no candidate lies on that path, (b) the dimension's own name if the
   variable beside the dimension spans it (it is then the data variable itself), else (c) the
   candidate nearest to the dimension's group, provided no other candidate is as near. *)
Theorem C11_coordinate_variable :
  forall hash vars field dim c,
  find_coord hash true vars field dim = Some c ->
  (exists v, candidate hash vars field dim v /\ c = vid v /\ is_prefix (v_groups v) (fst field) /\
     forall w, candidate hash vars field dim w -> is_prefix (v_groups w) (fst field) -> glen w <= glen v)
  \/
  ((forall w, candidate hash vars field dim w -> ~ is_prefix (v_groups w) (fst field)) /\
   ((own_b vars dim = true /\ c = dim)
    \/
    (own_b vars dim = false /\
     exists v, lateral_cand hash vars field dim v /\ c = vid v /\
       (forall w, lateral_cand hash vars field dim w -> glen v <= glen w) /\
       (forall w, lateral_cand hash vars field dim w -> glen w = glen v -> w = v)))).
Proof. exact find_coord_sound. Qed.
Print Assumptions C11_coordinate_variable.

(* Nothing is found only when no candidate lies on the ancestor path, the shortcut does not
   apply, and there is no candidate at all or two different ones are equally near to the
   dimension's group (which CF 2.7 leaves undefined); a candidate on the ancestor path always
   makes the search succeed. *)
Theorem C11_coordinate_variable_none :
  forall hash vars field dim,
  NoDup vars ->
  find_coord hash true vars field dim = None ->
  (forall w, candidate hash vars field dim w -> ~ is_prefix (v_groups w) (fst field)) /\
  own_b vars dim = false /\
  ((forall w, ~ candidate hash vars field dim w)
   \/
   exists v w, v <> w /\ lateral_cand hash vars field dim v /\ lateral_cand hash vars field dim w /\
     glen v = glen w /\ forall u, lateral_cand hash vars field dim u -> glen v <= glen u).
Proof. exact find_coord_none. Qed.
Print Assumptions C11_coordinate_variable_none.

Theorem C11_coordinate_variable_proximal_complete :
  forall hash vars field dim w,
  candidate hash vars field dim w -> is_prefix (v_groups w) (fst field) ->
  find_coord hash true vars field dim <> None.
Proof. exact find_coord_proximal_complete. Qed.
Print Assumptions C11_coordinate_variable_proximal_complete.

(* the candidates are the variables named like the dimension, spanning exactly it, in its group
   or below (the basename test is a test of names, in every regime of the flattened names) *)
Theorem C11_coordinate_variable_names :
  forall hash vars field dim v,
  free slash (v_groups v ++ [v_name v]) -> free slash (fst dim ++ [snd dim]) ->
  (candidate hash vars field dim v <->
   In v vars /\ vid v <> field /\ v_dims v = [dim] /\ v_name v = snd dim /\ is_prefix (fst dim) (v_groups v)).
Proof. exact candidate_names. Qed.
Print Assumptions C11_coordinate_variable_names.

(* a file as cfdm's writer makes it (the coordinate variable beside its dimension, no other
   candidate): it is found from every group below *)
Theorem C11_coordinate_variable_writer_made :
  forall hash vars field dim v,
  candidate hash vars field dim v -> vid v = dim -> is_prefix (fst dim) (fst field) ->
  (forall w, candidate hash vars field dim w -> w = v) ->
  find_coord hash true vars field dim = Some dim.
Proof. exact find_coord_writer_made. Qed.
Print Assumptions C11_coordinate_variable_writer_made.

(* FLATTENED NAMES, every regime (also >= 256 characters, where the group path or the whole name
   is replaced by a digest).  The digest function is a Section variable; assumed of it: it is
   injective and its values are names without "__" that do not end in "_" (hexadecimal).  Then
   the proposed names are injective provided no group and no variable is named like a digest
   (exact: a root variable, or a single group, named like the digest of another element). *)
Theorem C11_flat_injective_all :
  forall hash : str -> str,
  (forall a b, hash a = hash b -> a = b) -> (forall a, good (hash a)) ->
  forall p1 n1 p2 n2,
  Forall good (p1 ++ [n1]) -> Forall good (p2 ++ [n2]) ->
  free slash p1 -> free slash p2 ->
  no_digest hash (p1 ++ [n1]) -> no_digest hash (p2 ++ [n2]) ->
  flat_name hash p1 n1 = flat_name hash p2 n2 -> p1 = p2 /\ n1 = n2.
Proof. exact flat_injective_all. Qed.
Print Assumptions C11_flat_injective_all.

(* the two assumptions on the digest are satisfiable together *)
Theorem C11_flat_injective_all_nonvacuous :
  (forall a b, enc a = enc b -> a = b) /\ (forall a, good (enc a)).
Proof. exact digest_hypotheses_satisfiable. Qed.
Print Assumptions C11_flat_injective_all_nonvacuous.

(* ... and whatever the names are (repair C11-fix2-1: a clashing name gets a counter), the names
   actually used in the flattened dataset are pairwise distinct and there is one entry per
   element: F11b is closed. *)
Theorem C11_flat_names_distinct :
  forall hash root,
  NoDup (map snd (var_map_u hash root)) /\ NoDup (map snd (dim_map_u hash root)) /\
  map fst (var_map_u hash root) = map fst (var_map hash [] root) /\
  map fst (dim_map_u hash root) = map fst (dim_map hash [] root).
Proof. exact flat_names_distinct. Qed.
Print Assumptions C11_flat_names_distinct.

(* MEANING (the modelled fragment of "grouped read == flat read == original"): the name cfdm
   records for a variable and writes as a reference to it is, in the grouped file, resolved and
   renamed to the entry of the mapping attribute that stands for exactly that variable, from
   which the reader recovers the same group, recorded name and basename; with group=False the
   same name is reduced to its basename in the root group; written again with group=True it
   returns to its group.  See Deep.v for the statement in words. *)
Theorem C11_meaning :
  forall hash root rl strict rp coords p n g,
  var_rule rl ->
  find_group root p = Some g -> mem_str n (map fst (gvars g)) = true ->
  free slash (p ++ [n]) -> n <> [] ->
  substrb not_found (pathname p n) = false ->
  (p = [] -> unshadowed root (r_apex rl) rp n) ->
  (exists f,
     flatten_ref hash root rl strict rp coords (name_of p n) = RStr f /\
     In (pathname p n, f) (var_map_u hash root) /\
     (tree_okb root = true -> NoDup (map snd (var_map hash [] root)) -> f = flat_name hash p n) /\
     forall x, p <> [] \/ x = n -> unflatten_var x (pathname p n) = (p, name_of p n, n)) /\
  remove_group_structure (name_of p n) = n /\
  parent_group_path false (name_of p n) = Some [] /\
  parent_group_path true (name_of p n) = Some p.
Proof. exact meaning. Qed.
Print Assumptions C11_meaning.

(* Without the guard [unshadowed] (new open finding variable-shadowed): the bare name written
   for a root-group variable is captured by a same-named variable in a group between. *)
Theorem C11_meaning_shadowed_refuted :
  exists rl,
  var_rule rl /\ lookup_rules "coordinates" flattening_rules_table = Some rl /\
  tree_okb shadow_tree = true /\ mem_str (s "aux") (map fst (gvars shadow_tree)) = true /\
  flatten_ref (fun x => x) shadow_tree rl false [s "g2"; s "g1"] None (name_of [] (s "aux"))
    = RStr (flat_name (fun x => x) [s "g1"] (s "aux")).
Proof. exact meaning_shadowed. Qed.
Print Assumptions C11_meaning_shadowed_refuted.

(* THE WRITER REFUSES HIDDEN DIMENSIONS (repair C11-fix2-2, closes F11f): the second check -
   no group from the variable's group up to the dimension's group defines a dimension of that
   basename - holds exactly when netCDF binds the basename to the intended dimension. *)
Theorem C11_writer_refuses_hidden :
  forall root gd n g0 rr,
  find_group root gd = Some g0 -> mem_str n (gdims g0) = true ->
  find_group root (rev (rr ++ rev gd)) <> None ->
  (no_hiding root (rr ++ rev gd) (length rr) n = true <-> nc_lookup_dim root (rr ++ rev gd) n = Some gd).
Proof. exact no_hiding_exact. Qed.
Print Assumptions C11_writer_refuses_hidden.

(* ====================================================================== after the ordered-pairs change (8d03027) *)

(* A WHOLE ATTRIBUTE, position by position.  The loop over a parsed attribute succeeds exactly
   when there is an attribute of the same shape whose every name / value is the result for the
   one at the same position (names when the rule resolves keys, values when it resolves values,
   everything else copied) - and then it returns that one: nothing is merged, dropped or
   reordered, and it fails only if some word fails. *)
Theorem C11_attr_positional :
  forall rl f a b, map_attr rl f a = Some b <-> Forall2 (item_rel rl f) a b.
Proof. exact map_attr_spec. Qed.
Print Assumptions C11_attr_positional.

(* The flattened attribute (both passes) has exactly as many items and as many words as the
   original, each word the flattening - resolution by the CF search rules, then renaming - of
   the word at the same position.  (False of the dict version: see the refuted statement.) *)
Theorem C11_attr_flattened_positional :
  forall hash root rl strict rp coords a out,
  flatten_attr hash root rl strict rp coords a = Some out ->
  exists b, out = attr_str b /\
    Forall2 (item_rel rl (flatten_ref hash root rl strict rp coords)) a b /\
    Forall2 (word_rel rl (flatten_ref hash root rl strict rp coords)) (words a) (words b) /\
    length b = length a /\ length (words b) = length (words a).
Proof. exact flatten_attr_positional. Qed.
Print Assumptions C11_attr_flattened_positional.

(* the code before 8d03027 (dict keyed by name): cell methods naming an axis twice lost a
   method; one variable named relatively and absolutely became one word *)
Theorem C11_attr_dict_loses_occurrences_refuted :
  exists rl1 rl2,
  lookup_rules "cell_methods" flattening_rules_table = Some rl1 /\
  lookup_rules "geometry" flattening_rules_table = Some rl2 /\
  flatten_attr (fun x => x) pos_tree rl1 false [s "k"; s "m"] None
     [(s "x", Some []); (s "y", Some [s "maximum"]); (s "y", Some []); (s "x", Some [s "mean"])]
     = Some (s "x: y: maximum y: x: mean") /\
  flatten_attr_dict (fun x => x) pos_tree rl1 false [s "k"; s "m"] None
     [(s "x", Some []); (s "y", Some [s "maximum"]); (s "y", Some []); (s "x", Some [s "mean"])]
     = Some (s "x: mean y:") /\
  flatten_attr (fun x => x) pos_tree rl2 false [s "k"; s "m"] None [(s "../q1", None); (s "/m/q1", None)]
     = Some (s "m__q1 m__q1") /\
  flatten_attr_dict (fun x => x) pos_tree rl2 false [s "k"; s "m"] None [(s "../q1", None); (s "/m/q1", None)]
     = Some (s "m__q1").
Proof. exact dict_version_loses_occurrences. Qed.
Print Assumptions C11_attr_dict_loses_occurrences_refuted.

(* ====================================================================== third pass *)

(* GROUP ATTRIBUTES.  A property of the field read from a grouped dataset is the data variable's
   own attribute if it has one, else the attribute of the NEAREST enclosing non-root group that
   has one (searching from the variable's group towards the root), else the global attribute. *)
Theorem C11_group_attributes :
  forall glob fa groups vattrs k,
  wf_fa fa -> NoDup (map fst vattrs) ->
  assoc_str k (field_props glob fa groups vattrs) =
    match assoc_str k vattrs with
    | Some x => Some x
    | None => match nearest_group_attr fa [] groups k with
              | Some x => Some x
              | None => assoc_str k glob
              end
    end.
Proof. exact field_props_get. Qed.
Print Assumptions C11_group_attributes.

(* the names recorded as group attributes on the field are exactly those that some enclosing
   non-root group defines *)
Theorem C11_group_attributes_recorded :
  forall fa groups vattrs k, wf_fa fa ->
  In k (map fst (recorded_group_attrs fa groups vattrs)) <-> nearest_group_attr fa [] groups k <> None.
Proof. exact recorded_group_attrs_spec. Qed.
Print Assumptions C11_group_attributes_recorded.

(* walking from the variable's group up to the root with the same dict.update (seeded change s4)
   lets the OUTER group win *)
Theorem C11_group_attributes_upward_refuted :
  let fa := [([s "a"], [(s "comment", s "A")]); ([s "a"; s "b"], [(s "comment", s "B")])] in
  assoc_str (s "comment") (group_attrs fa [s "a"; s "b"]) = Some (s "B") /\
  assoc_str (s "comment") (group_attrs_up fa (rev [s "a"; s "b"]) []) = Some (s "A").
Proof. exact group_attrs_up_outer_wins. Qed.
Print Assumptions C11_group_attributes_upward_refuted.

(* H5NETCDF.  For a dataset opened with h5netcdf (whose variables only know the names of their
   dimensions) the flattener's get_dims gives every dimension name the nearest enclosing
   definition - the dimension netCDF itself binds the name to - whatever the names, also when the
   variable spans one dimension twice (repaired code, C11-fix3-1). *)
Theorem C11_h5_dims_nearest :
  forall root rp vdims, h5_get_dims root rp vdims = map (nc_lookup_dim root rp) vdims.
Proof. exact h5_get_dims_nearest. Qed.
Print Assumptions C11_h5_dims_nearest.

(* before C11-fix3-1: v(x, x) in /g/h, x defined in / and in /g: both got the root dimension *)
Theorem C11_h5_dims_repeated_old_refuted :
  exists root,
  h5_get_dims_old root [s "h"; s "g"] [s "x"; s "x"] = [Some []; Some []] /\
  h5_get_dims root [s "h"; s "g"] [s "x"; s "x"] = [Some [s "g"]; Some [s "g"]] /\
  h5_get_dims_old root [s "h"; s "g"] [s "x"] = [Some [s "g"]].
Proof. exact h5_get_dims_old_repeated. Qed.
Print Assumptions C11_h5_dims_repeated_old_refuted.

(* the merged loop of seeded change s6: the outermost definition wins *)
Theorem C11_h5_dims_merged_refuted :
  exists root,
  pget (s "x") (h5_walk_merged root [s "g"] [s "x"] []) = Some [] /\
  h5_get_dims root [s "g"] [s "x"] = [Some [s "g"]].
Proof. exact h5_merged_outer_wins. Qed.
Print Assumptions C11_h5_dims_merged_refuted.
