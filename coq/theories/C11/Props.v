(* C11 - the property theorems, nothing else.  Each is closed by [exact] of a lemma from
   Lemmas.v and followed by Print Assumptions. *)
From CfdmV Require Import Common.Base Tables.FlattenRules C11.Model C11.Lemmas.

(* ABSOLUTE.  A reference that starts with "/" is taken as it stands, whatever the rule, the
   referring group and the strictness. *)
Theorem C11_absolute :
  forall fixed root rl strict rp coords r,
  resolve_gen fixed root rl strict rp coords (slash :: r) = RStr (slash :: r).
Proof. exact resolve_absolute. Qed.
Print Assumptions C11_absolute.

(* RELATIVE.  "../" x k followed by g1/../gm/name, written in a variable of the group whose
   reversed path is rp (any depth), denotes the element [name] of the group reached by going k
   levels up and then down g1 .. gm, and nothing else; it is unresolved - never an exception
   (F11a) - when that walk leaves the tree or the element is not there. *)
Theorem C11_relative :
  forall root k comps n rp sd,
  no_up (join [slash] (comps ++ [n])) -> free slash (comps ++ [n]) ->
  find_group root (rev rp) <> None ->
  search_rel root (ups k ++ join [slash] (comps ++ [n])) rp sd =
    if k <=? length rp then
      match find_group root (rev (skipn k rp) ++ comps) with
      | Some g => if has_elt sd g n then SFound (rev (skipn k rp) ++ comps) n else SNone
      | None => SNone
      end
    else SNone.
Proof. exact search_rel_spec. Qed.
Print Assumptions C11_relative.

(* the guard [no_up] holds whenever the first component is not ".." *)
Theorem C11_relative_guard :
  forall c l, mem_chr slash c = false -> c <> [dot; dot] -> no_up (join [slash] (c :: l)).
Proof. exact no_up_join. Qed.
Print Assumptions C11_relative_guard.

(* PROXIMAL.  A reference without a path denotes the nearest enclosing definition: the group
   found is an ancestor-or-self of the referring group that holds the name, and no group
   nearer to the referring group holds it ... *)
Theorem C11_proximal :
  forall fixed root sd ref rp apex q,
  prox_gen fixed root sd ref rp apex false = Some q ->
  exists k, q = rev (skipn k rp) /\ holds root sd ref (skipn k rp) /\
            forall j, j < k -> ~ holds root sd ref (skipn j rp).
Proof. exact prox_nearest. Qed.
Print Assumptions C11_proximal.

(* ... and it is unresolved only if no ancestor-or-self holds it. *)
Theorem C11_proximal_complete :
  forall fixed root sd ref rp apex,
  find_group root (rev rp) <> None ->
  prox_gen fixed root sd ref rp apex false = None ->
  forall k, ~ holds root sd ref (skipn k rp).
Proof. exact prox_none. Qed.
Print Assumptions C11_proximal_complete.

(* LATERAL.  For a coordinate variable the upward search stops at the local apex (the nearest
   group that defines a dimension of that name): the result is either the nearest enclosing
   definition not above the apex, or what a breadth-first descent from the apex finds ... *)
Theorem C11_lateral :
  forall root sd ref rp q,
  prox root sd ref rp false true = Some q ->
  (exists k, q = rev (skipn k rp) /\ holds root sd ref (skipn k rp) /\
     forall j, j < k -> ~ holds root sd ref (skipn j rp) /\ ~ apexdim root ref (skipn j rp))
  \/
  (exists k g, find_group root (rev (skipn k rp)) = Some g /\ mem_str ref (gdims g) = true /\
     (forall j, j <= k -> ~ holds root sd ref (skipn j rp)) /\
     (forall j, j < k -> ~ apexdim root ref (skipn j rp)) /\
     bfs (height root) sd ref (next_level [(rev (skipn k rp), g)]) = Some q).
Proof. exact prox_lateral_phase. Qed.
Print Assumptions C11_lateral.

(* ... and the descent is width-wise: the group found holds the name and no group on a
   shallower level does (CF 2.7; the pinned code went depth first, see Refuted.v). *)
Theorem C11_lateral_breadth_first :
  forall fuel sd ref level q, bfs fuel sd ref level = Some q ->
  exists d g, In (q, g) (below d level) /\ has_elt sd g ref = true /\
    forall d', d' < d -> forall q' g', In (q', g') (below d' level) -> has_elt sd g' ref = false.
Proof. exact bfs_sound. Qed.
Print Assumptions C11_lateral_breadth_first.

(* FLATTENED NAMES are injective - distinct (group path, name) pairs get distinct names -
   provided no name ends with "_" or contains "__", below the length at which hashing starts. *)
Theorem C11_flat_injective :
  forall hash p1 n1 p2 n2,
  Forall good (p1 ++ [n1]) -> Forall good (p2 ++ [n2]) -> short p1 n1 -> short p2 n2 ->
  flat_name hash p1 n1 = flat_name hash p2 n2 -> p1 = p2 /\ n1 = n2.
Proof. exact flat_injective. Qed.
Print Assumptions C11_flat_injective.

(* Both clauses of the guard are needed (F11b: a root variable a__b and /a/b; /a_/b and /a/_b). *)
Theorem C11_flat_injective_unguarded_refuted :
  exists p1 n1 p2 n2,
  (p1, n1) <> (p2, n2) /\ short p1 n1 /\ short p2 n2 /\
  Forall (fun c => last c us <> us) (p1 ++ [n1]) /\ Forall (fun c => last c us <> us) (p2 ++ [n2]) /\
  flat_name (fun x => x) p1 n1 = flat_name (fun x => x) p2 n2.
Proof. exact flat_collision_sep. Qed.
Print Assumptions C11_flat_injective_unguarded_refuted.

Theorem C11_flat_injective_trailing_refuted :
  exists p1 n1 p2 n2,
  (p1, n1) <> (p2, n2) /\ short p1 n1 /\ short p2 n2 /\
  Forall (fun c => no_dbl c = true) (p1 ++ [n1]) /\ Forall (fun c => no_dbl c = true) (p2 ++ [n2]) /\
  flat_name (fun x => x) p1 n1 = flat_name (fun x => x) p2 n2.
Proof. exact flat_collision_trailing. Qed.
Print Assumptions C11_flat_injective_trailing_refuted.

(* GROUP MEMBERSHIP.  Setting groups on a named construct records exactly those groups and
   keeps the basename; the name recorded is the one the reader records for an element of that
   group, and the writer puts an element of that name into exactly that group - so the layout
   read is the layout written again. *)
Theorem C11_groups_roundtrip :
  forall groups old n,
  free slash groups -> free slash old -> mem_chr slash n = false -> n <> [] ->
  let name0 := match old with [] => n | _ => abs_name old n end in
  exists name', nc_set_groups groups name0 = Some name' /\
    nc_groups name' = groups /\
    remove_group_structure name' = n /\
    parent_group_path true name' = Some groups /\
    name' = match groups with [] => n | _ => abs_name groups n end.
Proof. exact groups_roundtrip. Qed.
Print Assumptions C11_groups_roundtrip.

(* VISIBILITY.  The writer's check (a comparison of strings) accepts a variable exactly when
   every one of its dimensions lies in the variable's group or in an ancestor of it ... *)
Theorem C11_visible :
  forall gv nv dims,
  free slash gv -> mem_chr slash nv = false ->
  Forall (fun d => free slash (fst d) /\ mem_chr slash (snd d) = false) dims ->
  dims_visible true (name_of gv nv) (map (fun d => name_of (fst d) (snd d)) dims) = true <->
  (forall d, In d dims -> exists r, gv = fst d ++ r).
Proof. exact dims_visible_spec. Qed.
Print Assumptions C11_visible.

(* ... and the basename handed to netCDF is bound to the intended dimension, provided no group
   strictly between the dimension's group and the variable's group defines a dimension of the
   same name (exact guard: F11f, open) *)
Theorem C11_visible_binding :
  forall root gd n g0 rr,
  find_group root gd = Some g0 -> mem_str n (gdims g0) = true ->
  (forall a b, rr = a ++ b -> b <> [] ->
     exists g, find_group root (gd ++ rev b) = Some g /\ mem_str n (gdims g) = false) ->
  nc_lookup_dim root (rr ++ rev gd) n = Some gd.
Proof. exact lookup_unshadowed. Qed.
Print Assumptions C11_visible_binding.

Theorem C11_visible_binding_unguarded_refuted :
  exists root gv dims,
  dims_visible true (name_of gv (s "ta")) (map (fun d => name_of (fst d) (snd d)) dims) = true /\
  In ([], s "x") dims /\
  nc_lookup_dim root (rev gv) (s "x") <> Some [].
Proof. exact visible_but_shadowed. Qed.
Print Assumptions C11_visible_binding_unguarded_refuted.

(* THE RULES TABLE as it is in config.py now: with any of its rules the renaming pass of a
   non-strict flattening (the mode cfdm.read uses) never raises. *)
Theorem C11_rules_total :
  forall hash root name rl x,
  lookup_rules name flattening_rules_table = Some rl -> adapt hash root rl false x <> RExc.
Proof. exact adapt_total. Qed.
Print Assumptions C11_rules_total.

(* UN-FLATTENING.  From one entry "flattened name: absolute path" of the mapping attributes the
   reader recovers exactly the group path, the name it records on the construct (the absolute
   path, or the bare name in the root group) and the basename - for variables and (repaired
   code, F11c) for dimensions. *)
Theorem C11_unflatten :
  forall hash p n, free slash (p ++ [n]) -> short p n ->
  unflatten_var (flat_name hash p n) (pathname p n) =
    (p, match p with [] => n | _ => pathname p n end, n).
Proof. exact unflatten_var_spec. Qed.
Print Assumptions C11_unflatten.

Theorem C11_unflatten_dimension :
  forall hash p n, free slash (p ++ [n]) -> short p n ->
  unflatten_dim_gen true (flat_name hash p n) (pathname p n) =
    (p, match p with [] => n | _ => pathname p n end, n).
Proof. exact unflatten_dim_spec. Qed.
Print Assumptions C11_unflatten_dimension.
