(* C20 - executable model of cfdm's process-wide settings.
   Anchors: cfdm/functions.py (ConstantAccess.__new__, atol/rtol/log_level
   _parse, Constant.__exit__, Configuration.__exit__, _configuration,
   _reset_log_emergence_level, _disable_logging) and cfdm/decorators.py
   (_manage_log_level_via_verbosity).  Definitions only; proofs are in
   Lemmas.v.  The level table comes from Tables/LogLevels.v, regenerated from
   /repo on every run. *)
From CfdmV Require Import Common.Base Tables.LogLevels.
Open Scope Z_scope.
Open Scope string_scope.

Record gstate := mkG {
  g_level : string;   (* CONSTANTS["LOG_LEVEL"] *)
  g_disable : Z;      (* logging.root.manager.disable *)
  g_root : Z;         (* logging.getLogger().level *)
  g_calls : nat;      (* the decorator's calls[0] counter *)
  g_atol : Z;         (* CONSTANTS["ATOL"], an opaque token *)
  g_rtol : Z          (* CONSTANTS["RTOL"] *)
}.

Definition set_disable (d : Z) (s : gstate) : gstate :=
  mkG (g_level s) d (g_root s) (g_calls s) (g_atol s) (g_rtol s).
Definition set_root (r : Z) (s : gstate) : gstate :=
  mkG (g_level s) (g_disable s) r (g_calls s) (g_atol s) (g_rtol s).
Definition set_level (l : string) (s : gstate) : gstate :=
  mkG l (g_disable s) (g_root s) (g_calls s) (g_atol s) (g_rtol s).
Definition set_calls (c : nat) (s : gstate) : gstate :=
  mkG (g_level s) (g_disable s) (g_root s) c (g_atol s) (g_rtol s).
Definition set_atol (a : Z) (s : gstate) : gstate :=
  mkG (g_level s) (g_disable s) (g_root s) (g_calls s) a (g_rtol s).
Definition set_rtol (a : Z) (s : gstate) : gstate :=
  mkG (g_level s) (g_disable s) (g_root s) (g_calls s) (g_atol s) a.

(* ---- the enum ---------------------------------------------------------- *)
Definition valid_name (n : string) : bool :=
  match assoc n valid_log_levels with Some _ => true | None => false end.

Fixpoint name_of_value (z : Z) (l : list (string * Z)) : option string :=
  match l with
  | [] => None
  | (n, v) :: r => if Z.eqb z v then Some n else name_of_value z r
  end.

(* _is_valid_log_level_int (raises ValueError itself on an invalid int, which
   every caller turns into / lets through as a ValueError) *)
Definition valid_int (z : Z) : bool :=
  match name_of_value z valid_log_levels with Some _ => true | None => false end.

(* _disable_logging(at_level="NOTSET") / _disable_logging() *)
Definition enable_logging (s : gstate) := set_disable logging_NOTSET s.
Definition disable_logging (s : gstate) := set_disable logging_CRITICAL s.

(* _reset_log_emergence_level(level-name) for the root logger.  For a name
   that is neither DISABLE nor a Python logging level the real code raises
   AttributeError; [level_table_total] in Lemmas.v shows no valid name gets
   there, so the model returns the state unchanged in that unreachable case. *)
Definition reset_level (n : string) (s : gstate) : gstate :=
  if String.eqb n "DISABLE" then disable_logging s
  else match assoc n python_logging_levels with
       | Some l => set_root l (enable_logging s)
       | None => s
       end.

Definition reset_level_int (z : Z) (s : gstate) : gstate :=
  match name_of_value z valid_log_levels with
  | Some n => reset_level n s
  | None => s
  end.

(* ---- the verbosity decorator ------------------------------------------- *)
Inductive verbose := VNone | VInt (z : Z) | VStr (s : string) | VBool (b : bool).

(* None = the call raises ValueError; Some None = verbose is None *)
Definition normalise (v : verbose) : option (option Z) :=
  let conv :=
    match v with
    | VNone => Some None
    | VInt z => Some (Some z)
    | VStr s => match assoc (upper s) valid_log_levels with
                | Some z => Some (Some z)
                | None => None
                end
    | VBool true => Some (Some 3)
    | VBool false => Some (Some 0)
    end in
  match conv with
  | Some (Some z) => if valid_int z then conv else None
  | _ => conv
  end.

Inductive outcome := Returned | Raised.

Inductive call := Call (v : verbose) (b : body)
with body :=
| Ret
| Raise
| Then (c : call) (catch : bool) (k : body).

Definition is_zero_or_none (vo : option Z) : bool :=
  match vo with None => true | Some z => Z.eqb z 0 end.
Definition is_zero (vo : option Z) : bool :=
  match vo with None => false | Some z => Z.eqb z 0 end.

(* The decorator as it stands in /repo (after the "fix:" commit that validates
   before counting and always restores from the global level on the outermost
   exit, then lifts the deactivation when the outermost verbose is 0). *)
Fixpoint run_call (c : call) (s : gstate) : gstate * outcome :=
  match c with
  | Call v b =>
    match normalise v with
    | None => (s, Raised)
    | Some vo =>
      let s1 := set_calls (S (g_calls s)) s in
      let s2 := match vo with Some z => reset_level_int z s1 | None => s1 end in
      let s3 := if String.eqb (g_level s2) "DISABLE" && negb (is_zero_or_none vo)
                then enable_logging s2 else s2 in
      let (s4, o) := run_body b s3 in
      let s5 := set_calls (pred (g_calls s4)) s4 in
      let s6 := if Nat.eqb (g_calls s5) 0
                then let r := reset_level (g_level s5) s5 in
                     (* "lift deactivation": kept from the original code because
                        the repository's own test-suite relies on it (F20c) *)
                     if is_zero vo then enable_logging r else r
                else s5 in
      (s6, o)
    end
  end
with run_body (b : body) (s : gstate) : gstate * outcome :=
  match b with
  | Ret => (s, Returned)
  | Raise => (s, Raised)
  | Then c catch k =>
    let (s1, o) := run_call c s in
    match o with
    | Returned => run_body k s1
    | Raised => if catch then run_body k s1 else (s1, Raised)
    end
  end.

(* The decorator as it was at the pinned commit (kept for the refutation
   witnesses F20a/F20b/F20c in Refuted.v). *)
Fixpoint run_call_old (c : call) (s : gstate) : gstate * outcome :=
  match c with
  | Call v b =>
    let s1 := set_calls (S (g_calls s)) s in
    match normalise v with
    | None => (s1, Raised)
    | Some vo =>
      let s2 := match vo with Some z => reset_level_int z s1 | None => s1 end in
      let s3 := if String.eqb (g_level s2) "DISABLE" && negb (is_zero_or_none vo)
                then enable_logging s2 else s2 in
      let (s4, o) := run_body_old b s3 in
      let s5 := set_calls (pred (g_calls s4)) s4 in
      let s6 :=
        if Nat.eqb (g_calls s5) 0 then
          let s6a := match vo with
                     | Some z => if Z.eqb z 0 then enable_logging s5
                                 else reset_level (g_level s5) s5
                     | None => s5
                     end in
          if String.eqb (g_level s6a) "DISABLE"
             && negb (match vo with Some z => Z.eqb z 0 | None => false end)
          then disable_logging s6a else s6a
        else s5 in
      (s6, o)
    end
  end
with run_body_old (b : body) (s : gstate) : gstate * outcome :=
  match b with
  | Ret => (s, Returned)
  | Raise => (s, Raised)
  | Then c catch k =>
    let (s1, o) := run_call_old c s in
    match o with
    | Returned => run_body_old k s1
    | Raised => if catch then run_body_old k s1 else (s1, Raised)
    end
  end.

(* ---- constants and context managers ------------------------------------ *)
Inductive ckey := KAtol | KRtol | KLevel.

(* a value offered to a setter *)
Inductive newval :=
| NNum (z : Z)         (* a number (token) *)
| NName (s : string)   (* a string *)
| NBad.                (* anything float() / the level parser rejects with ValueError *)

(* old values returned by the setters *)
Inductive oldval := ONum (z : Z) | OName (s : string).

Definition parse_tol (v : newval) : option Z :=
  match v with NNum z => Some z | _ => None end.

(* log_level._parse: a string is upper-cased; a valid enum integer becomes its
   name; anything else is rejected.  Returns the name to store. *)
Definition parse_level (v : newval) : option string :=
  match v with
  | NName s => if valid_name (upper s) then Some (upper s) else None
  | NNum z => name_of_value z valid_log_levels
  | NBad => None
  end.

Definition get_const (k : ckey) (s : gstate) : oldval :=
  match k with
  | KAtol => ONum (g_atol s)
  | KRtol => ONum (g_rtol s)
  | KLevel => OName (g_level s)
  end.

(* ConstantAccess.__new__(cls, arg): Some (new state, old value), or None when
   _parse raises ValueError (state untouched). *)
Definition set_const (k : ckey) (v : newval) (s : gstate) : option (gstate * oldval) :=
  match k with
  | KAtol => match parse_tol v with
             | Some z => Some (set_atol z s, ONum (g_atol s)) | None => None end
  | KRtol => match parse_tol v with
             | Some z => Some (set_rtol z s, ONum (g_rtol s)) | None => None end
  | KLevel => match parse_level v with
              | Some n => Some (set_level n (reset_level n s), OName (g_level s))
              | None => None end
  end.

Definition newval_of_old (o : oldval) : newval :=
  match o with ONum z => NNum z | OName n => NName n end.

(* Constant.__exit__: self._func(self.value) *)
Definition restore_const (k : ckey) (o : oldval) (s : gstate) : gstate :=
  match set_const k (newval_of_old o) s with
  | Some (s', _) => s'
  | None => s
  end.

(* _configuration(new_atol, new_rtol, new_log_level): setters run in keyword
   order; on ValueError those already changed are rolled back.  Returns the new
   state and the old configuration, or the rolled-back state and None. *)
Definition try_set (k : ckey) (v : option newval) (st : gstate) : option gstate :=
  match v with
  | None => Some st
  | Some nv => match set_const k nv st with Some (st', _) => Some st' | None => None end
  end.

Definition config_set (a r l : option newval) (s : gstate)
  : gstate * option (oldval * oldval * oldval) :=
  let old := (get_const KAtol s, get_const KRtol s, get_const KLevel s) in
  let undo (k : ckey) (v : option newval) (st : gstate) :=
    match v with Some _ => restore_const k (get_const k s) st | None => st end in
  match try_set KAtol a s with
  | None => (s, None)
  | Some sa =>
    match try_set KRtol r sa with
    | None => (undo KAtol a sa, None)
    | Some sr =>
      match try_set KLevel l sr with
      | None => (undo KRtol r (undo KAtol a sr), None)
      | Some sl => (sl, Some old)
      end
    end
  end.

(* Configuration.__exit__: self._func applied to the saved mapping *)
Definition config_restore (old : oldval * oldval * oldval) (s : gstate) : gstate :=
  let '(oa, or_, ol) := old in
  fst (config_set (Some (newval_of_old oa)) (Some (newval_of_old or_))
                  (Some (newval_of_old ol)) s).

(* A block of statements as a user writes them. *)
Inductive stmt :=
| SSet (k : ckey) (v : newval)                       (* cfdm.atol(v) *)
| SWith (k : ckey) (v : newval) (b : block)          (* with cfdm.atol(v): b *)
| SWithConfig (a r l : option newval) (b : block)    (* with cfdm.configuration(..): b *)
| SCall (c : call)                                   (* a decorated call *)
| SRaise                                             (* raise inside the block *)
with block :=
| BNil
| BCons (st : stmt) (k : block).

Fixpoint run_stmt (st : stmt) (s : gstate) : gstate * outcome :=
  match st with
  | SSet k v => match set_const k v s with
                | Some (s', _) => (s', Returned)
                | None => (s, Raised)
                end
  | SWith k v b =>
    match set_const k v s with
    | None => (s, Raised)
    | Some (s1, old) =>
      let (s2, o) := run_block b s1 in
      (restore_const k old s2, o)
    end
  | SWithConfig a r l b =>
    match config_set a r l s with
    | (s1, None) => (s1, Raised)
    | (s1, Some old) =>
      let (s2, o) := run_block b s1 in
      (config_restore old s2, o)
    end
  | SCall c => run_call c s
  | SRaise => (s, Raised)
  end
with run_block (b : block) (s : gstate) : gstate * outcome :=
  match b with
  | BNil => (s, Returned)
  | BCons st k =>
    let (s1, o) := run_stmt st s in
    match o with
    | Returned => run_block k s1
    | Raised => (s1, Raised)
    end
  end.

(* ---- what a user can observe ------------------------------------------- *)
(* The root logger's level is part of the observable state only while logging
   is not globally disabled: under LOG_LEVEL = DISABLE every record is dropped
   whatever the root level is, and leaving DISABLE through cfdm sets it anew. *)
Definition obs (s : gstate) : string * Z * Z * Z * Z :=
  (g_level s, g_disable s,
   if String.eqb (g_level s) "DISABLE" then 0 else g_root s,
   g_atol s, g_rtol s).

(* States reachable through cfdm.log_level alone. *)
Definition consistent (s : gstate) : Prop :=
  valid_name (g_level s) = true /\
  g_disable s = (if String.eqb (g_level s) "DISABLE" then logging_CRITICAL else logging_NOTSET) /\
  (String.eqb (g_level s) "DISABLE" = false ->
   assoc (g_level s) python_logging_levels = Some (g_root s)).

Definition consistentb (s : gstate) : bool :=
  valid_name (g_level s) &&
  Z.eqb (g_disable s) (if String.eqb (g_level s) "DISABLE" then logging_CRITICAL else logging_NOTSET) &&
  (String.eqb (g_level s) "DISABLE" ||
   option_eqb Z.eqb (assoc (g_level s) python_logging_levels) (Some (g_root s))).

(* the outermost verbose value of a call normalises to 0 (F20c guard) *)
Definition v0 (c : call) : bool :=
  match c with Call v _ =>
    match normalise v with Some vo => is_zero vo | None => false end
  end.

Fixpoint no_top_v0_stmt (st : stmt) : bool :=
  match st with
  | SSet _ _ => true
  | SWith _ _ b => no_top_v0 b
  | SWithConfig _ _ _ b => no_top_v0 b
  | SCall c => negb (v0 c)
  | SRaise => true
  end
with no_top_v0 (b : block) : bool :=
  match b with
  | BNil => true
  | BCons st k => no_top_v0_stmt st && no_top_v0 k
  end.

(* no bare setter anywhere: only with-blocks, decorated calls and raises *)
Fixpoint bracketed_stmt (st : stmt) : bool :=
  match st with
  | SSet _ _ => false
  | SWith _ _ b => bracketed b
  | SWithConfig _ _ _ b => bracketed b
  | SCall _ => true
  | SRaise => true
  end
with bracketed (b : block) : bool :=
  match b with
  | BNil => true
  | BCons st k => bracketed_stmt st && bracketed k
  end.
