(* C20 - what is in force DURING a decorated call: the decorator of Model.v
   re-expressed with its entry and exit steps named, producing the sequence of
   (level, disable, root) triples that code running inside the call would see
   at the start of each body and after each nested call has returned or been
   caught.  Definitions only; proofs are in TraceLemmas.v. *)
From CfdmV Require Import Common.Base Tables.LogLevels C20.Model.
Open Scope Z_scope.
Open Scope string_scope.

Definition probe := (string * Z * Z)%type.
Definition triple (s : gstate) : probe := (g_level s, g_disable s, g_root s).

(* what the wrapper does before calling the function *)
Definition entry (vo : option Z) (s : gstate) : gstate :=
  let s1 := set_calls (S (g_calls s)) s in
  let s2 := match vo with Some z => reset_level_int z s1 | None => s1 end in
  if String.eqb (g_level s2) "DISABLE" && negb (is_zero_or_none vo)
  then enable_logging s2 else s2.

(* ... and in its finally clause *)
Definition leave (vo : option Z) (s4 : gstate) : gstate :=
  let s5 := set_calls (pred (g_calls s4)) s4 in
  if Nat.eqb (g_calls s5) 0
  then let r := reset_level (g_level s5) s5 in
       if is_zero vo then enable_logging r else r
  else s5.

Fixpoint trace_call (c : call) (s : gstate) : gstate * outcome * list probe :=
  match c with
  | Call v b =>
    match normalise v with
    | None => (s, Raised, [])
    | Some vo =>
      let s3 := entry vo s in
      let '(s4, o, tr) := trace_body b s3 in
      (leave vo s4, o, triple s3 :: tr)
    end
  end
with trace_body (b : body) (s : gstate) : gstate * outcome * list probe :=
  match b with
  | Ret => (s, Returned, [])
  | Raise => (s, Raised, [])
  | Then c catch k =>
    let '(s1, o, tr1) := trace_call c s in
    match o with
    | Returned => let '(s2, o2, tr2) := trace_body k s1 in (s2, o2, (tr1 ++ triple s1 :: tr2)%list)
    | Raised => if catch
                then let '(s2, o2, tr2) := trace_body k s1 in (s2, o2, (tr1 ++ triple s1 :: tr2)%list)
                else (s1, Raised, tr1)
    end
  end.

(* The same transformation on the triple alone. *)
Definition tr_reset (n : string) (t : probe) : probe :=
  let '(l, d, r) := t in
  if String.eqb n "DISABLE" then (l, logging_CRITICAL, r)
  else match assoc n python_logging_levels with
       | Some x => (l, logging_NOTSET, x)
       | None => t
       end.

Definition tr_reset_int (z : Z) (t : probe) : probe :=
  match name_of_value z valid_log_levels with
  | Some n => tr_reset n t
  | None => t
  end.

Definition etr (vo : option Z) (t : probe) : probe :=
  let t2 := match vo with Some z => tr_reset_int z t | None => t end in
  let '(l, d, r) := t2 in
  if String.eqb l "DISABLE" && negb (is_zero_or_none vo) then (l, logging_NOTSET, r) else t2.

(* Nested calls as cfdm makes them: the verbosity of the outer call is handed
   down unchanged, or not at all (or is rejected before anything happens). *)
Definition same_or_none (z : Z) (v : verbose) : bool :=
  match normalise v with
  | None => true
  | Some None => true
  | Some (Some z') => Z.eqb z' z
  end.

Fixpoint compat (z : Z) (c : call) : bool :=
  match c with Call v b => same_or_none z v && compat_body z b end
with compat_body (z : Z) (b : body) : bool :=
  match b with
  | Ret => true
  | Raise => true
  | Then c _ k => compat z c && compat_body z k
  end.

(* A decorator with one nesting counter PER DECORATED FUNCTION, seen from a
   chain of distinct functions: every function's own counter returns to zero
   at its own exit, so every exit re-imposes the global level. *)
Definition leave_pf (vo : option Z) (s4 : gstate) : gstate :=
  let s5 := set_calls (pred (g_calls s4)) s4 in
  let r := reset_level (g_level s5) s5 in
  if is_zero vo then enable_logging r else r.

Fixpoint trace_call_pf (c : call) (s : gstate) : gstate * outcome * list probe :=
  match c with
  | Call v b =>
    match normalise v with
    | None => (s, Raised, [])
    | Some vo =>
      let s3 := entry vo s in
      let '(s4, o, tr) := trace_body_pf b s3 in
      (leave_pf vo s4, o, triple s3 :: tr)
    end
  end
with trace_body_pf (b : body) (s : gstate) : gstate * outcome * list probe :=
  match b with
  | Ret => (s, Returned, [])
  | Raise => (s, Raised, [])
  | Then c catch k =>
    let '(s1, o, tr1) := trace_call_pf c s in
    match o with
    | Returned => let '(s2, o2, tr2) := trace_body_pf k s1 in (s2, o2, (tr1 ++ triple s1 :: tr2)%list)
    | Raised => if catch
                then let '(s2, o2, tr2) := trace_body_pf k s1 in (s2, o2, (tr1 ++ triple s1 :: tr2)%list)
                else (s1, Raised, tr1)
    end
  end.
