(* C20 - proofs about what is in force during a decorated call (Trace.v). *)
From CfdmV Require Import Common.Base Tables.LogLevels C20.Model C20.Lemmas C20.Trace.
Open Scope Z_scope.
Open Scope string_scope.

(* trace_call is run_call with the probes added *)
Lemma trace_erasure :
  (forall c s, (fst (fst (trace_call c s)), snd (fst (trace_call c s))) = run_call c s) /\
  (forall b s, (fst (fst (trace_body b s)), snd (fst (trace_body b s))) = run_body b s).
Proof.
  apply call_body_ind.
  - intros v b IHb s. cbn [trace_call run_call].
    destruct (normalise v) as [vo|]; [|reflexivity].
    fold (entry vo s). specialize (IHb (entry vo s)).
    destruct (trace_body b (entry vo s)) as [[s4 o] tr]. cbn [fst snd] in *.
    rewrite <- IHb. reflexivity.
  - reflexivity.
  - reflexivity.
  - intros c IHc catch k IHk s. cbn [trace_body run_body]. specialize (IHc s).
    destruct (trace_call c s) as [[s1 o] tr1]. cbn [fst snd] in IHc. rewrite <- IHc.
    destruct o.
    + specialize (IHk s1). destruct (trace_body k s1) as [[s2 o2] tr2]. exact IHk.
    + destruct catch; [|reflexivity].
      specialize (IHk s1). destruct (trace_body k s1) as [[s2 o2] tr2]. exact IHk.
Qed.

(* ---- the entry step on the triple --------------------------------------- *)
Lemma triple_reset_level n s : triple (reset_level n s) = tr_reset n (triple s).
Proof.
  unfold reset_level, tr_reset, triple. destruct (String.eqb n "DISABLE"); [reflexivity|].
  destruct (assoc n python_logging_levels); reflexivity.
Qed.

Lemma triple_reset_level_int z s : triple (reset_level_int z s) = tr_reset_int z (triple s).
Proof.
  unfold reset_level_int, tr_reset_int.
  destruct (name_of_value z valid_log_levels); [apply triple_reset_level|reflexivity].
Qed.

Lemma triple_set_calls n s : triple (set_calls n s) = triple s.
Proof. reflexivity. Qed.

Lemma entry_triple vo s : triple (entry vo s) = etr vo (triple s).
Proof.
  unfold entry, etr.
  set (s1 := set_calls (S (g_calls s)) s).
  set (s2 := match vo with Some z => reset_level_int z s1 | None => s1 end).
  assert (E2 : triple s2 = match vo with Some z => tr_reset_int z (triple s) | None => triple s end).
  { unfold s2. destruct vo as [z|]; [|reflexivity]. now rewrite triple_reset_level_int. }
  rewrite <- E2. unfold triple at 2.
  destruct (String.eqb (g_level s2) "DISABLE" && negb (is_zero_or_none vo)); reflexivity.
Qed.

Lemma entry_calls vo s : g_calls (entry vo s) = S (g_calls s).
Proof.
  pose proof (proj1 run_core (Call VNone Ret) s) as _.
  unfold entry.
  set (s1 := set_calls (S (g_calls s)) s).
  set (s2 := match vo with Some z => reset_level_int z s1 | None => s1 end).
  assert (C2 : g_calls s2 = S (g_calls s)).
  { unfold s2. destruct vo as [z|]; [|reflexivity].
    destruct (reset_level_int_fields z s1) as (_ & B & _). rewrite B. reflexivity. }
  destruct (String.eqb (g_level s2) "DISABLE" && negb (is_zero_or_none vo)); [|exact C2].
  unfold enable_logging, set_disable. cbn [g_calls]. exact C2.
Qed.

Lemma etr_none t : etr None t = t.
Proof. unfold etr. destruct t as [[l d] r]. cbn. now rewrite andb_false_r. Qed.

Lemma etr_idem z t : etr (Some z) (etr (Some z) t) = etr (Some z) t.
Proof.
  destruct t as [[l d] r]. unfold etr, tr_reset_int.
  generalize (negb (is_zero_or_none (Some z))). intro q.
  destruct (name_of_value z valid_log_levels) as [n|]; unfold tr_reset;
    [destruct (String.eqb n "DISABLE"); [|destruct (assoc n python_logging_levels)]|];
    destruct (String.eqb l "DISABLE") eqn:El; destruct q; cbn; rewrite ?El; reflexivity.
Qed.

(* the exit step of a nested call changes nothing but the counter *)
Lemma leave_nested vo s4 n :
  g_calls s4 = S (S n) -> triple (leave vo s4) = triple s4 /\ g_calls (leave vo s4) = S n.
Proof.
  intros H. unfold leave. cbn [g_calls set_calls]. rewrite H. cbn [pred Nat.eqb]. split; reflexivity.
Qed.

(* ---- nested calls that hand the verbosity down unchanged ----------------- *)
Lemma compat_transparent z :
  (forall c s T, (0 < g_calls s)%nat -> compat z c = true -> triple s = T -> etr (Some z) T = T ->
     triple (fst (fst (trace_call c s))) = T /\
     g_calls (fst (fst (trace_call c s))) = g_calls s /\
     Forall (eq T) (snd (trace_call c s))) /\
  (forall b s T, (0 < g_calls s)%nat -> compat_body z b = true -> triple s = T -> etr (Some z) T = T ->
     triple (fst (fst (trace_body b s))) = T /\
     g_calls (fst (fst (trace_body b s))) = g_calls s /\
     Forall (eq T) (snd (trace_body b s))).
Proof.
  apply call_body_ind.
  - intros v b IHb s T Hpos Hc Ht Hidem. cbn [trace_call]. cbn [compat] in Hc.
    apply andb_prop in Hc as [Hv Hb]. unfold same_or_none in Hv.
    destruct (normalise v) as [vo|]; [|cbn; auto].
    assert (E3 : triple (entry vo s) = T).
    { rewrite entry_triple, Ht. destruct vo as [z'|]; [|apply etr_none].
      apply Z.eqb_eq in Hv. subst z'. exact Hidem. }
    assert (K3 : g_calls (entry vo s) = S (g_calls s)) by apply entry_calls.
    assert (P3 : (0 < g_calls (entry vo s))%nat) by (rewrite K3; apply Nat.lt_0_succ).
    specialize (IHb (entry vo s) T P3 Hb E3 Hidem).
    destruct (trace_body b (entry vo s)) as [[s4 o] tr]. cbn [fst snd] in *.
    destruct IHb as (A & B & C). rewrite K3 in B.
    destruct (g_calls s) as [|n] eqn:En; [inversion Hpos|].
    destruct (leave_nested vo s4 n B) as (L1 & L2).
    split; [now rewrite L1|]. split; [exact L2|].
    constructor; [now rewrite E3|exact C].
  - intros s T _ _ Ht _. cbn. auto.
  - intros s T _ _ Ht _. cbn. auto.
  - intros c IHc catch k IHk s T Hpos Hc Ht Hidem. cbn [trace_body]. cbn [compat_body] in Hc.
    apply andb_prop in Hc as [Hc Hk].
    specialize (IHc s T Hpos Hc Ht Hidem).
    destruct (trace_call c s) as [[s1 o] tr1]. cbn [fst snd] in IHc.
    destruct IHc as (A & B & C).
    assert (P1 : (0 < g_calls s1)%nat) by now rewrite B.
    specialize (IHk s1 T P1 Hk A Hidem).
    assert (G : forall s2 (tr2 : list probe),
              triple s2 = T /\ g_calls s2 = g_calls s1 /\ Forall (eq T) tr2 ->
              triple s2 = T /\ g_calls s2 = g_calls s /\ Forall (eq T) (tr1 ++ triple s1 :: tr2)%list).
    { intros s2 tr2 (X & Y & Z). split; [exact X|]. split; [now rewrite Y|].
      apply Forall_app. split; [exact C|]. constructor; [now rewrite A|exact Z]. }
    destruct o.
    + destruct (trace_body k s1) as [[s2 o2] tr2]. cbn [fst snd] in *. now apply (G s2 tr2).
    + destruct catch.
      * destruct (trace_body k s1) as [[s2 o2] tr2]. cbn [fst snd] in *. now apply (G s2 tr2).
      * cbn [fst snd]. auto.
Qed.

(* The verbosity given to a call is what is in force at every point of that
   call: at the start of its body and after each nested call has returned, or
   raised and been caught - at any nesting depth, for nested calls that hand the
   same verbosity down or give none. *)
Lemma override_persists v b s z :
  normalise v = Some (Some z) -> compat_body z b = true ->
  Forall (eq (etr (Some z) (triple s))) (snd (trace_call (Call v b) s)).
Proof.
  intros Hn Hb. cbn [trace_call]. rewrite Hn.
  set (T := etr (Some z) (triple s)).
  assert (E3 : triple (entry (Some z) s) = T) by apply entry_triple.
  assert (P3 : (0 < g_calls (entry (Some z) s))%nat) by (rewrite entry_calls; apply Nat.lt_0_succ).
  assert (Hidem : etr (Some z) T = T) by apply etr_idem.
  pose proof (proj2 (compat_transparent z) b (entry (Some z) s) T P3 Hb E3 Hidem) as (_ & _ & C).
  destruct (trace_body b (entry (Some z) s)) as [[s4 o] tr]. cbn [fst snd] in *.
  constructor; [now rewrite E3|exact C].
Qed.

(* non-vacuity: a three-level chain, with a raise caught on the way *)
Definition chain3 : call :=
  Call (VInt 3)
    (Then (Call VNone (Then (Call (VStr "DeTaIl") Raise) true Ret)) false
    (Then (Call (VBool true) Ret) false Ret)).

Definition base_warning : gstate :=
  set_level "WARNING" (reset_level "WARNING" (mkG "WARNING" 0 0 0 1000 2000)).

Lemma override_persists_example :
  normalise (VInt 3) = Some (Some 3) /\
  compat 3 chain3 = true /\
  snd (trace_call chain3 base_warning) =
    [("WARNING", 0, 15); ("WARNING", 0, 15); ("WARNING", 0, 15); ("WARNING", 0, 15);
     ("WARNING", 0, 15); ("WARNING", 0, 15); ("WARNING", 0, 15)] /\
  triple (fst (fst (trace_call chain3 base_warning))) = ("WARNING", 0, 30).
Proof. vm_compute. repeat split; reflexivity. Qed.

(* With one counter per decorated function the override is lost as soon as a
   nested call (of another function) returns: the global level is re-imposed
   in the middle of the outer call. *)
Lemma per_function_counter_refuted :
  exists v b s z, normalise v = Some (Some z) /\ compat_body z b = true /\
    ~ Forall (eq (etr (Some z) (triple s))) (snd (trace_call_pf (Call v b) s)).
Proof.
  exists (VInt 3), (Then (Call VNone Ret) false Ret), base_warning, 3.
  split; [reflexivity|]. split; [reflexivity|].
  intros H. vm_compute in H.
  inversion H as [|x l H1 H2]; subst. inversion H2 as [|x2 l2 H3 H4]; subst.
  inversion H4 as [|x3 l3 H5 H6]; subst. discriminate H5.
Qed.
