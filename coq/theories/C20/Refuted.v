(* C20 - the decorator as it stood at the pinned commit does NOT satisfy
   C20_verbose_scoped.  Witnesses (each replayed against the implementation
   before the "fix:" commit; see known_findings.json, entries marked fixed). *)
From CfdmV Require Import Common.Base Tables.LogLevels C20.Model C20.Run.
Open Scope Z_scope.
Open Scope string_scope.

(* F20a: an invalid verbose leaks the counter, so the next call's override is
   never undone. *)
Theorem C20_old_invalid_verbose_leaks_refuted :
  exists c1 c2, let s1 := fst (run_call_old c1 base) in
    g_calls s1 <> 0%nat /\ obs (fst (run_call_old c2 s1)) <> obs base.
Proof.
  exists (Call (VStr "bad") Ret), (Call (VInt 3) Ret). vm_compute. split; discriminate.
Qed.

(* F20b: outer verbose=None, inner verbose=3: the level stays at DETAIL. *)
Theorem C20_old_nested_override_leaks_refuted :
  exists c, consistentb base = true /\ obs (fst (run_call_old c base)) <> obs base.
Proof.
  exists (Call VNone (Then (Call (VInt 3) Ret) false Ret)). vm_compute. split; [reflexivity|discriminate].
Qed.

(* F20c: global level DISABLE, verbose=0: logging is left enabled. *)
Theorem C20_old_disable_verbose0_refuted :
  exists c, let s := set_level "DISABLE" (reset_level "DISABLE" base) in
    consistentb s = true /\ obs (fst (run_call_old c s)) <> obs s.
Proof.
  exists (Call (VInt 0) Ret). vm_compute. split; [reflexivity|discriminate].
Qed.
