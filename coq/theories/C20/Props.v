(* C20 - the property theorems, nothing else.  Each is closed by [exact] of a
   lemma from Lemmas.v and followed by Print Assumptions. *)
From CfdmV Require Import Common.Base Tables.LogLevels C20.Model C20.Lemmas C20.Trace C20.TraceLemmas.
Open Scope Z_scope.
Open Scope string_scope.

(* Setting a constant returns its previous value. *)
Theorem C20_setter_returns_old :
  forall k v s s' o, set_const k v s = Some (s', o) -> o = get_const k s.
Proof. exact setter_returns_old. Qed.
Print Assumptions C20_setter_returns_old.

(* `with cfdm.<constant>(v): <any block>` restores that constant on exit,
   whether the block completes or raises and whatever it does inside. *)
Theorem C20_with_restores_constant :
  forall k v b s, consistent s -> g_calls s = 0%nat ->
  get_const k (fst (run_stmt (SWith k v b) s)) = get_const k s.
Proof. exact with_restores_constant. Qed.
Print Assumptions C20_with_restores_constant.

(* `with cfdm.configuration(...): <any block>` restores the whole observable
   state on exit, even if the block sets constants itself or raises. *)
Theorem C20_config_restores_all :
  forall a r l b s, consistent s -> g_calls s = 0%nat ->
  obs (fst (run_stmt (SWithConfig a r l b) s)) = obs s.
Proof. exact config_restores_all. Qed.
Print Assumptions C20_config_restores_all.

(* Any nesting of context managers, decorated calls and raises leaves the
   settings consistent and the counter at 0, and - when there is no bare
   setter - leaves the observable state as it was, for every depth.  Guard
   [no_top_v0]: no outermost decorated call whose verbose normalises to 0
   (F20c: under LOG_LEVEL=DISABLE such a call leaves logging enabled; the
   repository's own tests rely on that, see C20_verbose_scoped_unguarded_refuted). *)
Theorem C20_context_restores :
  forall b s, consistent s -> g_calls s = 0%nat -> no_top_v0 b = true ->
  consistent (fst (run_block b s)) /\ g_calls (fst (run_block b s)) = 0%nat /\
  (bracketed b = true -> obs (fst (run_block b s)) = obs s).
Proof. exact (proj2 run_blocks_good). Qed.
Print Assumptions C20_context_restores.

(* A rejected configuration() call changes nothing. *)
Theorem C20_config_atomic :
  forall a r l s, consistent s ->
  match config_set a r l s with
  | (s', None) => consistent s' /\ g_calls s' = g_calls s /\ obs s' = obs s
  | (s', Some old) => consistent s' /\ g_calls s' = g_calls s /\
                      old = (get_const KAtol s, get_const KRtol s, get_const KLevel s)
  end.
Proof. exact config_set_spec. Qed.
Print Assumptions C20_config_atomic.

(* A verbosity argument applies to that call only: for every call tree (any
   nesting depth, any verbose values valid or not, bodies returning or
   raising, exceptions caught or not) started outside any decorated call, the
   observable state afterwards is the state before and the counter is 0.
   Exact guard: not (LOG_LEVEL = DISABLE and outermost verbose = 0). *)
Theorem C20_verbose_scoped :
  forall c s, consistent s -> g_calls s = 0%nat ->
  String.eqb (g_level s) "DISABLE" && v0 c = false ->
  consistent (fst (run_call c s)) /\ g_calls (fst (run_call c s)) = 0%nat /\
  obs (fst (run_call c s)) = obs s.
Proof. exact run_call_outer. Qed.
Print Assumptions C20_verbose_scoped.

(* Without the guard the statement is false of the faithful model (F20c). *)
Theorem C20_verbose_scoped_unguarded_refuted :
  exists c s, consistentb s = true /\ g_calls s = 0%nat /\
              obs (fst (run_call c s)) <> obs s.
Proof. exact verbose_scoped_unguarded_refuted. Qed.
Print Assumptions C20_verbose_scoped_unguarded_refuted.

(* Non-vacuity: the guarded hypotheses are met by a concrete non-trivial call. *)
Theorem C20_verbose_scoped_example :
  exists c s, consistent s /\ g_calls s = 0%nat /\
    String.eqb (g_level s) "DISABLE" && v0 c = false /\
    fst (run_call c s) = s /\ snd (run_call c s) = Raised.
Proof. exact verbose_scoped_example. Qed.
Print Assumptions C20_verbose_scoped_example.

(* An invalid verbose value is rejected before anything is changed. *)
Theorem C20_invalid_verbose_no_effect :
  forall v b s, normalise v = None -> run_call (Call v b) s = (s, Raised).
Proof. exact invalid_verbose_no_effect. Qed.
Print Assumptions C20_invalid_verbose_no_effect.

(* Inside a decorated call the constants and the counter are untouched. *)
Theorem C20_calls_keep_constants :
  forall c s, core (fst (run_call c s)) = core s.
Proof. exact (proj1 run_core). Qed.
Print Assumptions C20_calls_keep_constants.

(* The decorator with its entry and exit steps named, producing what code
   running inside the call sees, is the decorator of Model.v. *)
Theorem C20_trace_is_run :
  forall c s, (fst (fst (trace_call c s)), snd (fst (trace_call c s))) = run_call c s.
Proof. exact (proj1 trace_erasure). Qed.
Print Assumptions C20_trace_is_run.

(* A verbosity argument applies for the WHOLE of that call: the logging state
   it establishes is in force at the start of the body and again after every
   nested call has returned, or raised and been caught, at any nesting depth,
   for nested calls that are handed the same verbosity or none (which is how
   cfdm's own functions call each other), from any state whatsoever. *)
Theorem C20_override_persists :
  forall v b s z, normalise v = Some (Some z) -> compat_body z b = true ->
  Forall (eq (etr (Some z) (triple s))) (snd (trace_call (Call v b) s)).
Proof. exact override_persists. Qed.
Print Assumptions C20_override_persists.

(* Non-vacuity: a three-level chain with a raise caught on the way. *)
Theorem C20_override_persists_example :
  normalise (VInt 3) = Some (Some 3) /\
  compat 3 chain3 = true /\
  snd (trace_call chain3 base_warning) =
    [("WARNING", 0, 15); ("WARNING", 0, 15); ("WARNING", 0, 15); ("WARNING", 0, 15);
     ("WARNING", 0, 15); ("WARNING", 0, 15); ("WARNING", 0, 15)] /\
  triple (fst (fst (trace_call chain3 base_warning))) = ("WARNING", 0, 30).
Proof. exact override_persists_example. Qed.
Print Assumptions C20_override_persists_example.

(* A nesting counter per decorated function (instead of the one shared counter)
   loses the override in the middle of the outer call. *)
Theorem C20_per_function_counter_refuted :
  exists v b s z, normalise v = Some (Some z) /\ compat_body z b = true /\
    ~ Forall (eq (etr (Some z) (triple s))) (snd (trace_call_pf (Call v b) s)).
Proof. exact per_function_counter_refuted. Qed.
Print Assumptions C20_per_function_counter_refuted.
