(* C20 - proofs about the model in Model.v. *)
From CfdmV Require Import Common.Base Tables.LogLevels C20.Model.
Open Scope Z_scope.
Open Scope string_scope.

Ltac splits := repeat match goal with |- _ /\ _ => split end.

(* ---- facts about the generated table (finite; re-proved on every run) --- *)
Lemma assoc_in {A} k (l : list (string * A)) v : assoc k l = Some v -> In (k, v) l.
Proof.
  induction l as [|[k' v'] r IH]; simpl; [discriminate|].
  destruct (String.eqb k k') eqn:E.
  - intros H; inversion H; subst. apply String.eqb_eq in E; subst. now left.
  - intros H; right; auto.
Qed.

Definition table_ok_entry (e : string * Z) : bool :=
  let (n, _) := e in
  (String.eqb n "DISABLE" ||
   match assoc n python_logging_levels with Some _ => true | None => false end)
  && String.eqb (upper n) n.

Lemma table_ok : forallb table_ok_entry valid_log_levels = true.
Proof. vm_compute. reflexivity. Qed.

(* everything below uses the tables only through [table_ok] *)
Local Opaque python_logging_levels valid_log_levels logging_CRITICAL logging_NOTSET.

Lemma valid_entry n : valid_name n = true ->
  (String.eqb n "DISABLE" = true \/ exists l, assoc n python_logging_levels = Some l)
  /\ upper n = n.
Proof.
  unfold valid_name. destruct (assoc n valid_log_levels) as [z|] eqn:E; [|discriminate].
  intros _. apply assoc_in in E.
  pose proof (proj1 (forallb_forall _ _) table_ok _ E) as H.
  unfold table_ok_entry in H. apply andb_true_iff in H as [H1 H2].
  split; [|now apply String.eqb_eq].
  apply orb_true_iff in H1 as [H1|H1]; [now left|right].
  destruct (assoc n python_logging_levels) as [l|]; [eauto|discriminate].
Qed.

Lemma name_of_value_valid z l n :
  name_of_value z l = Some n -> exists v, assoc n l = Some v.
Proof.
  induction l as [|[n' v'] r IH]; simpl; [discriminate|].
  destruct (Z.eqb z v') eqn:E.
  - intros H; inversion H; subst. rewrite String.eqb_refl. eauto.
  - intros H. destruct (String.eqb n n'); eauto.
Qed.

Lemma name_of_value_valid_name z n :
  name_of_value z valid_log_levels = Some n -> valid_name n = true.
Proof.
  intros H. apply name_of_value_valid in H as [v Hv]. unfold valid_name. now rewrite Hv.
Qed.

(* ---- canonical logging state for a global level ------------------------- *)
Lemma reset_level_consistent n s :
  valid_name n = true -> consistent (set_level n (reset_level n s)).
Proof.
  intros Hv. destruct (valid_entry n Hv) as [[Hd|[l Hl]] _]; unfold consistent, reset_level.
  - rewrite Hd. simpl. rewrite Hd. repeat split; auto. discriminate.
  - destruct (String.eqb n "DISABLE") eqn:Hd; simpl; rewrite ?Hd.
    + repeat split; auto. discriminate.
    + rewrite Hl. simpl. repeat split; auto.
Qed.

Lemma consistent_obs_canon s : consistent s ->
  obs s = (g_level s,
           (if String.eqb (g_level s) "DISABLE" then logging_CRITICAL else logging_NOTSET),
           (if String.eqb (g_level s) "DISABLE" then 0
            else match assoc (g_level s) python_logging_levels with Some l => l | None => 0 end),
           g_atol s, g_rtol s).
Proof.
  intros (Hv & Hd & Hr). unfold obs. rewrite Hd.
  destruct (String.eqb (g_level s) "DISABLE") eqn:E; [reflexivity|].
  now rewrite (Hr eq_refl).
Qed.

(* two consistent states with the same constants look the same *)
Lemma consistent_same_obs s t :
  consistent s -> consistent t -> g_level s = g_level t ->
  g_atol s = g_atol t -> g_rtol s = g_rtol t -> obs s = obs t.
Proof.
  intros Hs Ht El Ea Er. rewrite (consistent_obs_canon s Hs), (consistent_obs_canon t Ht).
  now rewrite El, Ea, Er.
Qed.

Lemma reset_level_fields n s :
  g_level (reset_level n s) = g_level s /\ g_calls (reset_level n s) = g_calls s /\
  g_atol (reset_level n s) = g_atol s /\ g_rtol (reset_level n s) = g_rtol s.
Proof.
  unfold reset_level. destruct (String.eqb n "DISABLE"); simpl; auto.
  destruct (assoc n python_logging_levels); simpl; auto.
Qed.

Lemma reset_level_int_fields z s :
  g_level (reset_level_int z s) = g_level s /\ g_calls (reset_level_int z s) = g_calls s /\
  g_atol (reset_level_int z s) = g_atol s /\ g_rtol (reset_level_int z s) = g_rtol s.
Proof.
  unfold reset_level_int. destruct (name_of_value z valid_log_levels); auto using reset_level_fields.
Qed.

(* the state that the outermost exit re-establishes *)
Lemma restore_from_global s :
  valid_name (g_level s) = true ->
  consistent (reset_level (g_level s) s).
Proof.
  intros Hv. pose proof (reset_level_consistent (g_level s) s Hv) as H.
  destruct (reset_level_fields (g_level s) s) as (El & _).
  assert (E : set_level (g_level s) (reset_level (g_level s) s) = reset_level (g_level s) s).
  { unfold set_level. rewrite <- El at 1. now destruct (reset_level (g_level s) s). }
  now rewrite E in H.
Qed.

(* ---- the decorator ------------------------------------------------------ *)
Definition core (s : gstate) := (g_level s, g_atol s, g_rtol s, g_calls s).

Scheme call_ind2 := Induction for call Sort Prop
  with body_ind2 := Induction for body Sort Prop.
Combined Scheme call_body_ind from call_ind2, body_ind2.

Lemma run_core :
  (forall c s, core (fst (run_call c s)) = core s) /\
  (forall b s, core (fst (run_body b s)) = core s).
Proof.
  apply call_body_ind.
  - intros v b IHb s. cbn [run_call]. destruct (normalise v) as [vo|]; [|reflexivity].
    set (s1 := set_calls (S (g_calls s)) s).
    set (s2 := match vo with Some z => reset_level_int z s1 | None => s1 end).
    set (s3 := if String.eqb (g_level s2) "DISABLE" && negb (is_zero_or_none vo)
               then enable_logging s2 else s2).
    specialize (IHb s3). destruct (run_body b s3) as [s4 o]. cbn [fst] in *.
    assert (C3 : core s3 = (g_level s, g_atol s, g_rtol s, S (g_calls s))).
    { assert (C2 : core s2 = core s1).
      { unfold s2. destruct vo as [z|]; [|reflexivity].
        destruct (reset_level_int_fields z s1) as (A & B & C & D). unfold core. now rewrite A, B, C, D. }
      unfold s3. destruct (_ && _); [|now rewrite C2]. unfold core, enable_logging. simpl.
      unfold core in C2. now inversion C2. }
    rewrite C3 in IHb. unfold core in IHb. inversion IHb as [[E1 E2 E3 E4]].
    set (s5 := set_calls (pred (g_calls s4)) s4).
    assert (C5 : core s5 = core s).
    { unfold core, s5. simpl. now rewrite E1, E2, E3, E4. }
    destruct (Nat.eqb (g_calls s5) 0); [|exact C5].
    destruct (reset_level_fields (g_level s5) s5) as (A & B & C & D).
    destruct (is_zero vo); unfold core, enable_logging, set_disable; cbn [g_level g_atol g_rtol g_calls]; rewrite A, B, C, D; exact C5.
  - reflexivity.
  - reflexivity.
  - intros c IHc catch k IHk s. cbn [run_body]. specialize (IHc s).
    destruct (run_call c s) as [s1 o]. cbn [fst] in IHc.
    destruct o; [|destruct catch]; try (rewrite IHk; exact IHc). exact IHc.
Qed.

Lemma enable_consistent_id r :
  consistent r -> String.eqb (g_level r) "DISABLE" = false -> enable_logging r = r.
Proof.
  intros (_ & Hd & _) E. rewrite E in Hd. destruct r; unfold enable_logging, set_disable; simpl in *.
  now rewrite Hd.
Qed.

Lemma run_call_outer c s :
  consistent s -> g_calls s = 0%nat ->
  String.eqb (g_level s) "DISABLE" && v0 c = false ->
  let s' := fst (run_call c s) in
  consistent s' /\ g_calls s' = 0%nat /\ obs s' = obs s.
Proof.
  intros Hc H0 Hg. destruct c as [v b]. cbn [run_call]. cbn [v0] in Hg.
  destruct (normalise v) as [vo|]; [|cbn; auto].
  set (s3 := if String.eqb _ "DISABLE" && negb (is_zero_or_none vo) then _ else _).
  pose proof (proj2 run_core b s3) as Cb.
  destruct (run_body b s3) as [s4 o]. cbn [fst] in *.
  assert (C3 : core s3 = (g_level s, g_atol s, g_rtol s, S (g_calls s))).
  { pose proof (proj1 run_core (Call v Ret) s) as _.
    unfold s3.
    set (s1 := set_calls (S (g_calls s)) s).
    set (s2 := match vo with Some z => reset_level_int z s1 | None => s1 end).
    assert (C2 : core s2 = core s1).
    { unfold s2. destruct vo as [z|]; [|reflexivity].
      destruct (reset_level_int_fields z s1) as (A & B & C & D). unfold core. now rewrite A, B, C, D. }
    destruct (String.eqb (g_level s2) "DISABLE" && negb (is_zero_or_none vo)); [|now rewrite C2].
    unfold core, enable_logging. simpl.
    unfold core in C2. now inversion C2. }
  rewrite C3 in Cb. unfold core in Cb. inversion Cb as [[E1 E2 E3 E4]].
  set (s5 := set_calls (pred (g_calls s4)) s4).
  assert (L5 : g_level s5 = g_level s) by (unfold s5; simpl; auto).
  assert (K5 : g_calls s5 = 0%nat) by (unfold s5; simpl; rewrite E4, H0; reflexivity).
  rewrite K5. cbn [Nat.eqb].
  destruct Hc as (Hv & Hd & Hr).
  assert (Hv5 : valid_name (g_level s5) = true) by now rewrite L5.
  pose proof (restore_from_global s5 Hv5) as Hc6.
  destruct (reset_level_fields (g_level s5) s5) as (A & B & C & D).
  assert (Ez : (if is_zero vo then enable_logging (reset_level (g_level s5) s5)
                else reset_level (g_level s5) s5) = reset_level (g_level s5) s5).
  { destruct (is_zero vo); [|reflexivity]. apply enable_consistent_id; [exact Hc6|].
    rewrite A, L5. apply andb_false_iff in Hg as [Hg|Hg]; [exact Hg|discriminate]. }
  rewrite Ez.
  split; [exact Hc6|]. split; [now rewrite B|].
  apply consistent_same_obs; auto.
  - repeat split; auto.
  - now rewrite A.
  - rewrite C. unfold s5; simpl; auto.
  - rewrite D. unfold s5; simpl; auto.
Qed.

Lemma invalid_verbose_no_effect v b s :
  normalise v = None -> run_call (Call v b) s = (s, Raised).
Proof. intros H. cbn [run_call]. now rewrite H. Qed.

(* ---- setters and context managers --------------------------------------- *)
Lemma setter_returns_old k v s s' o :
  set_const k v s = Some (s', o) -> o = get_const k s.
Proof.
  destruct k; simpl.
  - destruct (parse_tol v); intros H; inversion H; reflexivity.
  - destruct (parse_tol v); intros H; inversion H; reflexivity.
  - destruct (parse_level v); intros H; inversion H; reflexivity.
Qed.

Lemma parse_level_valid v n : parse_level v = Some n -> valid_name n = true.
Proof.
  destruct v as [z|str|]; simpl; try discriminate.
  - apply name_of_value_valid_name.
  - destruct (valid_name (upper str)) eqn:E; intros H; inversion H; subst; auto.
Qed.

Lemma consistent_set_atol z s : consistent s -> consistent (set_atol z s).
Proof. unfold consistent; simpl; auto. Qed.
Lemma consistent_set_rtol z s : consistent s -> consistent (set_rtol z s).
Proof. unfold consistent; simpl; auto. Qed.

Lemma set_const_consistent k v s s' o :
  consistent s -> set_const k v s = Some (s', o) ->
  consistent s' /\ g_calls s' = g_calls s.
Proof.
  intros Hc. destruct k; simpl.
  - destruct (parse_tol v); intros H; inversion H; subst; split; auto using consistent_set_atol.
  - destruct (parse_tol v); intros H; inversion H; subst; split; auto using consistent_set_rtol.
  - destruct (parse_level v) as [n|] eqn:E; intros H; inversion H; subst.
    split; [apply reset_level_consistent; eauto using parse_level_valid|].
    simpl. apply reset_level_fields.
Qed.

Lemma parse_level_old_name n : valid_name n = true -> parse_level (NName n) = Some n.
Proof.
  intros Hv. simpl. destruct (valid_entry n Hv) as [_ Hu]. now rewrite Hu, Hv.
Qed.

(* restoring constant k re-establishes its old value, whatever happened *)
Lemma restore_const_value k s s2 :
  consistent s -> get_const k (restore_const k (get_const k s) s2) = get_const k s.
Proof.
  intros (Hv & _). destruct k; unfold restore_const; simpl; try reflexivity.
  destruct (valid_entry _ Hv) as [_ Hu]. rewrite Hu, Hv. reflexivity.
Qed.

Lemma restore_const_consistent k s s2 :
  consistent s -> consistent s2 ->
  consistent (restore_const k (get_const k s) s2) /\
  g_calls (restore_const k (get_const k s) s2) = g_calls s2.
Proof.
  intros Hs H2. unfold restore_const.
  destruct (set_const k (newval_of_old (get_const k s)) s2) as [[s' o]|] eqn:E.
  - eapply set_const_consistent; eauto.
  - auto.
Qed.

(* the other constants are not touched by restoring k *)
Lemma restore_const_obs k v s s1 o s2 :
  consistent s -> set_const k v s = Some (s1, o) -> consistent s2 ->
  obs s2 = obs s1 -> obs (restore_const k o s2) = obs s.
Proof.
  intros Hs Hset H2 Hobs.
  pose proof (setter_returns_old _ _ _ _ _ Hset) as Ho. subst o.
  destruct (restore_const_consistent k s s2 Hs H2) as [Hc _].
  apply consistent_same_obs; auto.
  - destruct k; simpl in Hset.
    + destruct (parse_tol v); inversion Hset; subst. unfold obs in Hobs; simpl in Hobs.
      unfold restore_const; simpl. now inversion Hobs.
    + destruct (parse_tol v); inversion Hset; subst. unfold obs in Hobs; simpl in Hobs.
      unfold restore_const; simpl. now inversion Hobs.
    + pose proof (restore_const_value KLevel s s2 Hs) as Hval. simpl in Hval.
      now inversion Hval.
  - destruct k; simpl in Hset.
    + pose proof (restore_const_value KAtol s s2 Hs) as Hval. simpl in Hval. now inversion Hval.
    + destruct (parse_tol v); inversion Hset; subst. unfold obs in Hobs; simpl in Hobs.
      unfold restore_const; simpl. now inversion Hobs.
    + destruct (parse_level v) as [n|]; inversion Hset; subst.
      unfold obs in Hobs; simpl in Hobs.
      destruct Hs as (Hv & _). unfold restore_const. simpl.
      destruct (valid_entry _ Hv) as [_ Hu]. rewrite Hu, Hv. simpl.
      destruct (reset_level_fields (g_level s) s2) as (_ & _ & A & _). rewrite A.
      destruct (reset_level_fields n s) as (_ & _ & A' & _). rewrite A' in Hobs. now inversion Hobs.
  - destruct k; simpl in Hset.
    + destruct (parse_tol v); inversion Hset; subst. unfold obs in Hobs; simpl in Hobs.
      unfold restore_const; simpl. now inversion Hobs.
    + pose proof (restore_const_value KRtol s s2 Hs) as Hval. simpl in Hval. now inversion Hval.
    + destruct (parse_level v) as [n|]; inversion Hset; subst.
      unfold obs in Hobs; simpl in Hobs.
      destruct Hs as (Hv & _). unfold restore_const. simpl.
      destruct (valid_entry _ Hv) as [_ Hu]. rewrite Hu, Hv. simpl.
      destruct (reset_level_fields (g_level s) s2) as (_ & _ & _ & A). rewrite A.
      destruct (reset_level_fields n s) as (_ & _ & _ & A'). rewrite A' in Hobs. now inversion Hobs.
Qed.

(* configuration: restore is total and re-establishes all three constants *)
Lemma config_restore_spec s s2 :
  consistent s ->
  let r := config_restore (get_const KAtol s, get_const KRtol s, get_const KLevel s) s2 in
  consistent r /\ g_calls r = g_calls s2 /\ obs r = obs s.
Proof.
  intros Hs. destruct Hs as (Hv & Hd & Hr).
  unfold config_restore, config_set, try_set. simpl.
  destruct (valid_entry _ Hv) as [_ Hu]. rewrite Hu, Hv. simpl.
  set (t := set_rtol (g_rtol s) (set_atol (g_atol s) s2)).
  pose proof (reset_level_consistent (g_level s) t Hv) as Hc.
  destruct (reset_level_fields (g_level s) t) as (A & B & C & D).
  split; [exact Hc|]. split; [simpl; rewrite B; reflexivity|].
  apply consistent_same_obs; auto; try (repeat split; auto; fail); simpl;
    rewrite ?C, ?D; reflexivity.
Qed.

Lemma try_set_consistent k v s s' :
  consistent s -> try_set k v s = Some s' -> consistent s' /\ g_calls s' = g_calls s.
Proof.
  intros Hc. unfold try_set. destruct v as [nv|]; [|intros H; inversion H; subst; auto].
  destruct (set_const k nv s) as [[st o]|] eqn:E; [|discriminate].
  intros H; inversion H; subst. eapply set_const_consistent; eauto.
Qed.

Lemma try_set_other k v s s' :
  try_set k v s = Some s' ->
  (k <> KAtol -> g_atol s' = g_atol s) /\ (k <> KRtol -> g_rtol s' = g_rtol s) /\
  (k <> KLevel -> g_level s' = g_level s).
Proof.
  unfold try_set. destruct v as [nv|]; [|intros H; inversion H; subst; auto].
  destruct k; simpl.
  - destruct (parse_tol nv); [|discriminate]. intros H; inversion H; subst; simpl; splits; auto; congruence.
  - destruct (parse_tol nv); [|discriminate]. intros H; inversion H; subst; simpl; splits; auto; congruence.
  - destruct (parse_level nv); [|discriminate]. intros H; inversion H; subst; simpl.
    destruct (reset_level_fields s0 s) as (_ & _ & A & B). splits; auto; congruence.
Qed.

Lemma config_set_spec a r l s :
  consistent s ->
  match config_set a r l s with
  | (s', None) => consistent s' /\ g_calls s' = g_calls s /\ obs s' = obs s
  | (s', Some old) => consistent s' /\ g_calls s' = g_calls s /\
                      old = (get_const KAtol s, get_const KRtol s, get_const KLevel s)
  end.
Proof.
  intros Hs. unfold config_set.
  destruct (try_set KAtol a s) as [sa|] eqn:Ea; [|auto].
  destruct (try_set_consistent _ _ _ _ Hs Ea) as [Hca Hka].
  destruct (try_set KRtol r sa) as [sr|] eqn:Er.
  - destruct (try_set_consistent _ _ _ _ Hca Er) as [Hcr Hkr].
    destruct (try_set KLevel l sr) as [sl|] eqn:El.
    + destruct (try_set_consistent _ _ _ _ Hcr El) as [Hcl Hkl].
      split; [exact Hcl|split; [congruence|reflexivity]].
    + (* level rejected: undo atol then rtol *)
      destruct (try_set_other _ _ _ _ Ea) as (_ & Ar & Al).
      destruct (try_set_other _ _ _ _ Er) as (Ra & _ & Rl).
      set (u1 := match a with Some _ => restore_const KAtol (get_const KAtol s) sr | None => sr end).
      assert (H1 : consistent u1 /\ g_calls u1 = g_calls sr /\ g_atol u1 = g_atol s
                   /\ g_rtol u1 = g_rtol sr /\ g_level u1 = g_level sr).
      { unfold u1. destruct a as [nv|].
        - unfold restore_const; simpl. splits; auto using consistent_set_atol.
        - simpl in Ea. inversion Ea; subst. splits; auto. apply Ra; discriminate. }
      destruct H1 as (Hc1 & Hk1 & Ha1 & Hr1 & Hl1).
      set (u2 := match r with Some _ => restore_const KRtol (get_const KRtol s) u1 | None => u1 end).
      assert (H2 : consistent u2 /\ g_calls u2 = g_calls u1 /\ g_atol u2 = g_atol u1
                   /\ g_rtol u2 = g_rtol s /\ g_level u2 = g_level u1).
      { unfold u2. destruct r as [nv|].
        - unfold restore_const; simpl. splits; auto using consistent_set_rtol.
        - simpl in Er. inversion Er; subst. splits; auto. rewrite Hr1. apply Ar; discriminate. }
      destruct H2 as (Hc2 & Hk2 & Ha2 & Hr2 & Hl2).
      split; [exact Hc2|]. split; [congruence|].
      apply consistent_same_obs; auto; try congruence.
      rewrite Hl2, Hl1, (Rl ltac:(discriminate)), (Al ltac:(discriminate)). reflexivity.
  - (* rtol rejected: undo atol *)
    destruct (try_set_other _ _ _ _ Ea) as (_ & Ar & Al).
    set (u1 := match a with Some _ => restore_const KAtol (get_const KAtol s) sa | None => sa end).
    assert (H1 : consistent u1 /\ g_calls u1 = g_calls sa /\ g_atol u1 = g_atol s
                 /\ g_rtol u1 = g_rtol sa /\ g_level u1 = g_level sa).
    { unfold u1. destruct a as [nv|].
      - unfold restore_const; simpl. splits; auto using consistent_set_atol.
      - simpl in Ea. inversion Ea; subst. splits; auto. }
    destruct H1 as (Hc1 & Hk1 & Ha1 & Hr1 & Hl1).
    split; [exact Hc1|]. split; [congruence|].
    apply consistent_same_obs; auto; try congruence.
    + rewrite Hl1. apply Al; discriminate.
    + rewrite Hr1. apply Ar; discriminate.
Qed.

(* ---- blocks -------------------------------------------------------------- *)
Scheme stmt_ind2 := Induction for stmt Sort Prop
  with block_ind2 := Induction for block Sort Prop.
Combined Scheme stmt_block_ind from stmt_ind2, block_ind2.

Definition good (s s' : gstate) (br : bool) : Prop :=
  consistent s' /\ g_calls s' = 0%nat /\ (br = true -> obs s' = obs s).

Lemma run_blocks_good :
  (forall st s, consistent s -> g_calls s = 0%nat -> no_top_v0_stmt st = true ->
     good s (fst (run_stmt st s)) (bracketed_stmt st)) /\
  (forall b s, consistent s -> g_calls s = 0%nat -> no_top_v0 b = true ->
     good s (fst (run_block b s)) (bracketed b)).
Proof.
  unfold good. apply stmt_block_ind.
  - (* SSet *)
    intros k v s Hc H0 _. cbn [run_stmt bracketed_stmt].
    destruct (set_const k v s) as [[s' o]|] eqn:E; cbn [fst].
    + destruct (set_const_consistent _ _ _ _ _ Hc E) as [A B].
      splits; auto; try congruence; discriminate.
    + splits; auto; discriminate.
  - (* SWith *)
    intros k v b IH s Hc H0 N. cbn [run_stmt bracketed_stmt]. cbn [no_top_v0_stmt] in N.
    destruct (set_const k v s) as [[s1 o]|] eqn:E; cbn [fst]; [|splits; auto].
    destruct (set_const_consistent _ _ _ _ _ Hc E) as [A B].
    specialize (IH s1 A ltac:(congruence) N).
    destruct (run_block b s1) as [s2 out]. cbn [fst] in *.
    destruct IH as (C2 & K2 & O2).
    pose proof (setter_returns_old _ _ _ _ _ E) as Ho. subst o.
    destruct (restore_const_consistent k s s2 Hc C2) as [R1 R2].
    splits; auto; try congruence.
    intros Hb. eapply restore_const_obs; eauto.
  - (* SWithConfig *)
    intros a r l b IH s Hc H0 N. cbn [run_stmt bracketed_stmt]. cbn [no_top_v0_stmt] in N.
    pose proof (config_set_spec a r l s Hc) as Hcs.
    destruct (config_set a r l s) as [s1 [old|]]; cbn [fst].
    + destruct Hcs as (A & B & Eold). subst old.
      specialize (IH s1 A ltac:(congruence) N).
      destruct (run_block b s1) as [s2 out]. cbn [fst] in *.
      destruct IH as (C2 & K2 & _).
      destruct (config_restore_spec s s2 Hc) as (R1 & R2 & R3).
      splits; auto; congruence.
    + destruct Hcs as (A & B & C). splits; auto; congruence.
  - (* SCall *)
    intros c s Hc H0 N. cbn [run_stmt bracketed_stmt]. cbn [no_top_v0_stmt] in N.
    assert (G : String.eqb (g_level s) "DISABLE" && v0 c = false).
    { apply negb_true_iff in N. rewrite N. apply andb_false_r. }
    destruct (run_call_outer c s Hc H0 G) as (A & B & C). splits; auto.
  - (* SRaise *)
    intros s Hc H0 _. cbn. splits; auto.
  - (* BNil *)
    intros s Hc H0 _. cbn. splits; auto.
  - (* BCons *)
    intros st IHst k IHk s Hc H0 N. cbn [run_block bracketed]. cbn [no_top_v0] in N.
    apply andb_true_iff in N as [N1 N2].
    specialize (IHst s Hc H0 N1). destruct (run_stmt st s) as [s1 o]. cbn [fst] in *.
    destruct IHst as (A & B & C).
    destruct o.
    + specialize (IHk s1 A B N2). destruct IHk as (A' & B' & C').
      splits; auto. intros Hb. apply andb_true_iff in Hb as [Hb1 Hb2].
      rewrite (C' Hb2). auto.
    + cbn [fst]. splits; auto. intros Hb. apply andb_true_iff in Hb as [Hb1 _]. auto.
Qed.

(* with cfdm.k(v): <anything> restores k *)
Lemma with_restores_constant k v b s :
  consistent s -> g_calls s = 0%nat ->
  get_const k (fst (run_stmt (SWith k v b) s)) = get_const k s.
Proof.
  intros Hc H0. cbn [run_stmt].
  destruct (set_const k v s) as [[s1 o]|] eqn:E; cbn [fst]; [|reflexivity].
  pose proof (setter_returns_old _ _ _ _ _ E) as Ho. subst o.
  destruct (run_block b s1) as [s2 out]. cbn [fst].
  apply restore_const_value; auto.
Qed.

(* with cfdm.configuration(...): <anything> restores everything observable *)
Lemma config_restores_all a r l b s :
  consistent s -> g_calls s = 0%nat ->
  obs (fst (run_stmt (SWithConfig a r l b) s)) = obs s.
Proof.
  intros Hc H0. cbn [run_stmt].
  pose proof (config_set_spec a r l s Hc) as Hcs.
  destruct (config_set a r l s) as [s1 [old|]]; cbn [fst].
  - destruct Hcs as (A & B & Eold). subst old.
    destruct (run_block b s1) as [s2 out]. cbn [fst] in *.
    apply (config_restore_spec s s2 Hc).
  - apply Hcs.
Qed.

Lemma consistentb_sound s : consistentb s = true -> consistent s.
Proof.
  unfold consistentb, consistent. intros H.
  apply andb_true_iff in H as [H H3]. apply andb_true_iff in H as [H1 H2].
  splits; auto.
  - now apply Z.eqb_eq.
  - intros E. rewrite E in H3. simpl in H3.
    destruct (assoc (g_level s) python_logging_levels) as [l|]; simpl in H3; [|discriminate].
    apply Z.eqb_eq in H3. now subst.
Qed.

(* ---- witnesses ----------------------------------------------------------- *)
Local Transparent python_logging_levels valid_log_levels logging_CRITICAL logging_NOTSET.

Definition st_disable : gstate := mkG "DISABLE" logging_CRITICAL 30 0 1000 2000.
Definition st_warning : gstate := mkG "WARNING" logging_NOTSET 30 0 1000 2000.

Lemma verbose_scoped_unguarded_refuted :
  exists c s, consistentb s = true /\ g_calls s = 0%nat /\
              obs (fst (run_call c s)) <> obs s.
Proof.
  exists (Call (VInt 0) Ret), st_disable. vm_compute. splits; try reflexivity. intro H. discriminate H.
Qed.

(* outer verbose=None calling (and catching) an inner verbose=3 call that
   raises, from WARNING: everything is restored *)
Lemma verbose_scoped_example :
  exists c s, consistent s /\ g_calls s = 0%nat /\
    String.eqb (g_level s) "DISABLE" && v0 c = false /\
    fst (run_call c s) = s /\ snd (run_call c s) = Raised.
Proof.
  exists (Call VNone (Then (Call (VInt 3) Raise) true (Then (Call (VStr "bad") Ret) false Ret))), st_warning.
  splits; try (vm_compute; reflexivity).
  apply consistentb_sound. vm_compute. reflexivity.
Qed.
