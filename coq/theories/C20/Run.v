(* C20 - evaluation entry points for the correspondence harness. *)
From CfdmV Require Import Common.Base Tables.LogLevels C20.Model C20.Trace.
Open Scope Z_scope.
Open Scope string_scope.

(* The state the harness establishes before every case:
   cfdm.log_level("WARNING"); cfdm.atol(1000); cfdm.rtol(2000). *)
Definition base : gstate :=
  set_rtol 2000 (set_atol 1000
    (set_level "WARNING" (reset_level "WARNING" (mkG "WARNING" 0 0 0 0 0)))).

Definition outcome_eqb (a b : outcome) : bool :=
  match a, b with Returned, Returned | Raised, Raised => true | _, _ => false end.

Definition full (s : gstate) := (g_level s, g_disable s, g_root s, g_calls s, g_atol s, g_rtol s).

Definition full_eqb (s : gstate) (e : string * Z * Z * nat * Z * Z) : bool :=
  let '(l, d, r, c, a, t) := e in
  String.eqb (g_level s) l && Z.eqb (g_disable s) d && Z.eqb (g_root s) r &&
  Nat.eqb (g_calls s) c && Z.eqb (g_atol s) a && Z.eqb (g_rtol s) t.

(* a case: a prelude block (reaches the initial state), the block under test,
   and what the implementation showed: the state after the prelude, the state
   after the block, and whether the block raised. *)
Definition check_case (cs : block * block * (string * Z * Z * nat * Z * Z)
                            * (string * Z * Z * nat * Z * Z) * bool) : bool :=
  let '(pre, b, e0, e1, raised) := cs in
  let s0 := fst (run_block pre base) in
  let (s1, o) := run_block b s0 in
  full_eqb s0 e0 && full_eqb s1 e1 &&
  outcome_eqb o (if raised then Raised else Returned).

(* the same through the decorator as it was at the pinned commit *)
Definition check_case_old_call (cs : call * (string * Z * Z * nat * Z * Z)) : bool :=
  let '(c, e1) := cs in full_eqb (fst (run_call_old c base)) e1.

(* what code running inside a decorated call saw: the prelude, the call, the
   state after the prelude and the observed (level, disable, root) triples *)
Definition probe_eqb (a b : probe) : bool :=
  let '(l1, d1, r1) := a in let '(l2, d2, r2) := b in
  String.eqb l1 l2 && Z.eqb d1 d2 && Z.eqb r1 r2.

Fixpoint probes_eqb (a b : list probe) : bool :=
  match a, b with
  | [], [] => true
  | x :: a', y :: b' => probe_eqb x y && probes_eqb a' b'
  | _, _ => false
  end.

Definition check_trace (cs : block * call * (string * Z * Z * nat * Z * Z) * list probe) : bool :=
  let '(pre, c, e0, tr) := cs in
  let s0 := fst (run_block pre base) in
  full_eqb s0 e0 && probes_eqb (snd (trace_call c s0)) tr.
