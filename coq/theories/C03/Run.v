(* C03 - evaluation entry points for the correspondence harness. *)
From CfdmV Require Import Common.Base Common.PySlice C03.Model.
Open Scope Z_scope.

Definition oz_eqb := option_eqb Z.eqb.

(* observation of an array-returning call: Ok (shape, flat values) or an error class *)
Definition obs := result (list nat * list (option Z)).

Definition obs_eqb (r : result (list nat * nd)) (o : obs) : bool :=
  match r, o with
  | Ok (s, a), Ok (sh, fl) =>
    list_eqb Nat.eqb s sh && list_eqb oz_eqb (flatten a) fl
  | Err e1, Err e2 => errk_eqb e1 e2
  | _, _ => false
  end.

Definition shape_nat (shape : list Z) : list nat := map Z.to_nat shape.

(* d[idx] *)
Definition check_get (c : list Z * list (option Z) * list index * obs) : bool :=
  let '(shape, flat, idx, o) := c in
  obs_eqb (getitem shape (reshape (shape_nat shape) flat) idx) o.

(* d[idx] = v ; v given with its shape left-padded to the array's rank *)
Definition check_set (c : list Z * list (option Z) * list index * list nat * list (option Z) * obs) : bool :=
  let '(shape, flat, idx, vshape, vflat, o) := c in
  let a := reshape (shape_nat shape) flat in
  let v := reshape vshape vflat in
  obs_eqb (rbind (setitem shape a idx vshape v) (fun x => Ok (shape_nat shape, x))) o &&
  (* the decomposition agrees with the reference semantics on this case *)
  match setitem shape a idx vshape v, setitem_spec shape a idx vshape v with
  | Ok x, Ok y => list_eqb oz_eqb (flatten x) (flatten y)
  | Err e1, Err e2 => errk_eqb e1 e2
  | _, _ => false
  end.

(* the same through the decomposition of the pinned commit: for Refuted.v *)

(* bounds reversal of a 1-d construct of [size] cells with [nb] bounds each *)
Definition check_rev (c : Z * Z * list index * bool) : bool :=
  let '(size, nb, idx, reversed) := c in
  match parse_indices [size; nb] idx with
  | Ok (p :: _) => Bool.eqb (reverse_bounds nb size (size * nb) p) reversed
  | _ => false
  end.

(* Field.__getitem__: for each construct (axes, shape before) the shape after,
   or None when the construct is left alone *)
Definition pos_len (size : Z) (p : pindex) : option nat :=
  match positions size p with Ok l => Some (length l) | Err _ => None end.

Definition check_field
  (c : list Z * list index * list nat * list (list nat * list Z * option (list nat))) : bool :=
  let (tmp, constructs_) := c in let (tmp2, data_axes) := tmp in let (shape, idx) := tmp2 in
  match parse_indices shape idx with
  | Err _ => false
  | Ok ps =>
    forallb (fun con : list nat * list Z * option (list nat) =>
      let '(caxes, cshape, after) := con in
      match dice data_axes ps caxes, after with
      | None, None => true
      | Some d, Some sh =>
        list_eqb (option_eqb Nat.eqb)
                 (map (fun sp => pos_len (fst sp) (snd sp)) (combine cshape d))
                 (map Some sh)
      | _, _ => false
      end) constructs_
  end.
