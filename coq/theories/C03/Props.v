(* C03 - the property theorems, nothing else. *)
From Coq Require Import Permutation.
From CfdmV Require Import Common.Base Common.PySlice C03.Model C03.Lemmas C03.SetLemmas C03.SetFull.
Open Scope Z_scope.

(* Every position a Python slice selects on an axis of size len is a valid index. *)
Theorem C03_slice_in_range :
  forall len a b c l x, 0 <= len -> slice_positions len a b c = Some l -> In x l -> 0 <= x < len.
Proof. exact slice_positions_in_range. Qed.
Print Assumptions C03_slice_in_range.

(* The slice that reaches numpy / netCDF4 / h5py after dask's normalisation selects
   exactly the positions of the Python slice the user wrote - for every size, start,
   stop and step - unless a negative-step slice starts below -len (F03f, open). *)
Theorem C03_dask_slice_agrees :
  forall dim a b c, 0 <= dim -> start_below dim a c = false ->
  slice_positions_impl dim a b c = slice_positions dim a b c.
Proof. exact dask_slice_agrees. Qed.
Print Assumptions C03_dask_slice_agrees.

Theorem C03_dask_slice_refuted :
  exists dim a b c, 0 <= dim /\ slice_positions_impl dim a b c <> slice_positions dim a b c.
Proof. exact dask_slice_refuted. Qed.
Print Assumptions C03_dask_slice_refuted.

(* Whatever the slice, the implementation never addresses an element outside the axis. *)
Theorem C03_slice_impl_in_range :
  forall dim a b c l x, 0 <= dim -> slice_positions_impl dim a b c = Some l -> In x l -> 0 <= x < dim.
Proof. exact slice_impl_in_range. Qed.
Print Assumptions C03_slice_impl_in_range.

(* A successful parse of an index expression (Ellipsis anywhere, trailing axes
   omitted, any mixture of forms) yields exactly one index per axis: integer
   indices therefore keep their dimension. *)
Theorem C03_parse_one_index_per_axis :
  forall shape idx ps, parse_indices shape idx = Ok ps -> length ps = length shape.
Proof. exact parse_indices_length. Qed.
Print Assumptions C03_parse_one_index_per_axis.

(* An in-range integer index, of either sign, selects exactly that element. *)
Theorem C03_int_index :
  forall size i, - size <= i < size ->
  positions size (int_to_slice i size) = Ok [Z.to_nat (norm size i)].
Proof. exact int_index_positions. Qed.
Print Assumptions C03_int_index.

(* Orthogonal indexing: applying the per-axis selections one axis at a time gives
   the same array in every order (the size heuristic of netcdf_indexer._index is
   irrelevant), for every rank, shape and selection. *)
Theorem C03_any_order :
  forall ops ops', Permutation ops ops' -> forall sh a, shaped sh a -> ops_ok sh ops ->
  take_all ops a = take_all ops' a.
Proof. exact take_all_perm. Qed.
Print Assumptions C03_any_order.

(* Selecting along one axis changes the extent of that axis only. *)
Theorem C03_take_shape :
  forall sh a d pos, shaped sh a -> (d < length sh)%nat -> in_range (nth d sh 0%nat) pos ->
  shaped (set_nth d (length pos) sh) (take d pos a).
Proof. exact take_shaped. Qed.
Print Assumptions C03_take_shape.

(* Assignment through a list index: the pairwise strided-slice decomposition of
   Data._set_subspace stores, for every in-range list of any length (unsorted,
   negative, repeated), exactly what storing element k of the value at position
   l_k for k = 0, 1, ... in order would store (a repeated position keeps the later
   value). *)
Theorem C03_pair_chunks :
  forall n l vlen f q,
  Forall (fun i => - n <= i < n) l -> vlen = length l -> vlen <> 1%nat ->
  apply1 (chunk_prog n l 0 vlen) f q = apply1 (full_pairs n l 0) f q.
Proof. exact pair_chunks_correct. Qed.
Print Assumptions C03_pair_chunks.

(* n-dimensional assignment: for every array, every index expression (in-range
   lists unsorted, negative, REPEATED; slices of any sign; any mixture) and every
   broadcastable value, Data.__setitem__ - numpy assignment for at most one list
   axis, otherwise the product of the per-axis slice-pair decompositions, visited
   block by block with the matching windows of the value - produces exactly the
   array of the reference semantics: element (p_1[t_1], ..., p_d[t_d]) receives
   value[t], row-major, a later store to the same element winning.  No guard
   beyond the array having the stated shape. *)
Theorem C03_setitem_decomposition :
  forall shape a idx vshape v,
  Forall (fun n => 0 <= n) shape -> shaped (map Z.to_nat shape) a ->
  setitem shape a idx vshape v = setitem_spec shape a idx vshape v.
Proof. exact setitem_decomposition_full. Qed.
Print Assumptions C03_setitem_decomposition.

(* The element an array ends up with is the value of the last store addressed to it. *)
Theorem C03_exec_last_writer :
  forall sh P a q,
  shaped sh a -> Forall (fun st => in_bounds sh (fst st)) P -> in_bounds sh q ->
  get (exec P a) q = match last_writer P q with Some v => v | None => get a q end.
Proof. exact exec_get. Qed.
Print Assumptions C03_exec_last_writer.

(* Stores to distinct elements commute, so any visiting order gives the same array. *)
Theorem C03_exec_any_order :
  forall P Q, Permutation P Q -> forall sh a, shaped sh a -> prog_ok (length sh) P ->
  exec P a = exec Q a.
Proof. exact exec_perm. Qed.
Print Assumptions C03_exec_any_order.

(* The decomposition as it was at the pinned commit lost the pair (3, 0) (F03a, fixed). *)
Theorem C03_pair_chunks_old_refuted :
  exists n l, Forall (fun i => - n <= i < n) l /\
    flat_map (chunk_pairs (length l)) (pair_chunks_old n l 0) <> ref_pairs n l 0.
Proof. exact pair_chunks_old_refuted. Qed.
Print Assumptions C03_pair_chunks_old_refuted.

(* Subspacing a field: a construct is diced iff it spans a data axis, and then
   each of its axes receives the index of the matching data axis (a full slice
   for an axis the data do not span). *)
Theorem C03_field_dice :
  forall data_axes ps caxes d, dice data_axes ps caxes = Some d ->
  length d = length caxes /\
  forall k ax, nth_error caxes k = Some ax ->
    nth_error d k = Some (match index_of ax data_axes 0 with
                          | Some i => nth i ps pall | None => pall end).
Proof. exact dice_spec. Qed.
Print Assumptions C03_field_dice.

Theorem C03_field_dice_untouched :
  forall data_axes ps caxes, dice data_axes ps caxes = None <->
  forall ax, In ax caxes -> index_of ax data_axes 0 = None.
Proof. exact dice_none. Qed.
Print Assumptions C03_field_dice_untouched.

(* Subspacing a 1-d construct: its two-vertex bounds are reversed exactly when a
   slice selects the cells in descending order; bounds of cells with another
   number of vertices (polygons) are never reordered. *)
Theorem C03_bounds_reverse :
  forall size bsize a b st l,
  slice_positions size a b (Some st) = Some l -> (2 <= length l)%nat ->
  (reverse_bounds 2 size bsize (PSlice a b (Some st)) = true <-> nth 1 l 0 < nth 0 l 0).
Proof. exact reverse_bounds_slice. Qed.
Print Assumptions C03_bounds_reverse.

Theorem C03_bounds_polygon_kept :
  forall nb size bsize p, nb <> 2 -> reverse_bounds nb size bsize p = false.
Proof. exact reverse_bounds_polygon. Qed.
Print Assumptions C03_bounds_polygon_kept.
