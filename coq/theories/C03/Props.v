(* C03 - property theorems (under construction). *)
From CfdmV Require Import Common.Base Common.PySlice C03.Model.

Theorem C03_slice_in_range :
  forall len a b c l x, (0 <= len)%Z -> slice_positions len a b c = Some l -> In x l -> (0 <= x < len)%Z.
Proof. exact slice_positions_in_range. Qed.
Print Assumptions C03_slice_in_range.
