(* C03 - proofs about the model in Model.v. *)
From Coq Require Import Permutation.
From CfdmV Require Import Common.Base Common.PySlice C03.Model.
Open Scope Z_scope.

Ltac splits := repeat match goal with |- _ /\ _ => split end.

(* ------------------------------------------------------------------------- *)
(* 1. Slices: dask's normalisation preserves Python's meaning, except F03f   *)
(* ------------------------------------------------------------------------- *)

Lemma clip_id_pos dim step v : step > 0 -> 0 <= v <= dim -> clip dim step v = v.
Proof.
  intros Hs Hv. unfold clip.
  destruct (v <? 0) eqn:E1; [lia|]. destruct (v >=? dim) eqn:E2; [|reflexivity].
  destruct (step <? 0) eqn:E3; lia.
Qed.

Lemma clip_id_neg dim step v : step < 0 -> 0 <= v <= dim - 1 -> clip dim step v = v.
Proof.
  intros Hs Hv. unfold clip.
  destruct (v <? 0) eqn:E1; [lia|]. destruct (v >=? dim) eqn:E2; [lia|reflexivity].
Qed.

Lemma slice_start_range dim a step : 0 <= dim ->
  (step > 0 -> 0 <= slice_start dim a step <= dim) /\
  (step < 0 -> -1 <= slice_start dim a step <= dim - 1).
Proof.
  intros Hd. unfold slice_start. destruct a; [now apply clip_range|].
  destruct (step <? 0) eqn:E; lia.
Qed.

Lemma slice_stop_range dim b step : 0 <= dim ->
  (step > 0 -> 0 <= slice_stop dim b step <= dim) /\
  (step < 0 -> -1 <= slice_stop dim b step <= dim - 1).
Proof.
  intros Hd. unfold slice_stop. destruct b; [now apply clip_range|].
  destruct (step <? 0) eqn:E; lia.
Qed.

Lemma range_list_empty s e st : range_len s e st = 0 -> range_list s e st = [].
Proof. intros H. unfold range_list. rewrite H. reflexivity. Qed.

Lemma range_len_empty_pos s e st : st > 0 -> e <= s -> range_len s e st = 0.
Proof.
  intros Hs He. unfold range_len. destruct (st >? 0) eqn:E; [|lia].
  destruct (s <? e) eqn:E2; lia.
Qed.

(* the start a negative-step slice would be clipped to -1: F03f *)
Definition start_below (dim : Z) (a c : option Z) : bool :=
  match c, a with
  | Some st, Some v => (st <? 0) && (v <? - dim) && (1 <=? dim)
  | _, _ => false
  end.

Lemma dask_slice_agrees dim a b c :
  0 <= dim -> start_below dim a c = false ->
  slice_positions_impl dim a b c = slice_positions dim a b c.
Proof.
  intros Hd Hg. unfold slice_positions_impl, dask_normalize_slice, slice_positions.
  set (step := match c with Some s => s | None => 1 end).
  destruct (step =? 0) eqn:E0; [reflexivity|].
  assert (Hs0 : step <> 0) by lia.
  destruct (slice_start_range dim a step Hd) as [Sp Sn].
  destruct (slice_stop_range dim b step Hd) as [Ep En].
  set (s := slice_start dim a step) in *. set (e := slice_stop dim b step) in *.
  destruct (step >? 0) eqn:Ep0.
  - (* positive step *)
    assert (Hp : step > 0) by lia. specialize (Sp Hp). specialize (Ep Hp).
    set (step' := if step =? 1 then None else Some step).
    assert (Est : match step' with Some x => x | None => 1 end = step).
    { unfold step'. destruct (step =? 1) eqn:E1; lia. }
    set (start' := if s =? 0 then None else Some s).
    set (stop' := if e >=? dim then None else Some e).
    set (stop'' := match stop', start' with
                   | Some e0, Some s0 => if e0 <? s0 then Some s0 else Some e0
                   | _, _ => stop' end).
    cbn [slice_positions]. unfold slice_positions. rewrite Est, E0. f_equal.
    assert (Hstart : slice_start dim start' step = s).
    { unfold start', slice_start. destruct (s =? 0) eqn:E.
      - destruct (step <? 0) eqn:E'; lia.
      - apply clip_id_pos; lia. }
    rewrite Hstart.
    assert (Hstop : slice_stop dim stop'' step = e \/
                    (e < s /\ slice_stop dim stop'' step = s)).
    { unfold stop'', stop', start', slice_stop.
      destruct (e >=? dim) eqn:E1.
      - left. destruct (step <? 0) eqn:E'; lia.
      - destruct (s =? 0) eqn:E2.
        + left. apply clip_id_pos; lia.
        + destruct (e <? s) eqn:E3.
          * right. split; [lia|]. apply clip_id_pos; lia.
          * left. apply clip_id_pos; lia. }
    destruct Hstop as [->|[Hlt ->]]; [reflexivity|].
    rewrite !range_list_empty; auto; apply range_len_empty_pos; lia.
  - (* negative step *)
    assert (Hn : step < 0) by lia. specialize (Sn Hn). specialize (En Hn).
    cbn [slice_positions]. unfold slice_positions. rewrite E0. f_equal.
    assert (Hstart : slice_start dim (if s >=? dim - 1 then None else Some s) step = s).
    { unfold slice_start at 1. destruct (s >=? dim - 1) eqn:E.
      - destruct (step <? 0) eqn:E'; lia.
      - (* s < dim - 1; the guard excludes s = -1 *)
        assert (Hs : 0 <= s).
        { unfold s, slice_start, step in *. destruct a as [v|].
          - destruct c as [st|]; [|lia]. unfold start_below in Hg.
            unfold clip in *. destruct (v <? 0) eqn:V1.
            + destruct (v + dim <? 0) eqn:V2; [|lia].
              assert (st <? 0 = true) by lia. assert (v <? - dim = true) by lia.
              assert (1 <=? dim = true) by lia. rewrite H, H0, H1 in Hg. discriminate.
            + destruct (v >=? dim) eqn:V3; destruct (st <? 0) eqn:V4; lia.
          - destruct (match c with Some s0 => s0 | None => 1 end <? 0) eqn:V; lia. }
        apply clip_id_neg; lia. }
    rewrite Hstart.
    assert (Hstop : slice_stop dim (if e <? 0 then None else Some e) step = e).
    { unfold slice_stop at 1. destruct (e <? 0) eqn:E.
      - destruct (step <? 0) eqn:E'; lia.
      - apply clip_id_neg; lia. }
    rewrite Hstop. reflexivity.
Qed.

(* F03f witness: Data([10])[-2::-1] *)
Lemma dask_slice_refuted :
  exists dim a b c, 0 <= dim /\ slice_positions_impl dim a b c <> slice_positions dim a b c.
Proof. exists 1, (Some (-2)), None, (Some (-1)). split; [lia|]. vm_compute. discriminate. Qed.

(* positions selected by the implementation are valid indices, always *)
Lemma slice_impl_in_range dim a b c l x :
  0 <= dim -> slice_positions_impl dim a b c = Some l -> In x l -> 0 <= x < dim.
Proof.
  intros Hd. unfold slice_positions_impl.
  destruct (dask_normalize_slice dim a b c) as [[[a' b'] c']|]; [|discriminate].
  intros H. eapply slice_positions_in_range; eauto.
Qed.

(* ------------------------------------------------------------------------- *)
(* 2. Data._parse_indices                                                      *)
(* ------------------------------------------------------------------------- *)

Lemma parse_zip_length is shape ps :
  parse_zip is shape = Ok ps -> length ps = Nat.min (length is) (length shape).
Proof.
  revert shape ps. induction is as [|i ri IH]; intros [|s rs] ps; simpl; intros H;
    try (inversion H; reflexivity).
  destruct (parse_one i s) as [p|]; simpl in H; [|discriminate].
  destruct (parse_zip ri rs) as [ps'|] eqn:E; simpl in H; [|discriminate].
  inversion H; subst. simpl. f_equal. now apply IH.
Qed.

(* a successful parse yields exactly one index per axis *)
Lemma parse_indices_length shape idx ps :
  parse_indices shape idx = Ok ps -> length ps = length shape.
Proof.
  unfold parse_indices.
  set (ndim := Z.of_nat (length shape)).
  set (e := expand_ellipsis idx ndim (Z.of_nat (length idx))).
  set (le := Z.of_nat (length e)).
  destruct ((0 <? ndim) && (ndim <? le)) eqn:E1; [discriminate|].
  set (e' := if le <? ndim then _ else e).
  destruct ((ndim =? 0) && negb (Nat.eqb (length e') 0)) eqn:E2; [discriminate|].
  intros H. apply parse_zip_length in H. rewrite H.
  assert (Hlen : (length shape <= length e')%nat).
  { unfold e'. destruct (le <? ndim) eqn:E3.
    - apply Z.ltb_lt in E3. rewrite app_length, map_length, seq_length.
      subst le ndim. lia.
    - apply Z.ltb_ge in E3. subst le ndim. lia. }
  lia.
Qed.

Lemma range_list_one_aux s e st :
  range_len s e st = 1 -> range_list s e st = [s].
Proof. intros H. unfold range_list. rewrite H. change (Z.to_nat 1) with 1%nat. cbn [seq map]. f_equal; lia. Qed.

(* an in-range integer index selects exactly that element and keeps the axis *)
Lemma int_index_positions size i :
  - size <= i < size ->
  positions size (int_to_slice i size) = Ok [Z.to_nat (norm size i)].
Proof.
  intros Hi.
  change (int_to_slice i size) with (PSlice (Some (norm size i)) (Some (norm size i + 1)) (Some 1)).
  assert (Hi' : 0 <= norm size i < size) by (unfold norm; destruct (i <? 0) eqn:E; lia).
  set (i' := norm size i) in *.
  assert (Hd : 0 <= size) by lia.
  unfold positions. rewrite dask_slice_agrees by (auto; reflexivity).
  unfold slice_positions. cbn [Z.eqb]. unfold slice_start, slice_stop.
  rewrite clip_id_pos by lia. rewrite clip_id_pos by lia.
  rewrite range_list_one_aux; [reflexivity|].
  unfold range_len. cbn [Z.gtb Z.compare].
  assert (E : i' <? i' + 1 = true) by lia. rewrite E.
  replace (i' + 1 - i' - 1) with 0 by lia. reflexivity.
Qed.

(* ------------------------------------------------------------------------- *)
(* 3. Orthogonal selection: the order in which axes are applied is irrelevant *)
(* ------------------------------------------------------------------------- *)

Fixpoint shaped (sh : list nat) (a : nd) : Prop :=
  match sh, a with
  | [], Leaf _ => True
  | n :: sh', Node l => length l = n /\ Forall (shaped sh') l
  | _, _ => False
  end.

Definition in_range (n : nat) (pos : list nat) : Prop := Forall (fun i => (i < n)%nat) pos.

Fixpoint set_nth {A} (d : nat) (x : A) (l : list A) : list A :=
  match l, d with
  | [], _ => []
  | _ :: r, O => x :: r
  | y :: r, S d' => y :: set_nth d' x r
  end.

Lemma set_nth_length {A} d (x : A) l : length (set_nth d x l) = length l.
Proof. revert d; induction l as [|y r IH]; intros [|d]; simpl; auto. Qed.

Lemma nth_set_nth_other {A} d d' (x : A) l dflt :
  d <> d' -> nth d' (set_nth d x l) dflt = nth d' l dflt.
Proof.
  revert d d'; induction l as [|y r IH]; intros [|d] [|d'] H; simpl; auto; try congruence.
Qed.

Lemma take_shaped sh a d pos :
  shaped sh a -> (d < length sh)%nat -> in_range (nth d sh 0%nat) pos ->
  shaped (set_nth d (length pos) sh) (take d pos a).
Proof.
  revert a d. induction sh as [|n sh IH]; intros a d Hs Hd Hr; [simpl in Hd; lia|].
  destruct a as [v|l]; [simpl in Hs; contradiction|]. simpl in Hs. destruct Hs as [Hl Hf].
  destruct d as [|d]; simpl.
  - split; [now rewrite map_length|].
    apply Forall_forall. intros x Hx. apply in_map_iff in Hx as [i [Hi Hin]]. subst x.
    rewrite Forall_forall in Hf. apply Hf. apply nth_In.
    unfold in_range in Hr. rewrite Forall_forall in Hr. simpl in Hr. specialize (Hr i Hin). lia.
  - split; [now rewrite map_length|].
    apply Forall_forall. intros x Hx. apply in_map_iff in Hx as [y [Hy Hin]]. subst x.
    rewrite Forall_forall in Hf. apply IH; auto. simpl in Hd. lia.
Qed.

Lemma take_comm sh a d1 d2 p1 p2 :
  shaped sh a -> d1 <> d2 -> (d1 < length sh)%nat -> (d2 < length sh)%nat ->
  in_range (nth d1 sh 0%nat) p1 -> in_range (nth d2 sh 0%nat) p2 ->
  take d1 p1 (take d2 p2 a) = take d2 p2 (take d1 p1 a).
Proof.
  revert a d1 d2. induction sh as [|n sh IH]; intros a d1 d2 Hs Hne H1 H2 R1 R2;
    [simpl in H1; lia|].
  destruct a as [v|l]; [simpl in Hs; contradiction|]. simpl in Hs. destruct Hs as [Hl Hf].
  destruct d1 as [|d1], d2 as [|d2]; try congruence; simpl.
  - (* axis 0 then deeper axis *)
    f_equal. rewrite map_map. apply map_ext_in. intros i Hi.
    unfold in_range in R1. rewrite Forall_forall in R1. simpl in R1. specialize (R1 i Hi).
    rewrite nth_indep with (d' := take d2 p2 dummy) by (rewrite map_length; lia).
    apply map_nth.
  - f_equal. rewrite map_map. apply map_ext_in. intros i Hi.
    unfold in_range in R2. rewrite Forall_forall in R2. simpl in R2. specialize (R2 i Hi).
    symmetry. rewrite nth_indep with (d' := take d1 p1 dummy) by (rewrite map_length; lia).
    apply map_nth.
  - f_equal. rewrite !map_map. apply map_ext_in. intros x Hx.
    rewrite Forall_forall in Hf. simpl in H1, H2, R1, R2.
    apply IH; auto; lia.
Qed.

(* the operations still to be applied are valid for an array of shape sh *)
Definition ops_ok (sh : list nat) (ops : list (nat * list nat)) : Prop :=
  NoDup (map fst ops) /\
  Forall (fun op => (fst op < length sh)%nat /\ in_range (nth (fst op) sh 0%nat) (snd op)) ops.

Lemma ops_ok_after sh op ops :
  ops_ok sh (op :: ops) -> ops_ok (set_nth (fst op) (length (snd op)) sh) ops.
Proof.
  intros [Hnd Hf]. inversion Hnd as [|? ? Hnin Hnd']; subst. inversion Hf as [|? ? Hop Hf']; subst.
  split; [exact Hnd'|]. rewrite Forall_forall in *. intros o Ho. specialize (Hf' o Ho).
  rewrite set_nth_length. split; [tauto|].
  rewrite nth_set_nth_other; [tauto|]. intros E. apply Hnin. rewrite E. now apply in_map.
Qed.

Lemma take_all_swap sh a o1 o2 ops :
  shaped sh a -> ops_ok sh (o1 :: o2 :: ops) ->
  take_all (o1 :: o2 :: ops) a = take_all (o2 :: o1 :: ops) a.
Proof.
  intros Hs [Hnd Hf]. unfold take_all. simpl. f_equal.
  inversion Hf as [|? ? H1 Hf']; subst. inversion Hf' as [|? ? H2 _]; subst.
  inversion Hnd as [|? ? Hnin _]; subst.
  symmetry. apply take_comm with (sh := sh); try tauto.
  intros E. apply Hnin. simpl. now left.
Qed.

Lemma ops_ok_perm sh ops ops' : Permutation ops ops' -> ops_ok sh ops -> ops_ok sh ops'.
Proof.
  intros P [Hnd Hf]. split.
  - eapply Permutation_NoDup; [|exact Hnd]. now apply Permutation_map.
  - eapply Permutation_Forall; eauto.
Qed.

Theorem take_all_perm ops ops' :
  Permutation ops ops' -> forall sh a, shaped sh a -> ops_ok sh ops ->
  take_all ops a = take_all ops' a.
Proof.
  induction 1 as [|op l l' P IH|o1 o2 l|l l' l'' P1 IH1 P2 IH2]; intros sh a Hs Hok.
  - reflexivity.
  - unfold take_all in *. simpl.
    apply (IH (set_nth (fst op) (length (snd op)) sh)).
    + destruct Hok as [_ Hf]. inversion Hf as [|? ? Hop _]; subst. apply take_shaped; tauto.
    + now apply ops_ok_after.
  - eapply take_all_swap; eauto.
  - rewrite (IH1 sh a Hs Hok). apply (IH2 sh a Hs). eapply ops_ok_perm; eauto.
Qed.

(* ------------------------------------------------------------------------- *)
(* 4. The pairwise-slice decomposition of a list index (Data._set_subspace)    *)
(* ------------------------------------------------------------------------- *)

Lemma range_list_two s e st :
  range_len s e st = 2 -> range_list s e st = [s; s + st].
Proof.
  intros H. unfold range_list. rewrite H. change (Z.to_nat 2) with 2%nat. cbn [seq map]. f_equal; [lia|f_equal; lia].
Qed.

Lemma range_list_one s e st :
  range_len s e st = 1 -> range_list s e st = [s].
Proof. intros H. unfold range_list. rewrite H. change (Z.to_nat 1) with 1%nat. cbn [seq map]. f_equal; lia. Qed.

Lemma py_slice_pair_up n s e :
  0 <= s -> s < e -> e < n ->
  py_slice_nat n (Some s) (Some (e + 1)) (Some (e - s)) = [Z.to_nat s; Z.to_nat e].
Proof.
  intros H0 H1 H2. unfold py_slice_nat, slice_positions.
  assert (E0 : e - s =? 0 = false) by lia. rewrite E0.
  unfold slice_start, slice_stop. rewrite !clip_id_pos by lia.
  rewrite range_list_two.
  - cbn. repeat f_equal. lia.
  - unfold range_len. assert (E1 : e - s >? 0 = true) by lia. rewrite E1.
    assert (E2 : s <? e + 1 = true) by lia. rewrite E2.
    replace (e + 1 - s - 1) with (1 * (e - s)) by lia. rewrite Z.div_mul by lia. lia.
Qed.

Lemma py_slice_pair_down n s e :
  0 <= e -> e < s -> s < n ->
  py_slice_nat n (Some s) (if e - 1 <? 0 then None else Some (e - 1)) (Some (e - s))
  = [Z.to_nat s; Z.to_nat e].
Proof.
  intros H0 H1 H2. unfold py_slice_nat, slice_positions.
  assert (E0 : e - s =? 0 = false) by lia. rewrite E0.
  assert (Hstart : slice_start n (Some s) (e - s) = s).
  { unfold slice_start. apply clip_id_neg; lia. }
  assert (Hstop : slice_stop n (if e - 1 <? 0 then None else Some (e - 1)) (e - s) = e - 1).
  { unfold slice_stop. destruct (e - 1 <? 0) eqn:E.
    - assert (E' : e - s <? 0 = true) by lia. rewrite E'. lia.
    - apply clip_id_neg; lia. }
  rewrite Hstart, Hstop. rewrite range_list_two.
  - cbn. repeat f_equal. lia.
  - unfold range_len. assert (E1 : e - s >? 0 = false) by lia. rewrite E1.
    assert (E2 : e - 1 <? s = true) by lia. rewrite E2.
    replace (s - (e - 1) - 1) with (1 * (- (e - s))) by lia. rewrite Z.div_mul by lia. lia.
Qed.

Lemma py_slice_single n s :
  0 <= s < n -> py_slice_nat n (Some s) (Some (s + 1)) None = [Z.to_nat s].
Proof.
  intros H. unfold py_slice_nat, slice_positions. cbn [Z.eqb].
  unfold slice_start, slice_stop. rewrite !clip_id_pos by lia.
  rewrite range_list_one; [reflexivity|].
  unfold range_len. cbn [Z.gtb Z.compare].
  assert (E : s <? s + 1 = true) by lia. rewrite E.
  replace (s + 1 - s - 1) with 0 by lia. reflexivity.
Qed.

(* the reference 1-d program: list element k goes to position norm(l_k) and
   takes value element w + k; of an adjacent equal pair only the later store
   is kept (it would overwrite the earlier one anyway) *)
Fixpoint ref_pairs (n : Z) (l : list Z) (w : nat) : list (nat * nat) :=
  match l with
  | [] => []
  | [a] => [(Z.to_nat (norm n a), w)]
  | a :: b :: r =>
    (if norm n a =? norm n b then [(Z.to_nat (norm n b), S w)]
     else [(Z.to_nat (norm n a), w); (Z.to_nat (norm n b), S w)])
    ++ ref_pairs n r (S (S w))
  end.

Definition chunk_prog (n : Z) (l : list Z) (w vlen : nat) : list (nat * nat) :=
  flat_map (chunk_pairs vlen) (pair_chunks n l w).

Lemma norm_range n i : - n <= i < n -> 0 <= norm n i < n.
Proof. intros H. unfold norm. destruct (i <? 0) eqn:E; lia. Qed.

Lemma list_ind2 {A} (P : list A -> Prop) :
  P [] -> (forall a, P [a]) -> (forall a b r, P r -> P (a :: b :: r)) -> forall l, P l.
Proof.
  intros H0 H1 H2. fix IH 1. intros [|a [|b r]]; [exact H0 | exact (H1 a) | exact (H2 a b r (IH r))].
Qed.

Lemma chunk_prog_ref n l :
  Forall (fun i => - n <= i < n) l ->
  forall w vlen, vlen = (w + length l)%nat -> vlen <> 1%nat ->
  chunk_prog n l w vlen = ref_pairs n l w.
Proof.
  induction l as [| a | a b r IH] using list_ind2; intros Hr w vlen Hv H1.
  - reflexivity.
  - inversion Hr as [|? ? Ha _]; subst. apply norm_range in Ha.
    unfold chunk_prog. cbn [pair_chunks flat_map chunk_pairs]. rewrite app_nil_r.
    assert (E : Nat.eqb (w + length [a]) 1 = false) by (apply Nat.eqb_neq; exact H1).
    rewrite E. unfold window. rewrite E. rewrite py_slice_single by lia.
    cbn [fst snd length]. rewrite Nat.min_r by lia. replace (w + 1 - w)%nat with 1%nat by lia.
    reflexivity.
  - inversion Hr as [|? ? Ha Hr']; subst. inversion Hr' as [|? ? Hb Hr'']; subst.
    apply norm_range in Ha. apply norm_range in Hb.
    unfold chunk_prog. cbn [pair_chunks flat_map]. cbn [ref_pairs]. fold (chunk_prog n r (w + 2) (w + length (a :: b :: r))).
    assert (E : Nat.eqb (w + length (a :: b :: r)) 1 = false) by (apply Nat.eqb_neq; simpl; lia).
    rewrite (IH Hr'' (w + 2)%nat) by (simpl; lia).
    replace (w + 2)%nat with (S (S w)) by lia. f_equal.
    set (s := norm n a) in *. set (e := norm n b) in *.
    assert (Hmin : (Nat.min (S (S w)) (w + length (a :: b :: r)) - w = 2)%nat) by (cbn [length]; rewrite Nat.min_l by lia; lia).
    destruct (e - s =? 0) eqn:E0.
    + assert (Es : s =? e = true) by lia. rewrite Es.
      unfold chunk_pairs. rewrite E. unfold window. rewrite E. cbn [fst snd].
      replace (Nat.min (S (S w)) (w + length (a :: b :: r)) - (w + 1))%nat with 1%nat by (cbn [length]; rewrite Nat.min_l by lia; lia).
      cbn. repeat f_equal; lia.
    + assert (Es : s =? e = false) by lia. rewrite Es.
      destruct (e - s >? 0) eqn:E1.
      * unfold chunk_pairs. rewrite E. unfold window. rewrite E. cbn [fst snd].
        rewrite py_slice_pair_up by lia. rewrite Hmin. reflexivity.
      * unfold chunk_pairs. rewrite E. unfold window. rewrite E. cbn [fst snd].
        rewrite py_slice_pair_down by lia. rewrite Hmin. reflexivity.
Qed.

(* last-writer semantics of a 1-d store program *)
Definition apply1 (prog : list (nat * nat)) (f : nat -> option nat) : nat -> option nat :=
  fold_left (fun g st => fun q => if Nat.eqb q (fst st) then Some (snd st) else g q) prog f.

Definition full_pairs (n : Z) (l : list Z) (w : nat) : list (nat * nat) :=
  combine (map (fun i => Z.to_nat (norm n i)) l) (seq w (length l)).

Lemma apply1_app p1 p2 f : apply1 (p1 ++ p2) f = apply1 p2 (apply1 p1 f).
Proof. unfold apply1. apply fold_left_app. Qed.

Lemma apply1_ext p f g : (forall q, f q = g q) -> forall q, apply1 p f q = apply1 p g q.
Proof.
  revert f g. induction p as [|st p IH]; intros f g H q; [apply H|].
  simpl. apply IH. intros q'. destruct (Nat.eqb q' (fst st)); auto.
Qed.

(* dropping the first of an adjacent equal pair does not change the outcome *)
Lemma ref_pairs_equiv n l :
  forall w f q, apply1 (ref_pairs n l w) f q = apply1 (full_pairs n l w) f q.
Proof.
  induction l as [| a | a b r IH] using list_ind2; intros w f q.
  - reflexivity.
  - reflexivity.
  - cbn [ref_pairs]. unfold full_pairs. cbn [map length seq combine].
    fold (full_pairs n r (S (S w))).
    rewrite apply1_app. rewrite IH.
    change ((Z.to_nat (norm n a), w) :: (Z.to_nat (norm n b), S w) :: full_pairs n r (S (S w)))
      with ([(Z.to_nat (norm n a), w); (Z.to_nat (norm n b), S w)] ++ full_pairs n r (S (S w))).
    rewrite apply1_app. apply apply1_ext. intros q'.
    destruct (norm n a =? norm n b) eqn:E; [|reflexivity].
    apply Z.eqb_eq in E. rewrite E. cbn.
    destruct (Nat.eqb q' (Z.to_nat (norm n b))); reflexivity.
Qed.

Theorem pair_chunks_correct n l vlen f q :
  Forall (fun i => - n <= i < n) l -> vlen = length l -> vlen <> 1%nat ->
  apply1 (chunk_prog n l 0 vlen) f q = apply1 (full_pairs n l 0) f q.
Proof.
  intros Hr Hv H1. rewrite chunk_prog_ref by (auto; simpl; lia). apply ref_pairs_equiv.
Qed.

(* every element of an in-range list is addressed, in order, when no adjacent
   pair is equal: the decomposition is then literally the sequential program *)
Lemma ref_pairs_full n l :
  (forall w, ref_pairs n l w = full_pairs n l w) \/
  exists k, nth_error (map (norm n) l) k = nth_error (map (norm n) l) (S k) /\
            nth_error (map (norm n) l) k <> None.
Proof.
  induction l as [| a | a b r IH] using list_ind2.
  - left; reflexivity.
  - left; reflexivity.
  - destruct (norm n a =? norm n b) eqn:E.
    + right. exists 0%nat. cbn. apply Z.eqb_eq in E. rewrite E. split; [reflexivity|discriminate].
    + destruct IH as [IH|[k [Hk1 Hk2]]].
      * left. intros w. cbn [ref_pairs]. rewrite E. unfold full_pairs. cbn [map length seq combine].
        fold (full_pairs n r (S (S w))). rewrite IH. reflexivity.
      * right. exists (S (S k)). cbn. auto.
Qed.

(* F03a witness for the decomposition of the pinned commit: d[[3,0],..] *)
Lemma pair_chunks_old_refuted :
  exists n l, Forall (fun i => - n <= i < n) l /\
    flat_map (chunk_pairs (length l)) (pair_chunks_old n l 0) <> ref_pairs n l 0.
Proof.
  exists 5, [3; 0]. split.
  - repeat constructor; lia.
  - vm_compute. discriminate.
Qed.

(* ------------------------------------------------------------------------- *)
(* 5. Bounds reversal rule and field dicing                                    *)
(* ------------------------------------------------------------------------- *)

(* a slice's positions are strictly monotone in the direction of its step *)
Lemma range_list_monotone s e st i j d :
  st <> 0 -> (i < j)%nat -> (j < length (range_list s e st))%nat ->
  (st > 0 -> nth i (range_list s e st) d < nth j (range_list s e st) d) /\
  (st < 0 -> nth j (range_list s e st) d < nth i (range_list s e st) d).
Proof.
  intros Hs Hij Hj. rewrite !range_list_nth by lia. split; intros; nia.
Qed.

Lemma dice_spec data_axes ps caxes d :
  dice data_axes ps caxes = Some d ->
  length d = length caxes /\
  forall k ax, nth_error caxes k = Some ax ->
    nth_error d k = Some (match index_of ax data_axes 0 with
                          | Some i => nth i ps pall
                          | None => pall
                          end).
Proof.
  unfold dice. set (f := fun ax => match index_of ax data_axes 0 with
                                   | Some i => (true, nth i ps pall) | None => (false, pall) end).
  destruct (existsb fst (map f caxes)); [|discriminate].
  intros H; inversion H; subst; clear H. split; [now rewrite !map_length|].
  intros k ax Hk. rewrite map_map. rewrite nth_error_map, Hk. cbn. unfold f.
  destruct (index_of ax data_axes 0); reflexivity.
Qed.

Lemma dice_none data_axes ps caxes :
  dice data_axes ps caxes = None <->
  forall ax, In ax caxes -> index_of ax data_axes 0 = None.
Proof.
  unfold dice. set (f := fun ax => match index_of ax data_axes 0 with
                                   | Some i => (true, nth i ps pall) | None => (false, pall) end).
  destruct (existsb fst (map f caxes)) eqn:E; split; intros H; try discriminate; try reflexivity.
  - exfalso. apply existsb_exists in E as [x [Hx Hfx]]. apply in_map_iff in Hx as [ax [Hax Hin]].
    subst x. unfold f in Hfx. rewrite (H ax Hin) in Hfx. discriminate.
  - intros ax Hin. destruct (index_of ax data_axes 0) eqn:Ei; [|reflexivity].
    exfalso. assert (existsb fst (map f caxes) = true); [|congruence].
    apply existsb_exists. exists (f ax). split; [now apply in_map|]. unfold f. now rewrite Ei.
Qed.

(* the bounds of a 1-d construct with two-vertex cells are reversed exactly when a
   slice selects its cells in descending order (CF section 7.1) *)
Lemma reverse_bounds_slice size bsize a b st l :
  slice_positions size a b (Some st) = Some l -> (2 <= length l)%nat ->
  (reverse_bounds 2 size bsize (PSlice a b (Some st)) = true <-> nth 1 l 0 < nth 0 l 0).
Proof.
  unfold slice_positions. destruct (st =? 0) eqn:E0; [discriminate|].
  intros H Hl. inversion H; subst l; clear H.
  rewrite !range_list_nth by lia. unfold reverse_bounds.
  change (2 =? 2) with true. cbn [andb].
  change (Z.of_nat 1) with 1. change (Z.of_nat 0) with 0.
  split; intros H.
  - apply Z.ltb_lt in H. lia.
  - apply Z.ltb_lt. lia.
Qed.

(* cells with another number of vertices are never reordered *)
Lemma reverse_bounds_polygon nb size bsize p : nb <> 2 -> reverse_bounds nb size bsize p = false.
Proof. intros H. unfold reverse_bounds. assert (E : nb =? 2 = false) by lia. now rewrite E. Qed.
