(* C03 - executable model of cfdm's indexing, assignment and subspacing.
   Anchors: cfdm/data/data.py (Data._parse_indices, __getitem__, __setitem__,
   _set_subspace), cfdm/data/netcdfindexer.py (netcdf_indexer._index),
   cfdm/mixin/propertiesdatabounds.py (__getitem__, bounds reversal),
   cfdm/field.py (Field.__getitem__).  Definitions only. *)
From CfdmV Require Import Common.Base Common.PySlice.
Open Scope Z_scope.

(* ---- arrays ---------------------------------------------------------------- *)
(* An n-d array of optional integers (None = masked), as nested lists. *)
Inductive nd := Leaf (v : option Z) | Node (l : list nd).

Definition dummy : nd := Node [].

Fixpoint chunk_list {A} (k : nat) (fuel : nat) (l : list A) : list (list A) :=
  match fuel with
  | O => []
  | S f => firstn k l :: chunk_list k f (skipn k l)
  end.

(* row-major reshape of a flat list *)
Fixpoint reshape (shape : list nat) (flat : list (option Z)) : nd :=
  match shape with
  | [] => Leaf (hd None flat)
  | n :: rest =>
    let w := fold_right Nat.mul 1%nat rest in
    Node (map (reshape rest) (chunk_list w n flat))
  end.

Fixpoint flatten (a : nd) : list (option Z) :=
  match a with
  | Leaf v => [v]
  | Node l => flat_map flatten l
  end.

Fixpoint shape_of (rank : nat) (a : nd) : list nat :=
  match rank with
  | O => []
  | S r => match a with
           | Node l => length l :: shape_of r (hd dummy l)
           | Leaf _ => []
           end
  end.

(* select positions [pos] along axis [d] *)
Fixpoint take (d : nat) (pos : list nat) (a : nd) : nd :=
  match a with
  | Leaf v => Leaf v
  | Node l =>
    match d with
    | O => Node (map (fun i => nth i l dummy) pos)
    | S d' => Node (map (take d' pos) l)
    end
  end.

(* apply per-axis selections one axis at a time, in the given order *)
Definition take_all (ops : list (nat * list nat)) (a : nd) : nd :=
  fold_left (fun acc op => take (fst op) (snd op) acc) ops a.

(* simultaneous orthogonal selection: axis k gets positions (nth k poss) *)
Definition orth_take (poss : list (list nat)) (a : nd) : nd :=
  take_all (combine (seq 0 (length poss)) poss) a.

Fixpoint get (a : nd) (idx : list nat) : option Z :=
  match a, idx with
  | Leaf v, _ => v
  | Node l, i :: r => get (nth i l dummy) r
  | Node _, [] => None
  end.

Fixpoint upd_nth {A} (i : nat) (f : A -> A) (l : list A) : list A :=
  match l, i with
  | [], _ => []
  | x :: r, O => f x :: r
  | x :: r, S i' => x :: upd_nth i' f r
  end.

(* single-element store *)
Fixpoint store (idx : list nat) (v : option Z) (a : nd) : nd :=
  match a, idx with
  | Leaf _, _ => Leaf v
  | Node l, i :: r => Node (upd_nth i (store r v) l)
  | Node l, [] => Node l
  end.

(* a sequence of stores, executed in order *)
Definition exec (prog : list (list nat * option Z)) (a : nd) : nd :=
  fold_left (fun acc st => store (fst st) (snd st) acc) prog a.

(* ---- index expressions ------------------------------------------------------ *)
Inductive index :=
| IInt (i : Z)
| ISlice (a b c : option Z)
| IList (l : list Z)
| IBool (l : list bool)
| IEllipsis.

(* what Data._parse_indices produces for one axis *)
Inductive pindex :=
| PSlice (a b c : option Z)
| PList (l : list Z).

Definition pall : pindex := PSlice None None None.

(* step 1: expand Ellipsis (each Ellipsis consumes what is left over) *)
Fixpoint expand_ellipsis (idx : list index) (n len : Z) : list (index + pindex) :=
  match idx with
  | [] => []
  | IEllipsis :: r =>
    let m := n - len + 1 in
    map (fun _ => inr pall) (seq 0 (Z.to_nat m)) ++ expand_ellipsis r (n - m) (len - 1)
  | i :: r => inl i :: expand_ellipsis r (n - 1) (len - 1)
  end.

Fixpoint where_true (i : Z) (l : list bool) : list Z :=
  match l with
  | [] => []
  | b :: r => if b then i :: where_true (i + 1) r else where_true (i + 1) r
  end.

Definition int_to_slice (i size : Z) : pindex :=
  let i' := if i <? 0 then i + size else i in
  PSlice (Some i') (Some (i' + 1)) (Some 1).

Definition list_to_pindex (l : list Z) (size : Z) : pindex :=
  match l with
  | [i] => int_to_slice i size
  | _ => PList l
  end.

(* step 3: normalise one index against the size of its axis *)
Definition parse_one (i : index + pindex) (size : Z) : result pindex :=
  match i with
  | inr p => Ok p
  | inl (ISlice a b c) => Ok (PSlice a b c)
  | inl (IInt i) => Ok (int_to_slice i size)
  | inl (IBool l) =>
    if Z.of_nat (length l) =? size then Ok (list_to_pindex (where_true 0 l) size)
    else Err IndexErr
  | inl (IList l) => Ok (list_to_pindex l size)
  | inl IEllipsis => Ok pall   (* unreachable: removed by expand_ellipsis *)
  end.

Fixpoint parse_zip (is : list (index + pindex)) (shape : list Z) : result (list pindex) :=
  match is, shape with
  | i :: ri, s :: rs =>
    rbind (parse_one i s) (fun p => rbind (parse_zip ri rs) (fun ps => Ok (p :: ps)))
  | _, _ => Ok []
  end.

(* Data._parse_indices *)
Definition parse_indices (shape : list Z) (idx : list index) : result (list pindex) :=
  let ndim := Z.of_nat (length shape) in
  let e := expand_ellipsis idx ndim (Z.of_nat (length idx)) in
  let le := Z.of_nat (length e) in
  if (0 <? ndim) && (ndim <? le) then Err IndexErr
  else
    let e' := if le <? ndim
              then e ++ map (fun _ => inr pall) (seq 0 (Z.to_nat (ndim - le))) else e in
    if (ndim =? 0) && negb (Nat.eqb (length e') 0) then Err IndexErr
    else parse_zip e' shape.

(* ---- positions selected on one axis ----------------------------------------- *)
(* dask's normalize_index on a list: IndexError when out of range, negatives made
   positive.  Slices follow Python. *)
Fixpoint posify (size : Z) (l : list Z) : result (list nat) :=
  match l with
  | [] => Ok []
  | i :: r =>
    if (i <? - size) || (i >=? size) then Err IndexErr
    else rbind (posify size r) (fun ps => Ok (Z.to_nat (if i <? 0 then i + size else i) :: ps))
  end.

(* dask.array.slicing.normalize_slice, through which netcdf_indexer._index
   passes every slice before it reaches numpy / netCDF4 / h5py.  None when the
   step is 0 (slice.indices raises ValueError). *)
Definition dask_normalize_slice (dim : Z) (a b c : option Z)
  : option (option Z * option Z * option Z) :=
  let step := match c with Some s => s | None => 1 end in
  if step =? 0 then None
  else
    let start := slice_start dim a step in
    let stop := slice_stop dim b step in
    if step >? 0 then
      let start' := if start =? 0 then None else Some start in
      let stop' := if stop >=? dim then None else Some stop in
      let step' := if step =? 1 then None else Some step in
      let stop'' := match stop', start' with
                    | Some e, Some s0 => if e <? s0 then Some s0 else Some e
                    | _, _ => stop'
                    end in
      Some (start', stop'', step')
    else
      let start' := if start >=? dim - 1 then None else Some start in
      let stop' := if stop <? 0 then None else Some stop in
      Some (start', stop', Some step).

(* the positions a slice selects once it has been through dask and Python *)
Definition slice_positions_impl (size : Z) (a b c : option Z) : option (list Z) :=
  match dask_normalize_slice size a b c with
  | None => None
  | Some (a', b', c') => slice_positions size a' b' c'
  end.

Definition positions (size : Z) (p : pindex) : result (list nat) :=
  match p with
  | PSlice a b c =>
    match slice_positions_impl size a b c with
    | Some l => Ok (map Z.to_nat l)
    | None => Err ValueErr
    end
  | PList l => posify size l
  end.

Fixpoint positions_all (shape : list Z) (ps : list pindex) : result (list (list nat)) :=
  match shape, ps with
  | s :: rs, p :: rp =>
    rbind (positions s p) (fun x => rbind (positions_all rs rp) (fun xs => Ok (x :: xs)))
  | _, _ => Ok []
  end.

(* assignment hands the parsed indices straight to numpy: plain Python slices *)
Definition positions_py (size : Z) (p : pindex) : result (list nat) :=
  match p with
  | PSlice a b c =>
    match slice_positions size a b c with
    | Some l => Ok (map Z.to_nat l)
    | None => Err ValueErr
    end
  | PList l => posify size l
  end.

Fixpoint positions_all_py (shape : list Z) (ps : list pindex) : result (list (list nat)) :=
  match shape, ps with
  | s :: rs, p :: rp =>
    rbind (positions_py s p) (fun x => rbind (positions_all_py rs rp) (fun xs => Ok (x :: xs)))
  | _, _ => Ok []
  end.

(* ---- d[indices] ---------------------------------------------------------------- *)
(* Integer indices have become size-1 slices, so every axis is kept.  List axes
   are applied one at a time by the real code, in an order chosen by a size
   heuristic; C03_any_order shows the order is irrelevant, so the model applies
   them in axis order. *)
Definition getitem (shape : list Z) (a : nd) (idx : list index) : result (list nat * nd) :=
  rbind (parse_indices shape idx) (fun ps =>
  rbind (positions_all shape ps) (fun poss =>
  Ok (map (@length nat) poss, orth_take poss a))).

(* ---- d[indices] = value --------------------------------------------------------- *)
(* numpy broadcasting of a value whose shape [vshape] has been left-padded with
   1s to the array's rank: an extent must be 1 or equal to the target's. *)
Fixpoint bcast_ok (vshape tshape : list nat) : bool :=
  match vshape, tshape with
  | [], [] => true
  | vs :: rv, ts :: rt => (Nat.eqb vs 1 || Nat.eqb vs ts) && bcast_ok rv rt
  | _, _ => false
  end.

(* cartesian product of a list of lists, row-major (itertools.product) *)
Fixpoint cart {A} (ls : list (list A)) : list (list A) :=
  match ls with
  | [] => [[]]
  | l :: r => flat_map (fun x => map (cons x) (cart r)) l
  end.

(* along one axis: position k of the selection receives value element k, or
   element 0 when the value has extent 1 there (broadcast) *)
Definition axis_pairs (ps : list nat) (vlen : nat) : list (nat * nat) :=
  if Nat.eqb vlen 1 then map (fun q => (q, 0%nat)) ps
  else combine ps (seq 0 (length ps)).

(* one store: a tuple of per-axis (position, value index) pairs *)
Definition store_of (v : nd) (t : list (nat * nat)) : list nat * option Z :=
  (map fst t, get v (map snd t)).

Fixpoint axis_pairs_all (poss : list (list nat)) (vshape : list nat) : list (list (nat * nat)) :=
  match poss, vshape with
  | ps :: rp, vl :: rv => axis_pairs ps vl :: axis_pairs_all rp rv
  | _, _ => []
  end.

(* The reference semantics (numpy, each axis independent): element
   (poss_1[t_1], ..., poss_d[t_d]) receives value[t] (broadcast), the stores
   executed in row-major order of t so that a repeated position keeps the later
   value. *)
Definition orth_prog (poss : list (list nat)) (vshape : list nat) (v : nd)
  : list (list nat * option Z) :=
  map (store_of v) (cart (axis_pairs_all poss vshape)).

(* --- the pairwise decomposition of Data._set_subspace, per list axis --------- *)
(* One chunk: the positions it addresses (already expanded with Python slice
   semantics on an axis of size n) and the window [w0, w1) of value indices
   along that axis it is paired with. *)
Definition chunk := (list nat * (nat * nat))%type.

Definition norm (n i : Z) : Z := if i <? 0 then i + n else i.

Definition py_slice_nat (n : Z) (a b c : option Z) : list nat :=
  match slice_positions n a b c with Some l => map Z.to_nat l | None => [] end.

(* pairs (l[2N], l[2N+1]); w counts the value elements consumed so far *)
Fixpoint pair_chunks (n : Z) (l : list Z) (w : nat) : list chunk :=
  match l with
  | [] => []
  | [a] =>
    let s := norm n a in
    [(py_slice_nat n (Some s) (Some (s + 1)) None, (w, w + 2)%nat)]
  | a :: b :: r =>
    let s := norm n a in
    let e := norm n b in
    let step := e - s in
    (if step =? 0 then ([Z.to_nat s], (w + 1, w + 2)%nat)
     else if step >? 0 then (py_slice_nat n (Some s) (Some (e + 1)) (Some step), (w, w + 2)%nat)
     else (py_slice_nat n (Some s) (if e - 1 <? 0 then None else Some (e - 1)) (Some step),
           (w, w + 2)%nat))
    :: pair_chunks n r (w + 2)
  end.

(* the same with the defect of the pinned commit: stop = e - 1 may be -1 *)
Fixpoint pair_chunks_old (n : Z) (l : list Z) (w : nat) : list chunk :=
  match l with
  | [] => []
  | [a] =>
    let s := norm n a in
    [(py_slice_nat n (Some s) (Some (s + 1)) None, (w, w + 2)%nat)]
  | a :: b :: r =>
    let s := norm n a in
    let e := norm n b in
    let step := e - s in
    (if step =? 0 then ([Z.to_nat s], (w + 1, w + 2)%nat)
     else if step >? 0 then (py_slice_nat n (Some s) (Some (e + 1)) (Some step), (w, w + 2)%nat)
     else (py_slice_nat n (Some s) (Some (e - 1)) (Some step), (w, w + 2)%nat))
    :: pair_chunks_old n r (w + 2)
  end.

(* the 1-d store program of a chunk list: positions zipped with the (clipped)
   window of value indices; a value of extent 1 along the axis is broadcast *)
Definition window (vlen : nat) (w : nat * nat) : list nat :=
  if Nat.eqb vlen 1 then [] (* marker: broadcast *)
  else seq (fst w) (Nat.min (snd w) vlen - fst w).

Definition chunk_pairs (vlen : nat) (c : chunk) : list (nat * nat) :=
  let (ps, w) := c in
  if Nat.eqb vlen 1 then map (fun p => (p, 0%nat)) ps
  else combine ps (window vlen w).

(* per-axis description used by the n-d assignment: either one block (a slice
   axis, positions paired with value indices 0.. or broadcast) or the chunks *)
Definition axis_blocks (n : Z) (p : pindex) (vlen : nat) (is_list_axis : bool)
  : result (list (list (nat * nat))) :=
  match p with
  | PSlice a b c =>
    match slice_positions n a b c with
    | None => Err ValueErr
    | Some l =>
      Ok [axis_pairs (map Z.to_nat l) vlen]
    end
  | PList l =>
    if is_list_axis then Ok (map (chunk_pairs vlen) (pair_chunks n l 0))
    else rbind (posify n l) (fun ps => Ok [axis_pairs ps vlen])
  end.

(* one basic-slice assignment array[i] = value[j]: the stores of a block combo *)
Definition block_stores (v : nd) (combo : list (list (nat * nat))) : list (list nat * option Z) :=
  map (store_of v) (cart combo).

Definition is_plist (p : pindex) : bool := match p with PList _ => true | _ => false end.

Definition count_lists (ps : list pindex) : nat := length (filter is_plist ps).

(* pad the value's shape on the left with 1s up to the array's rank *)
Definition pad_vshape (rank : nat) (vshape : list nat) : list nat :=
  repeat 1%nat (rank - length vshape) ++ vshape.

Fixpoint axis_blocks_all (shape : list Z) (ps : list pindex) (vshape : list nat) (multi : bool)
  : result (list (list (list (nat * nat)))) :=
  match shape, ps, vshape with
  | s :: rs, p :: rp, vl :: rv =>
    rbind (axis_blocks s p vl multi) (fun b =>
    rbind (axis_blocks_all rs rp rv multi) (fun bs => Ok (b :: bs)))
  | _, _, _ => Ok []
  end.

(* the shape the indices address *)
Definition target_shape (poss : list (list nat)) : list nat := map (@length nat) poss.

(* Data.__setitem__ / _set_subspace.  [v] is the value as an n-d array whose
   shape [vshape] has already been left-padded to the array's rank by the
   caller (numpy broadcasting aligns on the right). *)
Definition setitem (shape : list Z) (a : nd) (idx : list index) (vshape : list nat) (v : nd)
  : result nd :=
  rbind (parse_indices shape idx) (fun ps =>
  rbind (positions_all_py shape ps) (fun poss =>
  if negb (bcast_ok vshape (target_shape poss)) then Err ValueErr
  else
    let multi := Nat.leb 2 (count_lists ps) in
    rbind (axis_blocks_all shape ps vshape multi) (fun blocks =>
    Ok (exec (flat_map (block_stores v) (cart blocks)) a)))).

(* the reference assignment *)
Definition setitem_spec (shape : list Z) (a : nd) (idx : list index) (vshape : list nat) (v : nd)
  : result nd :=
  rbind (parse_indices shape idx) (fun ps =>
  rbind (positions_all_py shape ps) (fun poss =>
  if negb (bcast_ok vshape (target_shape poss)) then Err ValueErr
  else Ok (exec (orth_prog poss vshape v) a))).

(* ---- bounds of a 1-d construct: the reversal rule -------------------------------- *)
(* PropertiesDataBounds.__getitem__: for bounds data of rank <= 2 the trailing
   axis is reversed when the (only) index is a slice with a negative step, or a
   list whose last position is smaller than its first (after making negative
   integers positive - the "fix:" commit), provided the bounds have more than
   one element and exactly two vertices per cell (a later "fix:" commit). *)
Definition reverse_bounds (nb : Z) (size : Z) (bsize : Z) (p : pindex) : bool :=
  (* only bounds with exactly two vertices per cell are ever reversed *)
  (nb =? 2) &&
  match p with
  | PSlice _ _ (Some st) => st <? 0
  | PSlice _ _ None => false
  | PList l =>
    match l with
    | [] => false
    | f :: _ => (1 <? bsize) && (norm size (last l 0) <? norm size f)
    end
  end.

(* ---- Field.__getitem__: which per-axis index each construct receives ------------ *)
(* data_axes: the field's data axis keys (as numbers); caxes: a construct's axes.
   The construct is diced iff it spans at least one data axis; unspanned axes get
   slice(None). *)
Fixpoint index_of (k : nat) (l : list nat) (i : nat) : option nat :=
  match l with
  | [] => None
  | x :: r => if Nat.eqb x k then Some i else index_of k r (S i)
  end.

Definition dice (data_axes : list nat) (ps : list pindex) (caxes : list nat)
  : option (list pindex) :=
  let d := map (fun ax => match index_of ax data_axes 0 with
                          | Some i => (true, nth i ps pall)
                          | None => (false, pall)
                          end) caxes in
  if existsb fst d then Some (map snd d) else None.
