(* C03 - n-dimensional assignment WITHOUT the duplicate-free guard: the array
   produced by Data._set_subspace's block-by-block visiting order equals the
   reference row-major last-store-wins semantics, for every in-range selection,
   repeated positions included.  Method: the value an element ends up with is
   the value of the last store addressed to it ("last writer"); both orders have
   the same last writer for every element, because on every axis the chunk
   decomposition has the same last writer as the plain list (C03_pair_chunks)
   and the last tuple of a row-major product is the tuple of per-axis lasts. *)
From Coq Require Import Permutation.
From CfdmV Require Import Common.Base Common.PySlice C03.Model C03.Lemmas C03.SetLemmas.
Open Scope Z_scope.

(* ---- last element satisfying a predicate --------------------------------------- *)
Fixpoint find_last {A} (p : A -> bool) (l : list A) : option A :=
  match l with
  | [] => None
  | x :: r => match find_last p r with
              | Some y => Some y
              | None => if p x then Some x else None
              end
  end.

Lemma find_last_app {A} (p : A -> bool) l1 l2 :
  find_last p (l1 ++ l2) = match find_last p l2 with
                           | Some y => Some y
                           | None => find_last p l1
                           end.
Proof.
  induction l1 as [|x r IH]; simpl; [destruct (find_last p l2); reflexivity|].
  rewrite IH. destruct (find_last p l2); reflexivity.
Qed.

Lemma find_last_none {A} (p : A -> bool) l :
  find_last p l = None <-> forall x, In x l -> p x = false.
Proof.
  induction l as [|x r IH]; simpl; [split; [intros _ y []|reflexivity]|].
  destruct IH as [IH1 IH2].
  destruct (find_last p r) as [y|].
  - split; [discriminate|]. intros H. exfalso.
    assert (N : Some y = None) by (apply IH2; intros z Hz; apply H; now right).
    discriminate.
  - destruct (p x) eqn:Px; split; try discriminate; try reflexivity.
    + intros H. specialize (H x (or_introl eq_refl)). congruence.
    + intros _ y [<-|Hy]; [exact Px|]. now apply (IH1 eq_refl).
Qed.

Lemma find_last_some {A} (p : A -> bool) l y : find_last p l = Some y -> p y = true /\ In y l.
Proof.
  induction l as [|x r IH]; simpl; [discriminate|].
  destruct (find_last p r) eqn:E.
  - intros H; inversion H; subst. destruct (IH eq_refl); auto.
  - destruct (p x) eqn:Px; [|discriminate]. intros H; inversion H; subst. auto.
Qed.

Lemma find_last_ext {A} (p q : A -> bool) l :
  (forall x, In x l -> p x = q x) -> find_last p l = find_last q l.
Proof.
  induction l as [|x r IH]; intros H; simpl; [reflexivity|].
  rewrite IH by (intros y Hy; apply H; now right). rewrite (H x (or_introl eq_refl)). reflexivity.
Qed.

Lemma find_last_map {A B} (f : A -> B) (p : B -> bool) l :
  find_last p (map f l) = option_map f (find_last (fun x => p (f x)) l).
Proof.
  induction l as [|x r IH]; simpl; [reflexivity|]. rewrite IH.
  destruct (find_last (fun x0 => p (f x0)) r); simpl; [reflexivity|].
  destruct (p (f x)); reflexivity.
Qed.

Lemma find_last_flat_map {A B} (g : A -> list B) (p : B -> bool) l :
  find_last p (flat_map g l) =
  match find_last (fun x => existsb p (g x)) l with
  | Some x => find_last p (g x)
  | None => None
  end.
Proof.
  induction l as [|x r IH]; simpl; [reflexivity|].
  rewrite find_last_app, IH.
  destruct (find_last (fun x0 => existsb p (g x0)) r) as [y|] eqn:E.
  - destruct (find_last_some _ _ _ E) as [Hy _].
    destruct (find_last p (g y)) eqn:E2; [reflexivity|].
    exfalso. apply existsb_exists in Hy as [z [Hz Pz]].
    rewrite (proj1 (find_last_none p (g y)) E2 z Hz) in Pz. discriminate.
  - destruct (existsb p (g x)) eqn:Ex; [reflexivity|].
    apply find_last_none. intros z Hz.
    destruct (p z) eqn:Pz; [|reflexivity].
    assert (existsb p (g x) = true) by (apply existsb_exists; eauto). congruence.
Qed.

Lemma existsb_find_last {A} (p : A -> bool) l :
  existsb p l = match find_last p l with Some _ => true | None => false end.
Proof.
  induction l as [|x r IH]; simpl; [reflexivity|]. rewrite IH.
  destruct (find_last p r); [now rewrite orb_true_r|]. rewrite orb_false_r. destruct (p x); reflexivity.
Qed.

(* ---- the last matching tuple of a row-major product is the tuple of lasts ----------- *)
(* P x q : element x of an axis list matches the query component q *)
Fixpoint all2 {A Q} (P : A -> Q -> bool) (t : list A) (q : list Q) : bool :=
  match t, q with
  | [], [] => true
  | x :: rt, y :: rq => P x y && all2 P rt rq
  | _, _ => false
  end.

Fixpoint lasts {A Q} (P : A -> Q -> bool) (ls : list (list A)) (q : list Q) : option (list A) :=
  match ls, q with
  | [], [] => Some []
  | l :: rl, y :: rq =>
    match find_last (fun x => P x y) l, lasts P rl rq with
    | Some x, Some r => Some (x :: r)
    | _, _ => None
    end
  | _, _ => None
  end.

Lemma cart_find_last {A Q} (P : A -> Q -> bool) (ls : list (list A)) (q : list Q) :
  find_last (fun t => all2 P t q) (cart ls) = lasts P ls q.
Proof.
  revert q. induction ls as [|l rl IH]; intros q.
  - destruct q; reflexivity.
  - destruct q as [|y rq].
    + simpl. apply find_last_none. intros t Ht. apply in_flat_map in Ht as [x [_ Ht]].
      apply in_map_iff in Ht as [u [<- _]]. reflexivity.
    + cbn [cart lasts]. rewrite find_last_flat_map.
      (* whether map (cons x) (cart rl) holds a match depends on x only through P x y *)
      assert (Hex : forall x, existsb (fun t => all2 P t (y :: rq)) (map (cons x) (cart rl))
                              = P x y && match lasts P rl rq with Some _ => true | None => false end).
      { intros x. rewrite existsb_find_last, find_last_map. cbn [all2].
        destruct (P x y) eqn:Px; cbn [andb].
        - try (rewrite (find_last_ext _ (fun t => all2 P t rq)) by reflexivity). rewrite IH.
          destruct (lasts P rl rq); reflexivity.
        - try (rewrite (find_last_ext _ (fun _ => false)) by reflexivity).
          assert (E : find_last (fun _ : list A => false) (cart rl) = None)
            by (apply find_last_none; reflexivity).
          rewrite E. reflexivity. }
      rewrite (find_last_ext _ (fun x => P x y && match lasts P rl rq with Some _ => true | None => false end))
        by (intros x _; apply Hex).
      destruct (lasts P rl rq) as [r|] eqn:El.
      * rewrite (find_last_ext _ (fun x => P x y)) by (intros x _; apply andb_true_r).
        destruct (find_last (fun x => P x y) l) as [x|] eqn:Ex; [|reflexivity].
        destruct (find_last_some _ _ _ Ex) as [Px _].
        rewrite find_last_map. cbn [all2]. rewrite Px. cbn [andb].
        try (rewrite (find_last_ext _ (fun t => all2 P t rq)) by reflexivity).
        rewrite IH, El. reflexivity.
      * rewrite (find_last_ext _ (fun _ => false)) by (intros x _; apply andb_false_r).
        assert (E : find_last (fun _ : A => false) l = None) by (apply find_last_none; reflexivity).
        rewrite E. destruct (find_last (fun x => P x y) l); reflexivity.
Qed.

(* last match in a concatenation of blocks = last match in the last block that has one *)
Lemma find_last_concat {A} (p : A -> bool) (bs : list (list A)) :
  find_last p (concat bs) =
  match find_last (existsb p) bs with Some b => find_last p b | None => None end.
Proof.
  assert (E : concat bs = flat_map (fun b => b) bs).
  { induction bs as [|b r IH]; simpl; [reflexivity|now rewrite IH]. }
  rewrite E. apply (find_last_flat_map (fun b => b) p bs).
Qed.

(* ---- element access after a sequence of stores ---------------------------------------- *)
Definition in_bounds (sh idx : list nat) : Prop := Forall2 (fun i n => (i < n)%nat) idx sh.

Lemma in_bounds_length sh idx : in_bounds sh idx -> length idx = length sh.
Proof. intros H. induction H; simpl; congruence. Qed.

Lemma nth_upd_nth_same {A} i (f : A -> A) l d :
  (i < length l)%nat -> nth i (upd_nth i f l) d = f (nth i l d).
Proof.
  revert i; induction l as [|x r IH]; intros [|i] H; simpl in *; try lia; auto. apply IH. lia.
Qed.

Lemma nth_upd_nth_other {A} i j (f : A -> A) l d : i <> j -> nth j (upd_nth i f l) d = nth j l d.
Proof.
  revert i j; induction l as [|x r IH]; intros [|i] [|j] H; simpl; auto; try congruence.
Qed.

Lemma shaped_nth sh n l i : length l = n -> Forall (shaped sh) l -> (i < n)%nat -> shaped sh (nth i l dummy).
Proof. intros Hl Hf Hi. rewrite Forall_forall in Hf. apply Hf. apply nth_In. lia. Qed.

Lemma get_store_same sh : forall a p v, shaped sh a -> in_bounds sh p -> get (store p v a) p = v.
Proof.
  induction sh as [|n sh IH]; intros a p v Hs Hb; inversion Hb; subst.
  - destruct a; simpl in Hs; [reflexivity|contradiction].
  - destruct a as [va|la]; [simpl in Hs; contradiction|]. simpl in Hs. destruct Hs as [Hl Hf].
    cbn [store get]. rewrite nth_upd_nth_same by lia. apply IH; auto.
    eapply shaped_nth; eauto.
Qed.

Lemma get_store_other sh : forall a p q v,
  shaped sh a -> in_bounds sh p -> in_bounds sh q -> p <> q -> get (store p v a) q = get a q.
Proof.
  induction sh as [|n sh IH]; intros a p q v Hs Hp Hq Hne; inversion Hp; inversion Hq; subst.
  - congruence.
  - destruct a as [va|la]; [simpl in Hs; contradiction|]. simpl in Hs. destruct Hs as [Hl Hf].
    cbn [store get].
    match goal with
    | H1 : (?i < n)%nat, H2 : (?j < n)%nat |- _ =>
      destruct (Nat.eq_dec i j) as [E|E]
    end.
    + subst. rewrite nth_upd_nth_same by lia. apply IH; auto.
      * eapply shaped_nth; eauto.
      * congruence.
    + rewrite nth_upd_nth_other by auto. reflexivity.
Qed.

Definition idx_eqb (p q : list nat) : bool := list_eqb Nat.eqb p q.

Lemma idx_eqb_eq p q : idx_eqb p q = true <-> p = q.
Proof. apply list_eqb_eq. intros x y. apply Nat.eqb_eq. Qed.

Definition last_writer (P : list (list nat * option Z)) (q : list nat) : option (option Z) :=
  option_map snd (find_last (fun st => idx_eqb (fst st) q) P).

Lemma exec_shaped sh P : forall a, shaped sh a -> shaped sh (exec P a).
Proof.
  induction P as [|st P IH]; intros a Hs; [exact Hs|]. unfold exec in *. simpl. apply IH.
  now apply store_shaped.
Qed.

Lemma exec_app P1 P2 a : exec (P1 ++ P2) a = exec P2 (exec P1 a).
Proof. unfold exec. apply fold_left_app. Qed.

Lemma exec_get sh P : forall a q,
  shaped sh a -> Forall (fun st => in_bounds sh (fst st)) P -> in_bounds sh q ->
  get (exec P a) q = match last_writer P q with Some v => v | None => get a q end.
Proof.
  induction P as [|st P IH] using rev_ind; intros a q Hs HP Hq; [reflexivity|].
  apply Forall_app in HP as [HP Hst]. inversion Hst as [|? ? Hb _]; subst.
  rewrite exec_app. unfold last_writer. rewrite find_last_app. cbn [find_last].
  change (exec [st] (exec P a)) with (store (fst st) (snd st) (exec P a)).
  destruct (idx_eqb (fst st) q) eqn:E.
  - apply idx_eqb_eq in E. subst q. cbn [option_map]. apply get_store_same with (sh := sh); auto.
    now apply exec_shaped.
  - rewrite get_store_other with (sh := sh); auto.
    + apply IH; auto.
    + now apply exec_shaped.
    + intros Heq. rewrite Heq in E. assert (idx_eqb q q = true) by now apply idx_eqb_eq. congruence.
Qed.

(* two arrays of one shape with the same elements are equal *)
Lemma nd_ext sh : forall a b, shaped sh a -> shaped sh b ->
  (forall q, in_bounds sh q -> get a q = get b q) -> a = b.
Proof.
  induction sh as [|n sh IH]; intros a b Ha Hb H.
  - destruct a, b; simpl in *; try contradiction. f_equal. apply (H []). constructor.
  - destruct a as [|la], b as [|lb]; simpl in *; try contradiction.
    destruct Ha as [La Fa], Hb as [Lb Fb]. f_equal.
    apply nth_ext with (d := dummy) (d' := dummy); [congruence|]. intros i Hi.
    apply IH.
    + eapply shaped_nth; eauto. lia.
    + eapply shaped_nth; eauto. lia.
    + intros q Hq. apply (H (i :: q)). constructor; [lia|exact Hq].
Qed.

Theorem exec_same_last_writer sh P Q a :
  shaped sh a ->
  Forall (fun st => in_bounds sh (fst st)) P -> Forall (fun st => in_bounds sh (fst st)) Q ->
  (forall q, in_bounds sh q -> last_writer P q = last_writer Q q) ->
  exec P a = exec Q a.
Proof.
  intros Hs HP HQ H. apply nd_ext with (sh := sh); try now apply exec_shaped.
  intros q Hq. rewrite (exec_get sh P a q), (exec_get sh Q a q) by auto. now rewrite H.
Qed.

(* ---- the two visiting orders have the same last writer ---------------------------------- *)
Definition hits (x : nat * nat) (k : nat) : bool := Nat.eqb (fst x) k.

Lemma all2_hits t q : all2 hits t q = idx_eqb (map fst t) q.
Proof.
  revert q; induction t as [|x r IH]; intros [|k rq]; simpl; try reflexivity.
  unfold idx_eqb in *. simpl. now rewrite IH.
Qed.

(* same last writer on one axis, for every position *)
Definition axis_equiv (l l' : list (nat * nat)) : Prop :=
  forall k, find_last (fun x => hits x k) l = find_last (fun x => hits x k) l'.

Lemma lasts_equiv ls ls' q : Forall2 axis_equiv ls ls' -> lasts hits ls q = lasts hits ls' q.
Proof.
  intros H. revert q. induction H as [|l l' rl rl' Hl _ IH]; intros q; [reflexivity|].
  destruct q as [|k rq]; [reflexivity|]. cbn [lasts]. now rewrite Hl, IH.
Qed.

Definition hits_block (b : list (nat * nat)) (k : nat) : bool := existsb (fun x => hits x k) b.

Lemma lasts_is_some (c : list (list (nat * nat))) q :
  match lasts hits c q with Some _ => true | None => false end = all2 hits_block c q.
Proof.
  revert q; induction c as [|b rc IH]; intros [|k rq]; try reflexivity.
  cbn [lasts all2]. rewrite <- IH. unfold hits_block. rewrite existsb_find_last.
  destruct (find_last (fun x => hits x k) b); destruct (lasts hits rc rq); reflexivity.
Qed.

Lemma lasts_blocks (blocks : list (list (list (nat * nat)))) q :
  match lasts hits_block blocks q with Some c => lasts hits c q | None => None end
  = lasts hits (map (@concat (nat * nat)) blocks) q.
Proof.
  revert q; induction blocks as [|bs rb IH]; intros [|k rq]; try reflexivity.
  cbn [lasts map]. rewrite find_last_concat. specialize (IH rq).
  unfold hits_block at 1.
  destruct (find_last (existsb (fun x => hits x k)) bs) as [b|] eqn:Eb.
  - destruct (lasts hits_block rb rq) as [c|] eqn:Ec.
    + cbn [lasts]. rewrite IH. reflexivity.
    + rewrite <- IH. destruct (find_last (fun x => hits x k) b); reflexivity.
  - destruct (lasts hits (map (@concat (nat * nat)) rb) rq); reflexivity.
Qed.

Definition tuple_value (v : nd) (t : list (nat * nat)) : option Z := get v (map snd t).

Lemma last_writer_of_tuples v (L : list (list (nat * nat))) q :
  last_writer (map (store_of v) L) q =
  option_map (tuple_value v) (find_last (fun t => all2 hits t q) L).
Proof.
  unfold last_writer. rewrite find_last_map. unfold store_of at 2. cbn [fst].
  rewrite (find_last_ext _ (fun t => all2 hits t q)) by (intros t _; symmetry; apply all2_hits).
  destruct (find_last (fun t => all2 hits t q) L); reflexivity.
Qed.

Lemma last_writer_spec_order v pairs q :
  last_writer (map (store_of v) (cart pairs)) q = option_map (tuple_value v) (lasts hits pairs q).
Proof. now rewrite last_writer_of_tuples, cart_find_last. Qed.

Lemma last_writer_block_order v blocks q :
  last_writer (map (store_of v) (flat_map cart (cart blocks))) q =
  option_map (tuple_value v) (lasts hits (map (@concat (nat * nat)) blocks) q).
Proof.
  rewrite last_writer_of_tuples, find_last_flat_map.
  rewrite (find_last_ext _ (fun c => all2 hits_block c q)).
  - rewrite cart_find_last, <- lasts_blocks.
    destruct (lasts hits_block blocks q) as [c|]; [|reflexivity].
    now rewrite cart_find_last.
  - intros c _. rewrite existsb_find_last, cart_find_last. apply lasts_is_some.
Qed.

(* ---- one axis ------------------------------------------------------------------------------ *)
Lemma axis_equiv_refl l : axis_equiv l l.
Proof. intros k; reflexivity. Qed.

Lemma axis_equiv_bcast l l' :
  axis_equiv l l' ->
  axis_equiv (map (fun p : nat * nat => (fst p, 0%nat)) l) (map (fun p : nat * nat => (fst p, 0%nat)) l').
Proof.
  intros H k. rewrite !find_last_map.
  rewrite (find_last_ext _ (fun x => hits x k) l) by reflexivity.
  rewrite (find_last_ext _ (fun x => hits x k) l') by reflexivity.
  now rewrite (H k).
Qed.

Lemma ref_full_equiv n l : forall w, axis_equiv (ref_pairs n l w) (full_pairs n l w).
Proof.
  induction l as [| a | a b r IH] using list_ind2; intros w k; try reflexivity.
  cbn [ref_pairs]. unfold full_pairs. cbn [map length seq combine].
  fold (full_pairs n r (S (S w))).
  change ((Z.to_nat (norm n a), w) :: (Z.to_nat (norm n b), S w) :: full_pairs n r (S (S w)))
    with ([(Z.to_nat (norm n a), w); (Z.to_nat (norm n b), S w)] ++ full_pairs n r (S (S w))).
  rewrite !find_last_app, (IH (S (S w)) k).
  destruct (find_last (fun x => hits x k) (full_pairs n r (S (S w)))); [reflexivity|].
  destruct (norm n a =? norm n b) eqn:E; [|reflexivity].
  apply Z.eqb_eq in E. rewrite E. unfold hits. cbn.
  destruct (Nat.eqb (Z.to_nat (norm n b)) k); reflexivity.
Qed.

Lemma full_pairs_axis n l pk :
  pk = map (fun i => Z.to_nat (norm n i)) l -> full_pairs n l 0 = combine pk (seq 0 (length pk)).
Proof. intros ->. unfold full_pairs. now rewrite map_length. Qed.

Lemma map_fst0_combine (pk : list nat) w :
  map (fun p : nat * nat => (fst p, 0%nat)) (combine pk (seq w (length pk))) = map (fun q => (q, 0%nat)) pk.
Proof. apply map_fst_const_combine. Qed.

Lemma axis_blocks_equiv n p vl multi pk :
  positions_py n p = Ok pk -> (vl = 1%nat \/ vl = length pk) ->
  exists bs, axis_blocks n p vl multi = Ok bs /\ axis_equiv (concat bs) (axis_pairs pk vl).
Proof.
  intros Hp Hvl. destruct p as [a b c|l]; simpl in Hp.
  - unfold axis_blocks. destruct (slice_positions n a b c) as [l|]; [|discriminate].
    inversion Hp; subst. eexists; split; [reflexivity|]. simpl. rewrite app_nil_r. apply axis_equiv_refl.
  - unfold axis_blocks. destruct multi.
    + destruct (posify_spec _ _ _ Hp) as [Hr Epk].
      eexists; split; [reflexivity|]. rewrite concat_map_flat_map.
      assert (Hlen : length pk = length l) by (rewrite Epk; apply map_length).
      unfold axis_pairs. destruct (Nat.eqb vl 1) eqn:E1.
      * apply Nat.eqb_eq in E1. subst vl. rewrite chunk_prog_bcast by exact Hr.
        rewrite <- (map_fst0_combine pk 0), <- (full_pairs_axis n l pk Epk).
        apply axis_equiv_bcast, ref_full_equiv.
      * apply Nat.eqb_neq in E1. destruct Hvl as [Hvl|Hvl]; [contradiction|].
        fold (chunk_prog n l 0 vl). rewrite chunk_prog_ref; auto; [|simpl; lia].
        rewrite <- (full_pairs_axis n l pk Epk). apply ref_full_equiv.
    + rewrite Hp. simpl. eexists; split; [reflexivity|]. simpl. rewrite app_nil_r. apply axis_equiv_refl.
Qed.

Lemma axis_blocks_all_equiv shape ps vshape multi poss :
  positions_all_py shape ps = Ok poss ->
  bcast_ok vshape (map (@length nat) poss) = true ->
  exists blocks, axis_blocks_all shape ps vshape multi = Ok blocks /\
                 Forall2 axis_equiv (map (@concat (nat * nat)) blocks) (axis_pairs_all poss vshape).
Proof.
  revert ps vshape poss. induction shape as [|s rs IH]; intros ps vshape poss Hp Hb.
  - simpl in Hp. inversion Hp; subst. destruct vshape; simpl in Hb; [|discriminate].
    exists []. split; [reflexivity|constructor].
  - destruct ps as [|p rp]; simpl in Hp.
    + inversion Hp; subst. destruct vshape; simpl in Hb; [|discriminate].
      exists []. split; [reflexivity|constructor].
    + destruct (positions_py s p) as [pk|] eqn:E1; simpl in Hp; [|discriminate].
      destruct (positions_all_py rs rp) as [poss'|] eqn:E2; simpl in Hp; [|discriminate].
      inversion Hp; subst. destruct vshape as [|vl rv]; simpl in Hb; [discriminate|].
      apply andb_true_iff in Hb as [Hb1 Hb2].
      assert (Hvl : vl = 1%nat \/ vl = length pk).
      { apply orb_true_iff in Hb1 as [H|H]; apply Nat.eqb_eq in H; auto. }
      destruct (axis_blocks_equiv s p vl multi pk E1 Hvl) as [bs [Hbs Hc]].
      destruct (IH rp rv poss' E2 Hb2) as [blocks [Hbl Hcs]].
      exists (bs :: blocks). simpl. rewrite Hbs, Hbl. simpl. split; [reflexivity|]. constructor; auto.
Qed.

(* ---- positions are valid indices ----------------------------------------------------------------- *)
Lemma posify_in_range n l ps : posify n l = Ok ps -> Forall (fun i => (i < Z.to_nat n)%nat) ps.
Proof.
  intros H. destruct (posify_spec _ _ _ H) as [Hr ->].
  apply Forall_forall. intros i Hi. apply in_map_iff in Hi as [z [<- Hz]].
  rewrite Forall_forall in Hr. specialize (Hr z Hz). apply norm_range in Hr. lia.
Qed.

Lemma positions_py_in_range n p pk :
  0 <= n -> positions_py n p = Ok pk -> Forall (fun i => (i < Z.to_nat n)%nat) pk.
Proof.
  intros Hn. destruct p as [a b c|l]; simpl.
  - destruct (slice_positions n a b c) as [l|] eqn:E; [|discriminate]. intros H; inversion H; subst.
    apply Forall_forall. intros i Hi. apply in_map_iff in Hi as [z [<- Hz]].
    pose proof (slice_positions_in_range n a b c l z Hn E Hz). lia.
  - apply posify_in_range.
Qed.

Lemma positions_all_py_in_range shape ps poss :
  Forall (fun n => 0 <= n) shape -> positions_all_py shape ps = Ok poss ->
  length ps = length shape ->
  Forall2 (fun pk n => Forall (fun i => (i < n)%nat) pk) poss (map Z.to_nat shape).
Proof.
  revert ps poss. induction shape as [|s rs IH]; intros ps poss Hn Hp Hl.
  - simpl in Hp. inversion Hp. constructor.
  - destruct ps as [|p rp]; [discriminate|]. simpl in Hp.
    destruct (positions_py s p) as [pk|] eqn:E1; simpl in Hp; [|discriminate].
    destruct (positions_all_py rs rp) as [poss'|] eqn:E2; simpl in Hp; [|discriminate].
    inversion Hp; subst. inversion Hn; subst. simpl. constructor.
    + eapply positions_py_in_range; eauto.
    + apply (IH rp); auto; simpl in Hl; lia.
Qed.

(* a tuple of the reference product addresses a valid element *)
Lemma cart_pairs_in_bounds poss vshape sh t :
  Forall2 (fun pk n => Forall (fun i => (i < n)%nat) pk) poss sh ->
  length vshape = length poss ->
  In t (cart (axis_pairs_all poss vshape)) -> in_bounds sh (map fst t).
Proof.
  intros H. revert vshape t. induction H as [|pk n rp rsh Hk _ IH]; intros vshape t Hl Ht.
  - destruct vshape; [|discriminate]. simpl in Ht. destruct Ht as [<-|[]]. constructor.
  - destruct vshape as [|vl rv]; [discriminate|]. simpl in Hl. cbn [axis_pairs_all cart] in Ht.
    apply in_flat_map in Ht as [x [Hx Ht]]. apply in_map_iff in Ht as [u [<- Hu]].
    simpl. constructor.
    + rewrite Forall_forall in Hk. apply Hk. rewrite <- (axis_pairs_fst pk vl). now apply in_map.
    + apply (IH rv); auto.
Qed.

(* an element of a block list addresses a position that the reference list also addresses *)
Lemma axis_equiv_fst_in l l' x : axis_equiv l l' -> In x l -> In (fst x) (map fst l').
Proof.
  intros H Hx. specialize (H (fst x)).
  destruct (find_last (fun y => hits y (fst x)) l) as [y|] eqn:E.
  - symmetry in H. destruct (find_last_some _ _ _ H) as [Hy Hin]. unfold hits in Hy.
    apply Nat.eqb_eq in Hy. rewrite <- Hy. now apply in_map.
  - exfalso. pose proof (proj1 (find_last_none _ _) E x Hx) as Hf. unfold hits in Hf.
    rewrite Nat.eqb_refl in Hf. discriminate.
Qed.

Lemma block_tuples_in_bounds (blocks : list (list (list (nat * nat)))) poss vshape sh t :
  Forall2 axis_equiv (map (@concat (nat * nat)) blocks) (axis_pairs_all poss vshape) ->
  Forall2 (fun pk n => Forall (fun i => (i < n)%nat) pk) poss sh ->
  length vshape = length poss ->
  In t (flat_map cart (cart blocks)) -> in_bounds sh (map fst t).
Proof.
  intros He Hb Hl Ht. apply in_flat_map in Ht as [c [Hc Ht]].
  revert poss vshape sh t c He Hb Hl Hc Ht.
  induction blocks as [|bs rb IH]; intros poss vshape sh t c He Hb Hl Hc Ht.
  - simpl in Hc. destruct Hc as [<-|[]]. simpl in Ht. destruct Ht as [<-|[]].
    simpl in He. inversion He as [|]; subst.
    destruct poss; [inversion Hb; constructor|].
    destruct vshape; [discriminate|]. simpl in H. discriminate.
  - cbn [cart] in Hc. apply in_flat_map in Hc as [b [Hbin Hc]]. apply in_map_iff in Hc as [c' [<- Hc']].
    cbn [cart] in Ht. apply in_flat_map in Ht as [x [Hx Ht]]. apply in_map_iff in Ht as [u [<- Hu]].
    destruct poss as [|pk rp]; [simpl in He; inversion He|].
    destruct vshape as [|vl rv]; [discriminate|].
    cbn [map axis_pairs_all] in He. inversion He as [|? ? ? ? Hax Hrest]; subst.
    inversion Hb as [|? ? ? ? Hk Hb']; subst. simpl. constructor.
    + assert (Hin : In x (concat bs)) by (apply in_concat; eauto).
      pose proof (axis_equiv_fst_in _ _ _ Hax Hin) as Hf. rewrite axis_pairs_fst in Hf.
      rewrite Forall_forall in Hk. now apply Hk.
    + apply (IH rp rv l' u c'); auto.
Qed.

(* ---- the theorem ------------------------------------------------------------------------------------ *)
Theorem setitem_decomposition_full shape a idx vshape v :
  Forall (fun n => 0 <= n) shape -> shaped (map Z.to_nat shape) a ->
  setitem shape a idx vshape v = setitem_spec shape a idx vshape v.
Proof.
  intros Hn Hs. unfold setitem, setitem_spec.
  destruct (parse_indices shape idx) as [ps|] eqn:Hps; cbn [rbind]; [|reflexivity].
  destruct (positions_all_py shape ps) as [poss|] eqn:Hposs; cbn [rbind]; [|reflexivity].
  destruct (bcast_ok vshape (target_shape poss)) eqn:Hb; cbn [negb]; [|reflexivity].
  destruct (axis_blocks_all_equiv shape ps vshape (Nat.leb 2 (count_lists ps)) poss Hposs Hb)
    as [blocks [Hbl He]].
  rewrite Hbl. cbn [rbind]. f_equal.
  assert (Hlv : length vshape = length poss).
  { apply bcast_ok_length in Hb. unfold target_shape in Hb. now rewrite map_length in Hb. }
  assert (Hlp : length ps = length shape) by (apply (parse_indices_length _ _ _ Hps)).
  pose proof (positions_all_py_in_range shape ps poss Hn Hposs Hlp) as Hr.
  assert (E : flat_map (block_stores v) (cart blocks) = map (store_of v) (flat_map cart (cart blocks))).
  { unfold block_stores. now rewrite map_flat_map'. }
  rewrite E. unfold orth_prog.
  apply exec_same_last_writer with (sh := map Z.to_nat shape); auto.
  - apply Forall_forall. intros st Hst. apply in_map_iff in Hst as [t [<- Ht]].
    unfold store_of. cbn [fst]. eapply block_tuples_in_bounds; eauto.
  - apply Forall_forall. intros st Hst. apply in_map_iff in Hst as [t [<- Ht]].
    unfold store_of. cbn [fst]. eapply cart_pairs_in_bounds; eauto.
  - intros q _. rewrite last_writer_block_order, last_writer_spec_order.
    now rewrite (lasts_equiv _ _ q He).
Qed.
