(* C03 - the n-dimensional assignment theorem: the product of per-axis chunk
   decompositions executed by Data._set_subspace equals the reference
   row-major program, for every rank, shape and selection without repeated
   positions along an axis. *)
From Coq Require Import Permutation.
From CfdmV Require Import Common.Base Common.PySlice C03.Model C03.Lemmas.
Open Scope Z_scope.

(* ---- list combinatorics ----------------------------------------------------- *)
Lemma flat_map_map' {A B C} (f : A -> B) (g : B -> list C) l :
  flat_map g (map f l) = flat_map (fun x => g (f x)) l.
Proof. induction l as [|x r IH]; simpl; [reflexivity|now rewrite IH]. Qed.

Lemma map_flat_map' {A B C} (f : B -> C) (g : A -> list B) l :
  map f (flat_map g l) = flat_map (fun x => map f (g x)) l.
Proof. induction l as [|x r IH]; simpl; [reflexivity|now rewrite map_app, IH]. Qed.

Lemma flat_map_flat_map' {A B C} (f : A -> list B) (g : B -> list C) l :
  flat_map g (flat_map f l) = flat_map (fun x => flat_map g (f x)) l.
Proof. induction l as [|x r IH]; simpl; [reflexivity|now rewrite flat_map_app, IH]. Qed.

Lemma flat_map_concat' {A B} (f : A -> list B) ls :
  flat_map f (concat ls) = flat_map (flat_map f) ls.
Proof. induction ls as [|l r IH]; simpl; [reflexivity|now rewrite flat_map_app, IH]. Qed.

Lemma concat_map_flat_map {A B} (f : A -> list B) l : concat (map f l) = flat_map f l.
Proof. induction l as [|x r IH]; simpl; [reflexivity|now rewrite IH]. Qed.

Lemma Permutation_flat_map_pointwise {A B} (f g : A -> list B) l :
  (forall x, Permutation (f x) (g x)) -> Permutation (flat_map f l) (flat_map g l).
Proof.
  intros H. induction l as [|x r IH]; simpl; [constructor|]. now apply Permutation_app.
Qed.

Lemma flat_map_app_fun {A B} (g h : A -> list B) l :
  Permutation (flat_map (fun b => g b ++ h b) l) (flat_map g l ++ flat_map h l).
Proof.
  induction l as [|x r IH]; simpl; [constructor|].
  rewrite <- !app_assoc. apply Permutation_app_head.
  etransitivity; [apply Permutation_app_head; exact IH|].
  rewrite !app_assoc. apply Permutation_app_tail. apply Permutation_app_comm.
Qed.

Lemma flat_map_nil_fun {A B} (l : list A) : flat_map (fun _ => @nil B) l = [].
Proof. induction l; simpl; auto. Qed.

Lemma flat_map_swap {A B C} (f : A -> B -> list C) la lb :
  Permutation (flat_map (fun a => flat_map (fun b => f a b) lb) la)
              (flat_map (fun b => flat_map (fun a => f a b) la) lb).
Proof.
  induction la as [|a r IH]; simpl.
  - rewrite flat_map_nil_fun. constructor.
  - etransitivity; [apply Permutation_app_head; exact IH|].
    symmetry. apply flat_map_app_fun.
Qed.

(* the order in which Data._set_subspace visits the elements - block by block -
   is a rearrangement of the row-major order *)
Lemma cart_blocks_perm {A} (blocks : list (list (list A))) :
  Permutation (flat_map cart (cart blocks)) (cart (map (@concat A) blocks)).
Proof.
  induction blocks as [|bs rest IH].
  - simpl. constructor. constructor.
  - cbn [cart map]. rewrite flat_map_flat_map', flat_map_concat'.
    apply Permutation_flat_map_pointwise. intros B.
    rewrite flat_map_map'. cbn [cart].
    etransitivity.
    { apply (flat_map_swap (fun combo x => map (cons x) (cart combo))). }
    apply Permutation_flat_map_pointwise. intros x.
    rewrite <- map_flat_map'. apply Permutation_map. exact IH.
Qed.

(* ---- single-element stores commute -------------------------------------------- *)
Lemma upd_nth_length {A} i (f : A -> A) l : length (upd_nth i f l) = length l.
Proof. revert i; induction l as [|x r IH]; intros [|i]; simpl; auto. Qed.

Lemma upd_nth_comm {A} i j (f g : A -> A) l :
  i <> j -> upd_nth i f (upd_nth j g l) = upd_nth j g (upd_nth i f l).
Proof.
  revert i j; induction l as [|x r IH]; intros [|i] [|j] H; simpl; auto; try congruence.
  f_equal. apply IH. congruence.
Qed.

Lemma upd_nth_twice {A} i (f g : A -> A) l :
  upd_nth i f (upd_nth i g l) = upd_nth i (fun x => f (g x)) l.
Proof. revert i; induction l as [|x r IH]; intros [|i]; simpl; auto. f_equal. apply IH. Qed.

Lemma upd_nth_ext_in {A} i (f g : A -> A) l :
  (forall x, In x l -> f x = g x) -> upd_nth i f l = upd_nth i g l.
Proof.
  revert i; induction l as [|x r IH]; intros [|i] H; simpl; auto.
  - f_equal. apply H. now left.
  - f_equal. apply IH. intros y Hy. apply H. now right.
Qed.

Lemma upd_nth_Forall {A} (P : A -> Prop) i (f : A -> A) l :
  (forall x, P x -> P (f x)) -> Forall P l -> Forall P (upd_nth i f l).
Proof.
  intros Hf. revert i; induction l as [|x r IH]; intros [|i] H; simpl; auto;
    inversion H; subst; constructor; auto.
Qed.

Lemma store_shaped sh : forall a idx v, shaped sh a -> shaped sh (store idx v a).
Proof.
  induction sh as [|n sh IH]; intros a idx v Hs; destruct a as [x|l]; simpl in *; try contradiction.
  - destruct idx; exact I.
  - destruct idx as [|i r]; [exact Hs|]. destruct Hs as [Hl Hf]. simpl.
    split; [now rewrite upd_nth_length|]. apply upd_nth_Forall; auto.
Qed.

Lemma store_comm sh : forall a p q v w,
  shaped sh a -> length p = length sh -> length q = length sh -> p <> q ->
  store p v (store q w a) = store q w (store p v a).
Proof.
  induction sh as [|n sh IH]; intros a p q v w Hs Hp Hq Hne.
  - destruct p, q; simpl in *; try discriminate. congruence.
  - destruct a as [x|l]; [simpl in Hs; contradiction|]. simpl in Hs. destruct Hs as [Hl Hf].
    destruct p as [|i p']; [discriminate|]. destruct q as [|j q']; [discriminate|].
    simpl in Hp, Hq. simpl. f_equal.
    destruct (Nat.eq_dec i j) as [E|E].
    + subst j. rewrite !upd_nth_twice. apply upd_nth_ext_in. intros x Hx.
      rewrite Forall_forall in Hf. apply IH; auto; try lia. congruence.
    + now apply upd_nth_comm.
Qed.

Definition prog_ok (rank : nat) (P : list (list nat * option Z)) : Prop :=
  NoDup (map fst P) /\ Forall (fun st => length (fst st) = rank) P.

Lemma prog_ok_perm rank P Q : Permutation P Q -> prog_ok rank P -> prog_ok rank Q.
Proof.
  intros H [H1 H2]. split.
  - eapply Permutation_NoDup; [|exact H1]. now apply Permutation_map.
  - eapply Permutation_Forall; eauto.
Qed.

Lemma exec_perm P Q :
  Permutation P Q -> forall sh a, shaped sh a -> prog_ok (length sh) P -> exec P a = exec Q a.
Proof.
  induction 1 as [|st l l' HP IH|s1 s2 l|l l' l'' P1 IH1 P2 IH2]; intros sh a Hs Hok.
  - reflexivity.
  - unfold exec in *. simpl. apply (IH sh).
    + now apply store_shaped.
    + destruct Hok as [H1 H2]. simpl in H1. inversion H1; inversion H2; subst. split; auto.
  - unfold exec. simpl. f_equal.
    destruct Hok as [H1 H2]. simpl in H1.
    inversion H1 as [|? ? Hnin _]; subst. inversion H2 as [|? ? L1 H2']; subst.
    inversion H2' as [|? ? L2 _]; subst.
    apply store_comm with (sh := sh); auto.
    intros E. apply Hnin. simpl. left. congruence.
  - rewrite (IH1 sh a Hs Hok). apply (IH2 sh a Hs). eapply prog_ok_perm; eauto.
Qed.

(* ---- products of duplicate-free lists are duplicate-free ------------------------ *)
Lemma NoDup_app' {A} (l1 l2 : list A) :
  NoDup l1 -> NoDup l2 -> (forall x, In x l1 -> ~ In x l2) -> NoDup (l1 ++ l2).
Proof.
  induction l1 as [|x r IH]; simpl; intros H1 H2 H; [exact H2|].
  inversion H1; subst. constructor.
  - intros Hin. apply in_app_or in Hin as [Hin|Hin]; [contradiction|]. apply (H x); auto.
  - apply IH; auto.
Qed.

Lemma cart_NoDup {A} (ls : list (list A)) : Forall (@NoDup A) ls -> NoDup (cart ls).
Proof.
  induction ls as [|l r IH]; intros H; simpl.
  - constructor; [intros []|constructor].
  - inversion H as [|? ? Hl Hr]; subst. specialize (IH Hr).
    induction l as [|x l' IHl]; simpl; [constructor|].
    inversion Hl as [|? ? Hnin Hl']; subst.
    apply NoDup_app'.
    + apply FinFun.Injective_map_NoDup; [|exact IH]. intros u w E. now inversion E.
    + apply IHl; auto; constructor; auto.
    + intros t Ht Ht'. apply in_map_iff in Ht as [u [Eu _]]. subst t.
      apply in_flat_map in Ht' as [y [Hy Hin]]. apply in_map_iff in Hin as [w [Ew _]].
      inversion Ew; subst. contradiction.
Qed.

Lemma cart_map {A B} (f : A -> B) (ls : list (list A)) :
  map (map f) (cart ls) = cart (map (map f) ls).
Proof.
  induction ls as [|l r IH]; simpl; [reflexivity|].
  rewrite map_flat_map', flat_map_map'. apply flat_map_ext. intros x.
  rewrite !map_map. rewrite <- IH. rewrite map_map. reflexivity.
Qed.

Lemma cart_length_elem {A} (ls : list (list A)) t : In t (cart ls) -> length t = length ls.
Proof.
  revert t; induction ls as [|l r IH]; intros t H; simpl in H.
  - destruct H as [<-|[]]. reflexivity.
  - apply in_flat_map in H as [x [_ H]]. apply in_map_iff in H as [u [<- Hu]]. simpl. f_equal. auto.
Qed.

(* ---- one axis: the blocks concatenate to the reference pairs ---------------------- *)
Lemma posify_spec n l ps :
  posify n l = Ok ps ->
  Forall (fun i => - n <= i < n) l /\ ps = map (fun i => Z.to_nat (norm n i)) l.
Proof.
  revert ps; induction l as [|i r IH]; intros ps H; simpl in H.
  - inversion H. split; constructor.
  - destruct ((i <? - n) || (i >=? n)) eqn:E; [discriminate|].
    destruct (posify n r) as [ps'|] eqn:E'; simpl in H; [|discriminate].
    inversion H; subst. destruct (IH ps' eq_refl) as [H1 H2]. split.
    + constructor; auto. apply orb_false_iff in E as [E1 E2]. lia.
    + simpl. unfold norm. now rewrite H2.
Qed.

Lemma map_fst_combine_seq {A} (l : list A) w : map fst (combine l (seq w (length l))) = l.
Proof. revert w; induction l as [|x r IH]; intros w; simpl; [reflexivity|now rewrite IH]. Qed.

Lemma map_fst_const_combine {A B} (c : B) (l : list A) w :
  map (fun p : A * nat => (fst p, c)) (combine l (seq w (length l))) = map (fun q => (q, c)) l.
Proof. revert w; induction l as [|x r IH]; intros w; simpl; [reflexivity|now rewrite IH]. Qed.

Lemma axis_pairs_fst ps vl : map fst (axis_pairs ps vl) = ps.
Proof.
  unfold axis_pairs. destruct (Nat.eqb vl 1).
  - rewrite map_map. simpl. apply map_id.
  - apply map_fst_combine_seq.
Qed.

Lemma axis_pairs_length ps vl : length (axis_pairs ps vl) = length ps.
Proof. rewrite <- (axis_pairs_fst ps vl) at 2. now rewrite map_length. Qed.

(* without repeated positions the reference pairs are the sequential ones *)
Lemma ref_pairs_nodup n l :
  Forall (fun i => - n <= i < n) l ->
  NoDup (map (fun i => Z.to_nat (norm n i)) l) ->
  forall w, ref_pairs n l w = full_pairs n l w.
Proof.
  induction l as [| a | a b r IH] using list_ind2; intros Hr Hnd w.
  - reflexivity.
  - reflexivity.
  - inversion Hr as [|? ? Ha Hr']; subst. inversion Hr' as [|? ? Hb Hr'']; subst.
    simpl in Hnd. inversion Hnd as [|? ? Hnin Hnd']; subst. inversion Hnd' as [|? ? _ Hnd'']; subst.
    apply norm_range in Ha. apply norm_range in Hb.
    cbn [ref_pairs]. unfold full_pairs. cbn [map length seq combine].
    fold (full_pairs n r (S (S w))). rewrite IH by auto.
    destruct (norm n a =? norm n b) eqn:E; [|reflexivity].
    exfalso. apply Hnin. left. apply Z.eqb_eq in E. now rewrite E.
Qed.

Lemma chunk_prog_bcast n l :
  Forall (fun i => - n <= i < n) l ->
  forall w, flat_map (chunk_pairs 1) (pair_chunks n l w)
            = map (fun p => (fst p, 0%nat)) (ref_pairs n l w).
Proof.
  induction l as [| a | a b r IH] using list_ind2; intros Hr w.
  - reflexivity.
  - inversion Hr as [|? ? Ha _]; subst. apply norm_range in Ha.
    cbn [pair_chunks flat_map chunk_pairs]. rewrite app_nil_r. cbn [Nat.eqb].
    rewrite py_slice_single by lia. reflexivity.
  - inversion Hr as [|? ? Ha Hr']; subst. inversion Hr' as [|? ? Hb Hr'']; subst.
    apply norm_range in Ha. apply norm_range in Hb.
    cbn [pair_chunks flat_map ref_pairs]. rewrite map_app.
    rewrite (IH Hr'' (w + 2)%nat). replace (w + 2)%nat with (S (S w)) by lia. f_equal.
    set (s := norm n a) in *. set (e := norm n b) in *.
    destruct (e - s =? 0) eqn:E0.
    + assert (Es : s =? e = true) by lia. rewrite Es. cbn. repeat f_equal; lia.
    + assert (Es : s =? e = false) by lia. rewrite Es.
      destruct (e - s >? 0) eqn:E1; unfold chunk_pairs; cbn [Nat.eqb].
      * rewrite py_slice_pair_up by lia. reflexivity.
      * rewrite py_slice_pair_down by lia. reflexivity.
Qed.

Lemma axis_blocks_concat n p vl multi pk :
  positions_py n p = Ok pk -> NoDup pk -> (vl = 1%nat \/ vl = length pk) ->
  exists bs, axis_blocks n p vl multi = Ok bs /\ concat bs = axis_pairs pk vl.
Proof.
  intros Hp Hnd Hvl. destruct p as [a b c|l]; simpl in Hp.
  - unfold axis_blocks. destruct (slice_positions n a b c) as [l|]; [|discriminate].
    inversion Hp; subst. eexists; split; [reflexivity|]. simpl. apply app_nil_r.
  - unfold axis_blocks. destruct multi.
    + destruct (posify_spec _ _ _ Hp) as [Hr Epk].
      eexists; split; [reflexivity|]. rewrite concat_map_flat_map.
      assert (Hlen : length pk = length l) by (rewrite Epk; apply map_length).
      assert (Hnd' : NoDup (map (fun i => Z.to_nat (norm n i)) l)) by (rewrite <- Epk; exact Hnd).
      unfold axis_pairs. destruct (Nat.eqb vl 1) eqn:E1.
      * apply Nat.eqb_eq in E1. subst vl.
        rewrite chunk_prog_bcast by exact Hr. rewrite ref_pairs_nodup by auto.
        unfold full_pairs. rewrite <- Epk.
        rewrite <- Hlen.
        apply map_fst_const_combine.
      * apply Nat.eqb_neq in E1. destruct Hvl as [Hvl|Hvl]; [contradiction|].
        fold (chunk_prog n l 0 vl). rewrite chunk_prog_ref; auto; [|simpl; lia].
        rewrite ref_pairs_nodup by auto. unfold full_pairs. rewrite <- Epk, Hlen. reflexivity.
    + rewrite Hp. simpl. eexists; split; [reflexivity|]. simpl. apply app_nil_r.
Qed.

Lemma axis_blocks_all_concat shape ps vshape multi poss :
  positions_all_py shape ps = Ok poss -> Forall (@NoDup nat) poss ->
  bcast_ok vshape (map (@length nat) poss) = true ->
  exists blocks, axis_blocks_all shape ps vshape multi = Ok blocks /\
                 map (@concat (nat * nat)) blocks = axis_pairs_all poss vshape.
Proof.
  revert ps vshape poss. induction shape as [|s rs IH]; intros ps vshape poss Hp Hnd Hb.
  - simpl in Hp. inversion Hp; subst. destruct vshape; simpl in Hb; [|discriminate].
    exists []. split; reflexivity.
  - destruct ps as [|p rp]; simpl in Hp.
    + inversion Hp; subst. destruct vshape; simpl in Hb; [|discriminate]. exists []. split; reflexivity.
    + destruct (positions_py s p) as [pk|] eqn:E1; simpl in Hp; [|discriminate].
      destruct (positions_all_py rs rp) as [poss'|] eqn:E2; simpl in Hp; [|discriminate].
      inversion Hp; subst. inversion Hnd as [|? ? Hk Hnd']; subst.
      destruct vshape as [|vl rv]; simpl in Hb; [discriminate|].
      apply andb_true_iff in Hb as [Hb1 Hb2].
      assert (Hvl : vl = 1%nat \/ vl = length pk).
      { apply orb_true_iff in Hb1 as [H|H]; apply Nat.eqb_eq in H; auto. }
      destruct (axis_blocks_concat s p vl multi pk E1 Hk Hvl) as [bs [Hbs Hc]].
      destruct (IH rp rv poss' E2 Hnd' Hb2) as [blocks [Hbl Hcs]].
      exists (bs :: blocks). simpl. rewrite Hbs, Hbl. simpl. split; [reflexivity|]. now rewrite Hc, Hcs.
Qed.

Lemma positions_all_py_length shape ps poss :
  positions_all_py shape ps = Ok poss -> length poss = Nat.min (length shape) (length ps).
Proof.
  revert ps poss; induction shape as [|s rs IH]; intros [|p rp] poss H; simpl in H;
    try (inversion H; reflexivity).
  destruct (positions_py s p); simpl in H; [|discriminate].
  destruct (positions_all_py rs rp) eqn:E; simpl in H; [|discriminate].
  inversion H; subst. simpl. f_equal. now apply IH.
Qed.

Lemma axis_pairs_all_fst poss vshape :
  length vshape = length poss -> map (map fst) (axis_pairs_all poss vshape) = poss.
Proof.
  revert vshape; induction poss as [|ps rp IH]; intros [|vl rv] H; simpl in *; try discriminate; auto.
  rewrite axis_pairs_fst. f_equal. apply IH. lia.
Qed.

Lemma bcast_ok_length vshape tshape : bcast_ok vshape tshape = true -> length vshape = length tshape.
Proof.
  revert tshape; induction vshape as [|v rv IH]; intros [|t rt] H; simpl in *; try discriminate; auto.
  apply andb_true_iff in H as [_ H]. f_equal. now apply IH.
Qed.

(* ---- the theorem ---------------------------------------------------------------- *)
Theorem setitem_decomposition shape a idx vshape v sh ps poss :
  parse_indices shape idx = Ok ps -> positions_all_py shape ps = Ok poss ->
  Forall (@NoDup nat) poss -> shaped sh a -> length sh = length shape ->
  setitem shape a idx vshape v = setitem_spec shape a idx vshape v.
Proof.
  intros Hps Hposs Hnd Hs Hlen. unfold setitem, setitem_spec. rewrite Hps. cbn [rbind].
  rewrite Hposs. cbn [rbind].
  destruct (bcast_ok vshape (target_shape poss)) eqn:Hb; cbn [negb]; [|reflexivity].
  destruct (axis_blocks_all_concat shape ps vshape (Nat.leb 2 (count_lists ps)) poss Hposs Hnd Hb)
    as [blocks [Hbl Hc]].
  rewrite Hbl. cbn [rbind]. f_equal.
  unfold orth_prog. rewrite <- Hc.
  assert (E : flat_map (block_stores v) (cart blocks) = map (store_of v) (flat_map cart (cart blocks))).
  { unfold block_stores. now rewrite map_flat_map'. }
  rewrite E. symmetry. apply exec_perm with (sh := sh); auto.
  - apply Permutation_map. symmetry. apply cart_blocks_perm.
  - (* the reference program addresses pairwise distinct, full-rank positions *)
    assert (Hlv : length vshape = length poss).
    { apply bcast_ok_length in Hb. unfold target_shape in Hb. now rewrite map_length in Hb. }
    assert (Hlp : length poss = length shape).
    { rewrite (positions_all_py_length _ _ _ Hposs). rewrite (parse_indices_length _ _ _ Hps). lia. }
    split.
    + rewrite map_map. unfold store_of. cbn [fst].
      change (map (fun x : list (nat * nat) => map fst x)) with (map (map (@fst nat nat))).
      rewrite cart_map. rewrite Hc. rewrite axis_pairs_all_fst by exact Hlv.
      now apply cart_NoDup.
    + apply Forall_forall. intros st Hst. apply in_map_iff in Hst as [t [<- Ht]].
      unfold store_of. cbn [fst]. rewrite map_length.
      rewrite (cart_length_elem _ _ Ht). rewrite Hc.
      rewrite <- (map_length (map fst)). rewrite axis_pairs_all_fst by exact Hlv. lia.
Qed.
