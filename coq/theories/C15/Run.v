(* C15 - evaluation entry points for the correspondence harness. *)
From CfdmV Require Import Common.Base C15.Model.
Open Scope Z_scope.

Definition obs := result arr.

Definition arr_eqb : arr -> arr -> bool := list_eqb (list_eqb (option_eqb Z.eqb)).

Definition obs_eqb (m : result arr) (o : obs) : bool :=
  match m, o with
  | Ok a, Ok b => arr_eqb a b
  | Err e1, Err e2 => errk_eqb e1 e2
  | _, _ => false
  end.

(* edge or face cells: the domain topology, the bounds gathered from each node
   coordinate variable, normalise() and normalise(start_index=1, remove_empty_columns=True) *)
Definition check_cells
  (c : Z * bool * arr * list (list Z * obs) * obs * obs * obs) : bool :=
  let '(si, cd, stored, coords, o_dt, o_n0, o_n1) := c in
  let dt := dt_cells si cd stored in
  obs_eqb (Ok dt) o_dt &&
  forallb (fun co : list Z * obs => obs_eqb (bounds si cd stored (fst co)) (snd co)) coords &&
  obs_eqb (normalise_cells 0 false dt) o_n0 &&
  obs_eqb (normalise_cells 1 true dt) o_n1.

(* point cells; the implementation's rows are given with the neighbours sorted *)
Definition check_point (c : bool * nat * Z * bool * arr * obs) : bool :=
  let '(from_faces, n_nodes, si, cd, stored, o) := c in
  obs_eqb (Ok (point_topology from_faces n_nodes si cd stored)) o.

(* face_face_connectivity *)
Definition check_conn (c : Z * bool * arr * obs) : bool :=
  let '(si, cd, stored, o) := c in
  obs_eqb (Ok (cell_conn si cd stored)) o.

(* normalise() and normalise(start_index=1, remove_empty_columns=True) of an array as the
   implementation presented it (a whole or a subspaced construct) *)
Definition check_norm_cells (c : arr * obs * obs) : bool :=
  let '(a, o0, o1) := c in
  obs_eqb (normalise_cells 0 false a) o0 && obs_eqb (normalise_cells 1 true a) o1.

Definition check_norm_ids (c : arr * obs * obs) : bool :=
  let '(a, o0, o1) := c in
  obs_eqb (normalise_ids 0 false a) o0 && obs_eqb (normalise_ids 1 true a) o1.
