(* C15 - evaluation entry points for the correspondence harness. *)
From CfdmV Require Import Common.Base C15.Model C15.Mesh.
Open Scope Z_scope.

Definition obs := result arr.

Definition arr_eqb : arr -> arr -> bool := list_eqb (list_eqb (option_eqb Z.eqb)).

Definition obs_eqb (m : result arr) (o : obs) : bool :=
  match m, o with
  | Ok a, Ok b => arr_eqb a b
  | Err e1, Err e2 => errk_eqb e1 e2
  | _, _ => false
  end.

(* edge or face cells: the domain topology, the bounds gathered from each node
   coordinate variable, normalise() and normalise(start_index=1, remove_empty_columns=True) *)
Definition check_cells
  (c : Z * bool * arr * list (list Z * obs) * obs * obs * obs) : bool :=
  let '(si, cd, stored, coords, o_dt, o_n0, o_n1) := c in
  let dt := dt_cells si cd stored in
  obs_eqb (Ok dt) o_dt &&
  forallb (fun co : list Z * obs => obs_eqb (bounds si cd stored (fst co)) (snd co)) coords &&
  obs_eqb (normalise_cells 0 false dt) o_n0 &&
  obs_eqb (normalise_cells 1 true dt) o_n1.

(* point cells; the implementation's rows are given with the neighbours sorted *)
Definition check_point (c : bool * nat * Z * bool * arr * obs) : bool :=
  let '(from_faces, n_nodes, si, cd, stored, o) := c in
  obs_eqb (Ok (point_topology from_faces n_nodes si cd stored)) o.

(* face_face_connectivity *)
Definition check_conn (c : Z * bool * arr * obs) : bool :=
  let '(si, cd, stored, o) := c in
  obs_eqb (Ok (cell_conn si cd stored)) o.

(* normalise() and normalise(start_index=1, remove_empty_columns=True) of an array as the
   implementation presented it (a whole or a subspaced construct) *)
Definition check_norm_cells (c : arr * obs * obs) : bool :=
  let '(a, o0, o1) := c in
  obs_eqb (normalise_cells 0 false a) o0 && obs_eqb (normalise_cells 1 true a) o1.

Definition check_norm_ids (c : arr * obs * obs) : bool :=
  let '(a, o0, o1) := c in
  obs_eqb (normalise_ids 0 false a) o0 && obs_eqb (normalise_ids 1 true a) o1.

(* the reader's decisions about the mesh variable (Mesh.v) against what the constructs of
   the fields on node / edge / face show: cell type, size of the domain axis, rows of the
   domain topology, of the cell connectivity and of the node-gathered bounds; and against
   the (stored (node, cell), start index) pairs the array checks above were given.
   A mesh the checks reject must yield no topology construct (the read may also raise). *)
Definition loc_obs := option (string * Z * Z * option Z * option Z).

Definition rows_of3 (c : Z * bool * Z) : Z := fst (fst c).

(* the cell connectivity rows that may be seen: those of the repaired reader, or - when
   attaching succeeds - those of the construct the earlier code built from a
   face_face_connectivity variable on a foreign dimension (a malformed file: the property
   says nothing about it, so both readers agree with the model) *)
Definition obs5_ok (s : loc_summary) (b : string * Z * Z * option Z * option Z) : bool :=
  let '(c2, x2, r2, cc2, b2) := b in
  String.eqb (ls_cell s) c2 && (ls_axis s =? x2) && (rows_of3 (ls_dt s) =? r2)
  && (option_eqb Z.eqb (option_map rows_of3 (ls_cc s)) cc2
      || (attach_ok_old s && option_eqb Z.eqb (option_map rows_of3 (ls_cc_old s)) cc2))
  && option_eqb Z.eqb (option_map rows_of3 (ls_bounds s)) b2.

Definition flags (c : Z * bool * Z) : bool * Z := (snd (fst c), snd c).
Definition flags_eqb (a b : bool * Z) : bool := Bool.eqb (fst a) (fst b) && (snd a =? snd b).

(* intent: per location, the flags of the domain topology and of the cell connectivity *)
Definition intent_ok (s : option loc_summary) (i : option ((bool * Z) * option (bool * Z))) : bool :=
  match s, i with
  | Some s, Some (dtf, ccf) =>
    flags_eqb (flags (ls_dt s)) dtf && option_eqb flags_eqb (option_map flags (ls_cc s)) ccf
  | _, None => true
  | None, Some _ => false
  end.

(* ds: the dimension of the data variable located on node / edge / face, if there is one *)
Fixpoint zip3 (ms : list (option loc_summary)) (ds : list (option string)) (os : list loc_obs) : bool :=
  match ms, ds, os with
  | [], [], [] => true
  | m :: ms', d :: ds', o :: os' =>
    (match d with
     | None => true
     | Some dd =>
       match obind m (fun s => attach s dd), o with
       | Some s, Some x => obs5_ok s x
       | None, None => true
       | _, _ => false
       end
     end) && zip3 ms' ds' os'
  | _, _, _ => false
  end.

Fixpoint all2 {A B} (f : A -> B -> bool) (l1 : list A) (l2 : list B) : bool :=
  match l1, l2 with
  | [], [] => true
  | x :: r1, y :: r2 => f x y && all2 f r1 r2
  | _, _ => false
  end.

Definition check_mesh
  (c : meshmeta * list (option string) * result (list loc_obs) * list (option ((bool * Z) * option (bool * Z)))) : bool :=
  let '(m, data_on, obs, intent) := c in
  match parse_mesh m, obs with
  | Err _, Err _ => true
  | Ok None, Err _ => true
  | Ok None, Ok l => forallb (fun o : loc_obs => match o with None => true | Some _ => false end) l
  | Ok (Some ls), Ok l => zip3 ls data_on l && all2 intent_ok ls intent
  | Ok (Some ls), Err _ =>
    (* only the earlier code raises here, and only because a construct could not be attached *)
    existsb (fun p : option loc_summary * option string =>
               match p with
               | (Some s, Some dd) => match attach s dd with Some s' => negb (attach_ok_old s') | None => false end
               | _ => false
               end) (combine ls data_on)
  | _, _ => false
  end.
