(* C15 - proofs about the model in Model.v. *)
From Coq Require Import Sorting.Sorted.
From CfdmV Require Import Common.Base C15.Model C15.Spec.
Open Scope Z_scope.

Ltac splits := repeat match goal with |- _ /\ _ => split end.

(* ------------------------------------------------------------------------- *)
(* 0. sorted sets                                                            *)
(* ------------------------------------------------------------------------- *)
Lemma insert_u_in x l y : In y (insert_u x l) <-> y = x \/ In y l.
Proof.
  induction l as [|z r IH]; simpl.
  - intuition congruence.
  - destruct (x <? z) eqn:E1; simpl.
    + intuition congruence.
    + destruct (x =? z) eqn:E2; simpl.
      * apply Z.eqb_eq in E2; subst. intuition congruence.
      * rewrite IH. intuition congruence.
Qed.

Lemma insert_u_sorted x l : StronglySorted Z.lt l -> StronglySorted Z.lt (insert_u x l).
Proof.
  induction l as [|z r IH]; simpl; intros H.
  - constructor; constructor.
  - apply StronglySorted_inv in H as [Hr Hz].
    destruct (x <? z) eqn:E1.
    + apply Z.ltb_lt in E1. constructor.
      * constructor; assumption.
      * constructor; [assumption|]. eapply Forall_impl; [|exact Hz]. intros; lia.
    + destruct (x =? z) eqn:E2.
      * constructor; assumption.
      * apply Z.ltb_ge in E1. apply Z.eqb_neq in E2. constructor; [apply IH; assumption|].
        apply Forall_forall. intros y Hy. apply insert_u_in in Hy as [->|Hy]; [lia|].
        rewrite Forall_forall in Hz. apply Hz; assumption.
Qed.

Lemma sort_u_in l y : In y (sort_u l) <-> In y l.
Proof.
  induction l as [|x r IH]; simpl; [tauto|]. rewrite insert_u_in, IH. intuition congruence.
Qed.

Lemma sort_u_sorted l : StronglySorted Z.lt (sort_u l).
Proof. induction l; simpl; [constructor|apply insert_u_sorted; assumption]. Qed.

Lemma sorted_unique l1 : forall l2,
  StronglySorted Z.lt l1 -> StronglySorted Z.lt l2 -> (forall x, In x l1 <-> In x l2) -> l1 = l2.
Proof.
  induction l1 as [|x r1 IH]; intros [|y r2] H1 H2 H.
  - reflexivity.
  - exfalso. apply (proj2 (H y)). left; reflexivity.
  - exfalso. apply (proj1 (H x)). left; reflexivity.
  - apply StronglySorted_inv in H1 as [S1 F1]. apply StronglySorted_inv in H2 as [S2 F2].
    rewrite Forall_forall in F1, F2.
    assert (x = y).
    { destruct (proj1 (H x) (or_introl eq_refl)) as [E|E]; [congruence|].
      destruct (proj2 (H y) (or_introl eq_refl)) as [E'|E']; [congruence|].
      apply F2 in E. apply F1 in E'. lia. }
    subst y. f_equal. apply IH; try assumption. intros z; split; intros Hz.
    + destruct (proj1 (H z) (or_intror Hz)) as [E|E]; [|assumption]. apply F1 in Hz. lia.
    + destruct (proj2 (H z) (or_intror Hz)) as [E|E]; [|assumption]. apply F2 in Hz. lia.
Qed.

Lemma sorted_map_mono (g : Z -> Z) l :
  (forall a b, a < b -> g a < g b) -> StronglySorted Z.lt l -> StronglySorted Z.lt (map g l).
Proof.
  intros Hg. induction l as [|x r IH]; simpl; intros H; [constructor|].
  apply StronglySorted_inv in H as [Hr Hx]. constructor; [apply IH; assumption|].
  apply Forall_forall. intros y Hy. apply in_map_iff in Hy as (z & <- & Hz).
  rewrite Forall_forall in Hx. apply Hg, Hx, Hz.
Qed.

(* ------------------------------------------------------------------------- *)
(* 1. masked arrays                                                          *)
(* ------------------------------------------------------------------------- *)
Lemma present_map f r : present (map (omap f) r) = map f (present r).
Proof. induction r as [|[v|] t IH]; simpl; congruence. Qed.

Lemma all_present_amap f a : all_present (amap f a) = map f (all_present a).
Proof.
  unfold all_present, amap. induction a as [|r t IH]; simpl; [reflexivity|].
  rewrite map_app, present_map, IH. reflexivity.
Qed.

Lemma amap_pointwise f a : pointwise f a (amap f a).
Proof.
  unfold pointwise, amap. induction a as [|r t IH]; simpl; constructor; [|assumption].
  clear. induction r; simpl; constructor; auto.
Qed.

Lemma omap_ext_row f g r : (forall v, In v (present r) -> f v = g v) -> map (omap f) r = map (omap g) r.
Proof.
  induction r as [|[v|] t IH]; simpl; intros H; [reflexivity| |].
  - rewrite (H v (or_introl eq_refl)), IH; [reflexivity|]. intros; apply H; right; assumption.
  - rewrite IH; [reflexivity|assumption].
Qed.

Lemma amap_ext_in f g a : (forall v, In v (all_present a) -> f v = g v) -> amap f a = amap g a.
Proof.
  unfold amap, all_present. induction a as [|r t IH]; simpl; intros H; [reflexivity|].
  rewrite (omap_ext_row f g r), IH; [reflexivity| |]; intros; apply H, in_or_app; auto.
Qed.

Lemma amap_amap f g a : amap f (amap g a) = amap (fun v => f (g v)) a.
Proof.
  unfold amap. rewrite map_map. apply map_ext. intros r. rewrite map_map. apply map_ext.
  intros [v|]; reflexivity.
Qed.

Lemma amap_id a : amap (fun v => v) a = a.
Proof.
  unfold amap. rewrite <- (map_id a) at 2. apply map_ext. intros r. rewrite <- (map_id r) at 2.
  apply map_ext. intros [v|]; reflexivity.
Qed.

(* ------------------------------------------------------------------------- *)
(* 2. edge and face cells: rows list the cell's nodes, zero-based             *)
(* ------------------------------------------------------------------------- *)
Lemma dt_cells_eq si cd stored : dt_cells si cd stored = amap (fun v => v - si) (select cd stored).
Proof.
  unfold dt_cells. destruct (si =? 0) eqn:E; [|reflexivity]. apply Z.eqb_eq in E; subst.
  rewrite <- (amap_id (select cd stored)) at 1. apply amap_ext_in. intros; lia.
Qed.

Lemma dt_cells_rows si cd stored : pointwise (fun v => v - si) (select cd stored) (dt_cells si cd stored).
Proof. rewrite dt_cells_eq. apply amap_pointwise. Qed.

Lemma present_zero_based si a : map present (amap (fun v => v - si) a) = zero_based si a.
Proof.
  unfold amap, zero_based. rewrite map_map. apply map_ext. intros r. apply present_map.
Qed.

Lemma dt_cells_zero_based si n cd stored :
  valid_ids si n (select cd stored) -> valid_ids 0 n (dt_cells si cd stored).
Proof.
  unfold valid_ids. rewrite dt_cells_eq, present_zero_based. unfold zero_based.
  rewrite !Forall_forall. intros H l Hl. apply in_map_iff in Hl as (r & <- & Hr).
  specialize (H (present r) (in_map _ _ _ Hr)). rewrite Forall_forall in *.
  intros x Hx. apply in_map_iff in Hx as (v & <- & Hv). specialize (H v Hv). lia.
Qed.

Lemma dt_cells_old_refuted :
  exists si n stored, valid_ids si n stored /\ ~ valid_ids 0 n (dt_cells_old si false stored).
Proof.
  exists 1, 3, [[Some 1; Some 2; Some 3]]. split.
  - repeat constructor; lia.
  - intros H. unfold valid_ids in H. simpl in H. inversion H as [|? ? H1 _]; subst.
    inversion H1 as [|? ? _ H2]; subst. inversion H2 as [|? ? _ H3]; subst.
    inversion H3 as [|? ? H4 _]; subst. lia.
Qed.

(* ------------------------------------------------------------------------- *)
(* 3. cell connectivity: rows start with the cell                             *)
(* ------------------------------------------------------------------------- *)
Lemma with_ids_nth a : forall s i,
  nth_error (with_ids s a) i = option_map (fun r => Some (s + Z.of_nat i) :: r) (nth_error a i).
Proof.
  induction a as [|r t IH]; intros s [|i]; simpl; try reflexivity.
  - rewrite Z.add_0_r. reflexivity.
  - rewrite IH. destruct (nth_error t i); simpl; [|reflexivity]. do 3 f_equal. lia.
Qed.

Lemma with_ids_shift a : forall s, amap (fun v => v - 1) (with_ids (s + 1) a) = with_ids s (amap (fun v => v - 1) a).
Proof.
  induction a as [|r t IH]; intros s; simpl; [reflexivity|].
  unfold amap in *. simpl. rewrite IH. do 3 f_equal. lia.
Qed.

Lemma cell_conn_eq si cd stored : si = 0 \/ si = 1 ->
  cell_conn si cd stored = with_ids 0 (amap (fun v => v - si) (select cd stored)).
Proof.
  intros [->| ->]; unfold cell_conn; simpl.
  - f_equal. rewrite <- (amap_id (select cd stored)) at 1. apply amap_ext_in. intros; lia.
  - apply (with_ids_shift (select cd stored) 0).
Qed.

Lemma option_map_comp {A B C} (g : B -> C) (f : A -> B) o :
  option_map g (option_map f o) = option_map (fun x => g (f x)) o.
Proof. destruct o; reflexivity. Qed.

Lemma cell_conn_rows si cd stored i : si = 0 \/ si = 1 ->
  nth_error (cell_conn si cd stored) i =
  option_map (fun r => Some (Z.of_nat i) :: map (omap (fun v => v - si)) r) (nth_error (select cd stored) i).
Proof.
  intros H. rewrite cell_conn_eq by assumption. rewrite with_ids_nth. unfold amap.
  rewrite nth_error_map. rewrite option_map_comp. reflexivity.
Qed.

Lemma cell_conn_length si cd stored : length (cell_conn si cd stored) = length (select cd stored).
Proof.
  assert (L : forall a s, length (with_ids s a) = length a).
  { induction a; intros; simpl; [reflexivity|]. rewrite IHa. reflexivity. }
  unfold cell_conn. destruct (si =? 0); [apply L|]. unfold amap. rewrite map_length. apply L.
Qed.

(* ------------------------------------------------------------------------- *)
(* 4. bounds: node coordinates gathered through the connectivity             *)
(* ------------------------------------------------------------------------- *)
Lemma py_nth_valid coords k : 0 <= k < Z.of_nat (length coords) ->
  py_nth coords k = Some (nth (Z.to_nat k) coords 0).
Proof.
  intros H. unfold py_nth.
  destruct (0 <=? k) eqn:E1; [|lia]. destruct (k <? Z.of_nat (length coords)) eqn:E2; [|lia].
  simpl. apply nth_error_nth'. lia.
Qed.

Lemma py_nth_beyond coords k : Z.of_nat (length coords) <= k -> py_nth coords k = None.
Proof.
  intros H. unfold py_nth.
  destruct (0 <=? k) eqn:E1; [|lia]. destruct (k <? Z.of_nat (length coords)) eqn:E2; [lia|].
  simpl. destruct (- Z.of_nat (length coords) <=? k); simpl; [|reflexivity].
  destruct (k <? 0) eqn:E3; [lia|reflexivity].
Qed.

Definition gather1 (si : Z) (coords : list Z) (o : option Z) : option Z :=
  match o with Some v => Some (nth (Z.to_nat (v - si)) coords 0) | None => None end.

Lemma gather_row_valid si coords r :
  Forall (fun v => si <= v < si + Z.of_nat (length coords)) (present r) ->
  gather_row si coords r = Some (map (gather1 si coords) r).
Proof.
  induction r as [|[v|] t IH]; simpl; intros H; [reflexivity| |].
  - inversion H; subst. rewrite py_nth_valid by lia. rewrite IH by assumption. reflexivity.
  - rewrite IH by assumption. reflexivity.
Qed.

Lemma gather_all_valid si coords a : valid_ids si (Z.of_nat (length coords)) a ->
  gather_all si coords a = Some (gather_spec si coords a).
Proof.
  unfold valid_ids. induction a as [|r t IH]; simpl; intros H; [reflexivity|].
  inversion H; subst. rewrite gather_row_valid by assumption. rewrite IH by assumption. reflexivity.
Qed.

Lemma bounds_gather si cd stored coords :
  valid_ids si (Z.of_nat (length coords)) (select cd stored) ->
  bounds si cd stored coords = Ok (gather_spec si coords (select cd stored)).
Proof. intros H. unfold bounds. rewrite gather_all_valid by assumption. reflexivity. Qed.

(* a node number beyond the coordinate array is refused, never silently replaced *)
Lemma gather_row_beyond si coords r v :
  In v (present r) -> Z.of_nat (length coords) <= v - si -> gather_row si coords r = None.
Proof.
  induction r as [|[x|] t IH]; simpl; intros Hin Hv; [contradiction| |].
  - destruct Hin as [->|Hin].
    + rewrite py_nth_beyond by assumption. reflexivity.
    + rewrite IH by assumption. destruct (py_nth coords (x - si)); reflexivity.
  - rewrite IH by assumption. reflexivity.
Qed.

Lemma bounds_beyond si cd stored coords v :
  In v (all_present (select cd stored)) -> Z.of_nat (length coords) <= v - si ->
  bounds si cd stored coords = Err IndexErr.
Proof.
  unfold bounds, all_present. intros Hin Hv.
  assert (G : gather_all si coords (select cd stored) = None).
  { induction (select cd stored) as [|r t IH]; simpl in *; [contradiction|].
    apply in_app_or in Hin as [Hin|Hin].
    - rewrite (gather_row_beyond si coords r v) by assumption. reflexivity.
    - rewrite IH by assumption. destruct (gather_row si coords r); reflexivity. }
  rewrite G. reflexivity.
Qed.

(* ------------------------------------------------------------------------- *)
(* 5. storage order: (node, cell) storage gives the same array               *)
(* ------------------------------------------------------------------------- *)
Lemma nth_tl {A} k (r : list A) d : nth k (tl r) d = nth (S k) r d.
Proof. destruct r; simpl; [destruct k; reflexivity|reflexivity]. Qed.

Lemma transpose_w_spec w : forall a,
  transpose_w w a = map (fun k => map (fun r => nth k r None) a) (seq 0 w).
Proof.
  induction w as [|w IH]; intros a; [reflexivity|].
  simpl transpose_w. rewrite IH. simpl seq. rewrite <- seq_shift. cbn [map]. rewrite map_map. f_equal.
  - apply map_ext. intros [|x r]; reflexivity.
  - apply map_ext. intros k. rewrite map_map. apply map_ext. intros r. apply nth_tl.
Qed.

Lemma nth_seq_id {A} (l : list A) d : map (fun k => nth k l d) (seq 0 (length l)) = l.
Proof.
  induction l as [|x t IH]; [reflexivity|]. simpl. f_equal.
  rewrite <- seq_shift, map_map. exact IH.
Qed.

Lemma transpose_involutive w a :
  rect w a -> (0 < w)%nat -> a <> [] -> transpose (transpose a) = a.
Proof.
  intros Hr Hw Ha. unfold rect in Hr. rewrite Forall_forall in Hr.
  assert (Hhd : length (hd [] a) = w).
  { destruct a as [|r t]; [congruence|]. apply Hr. left; reflexivity. }
  unfold transpose at 2. rewrite Hhd. rewrite transpose_w_spec.
  unfold transpose. rewrite transpose_w_spec.
  match goal with |- context [length (hd [] ?t)] =>
    assert (Hlen : length (hd [] t) = length a) by (destruct w as [|w']; [lia|simpl; apply map_length])
  end.
  rewrite Hlen. etransitivity; [|apply (nth_seq_id a [])].
  apply map_ext_in. intros i Hi. apply in_seq in Hi.
  rewrite map_map.
  assert (Hrow : length (nth i a []) = w) by (apply Hr, nth_In; lia).
  etransitivity; [|apply (nth_seq_id (nth i a []) None)]. rewrite Hrow.
  apply map_ext. intros k.
  assert (E : forall (l : arr) j, nth j (map (fun r : row => nth k r None) l) None = nth k (nth j l []) None).
  { clear. induction l as [|x t IH]; intros [|j]; simpl; try reflexivity.
    - destruct k; reflexivity.
    - destruct k; reflexivity.
    - apply IH. }
  apply E.
Qed.

Lemma storage_order w a : rect w a -> (0 < w)%nat -> a <> [] ->
  select true (transpose a) = select false a.
Proof. intros. simpl. apply transpose_involutive with w; assumption. Qed.

(* ------------------------------------------------------------------------- *)
(* 6. point cells: each node followed by its neighbours                      *)
(* ------------------------------------------------------------------------- *)
Lemma has_in node r : has node r = true <-> In node r.
Proof.
  unfold has. rewrite existsb_exists. split.
  - intros (x & Hx & E). apply Z.eqb_eq in E; subst; assumption.
  - intros H; exists node; split; [assumption|apply Z.eqb_refl].
Qed.

Lemma remove_z_in x l y : In y (remove_z x l) <-> In y l /\ y <> x.
Proof. unfold remove_z. rewrite filter_In, negb_true_iff, Z.eqb_neq. tauto. Qed.

(* the zip of a list with itself shifted by one, closed by y *)
Lemma pairs_next (l : list Z) : forall y a b, l <> [] ->
  (In (a, b) (combine l (tl l ++ [y])) <->
   (exists l1 l2, l = l1 ++ a :: b :: l2) \/ (b = y /\ last l y = a)).
Proof.
  induction l as [|x t IH]; intros y a b Hne; [congruence|].
  destruct t as [|x' t'].
  - simpl. split.
    + intros [E|[]]. inversion E; subst. right; split; reflexivity.
    + intros [(l1 & l2 & E)|[-> <-]].
      * destruct l1 as [|? [|? ?]]; simpl in E; discriminate.
      * left; reflexivity.
  - assert (Hne' : x' :: t' <> []) by discriminate.
    specialize (IH y a b Hne').
    change (combine (x :: x' :: t') (tl (x :: x' :: t') ++ [y]))
      with ((x, x') :: combine (x' :: t') (tl (x' :: t') ++ [y])).
    change (last (x :: x' :: t') y) with (last (x' :: t') y).
    split.
    + intros [E|H].
      * inversion E; subst. left. exists [], t'. reflexivity.
      * apply IH in H as [(l1 & l2 & E)|H].
        -- left. exists (x :: l1), l2. rewrite E. reflexivity.
        -- right; assumption.
    + intros [(l1 & l2 & E)|H].
      * destruct l1 as [|z l1]; simpl in E; inversion E; subst.
        -- left; reflexivity.
        -- right. apply IH. left. exists l1, l2. assumption.
      * right. apply IH. right; assumption.
Qed.

Lemma cyc_pairs_next f a b : In (a, b) (cyc_pairs f) <-> next_in_face f a b.
Proof.
  destruct f as [|x t].
  - simpl. split; [contradiction|].
    intros [(l1 & l2 & E)|(t & E & _)]; [destruct l1; discriminate|discriminate].
  - unfold cyc_pairs. assert (Hne : x :: t <> []) by discriminate.
    pose proof (pairs_next (x :: t) x a b Hne) as P. simpl tl in P. rewrite P.
    unfold next_in_face. split.
    + intros [H|[-> H]]; [left; assumption|]. right. exists t. split; [reflexivity|assumption].
    + intros [H|(t' & E & H)]; [left; assumption|]. injection E as E1 E2. subst x t. right.
      split; [reflexivity|assumption].
Qed.

Lemma cyc_pairs_members f a b : In (a, b) (cyc_pairs f) -> In a f /\ In b f.
Proof.
  destruct f as [|x t]; unfold cyc_pairs; [contradiction|]. intros H. split.
  - apply in_combine_l in H. exact H.
  - apply in_combine_r in H. apply in_app_or in H as [H|[<-|[]]]; [right; assumption|left; reflexivity].
Qed.

Lemma face_links_in node f m :
  In m (face_links node f) <->
  In (m, node) (cyc_pairs f) \/ (In (node, m) (cyc_pairs f) /\ m <> node).
Proof.
  unfold face_links. rewrite in_flat_map. split.
  - intros ((p1 & p2) & Hp & Hm). simpl in Hm.
    destruct (p2 =? node) eqn:E1.
    + apply Z.eqb_eq in E1; subst. destruct Hm as [<-|[]]. left; assumption.
    + destruct (p1 =? node) eqn:E2; [|contradiction]. apply Z.eqb_eq in E2; subst.
      destruct Hm as [<-|[]]. right. split; [assumption|]. apply Z.eqb_neq in E1. assumption.
  - intros [H|[H Hne]].
    + exists (m, node). split; [assumption|]. simpl. rewrite Z.eqb_refl. left; reflexivity.
    + exists (node, m). split; [assumption|]. simpl.
      destruct (m =? node) eqn:E; [apply Z.eqb_eq in E; contradiction|].
      rewrite Z.eqb_refl. left; reflexivity.
Qed.

Definition nbrs_f (node : Z) (conn : list (list Z)) : list Z :=
  sort_u (remove_z node (flat_map (face_links node) (filter (has node) conn))).

Definition nbrs_e (node : Z) (conn : list (list Z)) : list Z :=
  sort_u (remove_z node (concat (filter (has node) conn))).

Lemma nbrs_f_in node conn m : In m (nbrs_f node conn) <-> m <> node /\ linked_f conn node m.
Proof.
  unfold nbrs_f, linked_f. rewrite sort_u_in, remove_z_in, in_flat_map. split.
  - intros [(f & Hf & Hm) Hne]. split; [assumption|]. apply filter_In in Hf as [Hf _].
    exists f. split; [assumption|].
    apply face_links_in in Hm as [H|[H _]]; apply cyc_pairs_next in H; [right|left]; assumption.
  - intros [Hne (f & Hf & H)]. split; [|assumption]. exists f.
    assert (H' : In (node, m) (cyc_pairs f) \/ In (m, node) (cyc_pairs f))
      by (destruct H as [H|H]; apply cyc_pairs_next in H; tauto).
    split.
    + apply filter_In. split; [assumption|]. apply has_in.
      destruct H' as [H'|H']; apply cyc_pairs_members in H'; tauto.
    + apply face_links_in. destruct H' as [H'|H']; [right; split; assumption|left; assumption].
Qed.

Lemma nbrs_e_in node conn m : In m (nbrs_e node conn) <-> m <> node /\ linked_e conn node m.
Proof.
  unfold nbrs_e, linked_e. rewrite sort_u_in, remove_z_in, in_concat. split.
  - intros [(e & He & Hm) Hne]. apply filter_In in He as [He Hh]. apply has_in in Hh.
    split; [assumption|]. exists e; auto.
  - intros [Hne (e & He & Hn & Hm)]. split; [|assumption]. exists e. split; [|assumption].
    apply filter_In. split; [assumption|apply has_in; assumption].
Qed.

(* relabelling the nodes by an injective map does not change who is linked to whom *)
Lemma combine_map (g : Z -> Z) l : forall l',
  combine (map g l) (map g l') = map (fun p => (g (fst p), g (snd p))) (combine l l').
Proof. induction l as [|x t IH]; intros [|y t']; simpl; try reflexivity. rewrite IH. reflexivity. Qed.

Lemma cyc_pairs_map g f : cyc_pairs (map g f) = map (fun p => (g (fst p), g (snd p))) (cyc_pairs f).
Proof.
  destruct f as [|x t]; [reflexivity|].
  change (cyc_pairs (map g (x :: t))) with (combine (map g (x :: t)) (map g t ++ map g [x])).
  rewrite <- map_app. unfold cyc_pairs. apply combine_map.
Qed.

Lemma cyc_pairs_map_in g f a b : (forall u v, g u = g v -> u = v) ->
  (In (g a, g b) (cyc_pairs (map g f)) <-> In (a, b) (cyc_pairs f)).
Proof.
  intros Hg. rewrite cyc_pairs_map, in_map_iff. split.
  - intros ((u & v) & E & H). simpl in E. inversion E as [[E1 E2]].
    apply Hg in E1. apply Hg in E2. subst. assumption.
  - intros H. exists (a, b). split; [reflexivity|assumption].
Qed.

Lemma linked_f_map g conn a b : (forall u v, g u = g v -> u = v) ->
  (linked_f (map (map g) conn) (g a) (g b) <-> linked_f conn a b).
Proof.
  intros Hg. unfold linked_f. split.
  - intros (f & Hf & H). apply in_map_iff in Hf as (f0 & <- & Hf0). exists f0. split; [assumption|].
    rewrite <- !cyc_pairs_next in *. rewrite !cyc_pairs_map_in in H by assumption. assumption.
  - intros (f & Hf & H). exists (map g f). split; [apply in_map; assumption|].
    rewrite <- !cyc_pairs_next in *. rewrite !cyc_pairs_map_in by assumption. assumption.
Qed.

Lemma linked_e_map g conn a b : (forall u v, g u = g v -> u = v) ->
  (linked_e (map (map g) conn) (g a) (g b) <-> linked_e conn a b).
Proof.
  intros Hg. unfold linked_e. split.
  - intros (e & He & Ha & Hb). apply in_map_iff in He as (e0 & <- & He0). exists e0.
    apply in_map_iff in Ha as (u & Eu & Hu). apply Hg in Eu; subst.
    apply in_map_iff in Hb as (v & Ev & Hv). apply Hg in Ev; subst. auto.
  - intros (e & He & Ha & Hb). exists (map g e). splits; apply in_map; assumption.
Qed.

Lemma linked_f_member conn a b : linked_f conn a b -> exists r, In r conn /\ In b r.
Proof.
  intros (f & Hf & H). exists f. split; [assumption|].
  destruct H as [H|H]; apply cyc_pairs_next, cyc_pairs_members in H; tauto.
Qed.

Lemma linked_e_member conn a b : linked_e conn a b -> exists r, In r conn /\ In b r.
Proof. intros (e & He & _ & Hb). exists e; auto. Qed.

Lemma linked_f_sym conn a b : linked_f conn a b <-> linked_f conn b a.
Proof. unfold linked_f. split; intros (f & Hf & H); exists f; tauto. Qed.

Lemma linked_e_sym conn a b : linked_e conn a b <-> linked_e conn b a.
Proof. unfold linked_e. split; intros (e & He & H1 & H2); exists e; tauto. Qed.

(* assembling the rows: csr_array(...).toarray(), zeros masked, minus one *)
Lemma max_len_ge rows r : In r rows -> (length r <= max_len rows)%nat.
Proof.
  unfold max_len. induction rows as [|x t IH]; simpl; intros H; [contradiction|].
  destruct H as [->|H]; [lia|specialize (IH H); lia].
Qed.

Definition dec (v : Z) : option Z := if v =? 0 then None else Some (v - 1).

Lemma assemble_eq rows : assemble rows = map (fun r => map dec (pad_to (max_len rows) r)) rows.
Proof. reflexivity. Qed.

Lemma map_dec_repeat j : map dec (repeat 0 j) = repeat None j.
Proof. induction j as [|j IH]; simpl; [reflexivity|rewrite IH; reflexivity]. Qed.

Lemma map_dec_nonzero r : Forall (fun v => v <> 0) r -> map dec r = map (fun v => Some (v - 1)) r.
Proof.
  induction 1 as [|x t Hx Ht IH]; simpl; [reflexivity|]. unfold dec at 1.
  destruct (x =? 0) eqn:E; [apply Z.eqb_eq in E; contradiction|]. congruence.
Qed.

Lemma one_based_shift si data : si = 0 \/ si = 1 ->
  one_based si data = map (map (Z.add 1)) (zero_based si data).
Proof.
  intros H. unfold one_based, zero_based. rewrite map_map. apply map_ext. intros r.
  rewrite map_map. apply map_ext. intros v.
  destruct H as [->| ->]; [change (0 =? 0) with true|change (1 =? 0) with false]; cbv iota; lia.
Qed.

Lemma node_ids_nth n k : (k < n)%nat -> nth_error (node_ids n) k = Some (Z.of_nat k + 1).
Proof.
  intros H. unfold node_ids. apply map_nth_error with (f := fun k => Z.of_nat k + 1).
  rewrite (nth_error_nth' _ 0%nat) by (rewrite seq_length; lia). rewrite seq_nth by lia. reflexivity.
Qed.

Section Assemble.
  Variable nb : Z -> list (list Z) -> list Z.
  Variable R : list (list Z) -> Z -> Z -> Prop.
  Hypothesis nb_sorted : forall v c, StronglySorted Z.lt (nb v c).
  Hypothesis nb_in : forall v c m, In m (nb v c) <-> m <> v /\ R c v m.
  Hypothesis R_shift : forall c a b, R (map (map (Z.add 1)) c) (1 + a) (1 + b) <-> R c a b.
  Hypothesis R_member : forall c a b, R c a b -> exists r, In r c /\ In b r.

  Definition point_rows (n : nat) (si : Z) (data : arr) : arr :=
    assemble (map (fun node => node :: nb node (one_based si data)) (node_ids n)).

  Lemma point_rows_spec n si data :
    si = 0 \/ si = 1 ->
    Forall (Forall (fun v => si <= v)) (map present data) ->
    length (point_rows n si data) = n /\
    exists w, forall k, (k < n)%nat -> exists l,
      nth_error (point_rows n si data) k =
        Some (Some (Z.of_nat k) :: map Some l ++ repeat None (w - S (length l))) /\
      (S (length l) <= w)%nat /\ StronglySorted Z.lt l /\
      forall m, In m l <-> m <> Z.of_nat k /\ R (zero_based si data) (Z.of_nat k) m.
  Proof.
    intros Hsi Hval. unfold point_rows.
    pose (C := one_based si data).
    pose (rows := map (fun node => node :: nb node C) (node_ids n)).
    fold C. fold rows. split.
    { rewrite assemble_eq, map_length. unfold rows. rewrite map_length. unfold node_ids.
      rewrite map_length, seq_length. reflexivity. }
    exists (max_len rows). intros k Hk.
    pose (nbi := nb (Z.of_nat k + 1) C).
    assert (Hrow : nth_error rows k = Some ((Z.of_nat k + 1) :: nbi)).
    { unfold rows. apply map_nth_error with (f := fun node => node :: nb node C).
      apply node_ids_nth; assumption. }
    assert (HC : C = map (map (Z.add 1)) (zero_based si data)) by (apply one_based_shift; assumption).
    assert (Hzb : forall r z, In r (zero_based si data) -> In z r -> 0 <= z).
    { unfold zero_based. intros r z Hr Hz. apply in_map_iff in Hr as (d & <- & Hd).
      apply in_map_iff in Hz as (v & <- & Hv). rewrite Forall_forall in Hval.
      specialize (Hval (present d) (in_map _ _ _ Hd)). rewrite Forall_forall in Hval.
      specialize (Hval v Hv). lia. }
    assert (Hpos : forall x, In x nbi -> 1 <= x).
    { intros x Hx. unfold nbi in Hx. apply nb_in in Hx as [_ Hx].
      apply R_member in Hx as (r & Hr & Hxr). rewrite HC in Hr.
      apply in_map_iff in Hr as (r0 & <- & Hr0). apply in_map_iff in Hxr as (z & <- & Hz).
      specialize (Hzb r0 z Hr0 Hz). lia. }
    exists (map (fun m => m - 1) nbi). splits.
    - rewrite assemble_eq. fold rows.
      erewrite map_nth_error; [|exact Hrow]. f_equal.
      unfold pad_to. rewrite map_app, map_dec_repeat, map_dec_nonzero.
      + simpl. rewrite map_map, map_length. f_equal. f_equal. lia.
      + constructor; [lia|]. apply Forall_forall. intros x Hx. apply Hpos in Hx. lia.
    - rewrite map_length. apply nth_error_In in Hrow. apply max_len_ge in Hrow. simpl in Hrow. exact Hrow.
    - apply sorted_map_mono; [intros; lia|apply nb_sorted].
    - intros m. rewrite in_map_iff. split.
      + intros (x & <- & Hx). unfold nbi in Hx. apply nb_in in Hx as [Hne HR]. split; [lia|].
        rewrite HC in HR. replace (Z.of_nat k + 1) with (1 + Z.of_nat k) in HR by lia.
        replace x with (1 + (x - 1)) in HR by lia. apply (proj1 (R_shift _ _ _)) in HR. exact HR.
      + intros [Hne HR]. exists (m + 1). split; [lia|]. unfold nbi. apply nb_in. split; [lia|].
        rewrite HC. replace (Z.of_nat k + 1) with (1 + Z.of_nat k) by lia.
        replace (m + 1) with (1 + m) by lia. apply (proj2 (R_shift _ _ _)). exact HR.
  Qed.
End Assemble.

Lemma add1_inj : forall u v, 1 + u = 1 + v -> u = v.
Proof. intros; lia. Qed.

Definition point_rows_prop (R : list (list Z) -> Z -> Z -> Prop) (n : nat) (si : Z) (data out : arr) : Prop :=
  length out = n /\
  exists w, forall k, (k < n)%nat -> exists l,
    nth_error out k = Some (Some (Z.of_nat k) :: map Some l ++ repeat None (w - S (length l))) /\
    (S (length l) <= w)%nat /\ StronglySorted Z.lt l /\
    forall m, In m l <-> m <> Z.of_nat k /\ R (zero_based si data) (Z.of_nat k) m.

Lemma point_rows_faces n si cd stored :
  si = 0 \/ si = 1 ->
  Forall (Forall (fun v => si <= v)) (map present (select cd stored)) ->
  point_rows_prop linked_f n si (select cd stored) (point_topology true n si cd stored).
Proof.
  intros Hsi Hv.
  change (point_topology true n si cd stored) with (point_rows nbrs_f n si (select cd stored)).
  apply (point_rows_spec nbrs_f linked_f); try assumption.
  - intros; apply sort_u_sorted.
  - apply nbrs_f_in.
  - intros c a b. apply (linked_f_map (Z.add 1)). exact add1_inj.
  - apply linked_f_member.
Qed.

Lemma point_rows_edges n si cd stored :
  si = 0 \/ si = 1 ->
  Forall (Forall (fun v => si <= v)) (map present (select cd stored)) ->
  point_rows_prop linked_e n si (select cd stored) (point_topology false n si cd stored).
Proof.
  intros Hsi Hv.
  change (point_topology false n si cd stored) with (point_rows nbrs_e n si (select cd stored)).
  apply (point_rows_spec nbrs_e linked_e); try assumption.
  - intros; apply sort_u_sorted.
  - apply nbrs_e_in.
  - intros c a b. apply (linked_e_map (Z.add 1)). exact add1_inj.
  - apply linked_e_member.
Qed.

(* the pinned commit *)
Lemma point_old_boundary_refuted :
  exists stored k m, linked_f (zero_based 0 stored) k m /\ m <> k /\
    forall r, nth_error (point_topology_old true 0 false stored) (Z.to_nat k) = Some r -> ~ In (Some m) r.
Proof.
  exists [[Some 0; Some 1; Some 2]], 0, 1. splits.
  - exists [0; 1; 2]. split; [left; reflexivity|]. left. left. exists [], [2]. reflexivity.
  - lia.
  - intros r H. vm_compute in H. inversion H; subst. intros [E|[E|[]]]; discriminate.
Qed.

Lemma point_old_isolated_refuted :
  exists n stored, valid_ids 0 (Z.of_nat n) stored /\
    length (point_topology_old false 0 false stored) <> n.
Proof.
  exists 3%nat, [[Some 0; Some 1]]. split.
  - repeat constructor; simpl; lia.
  - vm_compute. discriminate.
Qed.

Lemma point_old_one_based_refuted :
  exists stored v, valid_ids 1 2 stored /\
    In v (all_present (point_topology_old false 1 false stored)) /\ ~ (0 <= v < 2).
Proof.
  exists [[Some 1; Some 2]], 2. splits.
  - repeat constructor; simpl; lia.
  - vm_compute. tauto.
  - lia.
Qed.

(* ------------------------------------------------------------------------- *)
(* 7. normalise (edge and face cells): rank compression, idempotent          *)
(* ------------------------------------------------------------------------- *)
Fixpoint zrange (c : Z) (k : nat) : list Z :=
  match k with O => [] | S k' => c :: zrange (c + 1) k' end.

Lemma zrange_in k : forall c x, In x (zrange c k) <-> c <= x < c + Z.of_nat k.
Proof.
  induction k as [|k IH]; intros c x; simpl zrange.
  - simpl. lia.
  - simpl In. rewrite IH, Nat2Z.inj_succ. split; intros H; lia.
Qed.

Lemma zrange_sorted k : forall c, StronglySorted Z.lt (zrange c k).
Proof.
  induction k as [|k IH]; intros c; simpl; constructor; [apply IH|].
  apply Forall_forall. intros x Hx. apply zrange_in in Hx. lia.
Qed.

Lemma zrange_index k : forall c x, c <= x < c + Z.of_nat k -> index_of x (zrange c k) = x - c.
Proof.
  induction k as [|k IH]; intros c x H; [simpl in H; lia|]. rewrite Nat2Z.inj_succ in H.
  cbn [index_of zrange].
  destruct (x =? c) eqn:E.
  - apply Z.eqb_eq in E. lia.
  - apply Z.eqb_neq in E. rewrite IH by lia. lia.
Qed.

Lemma index_of_nonneg x l : 0 <= index_of x l.
Proof. induction l as [|y r IH]; cbn [index_of]; [lia|]. destruct (x =? y); lia. Qed.

Lemma index_of_range x l : In x l -> 0 <= index_of x l < Z.of_nat (length l).
Proof.
  induction l as [|y r IH]; cbn [index_of length In]; intros H; [contradiction|].
  rewrite Nat2Z.inj_succ.
  destruct (x =? y) eqn:E; [lia|]. apply Z.eqb_neq in E.
  destruct H as [H|H]; [congruence|]. specialize (IH H). lia.
Qed.

Lemma index_of_nth l : NoDup l -> forall i, (i < length l)%nat -> index_of (nth i l 0) l = Z.of_nat i.
Proof.
  induction 1 as [|y r Hy Hnd IH]; intros i Hi; cbn [length] in Hi; [lia|].
  destruct i as [|i]; cbn [nth index_of].
  - rewrite Z.eqb_refl. reflexivity.
  - destruct (nth i r 0 =? y) eqn:E.
    + apply Z.eqb_eq in E. exfalso. apply Hy. rewrite <- E. apply nth_In. lia.
    + rewrite IH by lia. lia.
Qed.

Lemma sorted_nodup l : StronglySorted Z.lt l -> NoDup l.
Proof.
  induction 1 as [|x r Hs IH Hx]; constructor; [|assumption].
  intros Hin. rewrite Forall_forall in Hx. apply Hx in Hin. lia.
Qed.

Lemma index_of_mono l : StronglySorted Z.lt l -> forall x y, In x l -> In y l ->
  (x < y <-> index_of x l < index_of y l).
Proof.
  induction 1 as [|z r Hs IH Hz]; intros x y Hx Hy; [contradiction|].
  rewrite Forall_forall in Hz. cbn [index_of]. cbn [In] in Hx, Hy.
  destruct (Z.eqb_spec x z) as [Ex|Ex]; destruct (Z.eqb_spec y z) as [Ey|Ey]; subst.
  - lia.
  - destruct Hy as [Hy|Hy]; [congruence|]. pose proof (Hz y Hy). pose proof (index_of_nonneg y r). lia.
  - destruct Hx as [Hx|Hx]; [congruence|]. pose proof (Hz x Hx). pose proof (index_of_nonneg x r). lia.
  - destruct Hx as [Hx|Hx]; [congruence|]. destruct Hy as [Hy|Hy]; [congruence|].
    specialize (IH x y Hx Hy). lia.
Qed.

Lemma ranks_range a x :
  In x (all_present (rank_compress a)) <-> 0 <= x < Z.of_nat (length (sort_u (all_present a))).
Proof.
  unfold rank_compress. rewrite all_present_amap, in_map_iff. split.
  - intros (v & <- & Hv). apply index_of_range. apply sort_u_in. exact Hv.
  - intros H. exists (nth (Z.to_nat x) (sort_u (all_present a)) 0). split.
    + rewrite index_of_nth; [lia|apply sorted_nodup, sort_u_sorted|lia].
    + apply sort_u_in. apply nth_In. lia.
Qed.

Lemma rank_canonical c k a :
  (forall x, In x (all_present a) <-> c <= x < c + Z.of_nat k) ->
  rank_compress a = amap (fun v => v - c) a.
Proof.
  intros H. unfold rank_compress.
  assert (E : sort_u (all_present a) = zrange c k).
  { apply sorted_unique; [apply sort_u_sorted|apply zrange_sorted|].
    intros x. rewrite sort_u_in, zrange_in. apply H. }
  rewrite E. apply amap_ext_in. intros v Hv. apply zrange_index. apply H. exact Hv.
Qed.

Lemma normalise_cells_ok s a : exists b, normalise_cells s false a = Ok b.
Proof. unfold normalise_cells. simpl. eexists; reflexivity. Qed.

Lemma normalise_cells_idem s a b : s = 0 \/ s = 1 ->
  normalise_cells s false a = Ok b -> normalise_cells s false b = Ok b.
Proof.
  intros Hs. unfold normalise_cells, rbind.
  pose (k := length (sort_u (all_present a))).
  destruct Hs as [->| ->]; [change (0 =? 0) with true|change (1 =? 0) with false]; cbv iota;
    intros E; inversion E; subst b; clear E; f_equal.
  - rewrite (rank_canonical 0 k (rank_compress a)).
    + rewrite <- (amap_id (rank_compress a)) at 2. apply amap_ext_in; intros; lia.
    + intros x. rewrite ranks_range. fold k. lia.
  - rewrite (rank_canonical 1 k (amap (fun v => v + 1) (rank_compress a))).
    + rewrite !amap_amap. apply amap_ext_in; intros; lia.
    + intros x. rewrite all_present_amap, in_map_iff. split.
      * intros (v & <- & Hv). apply ranks_range in Hv. fold k in Hv. lia.
      * intros H. exists (x - 1). split; [lia|]. apply ranks_range. fold k. lia.
Qed.

(* normalisation relabels the nodes by an order-preserving (hence one-to-one) map onto
   start_index, start_index + 1, ... : it does not change which nodes are the same *)
Lemma normalise_cells_relabels s a : s = 0 \/ s = 1 ->
  exists f k, normalise_cells s false a = Ok (amap f a) /\
    (forall x y, In x (all_present a) -> In y (all_present a) -> (x < y <-> f x < f y)) /\
    (forall z, In z (all_present (amap f a)) <-> s <= z < s + Z.of_nat k).
Proof.
  intros Hs. pose (U := sort_u (all_present a)).
  exists (fun v => index_of v U + s), (length U). splits.
  - unfold normalise_cells, rbind.
    destruct Hs as [->| ->]; [change (0 =? 0) with true|change (1 =? 0) with false]; cbv iota; f_equal.
    + unfold rank_compress. fold U. apply amap_ext_in; intros; lia.
    + unfold rank_compress. fold U. rewrite amap_amap. reflexivity.
  - intros x y Hx Hy.
    pose proof (index_of_mono U (sort_u_sorted _) x y (proj2 (sort_u_in _ _) Hx) (proj2 (sort_u_in _ _) Hy)).
    lia.
  - intros z. rewrite all_present_amap, in_map_iff. split.
    + intros (v & <- & Hv). apply sort_u_in in Hv. apply index_of_range in Hv. fold U in Hv. lia.
    + intros H. subst U. exists (nth (Z.to_nat (z - s)) (sort_u (all_present a)) 0). split.
      * rewrite index_of_nth; [lia|apply sorted_nodup, sort_u_sorted|lia].
      * apply sort_u_in. apply nth_In. lia.
Qed.

(* ------------------------------------------------------------------------- *)
(* 8. non-vacuity: a mesh of a triangle, a quadrilateral and a pentagon,      *)
(*    one-based, padded, meets every hypothesis used above                    *)
(* ------------------------------------------------------------------------- *)
Definition ex_faces : arr :=
  [[Some 1; Some 2; Some 4; None; None];
   [Some 2; Some 3; Some 5; Some 4; None];
   [Some 4; Some 5; Some 7; Some 6; Some 1]].

Example ex_valid : valid_ids 1 8 (select false ex_faces).
Proof. repeat constructor; simpl; lia. Qed.

Example ex_rect : rect 5 ex_faces /\ (0 < 5)%nat /\ ex_faces <> [].
Proof. splits; [repeat constructor|lia|discriminate]. Qed.

Example ex_ids_above_start :
  Forall (Forall (fun v => 1 <= v)) (map present (select true (transpose ex_faces))).
Proof.
  assert (E : map present (select true (transpose ex_faces)) = [[1; 2; 4]; [2; 3; 5; 4]; [4; 5; 7; 6; 1]])
    by (vm_compute; reflexivity).
  rewrite E. repeat constructor; lia.
Qed.

Example ex_cells : dt_cells 1 true (transpose ex_faces) =
  [[Some 0; Some 1; Some 3; None; None];
   [Some 1; Some 2; Some 4; Some 3; None];
   [Some 3; Some 4; Some 6; Some 5; Some 0]].
Proof. vm_compute. reflexivity. Qed.

(* node 7 belongs to no face: its row holds only itself *)
Example ex_point : point_topology true 8 1 false ex_faces =
  [[Some 0; Some 1; Some 3; Some 5]; [Some 1; Some 0; Some 2; Some 3];
   [Some 2; Some 1; Some 4; None];   [Some 3; Some 0; Some 1; Some 4];
   [Some 4; Some 2; Some 3; Some 6]; [Some 5; Some 0; Some 6; None];
   [Some 6; Some 4; Some 5; None];   [Some 7; None; None; None]].
Proof. vm_compute. reflexivity. Qed.

Example ex_bounds : bounds 1 false ex_faces [0; 10; 20; 30; 40; 50; 60; 70] =
  Ok [[Some 0; Some 10; Some 30; None; None];
      [Some 10; Some 20; Some 40; Some 30; None];
      [Some 30; Some 40; Some 60; Some 50; Some 0]].
Proof. vm_compute. reflexivity. Qed.

Example ex_normalise : normalise_cells 1 false [[Some 4; Some 10; Some 1; None]; [Some 122; Some 4; None; None]] =
  Ok [[Some 2; Some 3; Some 1; None]; [Some 4; Some 2; None; None]].
Proof. vm_compute. reflexivity. Qed.

(* ------------------------------------------------------------------------- *)
(* 9. _normalise_cell_ids: an array in canonical form is left as it is        *)
(* ------------------------------------------------------------------------- *)
Lemma zseq_length n : forall s, length (zseq s n) = n.
Proof. induction n as [|n IH]; intros s; simpl; [reflexivity|]. rewrite IH. reflexivity. Qed.

Lemma zseq_last n : forall s, last (zseq s (S n)) 0 = s + Z.of_nat n.
Proof.
  induction n as [|n IH]; intros s; [simpl; lia|].
  change (last (zseq s (S (S n))) 0) with (last (zseq (s + 1) (S n)) 0).
  rewrite IH, Nat2Z.inj_succ. lia.
Qed.

Lemma list_eqb_refl l : list_eqb Z.eqb l l = true.
Proof. induction l as [|x t IH]; simpl; [reflexivity|]. rewrite Z.eqb_refl, IH. reflexivity. Qed.

Lemma fold_max_le M l : forall d, d <= M -> Forall (fun v => v <= M) l -> fold_right Z.max d l <= M.
Proof. induction l as [|x t IH]; intros d Hd H; simpl; [assumption|]. inversion H; subst. specialize (IH d Hd H3). lia. Qed.

Lemma fold_min_ge m l : forall d, m <= d -> Forall (fun v => m <= v) l -> m <= fold_right Z.min d l.
Proof. induction l as [|x t IH]; intros d Hd H; simpl; [assumption|]. inversion H; subst. specialize (IH d Hd H3). lia. Qed.

Lemma first_col_head a id0 r : first_col a = Some (id0 :: r) -> hd 0 (all_present a) = id0.
Proof.
  destruct a as [|[|[v|] t] a']; simpl; try discriminate.
  destruct (first_col a'); simpl; [|discriminate]. intros E; inversion E; subst. reflexivity.
Qed.

Lemma normalise_ids_fixpoint s a n : s = 0 \/ s = 1 ->
  first_col a = Some (zseq s (S n)) ->
  Forall (fun v => s <= v <= s + Z.of_nat n) (all_present a) ->
  normalise_ids s false a = Ok a.
Proof.
  intros Hs Hcol Hall.
  assert (Hhd : hd 0 (all_present a) = s) by (apply (first_col_head a s (zseq (s + 1) n)); exact Hcol).
  assert (Hmax : zmax (all_present a) <= s + Z.of_nat n).
  { unfold zmax. apply fold_max_le; [rewrite Hhd; lia|]. eapply Forall_impl; [|exact Hall]. simpl; intros; lia. }
  assert (Hmin : s <= zmin (all_present a)).
  { unfold zmin. apply fold_min_ge; [rewrite Hhd; lia|]. eapply Forall_impl; [|exact Hall]. simpl; intros; lia. }
  unfold normalise_ids. rewrite Hcol.
  change (zseq s (S n)) with (s :: zseq (s + 1) n).
  assert (Hlen : length (s :: zseq (s + 1) n) = S n) by (simpl; rewrite zseq_length; reflexivity).
  rewrite Hlen.
  change (s :: zseq (s + 1) n) with (zseq s (S n)).
  assert (Hgt : (zmax (all_present a) >? last (zseq s (S n)) 0) = false).
  { rewrite zseq_last, Z.gtb_ltb. apply Z.ltb_ge. lia. }
  assert (Hlt : (zmin (all_present a) <? s) = false) by (apply Z.ltb_ge; lia).
  destruct Hs as [->| ->].
  - rewrite list_eqb_refl. change (0 =? 0) with true. change (0 =? 1) with false. cbn [andb orb negb].
    rewrite Hcol. cbn [hd zseq]. change (0 :: zseq (0 + 1) n) with (zseq 0 (S n)).
    rewrite Hgt, Hlt. reflexivity.
  - rewrite list_eqb_refl. change (1 =? 0) with false. change (1 =? 1) with true. cbn [andb orb negb].
    rewrite Hcol. cbn [hd zseq]. change (1 :: zseq (1 + 1) n) with (zseq 1 (S n)).
    rewrite Hgt, Hlt. reflexivity.
Qed.

Example ex_canonical :
  first_col [[Some 1; Some 2; None]; [Some 2; Some 1; None]] = Some (zseq 1 2) /\
  Forall (fun v => 1 <= v <= 1 + Z.of_nat 1) (all_present [[Some 1; Some 2; None]; [Some 2; Some 1; None]]).
Proof. split; [reflexivity|]. repeat constructor; simpl; lia. Qed.

(* the relabelling path: cells 4, 1, 125 of a larger mesh (docstring of normalise) *)
Example ex_normalise_ids :
  normalise_ids 0 false [[Some 4; Some 1; Some 10; Some 125]; [Some 1; Some 4; None; None]; [Some 125; Some 4; None; None]]
  = Ok [[Some 0; Some 1; Some 2; None]; [Some 1; Some 0; None; None]; [Some 2; Some 0; None; None]].
Proof. vm_compute. reflexivity. Qed.
