(* C15 - the property theorems, nothing else. *)
From Coq Require Import Sorting.Sorted.
From CfdmV Require Import Common.Base C15.Model C15.Spec C15.Lemmas.
Open Scope Z_scope.

(* Edge and face cells: the domain topology has the shape and the padding of the
   connectivity variable, every value is the file's value minus the start index, and
   when the file's node numbers lie in [start_index, start_index + n) those of the
   construct lie in [0, n) - for every mesh, start index and storage order. *)
Theorem C15_cell_rows :
  forall si n cd stored,
  pointwise (fun v => v - si) (select cd stored) (dt_cells si cd stored) /\
  (valid_ids si n (select cd stored) -> valid_ids 0 n (dt_cells si cd stored)).
Proof. intros. split; [apply dt_cells_rows|apply dt_cells_zero_based]. Qed.
Print Assumptions C15_cell_rows.

(* A connectivity variable stored (node, cell) with the cell dimension named by
   face_dimension / edge_dimension yields exactly the array of the (cell, node) storage,
   hence the same constructs. *)
Theorem C15_storage_order :
  forall w a, rect w a -> (0 < w)%nat -> a <> [] -> select true (transpose a) = select false a.
Proof. exact storage_order. Qed.
Print Assumptions C15_storage_order.

(* Cell connectivity: one row per cell; row i starts with i and continues with the
   zero-based neighbours of the file's row i, padding kept where it was. *)
Theorem C15_connectivity_rows :
  forall si cd stored, si = 0 \/ si = 1 ->
  length (cell_conn si cd stored) = length (select cd stored) /\
  forall i, nth_error (cell_conn si cd stored) i =
            option_map (fun r => Some (Z.of_nat i) :: map (omap (fun v => v - si)) r)
                       (nth_error (select cd stored) i).
Proof. intros. split; [apply cell_conn_length|intros; apply cell_conn_rows; assumption]. Qed.
Print Assumptions C15_connectivity_rows.

(* Bounds: for a connectivity whose node numbers are valid, each bound is the coordinate
   of the node the connectivity names (start index removed) and padding stays missing. *)
Theorem C15_bounds_gather :
  forall si cd stored coords,
  valid_ids si (Z.of_nat (length coords)) (select cd stored) ->
  bounds si cd stored coords = Ok (gather_spec si coords (select cd stored)).
Proof. exact bounds_gather. Qed.
Print Assumptions C15_bounds_gather.

(* ... and a node number beyond the coordinate variable is an error, never another node. *)
Theorem C15_bounds_refuse :
  forall si cd stored coords v,
  In v (all_present (select cd stored)) -> Z.of_nat (length coords) <= v - si ->
  bounds si cd stored coords = Err IndexErr.
Proof. exact bounds_beyond. Qed.
Print Assumptions C15_bounds_refuse.

(* Point cells derived from faces: one row per mesh node (also for a node of no face);
   row k is k, then - strictly increasing, so without repeats - exactly the nodes m <> k
   that come right before or right after k around some face (the last node of a face is
   followed by its first), then padding up to a common width; all zero-based. *)
Theorem C15_point_rows_faces :
  forall n si cd stored, si = 0 \/ si = 1 ->
  Forall (Forall (fun v => si <= v)) (map present (select cd stored)) ->
  let out := point_topology true n si cd stored in
  length out = n /\
  exists w, forall k, (k < n)%nat -> exists l,
    nth_error out k = Some (Some (Z.of_nat k) :: map Some l ++ repeat None (w - S (length l))) /\
    (S (length l) <= w)%nat /\ StronglySorted Z.lt l /\
    forall m, In m l <-> m <> Z.of_nat k /\ linked_f (zero_based si (select cd stored)) (Z.of_nat k) m.
Proof. exact point_rows_faces. Qed.
Print Assumptions C15_point_rows_faces.

(* Point cells derived from edges: the same with "m and k belong to a common edge". *)
Theorem C15_point_rows_edges :
  forall n si cd stored, si = 0 \/ si = 1 ->
  Forall (Forall (fun v => si <= v)) (map present (select cd stored)) ->
  let out := point_topology false n si cd stored in
  length out = n /\
  exists w, forall k, (k < n)%nat -> exists l,
    nth_error out k = Some (Some (Z.of_nat k) :: map Some l ++ repeat None (w - S (length l))) /\
    (S (length l) <= w)%nat /\ StronglySorted Z.lt l /\
    forall m, In m l <-> m <> Z.of_nat k /\ linked_e (zero_based si (select cd stored)) (Z.of_nat k) m.
Proof. exact point_rows_edges. Qed.
Print Assumptions C15_point_rows_edges.

(* The neighbour relation of point cells is symmetric: m is listed for k iff k is for m. *)
Theorem C15_links_symmetric :
  forall conn a b, (linked_f conn a b <-> linked_f conn b a) /\ (linked_e conn a b <-> linked_e conn b a).
Proof. intros. split; [apply linked_f_sym|apply linked_e_sym]. Qed.
Print Assumptions C15_links_symmetric.

(* normalise() of an edge / face domain topology always succeeds and a second
   normalisation (same start index) returns the same array. *)
Theorem C15_normalise_idempotent :
  forall s a, s = 0 \/ s = 1 ->
  exists b, normalise_cells s false a = Ok b /\ normalise_cells s false b = Ok b.
Proof.
  intros s a Hs. destruct (normalise_cells_ok s a) as (b & Hb). exists b.
  split; [exact Hb|]. exact (normalise_cells_idem s a b Hs Hb).
Qed.
Print Assumptions C15_normalise_idempotent.

(* normalise() only relabels: the node numbers are mapped by an order-preserving (so
   one-to-one) function onto start_index, start_index + 1, ...; shape and padding stay. *)
Theorem C15_normalise_relabels :
  forall s a, s = 0 \/ s = 1 ->
  exists f k, normalise_cells s false a = Ok (amap f a) /\
    (forall x y, In x (all_present a) -> In y (all_present a) -> (x < y <-> f x < f y)) /\
    (forall z, In z (all_present (amap f a)) <-> s <= z < s + Z.of_nat k).
Proof. exact normalise_cells_relabels. Qed.
Print Assumptions C15_normalise_relabels.

(* Point cells and cell connectivity (Topology._normalise_cell_ids).
   Full statement: for every array a whose first column holds distinct identifiers,
     normalise_ids s rm a = Ok b -> normalise_ids s rm b = Ok b.
   Proved here: the second half of that argument - an array in canonical form (first column
   start_index, start_index + 1, ..., every value within that range) is returned unchanged.
   Missing: that the relabelling loop always produces the canonical form; the harness checks
   that on every observed result (ids, range, idempotence) instead. *)
Theorem C15_normalise_ids_idempotent_partial :
  forall s a n, s = 0 \/ s = 1 ->
  first_col a = Some (zseq s (S n)) ->
  Forall (fun v => s <= v <= s + Z.of_nat n) (all_present a) ->
  normalise_ids s false a = Ok a.
Proof. exact normalise_ids_fixpoint. Qed.
Print Assumptions C15_normalise_ids_idempotent_partial.
