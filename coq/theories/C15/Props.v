(* C15 - the property theorems, nothing else. *)
From Coq Require Import Sorting.Sorted.
From CfdmV Require Import Common.Base C15.Model C15.Spec C15.Lemmas C15.NormIds C15.Mesh C15.MeshLemmas.
Open Scope Z_scope.

(* Edge and face cells: the domain topology has the shape and the padding of the
   connectivity variable, every value is the file's value minus the start index, and
   when the file's node numbers lie in [start_index, start_index + n) those of the
   construct lie in [0, n) - for every mesh, start index and storage order. *)
Theorem C15_cell_rows :
  forall si n cd stored,
  pointwise (fun v => v - si) (select cd stored) (dt_cells si cd stored) /\
  (valid_ids si n (select cd stored) -> valid_ids 0 n (dt_cells si cd stored)).
Proof. intros. split; [apply dt_cells_rows|apply dt_cells_zero_based]. Qed.
Print Assumptions C15_cell_rows.

(* A connectivity variable stored (node, cell) with the cell dimension named by
   face_dimension / edge_dimension yields exactly the array of the (cell, node) storage,
   hence the same constructs. *)
Theorem C15_storage_order :
  forall w a, rect w a -> (0 < w)%nat -> a <> [] -> select true (transpose a) = select false a.
Proof. exact storage_order. Qed.
Print Assumptions C15_storage_order.

(* Cell connectivity: one row per cell; row i starts with i and continues with the
   zero-based neighbours of the file's row i, padding kept where it was. *)
Theorem C15_connectivity_rows :
  forall si cd stored, si = 0 \/ si = 1 ->
  length (cell_conn si cd stored) = length (select cd stored) /\
  forall i, nth_error (cell_conn si cd stored) i =
            option_map (fun r => Some (Z.of_nat i) :: map (omap (fun v => v - si)) r)
                       (nth_error (select cd stored) i).
Proof. intros. split; [apply cell_conn_length|intros; apply cell_conn_rows; assumption]. Qed.
Print Assumptions C15_connectivity_rows.

(* Bounds: for a connectivity whose node numbers are valid, each bound is the coordinate
   of the node the connectivity names (start index removed) and padding stays missing. *)
Theorem C15_bounds_gather :
  forall si cd stored coords,
  valid_ids si (Z.of_nat (length coords)) (select cd stored) ->
  bounds si cd stored coords = Ok (gather_spec si coords (select cd stored)).
Proof. exact bounds_gather. Qed.
Print Assumptions C15_bounds_gather.

(* ... and a node number beyond the coordinate variable is an error, never another node. *)
Theorem C15_bounds_refuse :
  forall si cd stored coords v,
  In v (all_present (select cd stored)) -> Z.of_nat (length coords) <= v - si ->
  bounds si cd stored coords = Err IndexErr.
Proof. exact bounds_beyond. Qed.
Print Assumptions C15_bounds_refuse.

(* Point cells derived from faces: one row per mesh node (also for a node of no face);
   row k is k, then - strictly increasing, so without repeats - exactly the nodes m <> k
   that come right before or right after k around some face (the last node of a face is
   followed by its first), then padding up to a common width; all zero-based. *)
Theorem C15_point_rows_faces :
  forall n si cd stored, si = 0 \/ si = 1 ->
  Forall (Forall (fun v => si <= v)) (map present (select cd stored)) ->
  let out := point_topology true n si cd stored in
  length out = n /\
  exists w, forall k, (k < n)%nat -> exists l,
    nth_error out k = Some (Some (Z.of_nat k) :: map Some l ++ repeat None (w - S (length l))) /\
    (S (length l) <= w)%nat /\ StronglySorted Z.lt l /\
    forall m, In m l <-> m <> Z.of_nat k /\ linked_f (zero_based si (select cd stored)) (Z.of_nat k) m.
Proof. exact point_rows_faces. Qed.
Print Assumptions C15_point_rows_faces.

(* Point cells derived from edges: the same with "m and k belong to a common edge". *)
Theorem C15_point_rows_edges :
  forall n si cd stored, si = 0 \/ si = 1 ->
  Forall (Forall (fun v => si <= v)) (map present (select cd stored)) ->
  let out := point_topology false n si cd stored in
  length out = n /\
  exists w, forall k, (k < n)%nat -> exists l,
    nth_error out k = Some (Some (Z.of_nat k) :: map Some l ++ repeat None (w - S (length l))) /\
    (S (length l) <= w)%nat /\ StronglySorted Z.lt l /\
    forall m, In m l <-> m <> Z.of_nat k /\ linked_e (zero_based si (select cd stored)) (Z.of_nat k) m.
Proof. exact point_rows_edges. Qed.
Print Assumptions C15_point_rows_edges.

(* The neighbour relation of point cells is symmetric: m is listed for k iff k is for m. *)
Theorem C15_links_symmetric :
  forall conn a b, (linked_f conn a b <-> linked_f conn b a) /\ (linked_e conn a b <-> linked_e conn b a).
Proof. intros. split; [apply linked_f_sym|apply linked_e_sym]. Qed.
Print Assumptions C15_links_symmetric.

(* normalise() of an edge / face domain topology always succeeds and a second
   normalisation (same start index) returns the same array. *)
Theorem C15_normalise_idempotent :
  forall s a, s = 0 \/ s = 1 ->
  exists b, normalise_cells s false a = Ok b /\ normalise_cells s false b = Ok b.
Proof.
  intros s a Hs. destruct (normalise_cells_ok s a) as (b & Hb). exists b.
  split; [exact Hb|]. exact (normalise_cells_idem s a b Hs Hb).
Qed.
Print Assumptions C15_normalise_idempotent.

(* normalise() only relabels: the node numbers are mapped by an order-preserving (so
   one-to-one) function onto start_index, start_index + 1, ...; shape and padding stay. *)
Theorem C15_normalise_relabels :
  forall s a, s = 0 \/ s = 1 ->
  exists f k, normalise_cells s false a = Ok (amap f a) /\
    (forall x y, In x (all_present a) -> In y (all_present a) -> (x < y <-> f x < f y)) /\
    (forall z, In z (all_present (amap f a)) <-> s <= z < s + Z.of_nat k).
Proof. exact normalise_cells_relabels. Qed.
Print Assumptions C15_normalise_relabels.

(* ... also with remove_empty_columns, for rectangular arrays (any result is a fixed point). *)
Theorem C15_normalise_idempotent_rm :
  forall s rm w a b, s = 0 \/ s = 1 -> rect w a ->
  normalise_cells s rm a = Ok b -> normalise_cells s rm b = Ok b.
Proof. exact normalise_cells_idem_rm. Qed.
Print Assumptions C15_normalise_idempotent_rm.

(* Point cells and cell connectivity (Topology._normalise_cell_ids), full statement: for
   every array whose rows start with an identifier - any start index, any padding pattern,
   identifiers in any order, negative or repeated, with or without remove_empty_columns -
   the normalisation succeeds; the identifier column of the result numbers every cell by
   the position of the first cell with its identifier, counted from the start index
   (idcol), every other value left is one of those numbers; for distinct identifiers that
   is the canonical form start, start + 1, ... with all values in range; and a second
   normalisation with the same parameters returns the result unchanged. *)
Theorem C15_normalise_ids_canonical :
  forall si rm a id0 rest, first_col a = Some (id0 :: rest) ->
  exists b, normalise_ids si rm a = Ok b /\
    first_col b = Some (idcol (s01 si) (id0 :: rest)) /\
    (forall v, In v (all_present b) -> In v (idcol (s01 si) (id0 :: rest))) /\
    (NoDup (id0 :: rest) ->
       first_col b = Some (zseq (s01 si) (length (id0 :: rest))) /\
       forall v, In v (all_present b) -> s01 si <= v < s01 si + Z.of_nat (length (id0 :: rest))) /\
    normalise_ids si rm b = Ok b.
Proof. exact normalise_ids_full. Qed.
Print Assumptions C15_normalise_ids_canonical.

(* Whatever the array (also one for which no identifier column can be read): a result of
   _normalise_cell_ids is a fixed point of _normalise_cell_ids. *)
Theorem C15_normalise_ids_idempotent :
  forall si rm a b, normalise_ids si rm a = Ok b -> normalise_ids si rm b = Ok b.
Proof. exact normalise_ids_idem. Qed.
Print Assumptions C15_normalise_ids_idempotent.

(* With repeated identifiers the column is not start, start + 1, ... (cells 5, 5, 7 become
   0, 0, 2): the canonical form in the narrow sense needs distinct identifiers. *)
Theorem C15_normalise_ids_repeated_refuted :
  exists a b, normalise_ids 0 false a = Ok b /\ first_col b <> Some (zseq 0 3) /\ length a = 3%nat.
Proof. exact normalise_ids_repeated_refuted. Qed.
Print Assumptions C15_normalise_ids_repeated_refuted.

(* Rows and padding.  The domain topology of edge / face cells and the cell connectivity have
   one row per row of the (re-ordered) connectivity variable, the point topology one row per
   mesh node (also for nodes of no cell), and bounds gathered from the nodes have exactly
   the padding mask - hence the shape - of the connectivity and of the domain topology. *)
Theorem C15_rows_and_masks :
  forall si cd stored coords,
  length (dt_cells si cd stored) = length (select cd stored) /\
  length (cell_conn si cd stored) = length (select cd stored) /\
  length (select cd stored) = (if cd then width stored else length stored) /\
  (forall ff n, length (point_topology ff n si cd stored) = n) /\
  (forall b, bounds si cd stored coords = Ok b ->
     mask_of b = mask_of (select cd stored) /\ mask_of b = mask_of (dt_cells si cd stored) /\
     length b = length (select cd stored)).
Proof.
  intros. split; [apply dt_cells_length|]. split; [apply cell_conn_length|]. split; [apply select_length|].
  split; [intros; apply point_topology_length|]. intros b Hb.
  destruct (bounds_mask si cd stored coords b Hb) as [H1 H2]. split; [exact H1|]. split; [exact H2|].
  apply mask_length. exact H1.
Qed.
Print Assumptions C15_rows_and_masks.

(* The reader's decisions (Mesh.v: _ugrid_check_mesh_topology, mesh.ncdim,
   _ugrid_cell_dimension, choice of connectivity per location, start index per variable).
   For a mesh the checks accept, the domain topology and the node-gathered bounds of every
   location are given as many rows as the location's domain axis has elements; and a
   connectivity variable stored with its declared shape, read with the storage order the
   decision chose, has exactly that many rows. *)
Theorem C15_accepted_mesh_well_shaped :
  (forall m ls, parse_mesh m = Ok (Some ls) -> forall s, In (Some s) ls ->
     fst (fst (ls_dt s)) = ls_axis s /\ (forall b, ls_bounds s = Some b -> fst (fst b) = ls_axis s)) /\
  (forall m lname conn d0 d1 rows tr (a : arr),
     var_dims m conn = Some [d0; d1] -> conn_cells m lname conn = Ok (rows, tr) ->
     Z.of_nat (length a) = dim_size m d0 -> rect (Z.to_nat (dim_size m d1)) a -> a <> [] -> 0 <= dim_size m d1 ->
     forall si, Z.of_nat (length (dt_cells si tr a)) = rows).
Proof.
  split; [exact parse_mesh_rows|]. intros. rewrite dt_cells_length.
  eapply conn_cells_shape; eassumption.
Qed.
Print Assumptions C15_accepted_mesh_well_shaped.

(* The cell connectivity construct, when the reader creates one (handoff/C15-fix3-1.diff: only
   from a 2-d face_face_connectivity variable whose cell dimension is the mesh's face
   dimension), has one row per face - no guard.  Refuted.v has the witness for the code
   before that repair, which built a construct from a variable on any dimension. *)
Theorem C15_cell_connectivity_rows :
  forall m s c, summarise m Face = Ok (Some s) -> ls_cc s = Some c -> fst (fst c) = ls_axis s.
Proof. exact cc_rows. Qed.
Print Assumptions C15_cell_connectivity_rows.

(* A data variable is given the constructs of a location only if it spans the location's
   dimension (Mesh.attach; otherwise the mesh is reported and ignored for it): the domain
   topology, the cell connectivity and the bounds it receives have exactly as many rows as
   the variable's own cell dimension has elements. *)
Theorem C15_field_axis_rows :
  forall m l s s' dd, summarise m l = Ok (Some s) -> attach s dd = Some s' ->
  fst (fst (ls_dt s')) = dim_size m dd /\
  (forall c, ls_cc s' = Some c -> l = Face -> fst (fst c) = dim_size m dd) /\
  (forall b, ls_bounds s' = Some b -> fst (fst b) = dim_size m dd).
Proof. exact attach_rows. Qed.
Print Assumptions C15_field_axis_rows.
