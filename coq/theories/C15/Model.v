(* C15 - executable model of cfdm's mapping of UGRID meshes to topology constructs.
   Anchors: cfdm/data/subarray/abstract/meshsubarray.py (_select_data),
   cfdm/data/subarray/cellconnectivitysubarray.py, boundsfromnodessubarray.py,
   cfdm/data/subarray/mixin/pointtopology.py, pointtopologyfromfacessubarray.py,
   pointtopologyfromedgessubarray.py, cfdm/read_write/netcdf/netcdfread.py
   (_ugrid_create_domain_topology), cfdm/domaintopology.py (normalise),
   cfdm/mixin/topology.py (_normalise_cell_ids, _remove_empty_columns).
   The model is of the REPAIRED code (handoff/C15-fix-1..3.diff); the behaviour
   of the pinned commit is kept in the ..._old definitions.  Definitions only. *)
From CfdmV Require Import Common.Base.
Open Scope Z_scope.

(* A 2-d masked integer array: rows of optional values (None = masked). *)
Definition row := list (option Z).
Definition arr := list row.

Definition omap (f : Z -> Z) (o : option Z) : option Z :=
  match o with Some v => Some (f v) | None => None end.

Definition amap (f : Z -> Z) (a : arr) : arr := map (map (omap f)) a.

(* row.compressed(): the non-missing values, in order *)
Fixpoint present (r : row) : list Z :=
  match r with
  | [] => []
  | Some v :: t => v :: present t
  | None :: t => present t
  end.

(* ---- MeshSubarray._select_data -------------------------------------------- *)
(* array.T of a 2-d array whose rows have length w *)
Fixpoint transpose_w (w : nat) (a : arr) : arr :=
  match w with
  | O => []
  | S w' => map (fun r => hd None r) a :: transpose_w w' (map (@tl (option Z)) a)
  end.

Definition transpose (a : arr) : arr := transpose_w (length (hd [] a)) a.

(* cell_dimension = 1: the variable is stored (node, cell) *)
Definition select (cell_dim1 : bool) (stored : arr) : arr :=
  if cell_dim1 then transpose stored else stored.

(* ---- edge / face domain topology (netcdfread._ugrid_create_domain_topology) - *)
Definition dt_cells (si : Z) (cell_dim1 : bool) (stored : arr) : arr :=
  let data := select cell_dim1 stored in
  if si =? 0 then data else amap (fun v => v - si) data.

(* pinned commit: the node ids are those of the file *)
Definition dt_cells_old (si : Z) (cell_dim1 : bool) (stored : arr) : arr :=
  select cell_dim1 stored.

(* ---- CellConnectivitySubarray.__getitem__ ---------------------------------- *)
Fixpoint with_ids (start : Z) (a : arr) : arr :=
  match a with
  | [] => []
  | r :: t => (Some start :: r) :: with_ids (start + 1) t
  end.

Definition cell_conn (si : Z) (cell_dim1 : bool) (stored : arr) : arr :=
  let data := select cell_dim1 stored in
  if si =? 0 then with_ids 0 data
  else amap (fun v => v - 1) (with_ids 1 data).

(* ---- BoundsFromNodesSubarray.__getitem__ ----------------------------------- *)
(* numpy integer indexing of a 1-d array: negative indices count from the end *)
Definition py_nth (l : list Z) (k : Z) : option Z :=
  let n := Z.of_nat (length l) in
  if (0 <=? k) && (k <? n) then nth_error l (Z.to_nat k)
  else if (- n <=? k) && (k <? 0) then nth_error l (Z.to_nat (k + n))
  else None.

Fixpoint gather_row (si : Z) (coords : list Z) (r : row) : option row :=
  match r with
  | [] => Some []
  | None :: t => option_map (cons None) (gather_row si coords t)
  | Some v :: t =>
    match py_nth coords (v - si), gather_row si coords t with
    | Some c, Some t' => Some (Some c :: t')
    | _, _ => None
    end
  end.

Fixpoint gather_all (si : Z) (coords : list Z) (a : arr) : option arr :=
  match a with
  | [] => Some []
  | r :: t =>
    match gather_row si coords r, gather_all si coords t with
    | Some r', Some t' => Some (r' :: t')
    | _, _ => None
    end
  end.

Definition bounds (si : Z) (cell_dim1 : bool) (stored : arr) (coords : list Z) : result arr :=
  match gather_all si coords (select cell_dim1 stored) with
  | Some a => Ok a
  | None => Err IndexErr
  end.

(* ---- point topology --------------------------------------------------------- *)
(* sorted(set(...)) *)
Fixpoint insert_u (x : Z) (l : list Z) : list Z :=
  match l with
  | [] => [x]
  | y :: r => if x <? y then x :: l else if x =? y then l else y :: insert_u x r
  end.

Definition sort_u (l : list Z) : list Z := fold_right insert_u [] l.

(* set.discard *)
Definition remove_z (x : Z) (l : list Z) : list Z := filter (fun y => negb (y =? x)) l.

Definition has (node : Z) (r : list Z) : bool := existsb (Z.eqb node) r.

(* zip(face_nodes[:-1], face_nodes[1:]) after face_nodes.append(face_nodes[0]) *)
Definition cyc_pairs (l : list Z) : list (Z * Z) :=
  match l with
  | [] => []
  | x :: t => combine l (t ++ [x])
  end.

(* PointTopologyFromFacesSubarray._connected_nodes: in each face that contains the
   node, the nodes joined to it by an edge of the face *)
Definition face_links (node : Z) (face_nodes : list Z) : list Z :=
  flat_map (fun p : Z * Z =>
              if snd p =? node then [fst p]
              else if fst p =? node then [snd p] else [])
           (cyc_pairs face_nodes).

Definition connected_faces (node : Z) (conn : list (list Z)) : list Z :=
  node :: sort_u (remove_z node (flat_map (face_links node) (filter (has node) conn))).

(* pinned commit: only the node before it in each face was found *)
Definition face_links_old (node : Z) (face_nodes : list Z) : list Z :=
  flat_map (fun p : Z * Z => if snd p =? node then [fst p] else []) (cyc_pairs face_nodes).

(* (the pinned commit returned list(set(nodes)) whose order is that of a Python set;
   sort_u gives the same members) *)
Definition connected_faces_old (node : Z) (conn : list (list Z)) : list Z :=
  node :: sort_u (flat_map (face_links_old node) (filter (has node) conn)).

(* PointTopologyFromEdgesSubarray._connected_nodes *)
Definition connected_edges (node : Z) (conn : list (list Z)) : list Z :=
  node :: sort_u (remove_z node (concat (filter (has node) conn))).

Definition pad_to (w : nat) (r : list Z) : list Z := r ++ repeat 0 (w - length r).

Definition max_len (rows : list (list Z)) : nat := fold_right Nat.max 0%nat (map (@length Z) rows).

(* scipy.sparse.csr_array((u, cols, pointers)).toarray(); zeros masked; minus one *)
Definition assemble (rows : list (list Z)) : arr :=
  let w := max_len rows in
  map (fun r => map (fun v => if v =? 0 then None else Some (v - 1)) (pad_to w r)) rows.

(* the one-based node ids 1 .. n *)
Definition node_ids (n : nat) : list Z := map (fun k => Z.of_nat k + 1) (seq 0 n).

(* the connectivity with one-based ids, padding dropped *)
Definition one_based (si : Z) (data : arr) : list (list Z) :=
  map (fun r => map (fun v => if si =? 0 then v + 1 else v) (present r)) data.

(* PointTopology.__getitem__ (repaired): one row per mesh node *)
Definition point_topology (from_faces : bool) (n_nodes : nat) (si : Z) (cell_dim1 : bool)
           (stored : arr) : arr :=
  let conn := one_based si (select cell_dim1 stored) in
  assemble (map (fun node => if from_faces then connected_faces node conn
                             else connected_edges node conn) (node_ids n_nodes)).

(* pinned commit: one row per node that occurs in the connectivity (np.unique), the
   ids left one-based when start_index = 1.  (Padded face arrays raised TypeError at
   the pinned commit; this definition describes unpadded arrays only.) *)
Definition assemble_old (si : Z) (rows : list (list Z)) : arr :=
  let w := max_len rows in
  map (fun r => map (fun v => if v =? 0 then None else Some (if si =? 0 then v - 1 else v))
                    (pad_to w r)) rows.

Definition point_topology_old (from_faces : bool) (si : Z) (cell_dim1 : bool) (stored : arr) : arr :=
  let conn := one_based si (select cell_dim1 stored) in
  assemble_old si (map (fun node => if from_faces then connected_faces_old node conn
                                    else connected_edges node conn) (sort_u (concat conn))).

(* ---- DomainTopology.normalise for edge and face cells ----------------------- *)
Definition all_present (a : arr) : list Z := flat_map present a.

Fixpoint index_of (x : Z) (l : list Z) : Z :=
  match l with
  | [] => 0
  | y :: r => if x =? y then 0 else 1 + index_of x r
  end.

(* data[n, b] = np.unique(data[n, b], return_inverse=True)[1] *)
Definition rank_compress (a : arr) : arr :=
  let u := sort_u (all_present a) in
  amap (fun v => index_of v u) a.

(* Topology._remove_empty_columns: keep the columns from the first to the last one
   that has a value (only when there is a masked element and an empty column) *)
Definition is_some (o : option Z) : bool := match o with Some _ => true | None => false end.

Definition col_used (a : arr) (j : nat) : bool := existsb (fun r => is_some (nth j r None)) a.

Definition width (a : arr) : nat := length (hd [] a).

Definition used_cols (a : arr) : list nat := filter (col_used a) (seq 0 (width a)).

Definition remove_empty_columns (a : arr) : result arr :=
  if forallb (forallb is_some) a then Ok a
  else
    let used := used_cols a in
    if Nat.eqb (length used) (width a) then Ok a
    else match used with
         | [] => Err IndexErr
         | j0 :: _ =>
           let j1 := last used j0 in
           Ok (map (fun r => firstn (S j1 - j0) (skipn j0 r)) a)
         end.

Definition normalise_cells (start_index : Z) (rm : bool) (a : arr) : result arr :=
  let d := rank_compress a in
  rbind (if rm then remove_empty_columns d else Ok d)
        (fun d => Ok (if start_index =? 0 then d else amap (fun v => v + 1) d)).


(* ---- Topology._normalise_cell_ids (point cells, cell connectivity) ---------- *)
Definition zmax (l : list Z) : Z := fold_right Z.max (hd 0 l) l.
Definition zmin (l : list Z) : Z := fold_right Z.min (hd 0 l) l.

(* ids.tolist(): the first column; a missing identifier is not supported *)
Fixpoint first_col (a : arr) : option (list Z) :=
  match a with
  | [] => Some []
  | (Some v :: _) :: t => option_map (cons v) (first_col t)
  | _ => None
  end.

Fixpoint zseq (start : Z) (n : nat) : list Z :=
  match n with O => [] | S k => start :: zseq (start + 1) k end.

(* for i, j in zip(ids, range(-n, 0)): np.copyto(data, j, where=data == i) *)
Fixpoint relabel_loop (ids : list Z) (j : Z) (a : arr) : arr :=
  match ids with
  | [] => a
  | i :: r => relabel_loop r (j + 1) (amap (fun v => if v =? i then j else v) a)
  end.

(* np.ma.where(cond, masked, data) *)
Definition mask_where (p : Z -> bool) (a : arr) : arr :=
  map (map (fun o => match o with Some v => if p v then None else Some v | None => None end)) a.

(* data[:, 1:].sort(axis=1, endwith=True) *)
Fixpoint insert_s (x : Z) (l : list Z) : list Z :=
  match l with
  | [] => [x]
  | y :: r => if x <=? y then x :: l else y :: insert_s x r
  end.
Definition sort_z (l : list Z) : list Z := fold_right insert_s [] l.

Definition sort_tail (r : row) : row :=
  match r with
  | [] => []
  | h :: t => h :: map Some (sort_z (present t)) ++ repeat None (length t - length (present t))
  end.

Definition normalise_ids (start_index : Z) (rm : bool) (a : arr) : result arr :=
  match first_col a with
  | None => Err OtherErr
  | Some [] => Err IndexErr
  | Some ((id0 :: _) as ids) =>
    let n := length ids in
    let relabel := negb (((id0 =? 0) && list_eqb Z.eqb ids (zseq 0 n))
                         || ((id0 =? 1) && list_eqb Z.eqb ids (zseq 1 n))) in
    let '(data, smallest, largest) :=
      if relabel then
        let dmin := zmin (all_present a) in
        let d := if dmin <? 0 then amap (fun v => v - dmin) a else a in
        let ids' := if dmin <? 0 then map (fun v => v - dmin) ids else ids in
        (relabel_loop ids' (- Z.of_nat n) d, None, -1)
      else
        let d := if negb (start_index =? 0) && (id0 =? 0) then amap (fun v => v + 1) a
                 else if (start_index =? 0) && (id0 =? 1) then amap (fun v => v - 1) a
                 else a in
        let col := match first_col d with Some c => c | None => [] end in
        (d, Some (hd 0 col), last col 0) in
    let '(data, move) :=
      if zmax (all_present data) >? largest
      then (mask_where (fun v => v >? largest) data, true) else (data, false) in
    let '(data, move) :=
      match smallest with
      | Some s => if zmin (all_present data) <? s
                  then (mask_where (fun v => v <? s) data, true) else (data, move)
      | None => (data, move)
      end in
    let data := if move then map sort_tail data else data in
    rbind (if rm then remove_empty_columns data else Ok data)
          (fun data => Ok (if relabel
                           then amap (fun v => v + Z.of_nat n + (if start_index =? 0 then 0 else 1)) data
                           else data))
  end.
