(* C15 - the decisions NetCDFRead takes about a UGRID mesh topology variable, as total
   functions of the file's metadata (no array values).  Anchors, netcdfread.py:
   _ugrid_check_mesh_topology, _ugrid_parse_mesh_topology (mesh.ncdim),
   _ugrid_cell_dimension, _ugrid_create_domain_topology (which connectivity serves which
   location), _ugrid_create_cell_connectivities, _ugrid_create_bounds_from_nodes,
   _ugrid_check_connectivity_variable, _ugrid_check_field_mesh.  Definitions only.
   Outside: location index sets, volume cells (NotImplementedError), the wording of the
   compliance report.  The mesh topology variable is taken to be a scalar variable (then
   the dimension test of _ugrid_check_connectivity_variable can never fail). *)
From CfdmV Require Import Common.Base C15.Model.
Open Scope Z_scope.

Record meshmeta := {
  mm_dims : list (string * Z);              (* netCDF dimension -> size *)
  mm_vars : list (string * list string);    (* netCDF variable -> its dimensions *)
  mm_attrs : list (string * string);        (* single-valued attributes of the mesh variable:
                                               *_node_connectivity, face_face_connectivity,
                                               *_dimension, volume_shape_type *)
  mm_coords : list (string * list string);  (* node_coordinates, edge_coordinates, ... split at white space *)
  mm_topdim : option Z;                     (* topology_dimension *)
  mm_si : list (string * Z)                 (* start_index attribute of the variables that have one *)
}.

Definition var_dims (m : meshmeta) (v : string) : option (list string) := assoc v (mm_vars m).
Definition var_exists (m : meshmeta) (v : string) : bool :=
  match var_dims m v with Some _ => true | None => false end.
Definition dim_size (m : meshmeta) (d : string) : Z :=
  match assoc d (mm_dims m) with Some n => n | None => 0 end.
(* properties.pop("start_index", 0) / .get("start_index", 0) of the connectivity variable *)
Definition start_index_of (m : meshmeta) (v : string) : Z :=
  match assoc v (mm_si m) with Some s => s | None => 0 end.

Fixpoint str_index (d : string) (l : list string) : option nat :=
  match l with
  | [] => None
  | x :: r => if String.eqb d x then Some O else option_map S (str_index d r)
  end.

(* _ugrid_cell_dimension: list.index raises ValueError, which the "except IndexError"
   clause does not catch *)
Definition cell_dimension (m : meshmeta) (loc conn : string) : result nat :=
  match assoc (loc ++ "_dimension")%string (mm_attrs m) with
  | None => Ok O
  | Some d =>
    match var_dims m conn with
    | None => Err KeyErr
    | Some dims => match str_index d dims with Some i => Ok i | None => Err ValueErr end
    end
  end.

(* ---- _ugrid_check_mesh_topology ------------------------------------------- *)
(* one coordinates attribute: every named variable exists and is 1-d, and (not for the
   node coordinates) there are as many as node coordinates; n_nodes is only bound once
   node_coordinates has been seen *)
Definition coords_vars_ok (m : meshmeta) (cs : list string) : bool :=
  forallb (fun v => match var_dims m v with Some [_] => true | _ => false end) cs.

Fixpoint check_coords (m : meshmeta) (attrs : list string) (n_nodes : option nat) (ok : bool) : result bool :=
  match attrs with
  | [] => Ok ok
  | a :: rest =>
    match assoc a (mm_coords m) with
    | None => check_coords m rest n_nodes ok
    | Some cs =>
      if String.eqb a "node_coordinates"
      then check_coords m rest (Some (length cs)) (ok && coords_vars_ok m cs)
      else match n_nodes with
           | None => Err OtherErr            (* UnboundLocalError: n_nodes *)
           | Some n => check_coords m rest n_nodes (ok && Nat.eqb (length cs) n && coords_vars_ok m cs)
           end
    end
  end.

Definition conn_attr_ok (m : meshmeta) (attr : string) : bool :=
  match assoc attr (mm_attrs m) with Some v => var_exists m v | None => false end.

Definition check_mesh_topology (m : meshmeta) : result bool :=
  let ok0 := match assoc "node_coordinates"%string (mm_coords m) with Some _ => true | None => false end in
  rbind (check_coords m ["node_coordinates"; "edge_coordinates"; "face_coordinates"; "volume_coordinates"]%string
                      None ok0)
    (fun ok =>
       Ok (ok && match mm_topdim m with
                 | None => false
                 | Some 2 => conn_attr_ok m "face_node_connectivity"
                 | Some 1 => conn_attr_ok m "edge_node_connectivity"
                 | Some 3 => conn_attr_ok m "volume_node_connectivity"
                             && match assoc "volume_shape_type"%string (mm_attrs m) with Some _ => true | None => false end
                 | Some _ => false
                 end)).

(* ---- _ugrid_parse_mesh_topology: the discrete axis of each location --------- *)
Inductive loc := Node | Edge | Face.
Definition loc_name (l : loc) : string :=
  match l with Node => "node" | Edge => "edge" | Face => "face" end.

Definition loc_dim (m : meshmeta) (l : loc) : result (option string) :=
  let v := match l with
           | Node => match assoc "node_coordinates"%string (mm_coords m) with
                     | Some (v :: _) => Some v | _ => None end
           | _ => assoc (loc_name l ++ "_node_connectivity")%string (mm_attrs m)
           end in
  match v with
  | None => Ok None
  | Some v =>
    match var_dims m v with
    | None => Ok None
    | Some [d] => Ok (Some d)
    | Some dims =>
      rbind (cell_dimension m (loc_name l) v)
            (fun i => match nth_error dims i with Some d => Ok (Some d) | None => Err IndexErr end)
    end
  end.

(* ---- _ugrid_create_domain_topology: which connectivity variable ------------ *)
(* (cell type, connectivity variable, location whose *_dimension attribute applies);
   for point cells the first of edge, face, volume whose *_node_connectivity attribute
   exists is taken *)
Definition dt_source (m : meshmeta) (l : loc) : option (string * string * string) :=
  let pick (cell lname : string) :=
    match assoc (lname ++ "_node_connectivity")%string (mm_attrs m) with
    | Some v => if var_exists m v then Some (cell, v, lname) else None
    | None => None
    end in
  match l with
  | Node =>
    match assoc "edge_node_connectivity"%string (mm_attrs m) with
    | Some _ => pick "point"%string "edge"%string
    | None =>
      match assoc "face_node_connectivity"%string (mm_attrs m) with
      | Some _ => pick "point"%string "face"%string
      | None => pick "point"%string "volume"%string
      end
    end
  | Edge => pick "edge"%string "edge"%string
  | Face => pick "face"%string "face"%string
  end.

(* the size of the dimension of a 2-d connectivity variable that indexes the cells, and
   whether the variable is stored (node, cell) *)
Definition conn_cells (m : meshmeta) (lname conn : string) : result (Z * bool) :=
  rbind (cell_dimension m lname conn)
        (fun i => match var_dims m conn with
                  | Some dims => match nth_error dims i with
                                 | Some d => Ok (dim_size m d, Nat.eqb i 1)
                                 | None => Err IndexErr
                                 end
                  | None => Err KeyErr
                  end).

(* the name of that dimension *)
Definition conn_dim (m : meshmeta) (lname conn : string) : result string :=
  rbind (cell_dimension m lname conn)
        (fun i => match var_dims m conn with
                  | Some dims => match nth_error dims i with
                                 | Some d => Ok d
                                 | None => Err IndexErr
                                 end
                  | None => Err KeyErr
                  end).

(* what a location of an accepted mesh gets: the size of its domain axis, the cell type,
   (rows, stored (node, cell), start index) of the domain topology, of the cell
   connectivity (faces only) and of the bounds gathered from the nodes.
   The cell connectivity (handoff/C15-fix3-1.diff) is created only from a 2-d
   face_face_connectivity variable whose cell dimension is the face dimension of the mesh;
   ls_cc_old is what the code before that repair creates: a construct from any existing
   variable, which implementation.set_cell_connectivity then refuses with ValueError (the
   whole read raises) when its number of rows differs from the size of the domain axis *)
Record loc_summary := {
  ls_dim : string;
  ls_axis : Z;
  ls_cell : string;
  ls_dt : Z * bool * Z;
  ls_cc : option (Z * bool * Z);
  ls_cc_old : option (Z * bool * Z);
  ls_bounds : option (Z * bool * Z)
}.

Definition attach_ok_old (s : loc_summary) : bool :=
  match ls_cc_old s with Some c => fst (fst c) =? ls_axis s | None => true end.

Definition summarise (m : meshmeta) (l : loc) : result (option loc_summary) :=
  rbind (loc_dim m l) (fun od =>
  match od, dt_source m l with
  | Some d, Some (cell, conn, lname) =>
    rbind (conn_cells m lname conn) (fun rc =>
    let '(rows, tr) := rc in
    let si := start_index_of m conn in
    let dt := match l with Node => (dim_size m d, tr, si) | _ => (rows, tr, si) end in
    rbind (match l with
           | Face =>
             match assoc "face_face_connectivity"%string (mm_attrs m) with
             | Some ff => if var_exists m ff
                          then rbind (conn_cells m "face" ff) (fun rc2 =>
                               rbind (conn_dim m "face" ff) (fun dn =>
                               let c := (fst rc2, snd rc2, start_index_of m ff) in
                               let spans := match var_dims m ff with Some [_; _] => String.eqb dn d | _ => false end in
                               Ok (if spans then Some c else None, Some c)))
                          else Ok (None, None)
             | None => Ok (None, None)
             end
           | _ => Ok (None, None)
           end) (fun ccs =>
    let bounds := match l with
                  | Node => None
                  | _ => match assoc "node_coordinates"%string (mm_coords m) with
                         | Some (_ :: _) => Some (rows, tr, si)
                         | _ => None
                         end
                  end in
    Ok (Some {| ls_dim := d; ls_axis := dim_size m d; ls_cell := cell; ls_dt := dt; ls_cc := fst ccs; ls_cc_old := snd ccs;
           ls_bounds := bounds |})))
  | _, _ => Ok None
  end).

(* the whole decision: a mesh the checks reject yields nothing *)
Definition parse_mesh (m : meshmeta) : result (option (list (option loc_summary))) :=
  rbind (check_mesh_topology m) (fun ok =>
  if ok then
    rbind (summarise m Node) (fun n =>
    rbind (summarise m Edge) (fun e =>
    rbind (summarise m Face) (fun f => Ok (Some [n; e; f]))))
  else Ok None).

(* _create_field_or_domain (after commit 27c43f0): the constructs of a location are given to a
   data variable only if the variable spans the location's dimension; otherwise the problem
   is reported and the mesh ignored for that variable *)
Definition attach (s : loc_summary) (data_dim : string) : option loc_summary :=
  if String.eqb data_dim (ls_dim s) then Some s else None.
