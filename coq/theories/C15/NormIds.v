(* C15 - Topology._normalise_cell_ids and Topology._remove_empty_columns: the full
   statements (every result is in canonical form; a second normalisation with the same
   parameters returns it unchanged), for every array, start index, padding pattern,
   identifier order and repeated identifiers.  Proofs only. *)
From Coq Require Import Sorting.Sorted.
From CfdmV Require Import Common.Base C15.Model C15.Spec C15.Lemmas.
Open Scope Z_scope.

Definition rmap {A B} (f : A -> B) (r : result A) : result B :=
  match r with Ok a => Ok (f a) | Err e => Err e end.

(* ------------------------------------------------------------------------- *)
(* 1. _remove_empty_columns                                                   *)
(* ------------------------------------------------------------------------- *)
Lemma is_some_omap f o : is_some (omap f o) = is_some o.
Proof. destruct o; reflexivity. Qed.

Lemma all_some_amap f a : forallb (forallb is_some) (amap f a) = forallb (forallb is_some) a.
Proof.
  unfold amap. induction a as [|r t IH]; simpl; [reflexivity|]. rewrite IH. f_equal.
  induction r as [|o r' IHr]; simpl; [reflexivity|]. rewrite is_some_omap, IHr. reflexivity.
Qed.

Lemma nth_omap f j (r : row) : nth j (map (omap f) r) None = omap f (nth j r None).
Proof. change (@None Z) with (omap f None) at 1. apply map_nth. Qed.

Lemma col_used_amap f a j : col_used (amap f a) j = col_used a j.
Proof.
  unfold col_used, amap. induction a as [|r t IH]; simpl; [reflexivity|].
  rewrite nth_omap, is_some_omap, IH. reflexivity.
Qed.

Lemma width_amap f a : width (amap f a) = width a.
Proof. destruct a; simpl; [reflexivity|apply map_length]. Qed.

Lemma used_cols_amap f a : used_cols (amap f a) = used_cols a.
Proof. unfold used_cols. rewrite width_amap. apply filter_ext. intros; apply col_used_amap. Qed.

Lemma rec_amap f a : remove_empty_columns (amap f a) = rmap (amap f) (remove_empty_columns a).
Proof.
  unfold remove_empty_columns. rewrite all_some_amap, used_cols_amap, width_amap.
  destruct (forallb (forallb is_some) a); [reflexivity|].
  destruct (Nat.eqb (length (used_cols a)) (width a)); [reflexivity|].
  destruct (used_cols a) as [|j0 U]; [reflexivity|]. simpl. f_equal.
  unfold amap. rewrite !map_map. apply map_ext. intros r.
  rewrite skipn_map, firstn_map. reflexivity.
Qed.

Lemma filter_seq_last_ge (p : nat -> bool) : forall n a x d,
  In x (filter p (seq a n)) -> (x <= last (filter p (seq a n)) d)%nat.
Proof.
  induction n as [|n IH]; intros a x d H; simpl in *; [contradiction|].
  destruct (p a) eqn:E.
  - destruct (filter p (seq (S a) n)) as [|y l] eqn:F.
    + destruct H as [<-|[]]. simpl. lia.
    + change (last (a :: y :: l) d) with (last (y :: l) d). rewrite <- F.
      destruct H as [<-|H].
      * assert (Hy : In y (filter p (seq (S a) n))) by (rewrite F; left; reflexivity).
        pose proof (IH (S a) y d Hy). apply filter_In in Hy as [Hy _]. apply in_seq in Hy. lia.
      * apply IH. rewrite F. exact H.
  - apply IH. exact H.
Qed.

Lemma filter_seq_sorted (p : nat -> bool) : forall n a, StronglySorted lt (filter p (seq a n)).
Proof.
  induction n as [|n IH]; intros a; simpl; [constructor|].
  destruct (p a); [|apply IH]. constructor; [apply IH|].
  apply Forall_forall. intros x Hx. apply filter_In in Hx as [Hx _]. apply in_seq in Hx. lia.
Qed.

Lemma last_in {A} (l : list A) d : l <> [] -> In (last l d) l.
Proof.
  induction l as [|x t IH]; intros H; [congruence|]. destruct t as [|y t'].
  - left; reflexivity.
  - right. apply IH. discriminate.
Qed.

Lemma nth_firstn {A} (l : list A) d : forall k j, (j < k)%nat -> nth j (firstn k l) d = nth j l d.
Proof.
  induction l as [|x t IH]; intros k j H.
  - rewrite firstn_nil. reflexivity.
  - destruct k as [|k]; [lia|]. destruct j as [|j]; simpl; [reflexivity|]. apply IH. lia.
Qed.

Lemma nth_skipn {A} (l : list A) d : forall j0 j, nth j (skipn j0 l) d = nth (j0 + j) l d.
Proof.
  induction l as [|x t IH]; intros j0 j.
  - rewrite skipn_nil. destruct j, j0; reflexivity.
  - destruct j0 as [|j0]; simpl; [reflexivity|]. apply IH.
Qed.

Definition cut (j0 k : nat) (a : arr) : arr := map (fun r : row => firstn k (skipn j0 r)) a.

Lemma col_used_cut a j0 k j : (j < k)%nat -> col_used (cut j0 k a) j = col_used a (j0 + j).
Proof.
  intros H. unfold col_used, cut. induction a as [|r t IH]; simpl; [reflexivity|].
  rewrite nth_firstn by assumption. rewrite nth_skipn, IH. reflexivity.
Qed.

Lemma col_used_lt a j : col_used a j = true -> exists r, In r a /\ (j < length r)%nat.
Proof.
  unfold col_used. rewrite existsb_exists. intros (r & Hr & H). exists r. split; [assumption|].
  destruct (Nat.lt_ge_cases j (length r)) as [L|L]; [assumption|].
  rewrite nth_overflow in H by assumption. discriminate.
Qed.

(* the shape of a successful result: the array itself, or the columns j0 .. j1 where j0 and
   j1 are the first and the last column that hold a value *)
Lemma rec_shape a b : remove_empty_columns a = Ok b ->
  b = a \/ exists j0 j1, (j0 <= j1 < width a)%nat /\ col_used a j0 = true /\ col_used a j1 = true /\
                         (forall j, col_used a j = true -> (j < width a)%nat -> (j0 <= j <= j1)%nat) /\
                         b = cut j0 (S j1 - j0) a.
Proof.
  unfold remove_empty_columns.
  destruct (forallb (forallb is_some) a); [intros H; inversion H; auto|].
  destruct (Nat.eqb (length (used_cols a)) (width a)); [intros H; inversion H; auto|].
  destruct (used_cols a) as [|j0 U] eqn:EU; [discriminate|]. intros H; inversion H; clear H.
  right. exists j0, (last (j0 :: U) j0).
  assert (Hi0 : In j0 (used_cols a)) by (rewrite EU; left; reflexivity).
  assert (Hi1 : In (last (j0 :: U) j0) (used_cols a)) by (rewrite EU; apply last_in; discriminate).
  assert (Hge : forall x, In x (used_cols a) -> (x <= last (j0 :: U) j0)%nat).
  { intros x Hx. rewrite <- EU. apply filter_seq_last_ge. exact Hx. }
  assert (Hhd : forall x, In x (used_cols a) -> (j0 <= x)%nat).
  { unfold used_cols in *. intros x Hx.
    assert (S : StronglySorted lt (filter (col_used a) (seq 0 (width a)))).
    { apply filter_seq_sorted. }
    rewrite EU in S, Hx. apply StronglySorted_inv in S as [_ F]. rewrite Forall_forall in F.
    destruct Hx as [<-|Hx]; [lia|]. specialize (F x Hx). lia. }
  unfold used_cols in Hi0, Hi1. apply filter_In in Hi0 as [H0a H0b]. apply filter_In in Hi1 as [H1a H1b].
  apply in_seq in H0a. apply in_seq in H1a.
  split; [|split; [exact H0b|split; [exact H1b|split; [|reflexivity]]]].
  - specialize (Hge j0). rewrite EU in Hge. specialize (Hge (or_introl eq_refl)). lia.
  - intros j Hj Hw. assert (Hin : In j (used_cols a)).
    { unfold used_cols. apply filter_In. split; [apply in_seq; lia|exact Hj]. }
    split; [apply Hhd|apply Hge]; exact Hin.
Qed.

Lemma present_in (r : row) v : In v (present r) <-> In (Some v) r.
Proof.
  induction r as [|[x|] t IH]; simpl; [tauto| |].
  - rewrite IH. split; intros [H|H]; auto; left; congruence.
  - rewrite IH. split; [auto|]. intros [H|H]; [discriminate|assumption].
Qed.

Lemma all_present_in a v : In v (all_present a) <-> exists r, In r a /\ In (Some v) r.
Proof.
  unfold all_present. rewrite in_flat_map. split; intros (r & Hr & H); exists r; split; try assumption;
    apply present_in; assumption.
Qed.

Lemma in_firstn {A} (x : A) k l : In x (firstn k l) -> In x l.
Proof. intros H. rewrite <- (firstn_skipn k l). apply in_or_app. left; assumption. Qed.

Lemma in_skipn {A} (x : A) k l : In x (skipn k l) -> In x l.
Proof. intros H. rewrite <- (firstn_skipn k l). apply in_or_app. right; assumption. Qed.

Lemma cut_present_sub j0 k a v : In v (all_present (cut j0 k a)) -> In v (all_present a).
Proof.
  rewrite !all_present_in. intros (r & Hr & H). unfold cut in Hr. apply in_map_iff in Hr as (r0 & <- & Hr0).
  exists r0. split; [assumption|]. eapply in_skipn, in_firstn, H.
Qed.

Lemma rec_present_sub a b v : remove_empty_columns a = Ok b -> In v (all_present b) -> In v (all_present a).
Proof.
  intros H. apply rec_shape in H as [->|(j0 & j1 & _ & _ & _ & _ & ->)]; [auto|apply cut_present_sub].
Qed.

Lemma width_cut a j0 j1 : (j0 <= j1 < width a)%nat -> width (cut j0 (S j1 - j0) a) = (S j1 - j0)%nat.
Proof.
  intros H. destruct a as [|r t]; [unfold width in H; simpl in H; lia|]. unfold width, cut in *. cbn [map hd] in *.
  rewrite firstn_length, skipn_length. lia.
Qed.

Lemma cut_rows_short j0 k a r : In r (cut j0 k a) -> (length r <= k)%nat.
Proof. unfold cut. intros H. apply in_map_iff in H as (r0 & <- & _). apply firstn_le_length. Qed.

Lemma rec_idem a b : remove_empty_columns a = Ok b -> remove_empty_columns b = Ok b.
Proof.
  intros H. pose proof H as H'. apply rec_shape in H as [->|(j0 & j1 & Hj & U0 & U1 & _ & ->)]; [exact H'|].
  clear H'. pose (k := (S j1 - j0)%nat). fold k.
  assert (Hw : width (cut j0 k a) = k) by (apply width_cut; exact Hj).
  assert (Hk : k = S (j1 - j0)) by (unfold k; lia).
  unfold remove_empty_columns.
  destruct (forallb (forallb is_some) (cut j0 k a)); [reflexivity|].
  destruct (Nat.eqb (length (used_cols (cut j0 k a))) (width (cut j0 k a))); [reflexivity|].
  assert (E0 : col_used (cut j0 k a) 0 = true).
  { rewrite col_used_cut by lia. rewrite Nat.add_0_r. exact U0. }
  assert (Elast : In (j1 - j0)%nat (used_cols (cut j0 k a))).
  { unfold used_cols. rewrite Hw. apply filter_In. split; [apply in_seq; lia|].
    rewrite col_used_cut by lia. replace (j0 + (j1 - j0))%nat with j1 by lia. exact U1. }
  assert (Ehd : exists U, used_cols (cut j0 k a) = 0%nat :: U).
  { unfold used_cols. rewrite Hw, Hk. simpl seq. simpl filter.
    rewrite Hk in E0. rewrite E0. eexists; reflexivity. }
  destruct Ehd as (U & EU).
  assert (Hge : (j1 - j0 <= last (used_cols (cut j0 k a)) 0)%nat).
  { unfold used_cols in *. apply filter_seq_last_ge. exact Elast. }
  rewrite EU in *. f_equal. rewrite <- (map_id (cut j0 k a)) at 2. apply map_ext_in. intros r Hr.
  apply cut_rows_short in Hr. simpl skipn. apply firstn_all2. lia.
Qed.

Lemma first_col_cut k a : first_col (cut 0 (S k) a) = first_col a.
Proof.
  unfold cut. induction a as [|r t IH]; [reflexivity|]. cbn [map].
  destruct r as [|[v|] r']; cbn [skipn firstn first_col]; try reflexivity. f_equal. exact IH.
Qed.

Lemma first_col_used a x c : first_col a = Some (x :: c) -> col_used a 0 = true /\ (0 < width a)%nat.
Proof.
  destruct a as [|[|[v|] r0] t]; simpl; try discriminate. intros _. unfold width. simpl. split; [reflexivity|lia].
Qed.

Lemma rec_first_col a b x c : first_col a = Some (x :: c) -> remove_empty_columns a = Ok b ->
  first_col b = Some (x :: c).
Proof.
  intros Hc H. destruct (first_col_used a x c Hc) as [U0 W0].
  apply rec_shape in H as [->|(j0 & j1 & Hj & _ & _ & Hall & ->)]; [exact Hc|].
  specialize (Hall 0%nat U0 W0). assert (j0 = 0%nat) by lia. subst j0.
  rewrite Nat.sub_0_r. rewrite first_col_cut. exact Hc.
Qed.

Lemma rec_total a x c : first_col a = Some (x :: c) -> exists b, remove_empty_columns a = Ok b.
Proof.
  intros Hc. destruct (first_col_used a x c Hc) as [U0 W0]. unfold remove_empty_columns.
  destruct (forallb (forallb is_some) a); [eexists; reflexivity|].
  destruct (Nat.eqb (length (used_cols a)) (width a)); [eexists; reflexivity|].
  destruct (used_cols a) as [|j0 U] eqn:EU; [|eexists; reflexivity].
  exfalso. assert (Hin : In 0%nat (used_cols a)).
  { unfold used_cols. apply filter_In. split; [apply in_seq; lia|exact U0]. }
  rewrite EU in Hin. exact Hin.
Qed.

(* ------------------------------------------------------------------------- *)
(* 2. the relabelling loop                                                    *)
(* ------------------------------------------------------------------------- *)
Fixpoint loopf (ids : list Z) (j v : Z) : Z :=
  match ids with
  | [] => v
  | i :: r => loopf r (j + 1) (if v =? i then j else v)
  end.

Lemma relabel_loop_amap ids : forall j a, relabel_loop ids j a = amap (loopf ids j) a.
Proof.
  induction ids as [|i r IH]; intros j a; simpl relabel_loop.
  - rewrite <- (amap_id a) at 1. apply amap_ext_in. intros; reflexivity.
  - rewrite IH, amap_amap. apply amap_ext_in. intros; reflexivity.
Qed.

Lemma loopf_neg ids : forall j v, v < 0 -> Forall (fun i => 0 <= i) ids -> loopf ids j v = v.
Proof.
  induction ids as [|i r IH]; intros j v Hv H; simpl; [reflexivity|]. inversion H; subst.
  destruct (v =? i) eqn:E; [apply Z.eqb_eq in E; lia|]. apply IH; assumption.
Qed.

Lemma loopf_spec ids : forall j v, 0 <= v -> j + Z.of_nat (length ids) <= 0 ->
  Forall (fun i => 0 <= i) ids ->
  loopf ids j v = if has v ids then j + index_of v ids else v.
Proof.
  induction ids as [|i r IH]; intros j v Hv Hj H; [reflexivity|].
  inversion H; subst. cbn [length] in Hj. rewrite Nat2Z.inj_succ in Hj.
  cbn [loopf has existsb index_of]. destruct (v =? i) eqn:E.
  - cbn [orb]. rewrite loopf_neg by (assumption || lia). lia.
  - cbn [orb]. rewrite IH by (assumption || lia). fold (has v r). destruct (has v r); lia.
Qed.

Lemma index_of_inj l : forall u v, In u l -> In v l -> index_of u l = index_of v l -> u = v.
Proof.
  induction l as [|y r IH]; intros u v Hu Hv; [contradiction|]. cbn [index_of].
  destruct (Z.eqb_spec u y) as [Eu|Eu]; destruct (Z.eqb_spec v y) as [Ev|Ev]; intros E.
  - congruence.
  - pose proof (index_of_nonneg v r). lia.
  - pose proof (index_of_nonneg u r). lia.
  - destruct Hu as [Hu|Hu]; [congruence|]. destruct Hv as [Hv|Hv]; [congruence|].
    apply IH; try assumption. lia.
Qed.

Lemma index_of_map_inj (g : Z -> Z) v l :
  (forall u, In u l -> g u = g v -> u = v) -> index_of (g v) (map g l) = index_of v l.
Proof.
  induction l as [|y r IH]; intros H; [reflexivity|]. cbn [map index_of].
  destruct (Z.eqb_spec v y) as [E|E].
  - subst. rewrite Z.eqb_refl. reflexivity.
  - destruct (Z.eqb_spec (g v) (g y)) as [E'|E'].
    + exfalso. apply E. symmetry. apply H; [left; reflexivity|congruence].
    + rewrite IH; [reflexivity|]. intros u Hu. apply H. right; assumption.
Qed.

(* the identifier column of every result: each cell is numbered by the position of the
   first cell that has its identifier *)
Definition idcol (s : Z) (ids : list Z) : list Z := map (fun v => s + index_of v ids) ids.

Definition selfidx (s : Z) (c : list Z) : Prop := idcol s c = c.

Lemma idcol_selfidx s ids : selfidx s (idcol s ids).
Proof.
  unfold selfidx, idcol. rewrite map_map. apply map_ext_in. intros v Hv. f_equal.
  apply (index_of_map_inj (fun u => s + index_of u ids)). intros u Hu E.
  apply (index_of_inj ids); try assumption. lia.
Qed.

Lemma map_fix_in {A} (f : A -> A) l : map f l = l -> forall v, In v l -> f v = v.
Proof.
  induction l as [|x t IH]; intros E v Hv; [contradiction|]. simpl in E. inversion E as [[E1 E2]].
  destruct Hv as [<-|Hv]; [exact E1|]. apply IH; assumption.
Qed.

Lemma index_of_app_r pre : forall l v, ~ In v pre ->
  index_of v (pre ++ l) = Z.of_nat (length pre) + index_of v l.
Proof.
  induction pre as [|y r IH]; intros l v H; [simpl; lia|]. cbn [app index_of length].
  destruct (Z.eqb_spec v y) as [E|E]; [exfalso; apply H; left; congruence|].
  rewrite IH by (intros Hin; apply H; right; assumption). lia.
Qed.

Lemma idcol_nodup_gen s l : forall pre, NoDup (pre ++ l) ->
  map (fun v => s + index_of v (pre ++ l)) l = zseq (s + Z.of_nat (length pre)) (length l).
Proof.
  induction l as [|x t IH]; intros pre H; [reflexivity|]. cbn [map length zseq]. f_equal.
  - rewrite index_of_app_r.
    + cbn [index_of]. rewrite Z.eqb_refl. lia.
    + intros Hin. apply NoDup_remove_2 in H. apply H. apply in_or_app. left; assumption.
  - replace (pre ++ x :: t) with ((pre ++ [x]) ++ t) in * by (rewrite <- app_assoc; reflexivity).
    rewrite IH by assumption. rewrite app_length. cbn [length]. f_equal. lia.
Qed.

(* distinct identifiers: the column is start, start + 1, ... *)
Lemma idcol_nodup s ids : NoDup ids -> idcol s ids = zseq s (length ids).
Proof.
  intros H. unfold idcol. pose proof (idcol_nodup_gen s ids [] H) as E. simpl in E. rewrite E. f_equal. lia.
Qed.

(* ------------------------------------------------------------------------- *)
(* 3. minimum and maximum                                                     *)
(* ------------------------------------------------------------------------- *)
Lemma fold_min_le d l v : In v l -> fold_right Z.min d l <= v.
Proof. induction l as [|x t IH]; simpl; intros H; [contradiction|]. destruct H as [->|H]; [lia|specialize (IH H); lia]. Qed.

Lemma fold_max_ge d l v : In v l -> v <= fold_right Z.max d l.
Proof. induction l as [|x t IH]; simpl; intros H; [contradiction|]. destruct H as [->|H]; [lia|specialize (IH H); lia]. Qed.

Lemma zmax_bound M l : l <> [] -> (forall v, In v l -> v <= M) -> zmax l <= M.
Proof.
  intros Hne H. unfold zmax. apply fold_max_le.
  - destruct l as [|x t]; [congruence|]. apply H. left; reflexivity.
  - apply Forall_forall. exact H.
Qed.

Lemma zmin_bound m l : l <> [] -> (forall v, In v l -> m <= v) -> m <= zmin l.
Proof.
  intros Hne H. unfold zmin. apply fold_min_ge.
  - destruct l as [|x t]; [congruence|]. apply H. left; reflexivity.
  - apply Forall_forall. exact H.
Qed.

(* ------------------------------------------------------------------------- *)
(* 4. masking, moving the missing values to the end                           *)
(* ------------------------------------------------------------------------- *)
Definition mask1 (p : Z -> bool) (o : option Z) : option Z :=
  match o with Some v => if p v then None else Some v | None => None end.

Lemma mask_where_eq p a : mask_where p a = map (map (mask1 p)) a.
Proof. reflexivity. Qed.

Lemma present_mask p r : present (map (mask1 p) r) = filter (fun v => negb (p v)) (present r).
Proof.
  induction r as [|[v|] t IH]; simpl; [reflexivity| |assumption].
  destruct (p v); simpl; [assumption|]. rewrite IH. reflexivity.
Qed.

Lemma all_present_mask p a : all_present (mask_where p a) = filter (fun v => negb (p v)) (all_present a).
Proof.
  rewrite mask_where_eq. unfold all_present. induction a as [|r t IH]; simpl; [reflexivity|].
  rewrite filter_app, present_mask, IH. reflexivity.
Qed.

Lemma mask_where_none p a : (forall v, In v (all_present a) -> p v = false) -> mask_where p a = a.
Proof.
  rewrite mask_where_eq. unfold all_present. induction a as [|r t IH]; simpl; intros H; [reflexivity|].
  f_equal.
  - assert (Hr : forall v, In v (present r) -> p v = false) by (intros; apply H, in_or_app; auto).
    clear -Hr. induction r as [|[v|] t IH]; simpl in *; [reflexivity| |].
    + rewrite (Hr v) by (left; reflexivity). rewrite IH; [reflexivity|]. intros; apply Hr; right; assumption.
    + rewrite IH; [reflexivity|assumption].
  - apply IH. intros; apply H, in_or_app; auto.
Qed.

Lemma first_col_mask p a : forall c, first_col a = Some c -> Forall (fun v => p v = false) c ->
  first_col (mask_where p a) = Some c.
Proof.
  rewrite mask_where_eq. induction a as [|r t IH]; intros c Hc Hp; [exact Hc|].
  destruct r as [|[v|] r']; try discriminate. cbn [first_col] in Hc.
  destruct (first_col t) as [c'|] eqn:Et; [|discriminate]. simpl in Hc. inversion Hc; subst c.
  inversion Hp; subst. cbn [map mask1 first_col]. rewrite H1. cbn [first_col].
  rewrite (IH c' eq_refl) by assumption. reflexivity.
Qed.

Lemma first_col_amap f a : first_col (amap f a) = option_map (map f) (first_col a).
Proof.
  unfold amap. induction a as [|r t IH]; [reflexivity|].
  destruct r as [|[v|] r']; try reflexivity. cbn [map omap first_col]. rewrite IH.
  destruct (first_col t); reflexivity.
Qed.

Lemma first_col_present a : forall c v, first_col a = Some c -> In v c -> In v (all_present a).
Proof.
  unfold all_present. induction a as [|r t IH]; intros c v Hc Hv; [inversion Hc; subst; contradiction|].
  destruct r as [|[x|] r']; try discriminate. cbn [first_col] in Hc.
  destruct (first_col t) as [c'|] eqn:Et; [|discriminate]. simpl in Hc. inversion Hc; subst c.
  simpl. destruct Hv as [->|Hv]; [left; reflexivity|]. right. apply in_or_app. right. apply (IH c'); auto.
Qed.

Lemma insert_s_in x l y : In y (insert_s x l) <-> y = x \/ In y l.
Proof.
  induction l as [|z r IH]; simpl; [intuition congruence|].
  destruct (x <=? z); simpl; [intuition congruence|]. rewrite IH. intuition congruence.
Qed.

Lemma sort_z_in l y : In y (sort_z l) <-> In y l.
Proof. induction l as [|x r IH]; simpl; [tauto|]. rewrite insert_s_in, IH. intuition congruence. Qed.

Lemma present_app (r1 r2 : row) : present (r1 ++ r2) = present r1 ++ present r2.
Proof. induction r1 as [|[v|] t IH]; simpl; congruence. Qed.

Lemma present_somes l : present (map Some l) = l.
Proof. induction l; simpl; congruence. Qed.

Lemma present_nones k : present (repeat None k) = [].
Proof. induction k; simpl; assumption || reflexivity. Qed.

Lemma present_sort_tail r v : In v (present (sort_tail r)) <-> In v (present r).
Proof.
  destruct r as [|h t]; [reflexivity|]. unfold sort_tail.
  assert (E : present (map Some (sort_z (present t)) ++ repeat None (length t - length (present t))) = sort_z (present t))
    by (rewrite present_app, present_somes, present_nones, app_nil_r; reflexivity).
  destruct h as [x|]; simpl; rewrite E, sort_z_in; tauto.
Qed.

Lemma all_present_sort a v : In v (all_present (map sort_tail a)) <-> In v (all_present a).
Proof.
  unfold all_present. rewrite !in_flat_map. split.
  - intros (r & Hr & H). apply in_map_iff in Hr as (r0 & <- & Hr0). exists r0. split; [assumption|].
    apply present_sort_tail. assumption.
  - intros (r & Hr & H). exists (sort_tail r). split; [apply in_map; assumption|].
    apply present_sort_tail. assumption.
Qed.

Lemma first_col_sort a : first_col (map sort_tail a) = first_col a.
Proof.
  induction a as [|r t IH]; [reflexivity|]. destruct r as [|[v|] r']; try reflexivity.
  cbn [map sort_tail first_col]. rewrite IH. reflexivity.
Qed.

(* ------------------------------------------------------------------------- *)
(* 5. the common tail of _normalise_cell_ids                                  *)
(* ------------------------------------------------------------------------- *)
Definition tail_stage (rm : bool) (smallest : option Z) (largest : Z) (data : arr) (post : arr -> arr) : result arr :=
  let '(data, move) :=
    if zmax (all_present data) >? largest
    then (mask_where (fun v => v >? largest) data, true) else (data, false) in
  let '(data, move) :=
    match smallest with
    | Some s => if zmin (all_present data) <? s
                then (mask_where (fun v => v <? s) data, true) else (data, move)
    | None => (data, move)
    end in
  let data := if move then map sort_tail data else data in
  rbind (if rm then remove_empty_columns data else Ok data) (fun data => Ok (post data)).

Definition is_relabel (id0 : Z) (ids : list Z) : bool :=
  negb (((id0 =? 0) && list_eqb Z.eqb ids (zseq 0 (length ids)))
        || ((id0 =? 1) && list_eqb Z.eqb ids (zseq 1 (length ids)))).

Lemma normalise_ids_unfold si rm a id0 rest : first_col a = Some (id0 :: rest) ->
  normalise_ids si rm a =
  if is_relabel id0 (id0 :: rest) then
    let n := length (id0 :: rest) in
    let dmin := zmin (all_present a) in
    let d := if dmin <? 0 then amap (fun v => v - dmin) a else a in
    let ids' := if dmin <? 0 then map (fun v => v - dmin) (id0 :: rest) else id0 :: rest in
    tail_stage rm None (-1) (relabel_loop ids' (- Z.of_nat n) d)
               (amap (fun v => v + Z.of_nat n + (if si =? 0 then 0 else 1)))
  else
    let d := if negb (si =? 0) && (id0 =? 0) then amap (fun v => v + 1) a
             else if (si =? 0) && (id0 =? 1) then amap (fun v => v - 1) a else a in
    let col := match first_col d with Some c => c | None => [] end in
    tail_stage rm (Some (hd 0 col)) (last col 0) d (fun d => d).
Proof.
  intros H. unfold normalise_ids, tail_stage, is_relabel. rewrite H. cbv zeta.
  destruct (negb _); reflexivity.
Qed.

Definition lo_ok (sm : option Z) (v : Z) : Prop := match sm with Some s => s <= v | None => True end.

(* whatever is masked and moved, the identifier column survives and what is left lies
   within the limits *)
Lemma tail_stage_spec rm sm lg d post x c :
  first_col d = Some (x :: c) ->
  Forall (fun v => v <= lg /\ lo_ok sm v) (x :: c) ->
  exists d', tail_stage rm sm lg d post = Ok (post d') /\ first_col d' = Some (x :: c) /\
    (forall v, In v (all_present d') -> In v (all_present d) /\ v <= lg /\ lo_ok sm v) /\
    (rm = true -> remove_empty_columns d' = Ok d').
Proof.
  intros Hc Hr. unfold tail_stage.
  (* stage 1 *)
  assert (S1 : exists d1 m1,
    (if zmax (all_present d) >? lg then (mask_where (fun v => v >? lg) d, true) else (d, false)) = (d1, m1) /\
    first_col d1 = Some (x :: c) /\ forall v, In v (all_present d1) -> In v (all_present d) /\ v <= lg).
  { destruct (zmax (all_present d) >? lg) eqn:E.
    - eexists; eexists; split; [reflexivity|]. split.
      + apply first_col_mask; [exact Hc|]. eapply Forall_impl; [|exact Hr]. simpl. intros v [Hv _].
        rewrite Z.gtb_ltb. apply Z.ltb_ge. exact Hv.
      + intros v Hv. rewrite all_present_mask in Hv. apply filter_In in Hv as [Hv Hp].
        split; [exact Hv|]. apply negb_true_iff in Hp. rewrite Z.gtb_ltb in Hp. apply Z.ltb_ge in Hp. exact Hp.
    - eexists; eexists; split; [reflexivity|]. split; [exact Hc|]. intros v Hv. split; [exact Hv|].
      rewrite Z.gtb_ltb in E. apply Z.ltb_ge in E. pose proof (fold_max_ge (hd 0 (all_present d)) _ v Hv).
      unfold zmax in E. lia. }
  destruct S1 as (d1 & m1 & E1 & C1 & P1). rewrite E1.
  (* stage 2 *)
  assert (S2 : exists d2 m2,
    match sm with
    | Some s => if zmin (all_present d1) <? s then (mask_where (fun v => v <? s) d1, true) else (d1, m1)
    | None => (d1, m1)
    end = (d2, m2) /\
    first_col d2 = Some (x :: c) /\ forall v, In v (all_present d2) -> In v (all_present d) /\ v <= lg /\ lo_ok sm v).
  { destruct sm as [s|].
    - destruct (zmin (all_present d1) <? s) eqn:E.
      + eexists; eexists; split; [reflexivity|]. split.
        * apply first_col_mask; [exact C1|]. eapply Forall_impl; [|exact Hr]. simpl. intros v [_ Hv].
          apply Z.ltb_ge. exact Hv.
        * intros v Hv. rewrite all_present_mask in Hv. apply filter_In in Hv as [Hv Hp].
          apply negb_true_iff in Hp. apply Z.ltb_ge in Hp. destruct (P1 v Hv). simpl. auto.
      + eexists; eexists; split; [reflexivity|]. split; [exact C1|]. intros v Hv.
        apply Z.ltb_ge in E. pose proof (fold_min_le (hd 0 (all_present d1)) _ v Hv).
        unfold zmin in E. destruct (P1 v Hv). simpl. split; [assumption|]. split; [assumption|lia].
    - eexists; eexists; split; [reflexivity|]. split; [exact C1|]. intros v Hv. destruct (P1 v Hv). simpl. auto. }
  destruct S2 as (d2 & m2 & E2 & C2 & P2). rewrite E2. clear E1 E2.
  (* stage 3 *)
  assert (S3 : first_col (if m2 then map sort_tail d2 else d2) = Some (x :: c) /\
               forall v, In v (all_present (if m2 then map sort_tail d2 else d2)) ->
                         In v (all_present d) /\ v <= lg /\ lo_ok sm v).
  { destruct m2; [|split; assumption]. split; [rewrite first_col_sort; exact C2|].
    intros v Hv. apply P2. apply (proj1 (all_present_sort d2 v)). exact Hv. }
  destruct S3 as [C3 P3]. set (d3 := if m2 then map sort_tail d2 else d2) in *.
  destruct rm.
  - destruct (rec_total d3 x c C3) as (b & Hb). rewrite Hb. exists b. split; [reflexivity|]. split.
    + apply (rec_first_col d3); assumption.
    + split; [|intros _; apply (rec_idem d3); exact Hb].
      intros v Hv. apply P3. apply (rec_present_sub d3 b); assumption.
  - exists d3. split; [reflexivity|]. split; [exact C3|]. split; [exact P3|discriminate].
Qed.

(* nothing to mask: the array goes through unchanged *)
Lemma tail_stage_nomask rm sm lg d post :
  all_present d <> [] ->
  (forall v, In v (all_present d) -> v <= lg /\ lo_ok sm v) ->
  (rm = true -> remove_empty_columns d = Ok d) ->
  tail_stage rm sm lg d post = Ok (post d).
Proof.
  intros Hne H Hrm. unfold tail_stage.
  assert (E1 : (zmax (all_present d) >? lg) = false).
  { rewrite Z.gtb_ltb. apply Z.ltb_ge. apply zmax_bound; [exact Hne|]. intros v Hv. apply H. exact Hv. }
  rewrite E1. destruct sm as [s|].
  - assert (E2 : (zmin (all_present d) <? s) = false).
    { apply Z.ltb_ge. apply zmin_bound; [exact Hne|]. intros v Hv. apply (H v Hv). }
    rewrite E2. destruct rm; [rewrite Hrm by reflexivity|]; reflexivity.
  - destruct rm; [rewrite Hrm by reflexivity|]; reflexivity.
Qed.

(* ------------------------------------------------------------------------- *)
(* 6. the canonical form                                                      *)
(* ------------------------------------------------------------------------- *)
Definition s01 (si : Z) : Z := if si =? 0 then 0 else 1.

(* canonical: the identifier column numbers the cells by first occurrence from the start
   index (start, start + 1, ... when the identifiers are distinct) and every other value
   is one of those identifiers *)
Definition canon (s : Z) (b : arr) : Prop :=
  exists x c, first_col b = Some (x :: c) /\ selfidx s (x :: c) /\
              forall v, In v (all_present b) -> In v (x :: c).

Lemma zseq_in n : forall c x, In x (zseq c n) <-> c <= x < c + Z.of_nat n.
Proof.
  induction n as [|n IH]; intros c x; simpl zseq.
  - simpl. lia.
  - simpl In. rewrite IH, Nat2Z.inj_succ. split; intros H; lia.
Qed.

Lemma zseq_index n : forall c x, c <= x < c + Z.of_nat n -> index_of x (zseq c n) = x - c.
Proof.
  induction n as [|n IH]; intros c x H; [simpl in H; lia|]. rewrite Nat2Z.inj_succ in H.
  cbn [index_of zseq]. destruct (x =? c) eqn:E.
  - apply Z.eqb_eq in E. lia.
  - apply Z.eqb_neq in E. rewrite IH by lia. lia.
Qed.

Lemma map_zseq k n : forall t, map (fun v => v + k) (zseq t n) = zseq (t + k) n.
Proof. induction n as [|n IH]; intros t; simpl; [reflexivity|]. rewrite IH. do 2 f_equal. lia. Qed.

Lemma idcol_zseq s t n : idcol s (zseq t n) = zseq s n.
Proof.
  unfold idcol. rewrite (map_ext_in _ (fun v => v + (s - t))).
  - rewrite map_zseq. f_equal. lia.
  - intros v Hv. apply zseq_in in Hv. rewrite zseq_index by exact Hv. lia.
Qed.

Lemma zseq_eqb_true ids t : list_eqb Z.eqb ids (zseq t (length ids)) = true -> ids = zseq t (length ids).
Proof. apply list_eqb_eq. intros; apply Z.eqb_eq. Qed.

Lemma is_relabel_false id0 ids : is_relabel id0 ids = false ->
  (id0 = 0 /\ ids = zseq 0 (length ids)) \/ (id0 = 1 /\ ids = zseq 1 (length ids)).
Proof.
  unfold is_relabel. intros H. apply negb_false_iff, orb_true_iff in H as [H|H];
    apply andb_true_iff in H as [H1 H2]; apply Z.eqb_eq in H1; apply zseq_eqb_true in H2; auto.
Qed.

Lemma has_true_in v l : has v l = true -> In v l.
Proof. apply has_in. Qed.

(* first pass: the result, when there is one, has the identifier column idcol and is canonical *)
Lemma normalise_ids_post si rm a id0 rest :
  first_col a = Some (id0 :: rest) ->
  exists b, normalise_ids si rm a = Ok b /\
  first_col b = Some (idcol (s01 si) (id0 :: rest)) /\
  (forall v, In v (all_present b) -> In v (idcol (s01 si) (id0 :: rest))) /\
  (rm = true -> remove_empty_columns b = Ok b).
Proof.
  intros Hc. rewrite (normalise_ids_unfold si rm a id0 rest Hc).
  set (ids := id0 :: rest) in *. set (s := s01 si).
  destruct (is_relabel id0 ids) eqn:R; cbv zeta.
  - (* the relabelling path *)
    set (n := length ids). set (dmin := zmin (all_present a)).
    set (d := if dmin <? 0 then amap (fun v => v - dmin) a else a).
    set (ids' := if dmin <? 0 then map (fun v => v - dmin) ids else ids).
    assert (Cd : first_col d = Some ids').
    { unfold d, ids'. destruct (dmin <? 0); [|exact Hc]. rewrite first_col_amap, Hc. reflexivity. }
    assert (Pd : forall v, In v (all_present d) -> 0 <= v).
    { unfold d. destruct (dmin <? 0) eqn:E.
      - intros v Hv. rewrite all_present_amap in Hv. apply in_map_iff in Hv as (u & <- & Hu).
        pose proof (fold_min_le (hd 0 (all_present a)) _ u Hu). unfold dmin, zmin. lia.
      - apply Z.ltb_ge in E. intros v Hv.
        pose proof (fold_min_le (hd 0 (all_present a)) _ v Hv). unfold dmin, zmin in E. lia. }
    assert (Pi : Forall (fun i => 0 <= i) ids').
    { apply Forall_forall. intros v Hv. apply Pd. apply (first_col_present d ids'); assumption. }
    assert (Li : length ids' = n).
    { unfold ids'. destruct (dmin <? 0); [apply map_length|reflexivity]. }
    assert (Ii : forall v, In v ids -> index_of (if dmin <? 0 then v - dmin else v) ids' = index_of v ids).
    { intros v Hv. unfold ids'. destruct (dmin <? 0); [|reflexivity].
      apply (index_of_map_inj (fun u => u - dmin)). intros; lia. }
    pose (g := fun v => if has v ids' then - Z.of_nat n + index_of v ids' else v).
    assert (EL : relabel_loop ids' (- Z.of_nat n) d = amap g d).
    { rewrite relabel_loop_amap. apply amap_ext_in. intros v Hv. apply loopf_spec; [apply Pd; exact Hv|lia|exact Pi]. }
    rewrite EL.
    assert (Gi : forall v, In v ids' -> g v = - Z.of_nat n + index_of v ids' /\ g v <= -1).
    { intros v Hv. unfold g. rewrite (proj2 (has_in v ids') Hv). split; [reflexivity|].
      pose proof (index_of_range v ids' Hv). lia. }
    assert (Cg : first_col (amap g d) = Some (map g ids')) by (rewrite first_col_amap, Cd; reflexivity).
    assert (Hne : exists y r, map g ids' = y :: r).
    { destruct ids' as [|y r]; [unfold n in Li; simpl in Li; discriminate|]. eexists; eexists; reflexivity. }
    destruct Hne as (y & r & Eyr). rewrite Eyr in Cg.
    destruct (tail_stage_spec rm None (-1) (amap g d)
                (amap (fun v => v + Z.of_nat n + (if si =? 0 then 0 else 1))) y r Cg) as (d' & E' & C' & P' & R').
    { rewrite <- Eyr. apply Forall_forall. intros v Hv. apply in_map_iff in Hv as (u & <- & Hu).
      split; [apply Gi; exact Hu|exact I]. }
    set (h := fun v => v + Z.of_nat n + (if si =? 0 then 0 else 1)) in *.
    exists (amap h d'). split; [exact E'|].
    assert (Ecol : map h (map g ids') = idcol s ids).
    { unfold idcol. unfold ids' at 1. destruct (dmin <? 0) eqn:E.
      - rewrite !map_map. apply map_ext_in. intros v Hv.
        assert (Hv' : In (v - dmin) ids') by (unfold ids'; try rewrite E; apply (in_map (fun u => u - dmin)); exact Hv).
        rewrite (proj1 (Gi _ Hv')). specialize (Ii v Hv). try rewrite E in Ii. rewrite Ii. unfold h, s, s01. lia.
      - rewrite map_map. apply map_ext_in. intros v Hv.
        assert (Hv' : In v ids') by (unfold ids'; try rewrite E; exact Hv).
        rewrite (proj1 (Gi _ Hv')). specialize (Ii v Hv). try rewrite E in Ii. rewrite Ii. unfold h, s, s01. lia. }
    split; [|split].
    + rewrite first_col_amap, C', <- Eyr. simpl option_map. rewrite Ecol. reflexivity.
    + intros v Hv. rewrite all_present_amap in Hv. apply in_map_iff in Hv as (w & <- & Hw).
      rewrite <- Ecol. apply in_map. destruct (P' w Hw) as (Hw1 & Hw2 & _).
      rewrite all_present_amap in Hw1. apply in_map_iff in Hw1 as (u & <- & Hu).
      assert (Eh : has u ids' = true).
      { destruct (has u ids') eqn:Eh; [reflexivity|]. unfold g in Hw2. rewrite Eh in Hw2.
        specialize (Pd u Hu). lia. }
      apply in_map. apply has_true_in. exact Eh.
    + intros Hrm. rewrite rec_amap, (R' Hrm). reflexivity.
  - (* the identifiers are 0, 1, ... or 1, 2, ...: only the offset may change *)
    set (n := length ids) in *.
    set (d := if negb (si =? 0) && (id0 =? 0) then amap (fun v => v + 1) a
              else if (si =? 0) && (id0 =? 1) then amap (fun v => v - 1) a else a).
    assert (Cd : first_col d = Some (zseq s n)).
    { unfold d, s, s01. apply is_relabel_false in R. fold n in R.
      destruct R as [[-> E]|[-> E]]; destruct (si =? 0); cbv [negb andb Z.eqb Pos.eqb].
      - rewrite Hc. f_equal. exact E.
      - rewrite E in Hc. rewrite first_col_amap, Hc. cbn [option_map]. f_equal. exact (map_zseq 1 n 0).
      - rewrite E in Hc. rewrite first_col_amap, Hc. cbn [option_map]. f_equal. exact (map_zseq (-1) n 1).
      - rewrite Hc. f_equal. exact E. }
    assert (Eids : idcol s ids = zseq s n).
    { apply is_relabel_false in R. fold n in R. destruct R as [[_ E]|[_ E]]; rewrite E; apply idcol_zseq. }
    rewrite Cd. rewrite Eids.
    assert (Hn : exists n', n = S n') by (unfold n, ids; simpl; eexists; reflexivity).
    destruct Hn as (n' & En). rewrite En in *. change (zseq s (S n')) with (s :: zseq (s + 1) n') in *.
    cbn [hd]. change (s :: zseq (s + 1) n') with (zseq s (S n')) at 1. rewrite zseq_last.
    destruct (tail_stage_spec rm (Some s) (s + Z.of_nat n') d (fun d => d) s (zseq (s + 1) n') Cd) as (d' & E' & C' & P' & R').
    { change (s :: zseq (s + 1) n') with (zseq s (S n')). apply Forall_forall. intros v Hv.
      apply zseq_in in Hv. rewrite Nat2Z.inj_succ in Hv. simpl. lia. }
    exists d'. split; [exact E'|].
    split; [exact C'|]. split; [|exact R'].
    intros v Hv. destruct (P' v Hv) as (_ & H1 & H2). simpl in H2.
    change (s :: zseq (s + 1) n') with (zseq s (S n')). apply zseq_in. rewrite Nat2Z.inj_succ. lia.
Qed.

(* second pass: a canonical array is returned unchanged *)
Lemma normalise_ids_fix si rm b : canon (s01 si) b ->
  (rm = true -> remove_empty_columns b = Ok b) -> normalise_ids si rm b = Ok b.
Proof.
  intros (x & c & Hc & Hself & Hall) Hrm. set (s := s01 si) in *.
  assert (Hs : 0 <= s) by (unfold s, s01; destruct (si =? 0); lia).
  pose proof (map_fix_in _ _ Hself) as Hfix. cbv beta in Hfix.
  assert (Hx : x = s).
  { pose proof (Hfix x (or_introl eq_refl)) as E. cbn [index_of] in E. rewrite Z.eqb_refl in E. lia. }
  assert (Hne : all_present b <> []).
  { intros E. pose proof (first_col_present b (x :: c) x Hc (or_introl eq_refl)) as Hin.
    rewrite E in Hin. exact Hin. }
  rewrite (normalise_ids_unfold si rm b x c Hc). set (ids := x :: c) in *.
  destruct (is_relabel x ids) eqn:R; cbv zeta.
  - set (n := length ids).
    assert (Hv : forall v, In v (all_present b) -> v = s + index_of v ids /\ 0 <= index_of v ids < Z.of_nat n).
    { intros v Hv. specialize (Hall v Hv). split; [symmetry; apply Hfix; exact Hall|].
      apply index_of_range. exact Hall. }
    assert (Emin : (zmin (all_present b) <? 0) = false).
    { apply Z.ltb_ge. apply zmin_bound; [exact Hne|]. intros v Hin. destruct (Hv v Hin). lia. }
    rewrite Emin.
    pose (g := fun v => - Z.of_nat n + index_of v ids).
    assert (EL : relabel_loop ids (- Z.of_nat n) b = amap g b).
    { rewrite relabel_loop_amap. apply amap_ext_in. intros v Hin.
      rewrite loopf_spec.
      - rewrite (proj2 (has_in v ids) (Hall v Hin)). reflexivity.
      - destruct (Hv v Hin). lia.
      - fold n. lia.
      - apply Forall_forall. intros i Hi. pose proof (Hfix i Hi). pose proof (index_of_nonneg i ids). lia. }
    rewrite EL. rewrite tail_stage_nomask.
    + f_equal. rewrite amap_amap. rewrite <- (amap_id b) at 2. apply amap_ext_in. intros v Hin.
      destruct (Hv v Hin) as [E _]. unfold g. unfold s, s01 in E. lia.
    + rewrite all_present_amap. intros E. apply map_eq_nil in E. contradiction.
    + intros v Hin. rewrite all_present_amap in Hin. apply in_map_iff in Hin as (u & <- & Hu).
      destruct (Hv u Hu). unfold g. split; [lia|exact I].
    + intros E. rewrite rec_amap, (Hrm E). reflexivity.
  - apply is_relabel_false in R. set (n := length ids) in *.
    assert (Eids : ids = zseq s n).
    { destruct R as [[E0 E]|[E1 E]]; rewrite E; f_equal; lia. }
    assert (Ed : (if negb (si =? 0) && (x =? 0) then amap (fun v => v + 1) b
                  else if (si =? 0) && (x =? 1) then amap (fun v => v - 1) b else b) = b).
    { rewrite Hx. unfold s, s01. destruct (si =? 0); reflexivity. }
    rewrite Ed, Hc. fold ids. rewrite Eids.
    assert (Hn : exists n', n = S n') by (unfold n, ids; simpl; eexists; reflexivity).
    destruct Hn as (n' & En). rewrite En in *. rewrite zseq_last. cbn [zseq hd].
    apply tail_stage_nomask; [exact Hne| |exact Hrm].
    intros v Hin. specialize (Hall v Hin). fold ids in Hall. rewrite Eids in Hall.
    apply zseq_in in Hall. rewrite Nat2Z.inj_succ in Hall. simpl. lia.
Qed.

(* ------------------------------------------------------------------------- *)
(* 7. the statements                                                          *)
(* ------------------------------------------------------------------------- *)
(* every array with an identifier column is normalised; the result is canonical and a
   second normalisation with the same parameters leaves it unchanged *)
Lemma normalise_ids_full si rm a id0 rest : first_col a = Some (id0 :: rest) ->
  exists b, normalise_ids si rm a = Ok b /\
    first_col b = Some (idcol (s01 si) (id0 :: rest)) /\
    (forall v, In v (all_present b) -> In v (idcol (s01 si) (id0 :: rest))) /\
    (NoDup (id0 :: rest) ->
       first_col b = Some (zseq (s01 si) (length (id0 :: rest))) /\
       forall v, In v (all_present b) -> s01 si <= v < s01 si + Z.of_nat (length (id0 :: rest))) /\
    normalise_ids si rm b = Ok b.
Proof.
  intros Hc. destruct (normalise_ids_post si rm a id0 rest Hc) as (b & Hb & C & P & Rm).
  exists b. split; [exact Hb|]. split; [exact C|]. split; [exact P|]. split.
  - intros Hnd. rewrite (idcol_nodup _ _ Hnd) in C, P. split; [exact C|].
    intros v Hv. apply zseq_in. apply P. exact Hv.
  - apply normalise_ids_fix; [|exact Rm].
    assert (E : exists y r, idcol (s01 si) (id0 :: rest) = y :: r) by (unfold idcol; simpl; eexists; eexists; reflexivity).
    destruct E as (y & r & E). exists y, r. rewrite <- E. split; [exact C|]. split; [apply idcol_selfidx|exact P].
Qed.

(* ... and whenever a result is returned at all (any array) it is a fixed point *)
Lemma normalise_ids_idem si rm a b : normalise_ids si rm a = Ok b -> normalise_ids si rm b = Ok b.
Proof.
  intros H. destruct (first_col a) as [[|id0 rest]|] eqn:Hc.
  - unfold normalise_ids in H. rewrite Hc in H. discriminate.
  - destruct (normalise_ids_full si rm a id0 rest Hc) as (b' & Hb' & _ & _ & _ & F). congruence.
  - unfold normalise_ids in H. rewrite Hc in H. discriminate.
Qed.

(* with repeated identifiers the column is not start, start + 1, ...: cells 5, 5, 7 become 0, 0, 2 *)
Lemma normalise_ids_repeated_refuted :
  exists a b, normalise_ids 0 false a = Ok b /\ first_col b <> Some (zseq 0 3) /\ length a = 3%nat.
Proof.
  exists [[Some 5; Some 7]; [Some 5; Some 7]; [Some 7; Some 5]].
  eexists. split; [vm_compute; reflexivity|]. split; [discriminate|reflexivity].
Qed.

Example ex_ids_hyp : first_col [[Some 4; Some 1; Some 10; Some 125]; [Some 1; Some 4; None; None]; [Some 125; Some 4; None; None]]
                     = Some [4; 1; 125] /\ NoDup [4; 1; 125].
Proof.
  split; [reflexivity|]. repeat constructor; simpl; intuition discriminate.
Qed.

(* ------------------------------------------------------------------------- *)
(* 8. edge and face cells with remove_empty_columns                            *)
(* ------------------------------------------------------------------------- *)
Lemma nth_some_in (l : row) i v : nth i l None = Some v -> In (Some v) l.
Proof.
  intros H. destruct (Nat.lt_ge_cases i (length l)) as [L|L].
  - rewrite <- H. apply nth_In. exact L.
  - rewrite nth_overflow in H by exact L. discriminate.
Qed.

(* on a rectangular array only columns without any value are removed *)
Lemma rec_present_eq w a b v : rect w a -> remove_empty_columns a = Ok b ->
  (In v (all_present b) <-> In v (all_present a)).
Proof.
  intros Hr H. split; [apply rec_present_sub; exact H|].
  apply rec_shape in H as [->|(j0 & j1 & Hj & _ & _ & Hall & ->)]; [auto|].
  rewrite !all_present_in. intros (r & Hra & Hv).
  apply In_nth with (d := None) in Hv as (j & Hjl & Hnth).
  unfold rect in Hr. rewrite Forall_forall in Hr.
  assert (Hw : width a = w).
  { unfold width. destruct a as [|r0 t]; [contradiction|]. apply Hr. left; reflexivity. }
  assert (Hu : col_used a j = true).
  { unfold col_used. apply existsb_exists. exists r. split; [exact Hra|]. rewrite Hnth. reflexivity. }
  rewrite (Hr r Hra) in Hjl. rewrite <- Hw in Hjl. specialize (Hall j Hu Hjl).
  exists (firstn (S j1 - j0) (skipn j0 r)). split; [unfold cut; apply (in_map (fun r : row => firstn (S j1 - j0) (skipn j0 r))); exact Hra|].
  apply (nth_some_in _ (j - j0)). rewrite nth_firstn by lia. rewrite nth_skipn.
  replace (j0 + (j - j0))%nat with j by lia. exact Hnth.
Qed.

Lemma rect_amap f w a : rect w a -> rect w (amap f a).
Proof.
  unfold rect, amap. rewrite !Forall_forall. intros H r Hr. apply in_map_iff in Hr as (r0 & <- & Hr0).
  rewrite map_length. apply H. exact Hr0.
Qed.

Lemma normalise_cells_idem_rm s rm w a b : s = 0 \/ s = 1 -> rect w a ->
  normalise_cells s rm a = Ok b -> normalise_cells s rm b = Ok b.
Proof.
  intros Hs Hr H. destruct rm; [|apply (normalise_cells_idem s a b Hs H)].
  unfold normalise_cells, rbind in H.
  destruct (remove_empty_columns (rank_compress a)) as [d|e] eqn:Ed; [|discriminate].
  pose (k := length (sort_u (all_present a))).
  assert (Pd : forall x, In x (all_present d) <-> 0 <= x < Z.of_nat k).
  { intros x. rewrite (rec_present_eq w (rank_compress a) d x); [apply ranks_range| |exact Ed].
    unfold rank_compress. apply rect_amap. exact Hr. }
  pose proof (rec_idem _ _ Ed) as Hdd.
  unfold normalise_cells, rbind.
  destruct Hs as [->| ->]; [change (0 =? 0) with true in *|change (1 =? 0) with false in *]; cbv iota in *;
    injection H as <-.
  - rewrite (rank_canonical 0 k d) by (intros x; rewrite Pd; lia).
    rewrite rec_amap, Hdd. simpl. f_equal. rewrite <- (amap_id d) at 2. apply amap_ext_in. intros; lia.
  - rewrite (rank_canonical 1 k (amap (fun v => v + 1) d)).
    + rewrite rec_amap, rec_amap, Hdd. simpl. f_equal. rewrite !amap_amap. apply amap_ext_in. intros; lia.
    + intros x. rewrite all_present_amap, in_map_iff. split.
      * intros (v & <- & Hv). apply Pd in Hv. lia.
      * intros Hx. exists (x - 1). split; [lia|]. apply Pd. lia.
Qed.
