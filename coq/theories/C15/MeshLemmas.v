(* C15 - row counts and padding masks of the constructs; the metadata decisions of
   Mesh.v yield arrays with one row per cell of the location's axis.  Proofs only. *)
From CfdmV Require Import Common.Base C15.Model C15.Spec C15.Lemmas C15.Mesh.
Open Scope Z_scope.

(* ------------------------------------------------------------------------- *)
(* 1. rows and masks of the arrays                                            *)
(* ------------------------------------------------------------------------- *)
Lemma transpose_w_length w : forall a, length (transpose_w w a) = w.
Proof. induction w as [|w IH]; intros a; simpl; [reflexivity|]. rewrite IH. reflexivity. Qed.

Lemma select_length cd a : length (select cd a) = if cd then width a else length a.
Proof. destruct cd; simpl; [apply transpose_w_length|reflexivity]. Qed.

Lemma amap_length f a : length (amap f a) = length a.
Proof. apply map_length. Qed.

Lemma dt_cells_length si cd stored : length (dt_cells si cd stored) = length (select cd stored).
Proof. rewrite dt_cells_eq. apply amap_length. Qed.

Definition mask_of (a : arr) : list (list bool) := map (map is_some) a.

Lemma mask_amap f a : mask_of (amap f a) = mask_of a.
Proof.
  unfold mask_of, amap. rewrite map_map. apply map_ext. intros r. rewrite map_map. apply map_ext.
  intros [v|]; reflexivity.
Qed.

Lemma gather_row_mask si coords r : forall r', gather_row si coords r = Some r' -> map is_some r' = map is_some r.
Proof.
  induction r as [|[v|] t IH]; simpl; intros r' H.
  - inversion H; reflexivity.
  - destruct (py_nth coords (v - si)); [|discriminate]. destruct (gather_row si coords t) as [t'|]; [|discriminate].
    inversion H; subst. simpl. rewrite (IH t' eq_refl). reflexivity.
  - destruct (gather_row si coords t) as [t'|]; [|discriminate]. inversion H; subst. simpl.
    rewrite (IH t' eq_refl). reflexivity.
Qed.

Lemma gather_all_mask si coords a : forall b, gather_all si coords a = Some b -> mask_of b = mask_of a.
Proof.
  unfold mask_of. induction a as [|r t IH]; simpl; intros b H.
  - inversion H; reflexivity.
  - destruct (gather_row si coords r) as [r'|] eqn:Er; [|discriminate].
    destruct (gather_all si coords t) as [t'|]; [|discriminate]. inversion H; subst. simpl.
    rewrite (gather_row_mask si coords r r' Er), (IH t' eq_refl). reflexivity.
Qed.

(* the bounds have the padding mask (hence the shape) of the connectivity they are gathered
   through - the same mask as the domain topology of those cells *)
Lemma bounds_mask si cd stored coords b : bounds si cd stored coords = Ok b ->
  mask_of b = mask_of (select cd stored) /\ mask_of b = mask_of (dt_cells si cd stored).
Proof.
  unfold bounds. destruct (gather_all si coords (select cd stored)) as [g|] eqn:E; [|discriminate].
  intros H; inversion H; subst. rewrite dt_cells_eq, mask_amap.
  split; apply (gather_all_mask si coords); exact E.
Qed.

Lemma mask_length a b : mask_of a = mask_of b -> length a = length b.
Proof. unfold mask_of. intros H. apply (f_equal (@length _)) in H. rewrite !map_length in H. exact H. Qed.

Lemma point_topology_length ff n si cd stored : length (point_topology ff n si cd stored) = n.
Proof.
  unfold point_topology, assemble, node_ids. rewrite !map_length, seq_length. reflexivity.
Qed.

(* the rows of every construct of one location *)
Lemma rows_agree si cd stored coords b si2 cd2 stored2 :
  bounds si cd stored coords = Ok b ->
  length (select cd2 stored2) = length (select cd stored) ->
  length (dt_cells si cd stored) = length (select cd stored) /\
  length b = length (select cd stored) /\
  length (cell_conn si2 cd2 stored2) = length (select cd stored).
Proof.
  intros Hb H2. split; [apply dt_cells_length|]. split.
  - apply mask_length. apply (bounds_mask si cd stored coords b Hb).
  - rewrite cell_conn_length. exact H2.
Qed.

(* ------------------------------------------------------------------------- *)
(* 2. the metadata decisions                                                  *)
(* ------------------------------------------------------------------------- *)
Lemma str_index_nth d l : forall i, str_index d l = Some i -> nth_error l i = Some d.
Proof.
  induction l as [|x r IH]; intros i H; [discriminate|]. simpl in H.
  destruct (String.eqb d x) eqn:E.
  - inversion H; subst. apply String.eqb_eq in E. subst. reflexivity.
  - destruct (str_index d r) as [j|]; [|discriminate]. inversion H; subst. simpl. apply IH. reflexivity.
Qed.

(* a variable stored with the shape its dimensions declare gives, after the storage order
   has been undone, one row per element of the cell dimension *)
Lemma conn_cells_shape m lname conn d0 d1 rows tr (a : arr) :
  var_dims m conn = Some [d0; d1] -> conn_cells m lname conn = Ok (rows, tr) ->
  Z.of_nat (length a) = dim_size m d0 -> rect (Z.to_nat (dim_size m d1)) a -> a <> [] -> 0 <= dim_size m d1 ->
  Z.of_nat (length (select tr a)) = rows.
Proof.
  intros Hd H La Ra Hne H1. unfold conn_cells, rbind in H.
  destruct (cell_dimension m lname conn) as [i|e]; [|discriminate]. rewrite Hd in H.
  assert (Hw : width a = Z.to_nat (dim_size m d1)).
  { unfold width. destruct a as [|r t]; [congruence|]. unfold rect in Ra. inversion Ra; subst. assumption. }
  destruct i as [|[|i]]; simpl in H.
  - inversion H; subst. rewrite select_length. exact La.
  - inversion H; subst. rewrite select_length, Hw. lia.
  - destruct i; discriminate.
Qed.

Lemma summarise_rows m l s : summarise m l = Ok (Some s) ->
  fst (fst (ls_dt s)) = ls_axis s /\
  (forall b, ls_bounds s = Some b -> b = ls_dt s) .
Proof.
  unfold summarise, rbind. destruct (loc_dim m l) as [[d|]|e] eqn:Ed; try discriminate.
  destruct (dt_source m l) as [[[cell conn] lname]|] eqn:Es; [|discriminate].
  destruct (conn_cells m lname conn) as [[rows tr]|e] eqn:Ec; [|discriminate].
  assert (Hrows : l <> Node -> rows = dim_size m d).
  { intros Hl. unfold conn_cells, rbind in Ec. unfold loc_dim, rbind in Ed.
    assert (Ev : assoc (loc_name l ++ "_node_connectivity")%string (mm_attrs m) = Some conn /\ lname = loc_name l).
    { unfold dt_source in Es. destruct l; [congruence| |];
        match type of Es with context [assoc ?k ?t] => destruct (assoc k t) as [v|] eqn:Ea end; try discriminate;
        destruct (var_exists m v); try discriminate; inversion Es; subst; (split; [exact Ea|reflexivity]). }
    destruct Ev as [Ev ->].
    assert (Ed' : match var_dims m conn with
                  | None => Ok None
                  | Some [d] => Ok (Some d)
                  | Some dims =>
                      match cell_dimension m (loc_name l) conn with
                      | Ok i => match nth_error dims i with Some d => Ok (Some d) | None => Err IndexErr end
                      | Err e => Err e
                      end
                  end = Ok (Some d)).
    { destruct l; [congruence| |]; simpl loc_name in *; rewrite Ev in Ed; exact Ed. }
    clear Ed. destruct (cell_dimension m (loc_name l) conn) as [i|e] eqn:Ei; [|discriminate].
    destruct (var_dims m conn) as [dims|] eqn:Edims; [|discriminate].
    destruct (nth_error dims i) as [di|] eqn:En; [|discriminate]. inversion Ec; subst rows tr.
    destruct dims as [|x [|y r]].
    - destruct i; discriminate.
    - inversion Ed'; subst. destruct i as [|i]; simpl in En; [congruence|destruct i; discriminate].
    - try rewrite En in Ed'. inversion Ed'; subst. reflexivity. }
  destruct (match l with
            | Face => _
            | _ => Ok (None, None)
            end) as [ccs|e]; [|discriminate].
  intros H. inversion H; subst s; clear H. simpl. split.
  - destruct l; simpl; try reflexivity; apply Hrows; discriminate.
  - intros b Hb. destruct l; [discriminate| |];
      destruct (assoc "node_coordinates"%string (mm_coords m)) as [[|? ?]|]; try discriminate;
      inversion Hb; reflexivity.
Qed.

(* the domain axis of a location is the dimension mesh.ncdim names, and a data variable that is
   given the constructs spans it: their rows are the size of the variable's own dimension *)
Lemma summarise_axis m l s : summarise m l = Ok (Some s) ->
  loc_dim m l = Ok (Some (ls_dim s)) /\ ls_axis s = dim_size m (ls_dim s).
Proof.
  unfold summarise, rbind. destruct (loc_dim m l) as [[d|]|e]; try discriminate.
  destruct (dt_source m l) as [[[cell conn] lname]|]; [|discriminate].
  destruct (conn_cells m lname conn) as [[rows tr]|e]; [|discriminate].
  destruct (match l with
            | Face => _
            | _ => Ok (None, None)
            end) as [ccs|e]; [|discriminate].
  intros H. inversion H; subst s. split; reflexivity.
Qed.

(* a mesh the checks accept: the domain topology and the bounds of every location have as
   many rows as the location's domain axis has elements *)
Lemma parse_mesh_rows m ls : parse_mesh m = Ok (Some ls) ->
  forall s, In (Some s) ls ->
  fst (fst (ls_dt s)) = ls_axis s /\ (forall b, ls_bounds s = Some b -> fst (fst b) = ls_axis s).
Proof.
  unfold parse_mesh, rbind. destruct (check_mesh_topology m) as [[|]|e]; try discriminate.
  destruct (summarise m Node) as [n|e] eqn:En; [|discriminate].
  destruct (summarise m Edge) as [e|e'] eqn:Ee; [|discriminate].
  destruct (summarise m Face) as [f|e'] eqn:Ef; [|discriminate].
  intros H; inversion H; subst ls. intros s [Hs|[Hs|[Hs|[]]]]; subst;
    match goal with E : summarise m _ = Ok (Some s) |- _ => destruct (summarise_rows m _ s E) as [H1 H2] end;
    (split; [exact H1|]; intros b Hb; rewrite (H2 b Hb); exact H1).
Qed.

(* before handoff/C15-fix3-1.diff the cell connectivity was not tied to the face dimension by
   any check: a face_face_connectivity variable on another dimension was accepted and a
   construct with another number of rows than there are faces created (attaching it raised) *)
Definition ex_bad_ff : meshmeta :=
  {| mm_dims := [("nNodes", 4); ("nFaces", 2); ("three", 3); ("nOther", 5)]%string;
     mm_vars := [("x", ["nNodes"]); ("y", ["nNodes"]); ("fn", ["nFaces"; "three"]); ("ff", ["nOther"; "three"])]%string;
     mm_attrs := [("face_node_connectivity", "fn"); ("face_face_connectivity", "ff")]%string;
     mm_coords := [("node_coordinates", ["x"; "y"])]%string;
     mm_topdim := Some 2; mm_si := [] |}.

Lemma cc_rows_old_refuted : exists m n e s c,
  parse_mesh m = Ok (Some [n; e; Some s]) /\ ls_cc_old s = Some c /\ fst (fst c) <> ls_axis s /\
  attach_ok_old s = false /\ ls_cc s = None.
Proof.
  exists ex_bad_ff. eexists. eexists. eexists. eexists. split; [vm_compute; reflexivity|].
  split; [reflexivity|]. split; [simpl; discriminate|]. split; reflexivity.
Qed.

Lemma conn_dim_rows m lname conn d rows tr :
  conn_dim m lname conn = Ok d -> conn_cells m lname conn = Ok (rows, tr) -> rows = dim_size m d.
Proof.
  unfold conn_dim, conn_cells, rbind. destruct (cell_dimension m lname conn) as [i|e]; [|discriminate].
  destruct (var_dims m conn) as [dims|]; [|discriminate].
  destruct (nth_error dims i) as [x|]; [|discriminate]. intros H1 H2. inversion H1; inversion H2; subst. reflexivity.
Qed.

(* the repaired reader: a cell connectivity construct, when one is created, has one row per face *)
Lemma cc_rows m s c : summarise m Face = Ok (Some s) -> ls_cc s = Some c -> fst (fst c) = ls_axis s.
Proof.
  unfold summarise, rbind. destruct (loc_dim m Face) as [[d|]|e]; try discriminate.
  destruct (dt_source m Face) as [[[cell conn] lname]|]; [|discriminate].
  destruct (conn_cells m lname conn) as [[rows tr]|e]; [|discriminate].
  destruct (assoc "face_face_connectivity"%string (mm_attrs m)) as [ff|].
  - destruct (var_exists m ff).
    + destruct (conn_cells m "face" ff) as [[rows2 tr2]|e] eqn:E2; [|discriminate].
      destruct (conn_dim m "face" ff) as [dn|e] eqn:Ed; [|discriminate].
      intros H. inversion H; subst s; clear H. cbn [ls_cc ls_axis fst snd].
      destruct (var_dims m ff) as [[|a [|b [|? ?]]]|]; try discriminate.
      destruct (String.eqb dn d) eqn:Es; [|discriminate]. apply String.eqb_eq in Es. subst dn.
      intros H. inversion H; subst c. simpl. apply (conn_dim_rows m "face" ff d rows2 tr2 Ed E2).
    + intros H. inversion H; subst s. discriminate.
  - intros H. inversion H; subst s. discriminate.
Qed.

Lemma attach_rows m l s s' dd : summarise m l = Ok (Some s) -> attach s dd = Some s' ->
  fst (fst (ls_dt s')) = dim_size m dd /\
  (forall c, ls_cc s' = Some c -> l = Face -> fst (fst c) = dim_size m dd) /\
  (forall b, ls_bounds s' = Some b -> fst (fst b) = dim_size m dd).
Proof.
  intros Hs Ha. unfold attach in Ha. destruct (String.eqb dd (ls_dim s)) eqn:E; [|discriminate].
  inversion Ha; subst s'. apply String.eqb_eq in E. subst dd.
  destruct (summarise_axis m l s Hs) as [_ Hax]. destruct (summarise_rows m l s Hs) as [H1 H2].
  rewrite <- Hax. split; [exact H1|]. split.
  - intros c Hc Hl. subst l. apply (cc_rows m s c Hs Hc).
  - intros b Hb. rewrite (H2 b Hb). exact H1.
Qed.

(* non-vacuity: a one-based mesh stored (node, cell) with face_dimension set *)
Definition ex_mesh : meshmeta :=
  {| mm_dims := [("nNodes", 7); ("nFaces", 3); ("five", 5); ("two", 2); ("nEdges", 9)]%string;
     mm_vars := [("x", ["nNodes"]); ("y", ["nNodes"]); ("fn", ["five"; "nFaces"]); ("ff", ["nFaces"; "two"]);
                 ("en", ["nEdges"; "two"])]%string;
     mm_attrs := [("face_node_connectivity", "fn"); ("face_face_connectivity", "ff");
                  ("edge_node_connectivity", "en"); ("face_dimension", "nFaces")]%string;
     mm_coords := [("node_coordinates", ["x"; "y"])]%string;
     mm_topdim := Some 2; mm_si := [("fn", 1); ("ff", 1)]%string |}.

Example ex_mesh_parsed : parse_mesh ex_mesh = Ok (Some
  [Some {| ls_dim := "nNodes"; ls_axis := 7; ls_cell := "point"; ls_dt := (7, false, 0); ls_cc := None; ls_cc_old := None; ls_bounds := None |};
   Some {| ls_dim := "nEdges"; ls_axis := 9; ls_cell := "edge"; ls_dt := (9, false, 0); ls_cc := None; ls_cc_old := None; ls_bounds := Some (9, false, 0) |};
   Some {| ls_dim := "nFaces"; ls_axis := 3; ls_cell := "face"; ls_dt := (3, true, 1); ls_cc := Some (3, false, 1); ls_cc_old := Some (3, false, 1);
           ls_bounds := Some (3, true, 1) |}]).
Proof. vm_compute. reflexivity. Qed.
