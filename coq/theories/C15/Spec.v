(* C15 - what the constructs must hold, stated on the raw connectivity arrays
   independently of how cfdm derives them (UGRID conventions 1.0; CF data model,
   domain topology and cell connectivity constructs). *)
From CfdmV Require Import Common.Base C15.Model.
Open Scope Z_scope.

(* the node (or cell) numbers of each row with the start index removed, padding dropped *)
Definition zero_based (si : Z) (a : arr) : list (list Z) :=
  map (fun r => map (fun v => v - si) (present r)) a.

(* a value-by-value image of a masked array: same shape, same padding *)
Definition pointwise (f : Z -> Z) (a b : arr) : Prop :=
  Forall2 (Forall2 (fun x y => y = omap f x)) a b.

(* b comes right after a when going round the face f (the last node is followed by the first) *)
Definition next_in_face (f : list Z) (a b : Z) : Prop :=
  (exists l1 l2, f = l1 ++ a :: b :: l2) \/ (exists t, f = b :: t /\ last f b = a).

(* a and b are joined by an edge of some face *)
Definition linked_f (faces : list (list Z)) (a b : Z) : Prop :=
  exists f, In f faces /\ (next_in_face f a b \/ next_in_face f b a).

(* a and b belong to the same edge *)
Definition linked_e (edges : list (list Z)) (a b : Z) : Prop :=
  exists e, In e edges /\ In a e /\ In b e.

(* every node number of a connectivity array lies in [si, si + n) *)
Definition valid_ids (si n : Z) (a : arr) : Prop :=
  Forall (Forall (fun v => si <= v < si + n)) (map present a).

(* all rows of a 2-d array have w columns *)
Definition rect (w : nat) (a : arr) : Prop := Forall (fun r => length r = w) a.

(* the bounds of a cell: the coordinate of each of its nodes, padding kept *)
Definition gather_spec (si : Z) (coords : list Z) (a : arr) : arr :=
  map (map (fun o => match o with
                     | Some v => Some (nth (Z.to_nat (v - si)) coords 0)
                     | None => None
                     end)) a.
