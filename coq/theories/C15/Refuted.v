(* C15 - witnesses against the code of the pinned commit (superseded by
   handoff/C15-fix-1..3.diff; Model.v keeps it as the ..._old definitions). *)
From CfdmV Require Import Common.Base C15.Model C15.Spec C15.Lemmas C15.Mesh C15.MeshLemmas.
Open Scope Z_scope.

(* F15a: with start_index = 1 an edge / face domain topology kept the one-based numbers *)
Theorem C15_cells_old_refuted :
  exists si n stored, valid_ids si n stored /\ ~ valid_ids 0 n (dt_cells_old si false stored).
Proof. exact dt_cells_old_refuted. Qed.
Print Assumptions C15_cells_old_refuted.

(* F15a: ... and so did a point domain topology *)
Theorem C15_point_old_one_based_refuted :
  exists stored v, valid_ids 1 2 stored /\
    In v (all_present (point_topology_old false 1 false stored)) /\ ~ (0 <= v < 2).
Proof. exact point_old_one_based_refuted. Qed.
Print Assumptions C15_point_old_one_based_refuted.

(* F15b: a node that belongs to no cell had no row *)
Theorem C15_point_old_isolated_refuted :
  exists n stored, valid_ids 0 (Z.of_nat n) stored /\
    length (point_topology_old false 0 false stored) <> n.
Proof. exact point_old_isolated_refuted. Qed.
Print Assumptions C15_point_old_isolated_refuted.

(* F15c: from faces only the node before k in each face was found: on a single
   triangle node 1 follows node 0 but is not listed in the row of node 0 *)
Theorem C15_point_old_boundary_refuted :
  exists stored k m, linked_f (zero_based 0 stored) k m /\ m <> k /\
    forall r, nth_error (point_topology_old true 0 false stored) (Z.to_nat k) = Some r -> ~ In (Some m) r.
Proof. exact point_old_boundary_refuted. Qed.
Print Assumptions C15_point_old_boundary_refuted.

(* F15e: _ugrid_create_cell_connectivities popped "start_index" from the reader's own
   attribute dictionary of the connectivity variable, so a second mesh topology variable
   that names the same face_face_connectivity variable was read with start index 0: in a
   one-based mesh of two faces, face 0 is then given the neighbour "2" and face 1 itself *)
Theorem C15_second_mesh_start_index_old_refuted :
  exists stored,
    cell_conn 1 false stored = [[Some 0; Some 1]; [Some 1; Some 0]] /\
    cell_conn 0 false stored = [[Some 0; Some 2]; [Some 1; Some 1]].
Proof. exists [[Some 2]; [Some 1]]. split; vm_compute; reflexivity. Qed.
Print Assumptions C15_second_mesh_start_index_old_refuted.

(* before C15-fix3-1: no check tied face_face_connectivity to the face dimension (the test in
   _ugrid_check_connectivity_variable compares the first character of a dimension name and
   never fails): a variable on another dimension was accepted, the construct had another
   number of rows than there are faces, and attaching it made the whole read raise; the
   repaired reader creates no construct from it *)
Theorem C15_cell_connectivity_rows_old_refuted :
  exists m n e s c,
    parse_mesh m = Ok (Some [n; e; Some s]) /\ ls_cc_old s = Some c /\ fst (fst c) <> ls_axis s /\
    attach_ok_old s = false /\ ls_cc s = None.
Proof. exact cc_rows_old_refuted. Qed.
Print Assumptions C15_cell_connectivity_rows_old_refuted.
