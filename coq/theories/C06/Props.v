(* C06 - the property theorems, nothing else.  Each is closed by [exact] of a
   lemma from Lemmas.v and followed by Print Assumptions.  Cells are of an
   arbitrary type A with a missing cell [miss]: one optional value, or the
   block of values sharing a sample when there are trailing dimensions. *)
From CfdmV Require Import Common.Base C06.Model C06.Spec C06.Lemmas.

(* Contiguous ragged array (CF 9.3.3).  For EVERY count vector whose entries
   fit the element dimension - zeros allowed, any length, any sum - the
   uncompressed array has the declared shape and its element (i, j) is sample
   sum(count[:i]) + j if j < count[i], missing otherwise. *)
Theorem C06_contiguous_decode :
  forall (A : Type) (miss : A) nrows w counts (data : list A),
  Forall (fun c => (c <= w)%nat) counts ->
  exists u, contiguous_decode miss nrows w counts data = Ok u /\
            length u = nrows /\ Forall (fun r => length r = w) u /\
            forall i j, (i < nrows)%nat ->
              nth j (nth i u []) miss = contig_spec miss counts data i j.
Proof. exact @contiguous_decode_spec. Qed.
Print Assumptions C06_contiguous_decode.

Theorem C06_contiguous_decode_example :
  exists counts (data : list (option Z)) u,
    Forall (fun c => (c <= 3)%nat) counts /\
    contiguous_decode None 4 3 counts data = Ok u /\
    u = [[Some 1; Some 2; None]; [None; None; None]; [Some 3; Some 4; Some 5]; [None; None; None]]%Z.
Proof. exact contiguous_decode_example. Qed.
Print Assumptions C06_contiguous_decode_example.

(* Indexed ragged array (CF 9.3.4), repaired code.  For EVERY index vector -
   any order, instances absent, stray values - whose instances fit the element
   dimension: element (i, j) is the j-th sample whose index value is i, and
   everything else is missing.  (Refuted for the pinned code:
   Refuted.C06_old_indexed_absent_instance_refuted.) *)
Theorem C06_indexed_decode :
  forall (A : Type) (miss : A) nrows w index (data : list A),
  (length index <= length data)%nat ->
  (forall i, (i < nrows)%nat -> (count_occ Z.eq_dec index (Z.of_nat i) <= w)%nat) ->
  exists u, indexed_decode miss nrows w index data = Ok u /\
            length u = nrows /\ Forall (fun r => length r = w) u /\
            forall i j, (i < nrows)%nat ->
              nth j (nth i u []) miss = indexed_spec miss index data i j.
Proof. exact @indexed_decode_spec. Qed.
Print Assumptions C06_indexed_decode.

Theorem C06_indexed_decode_example :
  exists index (data : list (option Z)) u,
    (length index <= length data)%nat /\
    (forall i, (i < 3)%nat -> (count_occ Z.eq_dec index (Z.of_nat i) <= 3)%nat) /\
    indexed_decode None 3 3 index data = Ok u /\
    u = [[Some 10; Some 13; None]; [None; None; None]; [Some 11; Some 12; Some 14]]%Z.
Proof. exact indexed_decode_example. Qed.
Print Assumptions C06_indexed_decode_example.

(* Indexed contiguous ragged array (CF 9.3.5), repaired code.  For EVERY
   index vector over the profiles (any order, features absent) and EVERY count
   vector (zeros allowed), when each profile has a count, the counts fit the
   element dimension and the profiles of a feature fit the profile dimension:
   element (i, j, k) is sample k of the j-th profile whose index value is i,
   everything else is missing.  (Refuted for the pinned code:
   Refuted.C06_old_ic_absent_feature_refuted, ..._trailing_dimension_refuted.) *)
Theorem C06_indexed_contiguous_decode :
  forall (A : Type) (miss : A) nfeat nprof w counts index (data : list A),
  (length index <= length counts)%nat ->
  Forall (fun c => (c <= w)%nat) counts ->
  (forall i, (i < nfeat)%nat -> (count_occ Z.eq_dec index (Z.of_nat i) <= nprof)%nat) ->
  exists u, ic_decode miss nfeat nprof w counts index data = Ok u /\
            length u = nfeat /\ Forall (fun f => length f = nprof) u /\
            forall i j k, (i < nfeat)%nat -> (j < nprof)%nat ->
              nth k (nth j (nth i u []) []) miss = ic_spec miss counts index data i j k.
Proof. exact @ic_decode_spec. Qed.
Print Assumptions C06_indexed_contiguous_decode.

Theorem C06_indexed_contiguous_decode_example :
  exists counts index (data : list (option Z)) u,
    (length index <= length counts)%nat /\ Forall (fun c => (c <= 2)%nat) counts /\
    (forall i, (i < 3)%nat -> (count_occ Z.eq_dec index (Z.of_nat i) <= 2)%nat) /\
    ic_decode None 3 2 2 counts index data = Ok u /\
    u = [[[Some 3; None]; [None; None]]; [[None; None]; [None; None]];
         [[Some 1; Some 2]; [None; None]]]%Z.
Proof. exact ic_decode_example. Qed.
Print Assumptions C06_indexed_contiguous_decode_example.

(* Gathering (CF 8.2).  For EVERY list vector of distinct in-range values -
   any order, sparse or empty - over ANY product of compressed axes and for
   every position of the leading dimensions: position list[k] of the
   C-ordered block (np.unravel_index then placement) holds sample k, every
   other position is missing. *)
Theorem C06_gathered_decode :
  forall (A : Type) (miss : A) dims lst (blocks : list (list A)),
  NoDup lst -> Forall (fun k => (0 <= k < Z.of_nat (prod dims))%Z) lst ->
  Forall (fun b => length lst = length b) blocks ->
  exists us, gathered_decode miss dims lst blocks = Ok us /\ length us = length blocks /\
             Forall (fun u => length u = prod dims) us /\
             forall b q, (b < length blocks)%nat -> (q < prod dims)%nat ->
               nth q (nth b us []) miss = gathered_spec miss lst (nth b blocks []) q.
Proof. exact @gathered_decode_spec. Qed.
Print Assumptions C06_gathered_decode.

(* np.unravel_index followed by C-order placement is the identity on the flat
   positions of any product of axes. *)
Theorem C06_unravel_ravel :
  forall dims k, (k < prod dims)%nat -> ravel dims (unravel dims k) = k.
Proof. exact ravel_unravel. Qed.
Print Assumptions C06_unravel_ravel.

Theorem C06_gathered_decode_example :
  exists dims lst (data : list (option Z)) u,
    NoDup lst /\ Forall (fun k => (0 <= k < Z.of_nat (prod dims))%Z) lst /\ length lst = length data /\
    gathered_block None dims lst data = Ok u /\
    u = [Some 8; None; None; Some 9; None; Some 7]%Z.
Proof. exact gathered_example. Qed.
Print Assumptions C06_gathered_decode_example.

(* Field.compress('contiguous') then reading the array is the identity on
   values and mask: for every rectangular masked 2-d array [rows] (all-missing
   rows and missing values inside a row included) and every array [src] the
   counts are derived from (the field itself, or its first auxiliary
   coordinate), provided no value of [rows] lies beyond the derived count
   (guard [fits]; without it: C06_compress_beyond_count_refuted).  The same
   statement covers every other construct spanning the same axes, which is
   packed with the same counts.  (Refuted for the pinned code:
   Refuted.C06_old_compress_contiguous_refuted, ..._mask_lost_refuted.) *)
Theorem C06_compress_uncompress_contiguous :
  forall (V : Type) w (src rows : list (list (option V))),
  Forall2 (fits w) src rows ->
  contiguous_decode None (length rows) w (map derive_count src)
                    (pack (map derive_count src) rows) = Ok rows.
Proof. exact @roundtrip_contiguous. Qed.
Print Assumptions C06_compress_uncompress_contiguous.

(* ... in particular for the field data itself when the counts come from it *)
Theorem C06_compress_uncompress_field :
  forall (V : Type) w (rows : list (list (option V))),
  Forall (fun r => length r = w) rows ->
  let '(counts, data) := compress_contiguous rows rows in
  contiguous_decode None (length rows) w counts data = Ok rows.
Proof. exact @roundtrip_contiguous_field. Qed.
Print Assumptions C06_compress_uncompress_field.

(* Field.compress('indexed') then reading the array is the identity, under
   the same guard; features without any value are simply absent from the
   index variable.  (Refuted for the pinned decoder.) *)
Theorem C06_compress_uncompress_indexed :
  forall (V : Type) w (src rows : list (list (option V))),
  Forall2 (fits w) src rows ->
  indexed_decode None (length rows) w (index_of_counts 0 (map derive_count src))
                 (pack (map derive_count src) rows) = Ok rows.
Proof. exact @roundtrip_indexed. Qed.
Print Assumptions C06_compress_uncompress_indexed.

Theorem C06_compress_uncompress_example :
  exists (rows : list (list (option Z))),
    Forall2 (fits 3) rows rows /\ In [None; None; None] rows /\ In [Some 1; None; Some 3]%Z rows.
Proof. exact roundtrip_example. Qed.
Print Assumptions C06_compress_uncompress_example.

(* Field.compress('indexed_contiguous').  Full statement (NOT proved here):
     forall rows src : features x profiles x elements, rectangular, fits ->
     let '(counts, index, data) := compress_ic src rows in
     ic_decode None nfeat nprof w counts index data = Ok rows.
   Proved part: the profiles that are not stored are exactly each feature's
   trailing empty ones, so every profile keeps its position (the pinned code
   dropped every empty profile: Refuted.C06_old_compress_ic_refuted), and the
   last stored profile is non-empty.  Together with
   C06_indexed_contiguous_decode this leaves the arithmetic of the sample
   offsets, which is carried by the per-run correspondence (KCompress3 cases:
   count and index variables, compressed data and uncompressed array of the
   implementation against compress_ic / ic_decode) and by the round-trip
   oracle on the implementation. *)
Theorem C06_compress_ic_profiles_partial :
  forall cs, firstn (n_profiles cs) cs ++ repeat 0%nat (length cs - n_profiles cs) = cs.
Proof. exact n_profiles_trim. Qed.
Print Assumptions C06_compress_ic_profiles_partial.

Theorem C06_compress_ic_last_profile_nonempty :
  forall cs n, n_profiles cs = S n -> nth n cs 0%nat <> 0%nat.
Proof. exact n_profiles_last_nonempty. Qed.
Print Assumptions C06_compress_ic_last_profile_nonempty.

(* Open finding (known_findings.d/C06.json,
   compress:values-beyond-auxiliary-count-dropped): without the guard the
   round trip is not the identity - the counts are those of the auxiliary
   coordinate and a field value beyond them is dropped. *)
Theorem C06_compress_beyond_count_refuted :
  exists w (src rows : list (list (option Z))),
    Forall (fun r => length r = w) src /\ Forall (fun r => length r = w) rows /\
    length src = length rows /\
    contiguous_decode None (length rows) w (map derive_count src)
                      (pack (map derive_count src) rows) <> Ok rows.
Proof. exact compress_beyond_count_refuted. Qed.
Print Assumptions C06_compress_beyond_count_refuted.

(* The underlying array stays compressed until assigned to: over ANY history
   of reads (array, subspace, copy) the compressed source is unchanged ... *)
Theorem C06_stays_compressed :
  forall (C U I W : Type) (decode : C -> U) (take : U -> I -> U) (put : U -> I -> W -> U)
         (ops : list (@dop I W)) (s : @dstate C U),
  forallb is_read ops = true -> drun decode take put s ops = s.
Proof. exact @reads_keep_compressed. Qed.
Print Assumptions C06_stays_compressed.

(* ... after an assignment anywhere in the history the data are held
   uncompressed ... *)
Theorem C06_assignment_decompresses :
  forall (C U I W : Type) (decode : C -> U) (take : U -> I -> U) (put : U -> I -> W -> U)
         (ops1 ops2 : list (@dop I W)) i v (s : @dstate C U),
  exists u, drun decode take put s (ops1 ++ OAssign i v :: ops2) = Plain u.
Proof. exact @assigned_is_plain. Qed.
Print Assumptions C06_assignment_decompresses.

(* ... and over ANY history of reads and assignments what the user sees is
   what the same history does to the uncompressed array. *)
Theorem C06_view_is_uncompressed :
  forall (C U I W : Type) (decode : C -> U) (take : U -> I -> U) (put : U -> I -> W -> U)
         (ops : list (@dop I W)) (s : @dstate C U),
  view decode (drun decode take put s ops) = fold_left (apply_op put) ops (view decode s).
Proof. exact @view_history. Qed.
Print Assumptions C06_view_is_uncompressed.
