(* C06 - the property theorems, nothing else.  Each is closed by [exact] of a
   lemma from Lemmas.v and followed by Print Assumptions.  Cells are of an
   arbitrary type A with a missing cell [miss]: one optional value, or the
   block of values sharing a sample when there are trailing dimensions. *)
From CfdmV Require Import Common.Base C06.Model C06.Spec C06.Lemmas C06.SubspaceLemmas.
From CfdmV Require C03.Model.

(* Contiguous ragged array (CF 9.3.3).  For EVERY count vector whose entries
   fit the element dimension - zeros allowed, any length, any sum - the
   uncompressed array has the declared shape and its element (i, j) is sample
   sum(count[:i]) + j if j < count[i], missing otherwise. *)
Theorem C06_contiguous_decode :
  forall (A : Type) (miss : A) nrows w counts (data : list A),
  Forall (fun c => (c <= w)%nat) counts ->
  exists u, contiguous_decode miss nrows w counts data = Ok u /\
            length u = nrows /\ Forall (fun r => length r = w) u /\
            forall i j, (i < nrows)%nat ->
              nth j (nth i u []) miss = contig_spec miss counts data i j.
Proof. exact @contiguous_decode_spec. Qed.
Print Assumptions C06_contiguous_decode.

Theorem C06_contiguous_decode_example :
  exists counts (data : list (option Z)) u,
    Forall (fun c => (c <= 3)%nat) counts /\
    contiguous_decode None 4 3 counts data = Ok u /\
    u = [[Some 1; Some 2; None]; [None; None; None]; [Some 3; Some 4; Some 5]; [None; None; None]]%Z.
Proof. exact contiguous_decode_example. Qed.
Print Assumptions C06_contiguous_decode_example.

(* Indexed ragged array (CF 9.3.4), repaired code.  For EVERY index vector -
   any order, instances absent, stray values - whose instances fit the element
   dimension: element (i, j) is the j-th sample whose index value is i, and
   everything else is missing.  (Refuted for the pinned code:
   Refuted.C06_old_indexed_absent_instance_refuted.) *)
Theorem C06_indexed_decode :
  forall (A : Type) (miss : A) nrows w index (data : list A),
  (length index <= length data)%nat ->
  (forall i, (i < nrows)%nat -> (count_occ Z.eq_dec index (Z.of_nat i) <= w)%nat) ->
  exists u, indexed_decode miss nrows w index data = Ok u /\
            length u = nrows /\ Forall (fun r => length r = w) u /\
            forall i j, (i < nrows)%nat ->
              nth j (nth i u []) miss = indexed_spec miss index data i j.
Proof. exact @indexed_decode_spec. Qed.
Print Assumptions C06_indexed_decode.

Theorem C06_indexed_decode_example :
  exists index (data : list (option Z)) u,
    (length index <= length data)%nat /\
    (forall i, (i < 3)%nat -> (count_occ Z.eq_dec index (Z.of_nat i) <= 3)%nat) /\
    indexed_decode None 3 3 index data = Ok u /\
    u = [[Some 10; Some 13; None]; [None; None; None]; [Some 11; Some 12; Some 14]]%Z.
Proof. exact indexed_decode_example. Qed.
Print Assumptions C06_indexed_decode_example.

(* Indexed contiguous ragged array (CF 9.3.5), repaired code.  For EVERY
   index vector over the profiles (any order, features absent) and EVERY count
   vector (zeros allowed), when each profile has a count, the counts fit the
   element dimension and the profiles of a feature fit the profile dimension:
   element (i, j, k) is sample k of the j-th profile whose index value is i,
   everything else is missing.  (Refuted for the pinned code:
   Refuted.C06_old_ic_absent_feature_refuted, ..._trailing_dimension_refuted.) *)
Theorem C06_indexed_contiguous_decode :
  forall (A : Type) (miss : A) nfeat nprof w counts index (data : list A),
  (length index <= length counts)%nat ->
  Forall (fun c => (c <= w)%nat) counts ->
  (forall i, (i < nfeat)%nat -> (count_occ Z.eq_dec index (Z.of_nat i) <= nprof)%nat) ->
  exists u, ic_decode miss nfeat nprof w counts index data = Ok u /\
            length u = nfeat /\ Forall (fun f => length f = nprof) u /\
            forall i j k, (i < nfeat)%nat -> (j < nprof)%nat ->
              nth k (nth j (nth i u []) []) miss = ic_spec miss counts index data i j k.
Proof. exact @ic_decode_spec. Qed.
Print Assumptions C06_indexed_contiguous_decode.

Theorem C06_indexed_contiguous_decode_example :
  exists counts index (data : list (option Z)) u,
    (length index <= length counts)%nat /\ Forall (fun c => (c <= 2)%nat) counts /\
    (forall i, (i < 3)%nat -> (count_occ Z.eq_dec index (Z.of_nat i) <= 2)%nat) /\
    ic_decode None 3 2 2 counts index data = Ok u /\
    u = [[[Some 3; None]; [None; None]]; [[None; None]; [None; None]];
         [[Some 1; Some 2]; [None; None]]]%Z.
Proof. exact ic_decode_example. Qed.
Print Assumptions C06_indexed_contiguous_decode_example.

(* Gathering (CF 8.2).  For EVERY list vector of distinct in-range values -
   any order, sparse or empty - over ANY product of compressed axes and for
   every position of the leading dimensions: position list[k] of the
   C-ordered block (np.unravel_index then placement) holds sample k, every
   other position is missing. *)
Theorem C06_gathered_decode :
  forall (A : Type) (miss : A) dims lst (blocks : list (list A)),
  NoDup lst -> Forall (fun k => (0 <= k < Z.of_nat (prod dims))%Z) lst ->
  Forall (fun b => length lst = length b) blocks ->
  exists us, gathered_decode miss dims lst blocks = Ok us /\ length us = length blocks /\
             Forall (fun u => length u = prod dims) us /\
             forall b q, (b < length blocks)%nat -> (q < prod dims)%nat ->
               nth q (nth b us []) miss = gathered_spec miss lst (nth b blocks []) q.
Proof. exact @gathered_decode_spec. Qed.
Print Assumptions C06_gathered_decode.

(* np.unravel_index followed by C-order placement is the identity on the flat
   positions of any product of axes. *)
Theorem C06_unravel_ravel :
  forall dims k, (k < prod dims)%nat -> ravel dims (unravel dims k) = k.
Proof. exact ravel_unravel. Qed.
Print Assumptions C06_unravel_ravel.

Theorem C06_gathered_decode_example :
  exists dims lst (data : list (option Z)) u,
    NoDup lst /\ Forall (fun k => (0 <= k < Z.of_nat (prod dims))%Z) lst /\ length lst = length data /\
    gathered_block None dims lst data = Ok u /\
    u = [Some 8; None; None; Some 9; None; Some 7]%Z.
Proof. exact gathered_example. Qed.
Print Assumptions C06_gathered_decode_example.

(* ---- Field.compress then reading ----
   [covers w c r]: c is an admissible count for the row r of width w, i.e.
   no value of r lies beyond c and c <= w.  Every array on the field's axes
   (the field data and each construct spanning the same axes) is packed with
   the same counts. *)

(* The counts that the repaired Field.compress derives - the largest derived
   count over the field data and EVERY construct spanning the same axes
   (handoff/C06-fix2-1.diff) - cover the field data and each of those
   constructs.  No guard is left: before that repair the counts were those of
   the first auxiliary coordinate and a value beyond them was dropped
   (Refuted.C06_old_compress_beyond_count_refuted). *)
Theorem C06_compress_counts_cover :
  forall (V : Type) n w (rows : list (list (option V))) others,
  rect n w rows -> Forall (rect n w) others ->
  Forall2 (covers w) (derive_counts rows others) rows /\
  Forall (fun o => Forall2 (covers w) (derive_counts rows others) o) others.
Proof. exact @derive_counts_cover. Qed.
Print Assumptions C06_compress_counts_cover.

(* Field.compress('contiguous') then reading the array is the identity on
   values and mask: for every rectangular masked 2-d array [rows] (all-missing
   rows and missing values inside a row included) packed with counts that
   cover it.  (Refuted for the pinned code:
   Refuted.C06_old_compress_contiguous_refuted, ..._mask_lost_refuted.) *)
Theorem C06_compress_uncompress_contiguous :
  forall (V : Type) w counts (rows : list (list (option V))),
  Forall2 (covers w) counts rows ->
  contiguous_decode None (length rows) w counts (pack counts rows) = Ok rows.
Proof. exact @roundtrip_contiguous. Qed.
Print Assumptions C06_compress_uncompress_contiguous.

(* Field.compress('indexed') then reading the array is the identity; features
   without any value are simply absent from the index variable.  (Refuted for
   the pinned decoder.) *)
Theorem C06_compress_uncompress_indexed :
  forall (V : Type) w counts (rows : list (list (option V))),
  Forall2 (covers w) counts rows ->
  indexed_decode None (length rows) w (index_of_counts 0 counts) (pack counts rows) = Ok rows.
Proof. exact @roundtrip_indexed. Qed.
Print Assumptions C06_compress_uncompress_indexed.

Theorem C06_compress_uncompress_example :
  exists (rows aux : list (list (option Z))),
    rect 3 3 rows /\ Forall (rect 3 3) [aux] /\
    In [None; None; None] rows /\ In [Some 1; None; Some 3]%Z rows /\
    derive_counts rows [aux] = [3; 2; 1]%nat.
Proof. exact roundtrip_example. Qed.
Print Assumptions C06_compress_uncompress_example.

(* Field.compress('indexed_contiguous') then reading the array is the identity
   on values and mask - the full round trip: for EVERY 3-d masked array
   (features x profiles x elements; empty profiles anywhere, empty features,
   missing values inside a profile) whose profiles are covered by the counts
   [cs].  The count variable holds, feature by feature, the counts of the
   profiles up to the feature's last non-empty one; the index variable names
   the feature of each stored profile.  (Refuted for the pinned code, which
   dropped every empty profile: Refuted.C06_old_compress_ic_refuted.) *)
Theorem C06_compress_uncompress_indexed_contiguous :
  forall (V : Type) nprof w cs (rows : list (list (list (option V)))),
  covers3 nprof w cs rows ->
  let '(counts, index, data) := compress_ic cs rows in
  ic_decode None (length rows) nprof w counts index data = Ok rows.
Proof. exact @roundtrip_ic. Qed.
Print Assumptions C06_compress_uncompress_indexed_contiguous.

Theorem C06_compress_uncompress_indexed_contiguous_example :
  exists (rows : list (list (list (option Z)))) cs,
    covers3 3 2 cs rows /\
    cs = [[0; 1; 2]; [2; 0; 0]]%nat /\
    compress_ic cs rows = ([0; 1; 2; 2]%nat, [0; 0; 0; 1], [Some 3; Some 5; Some 6; Some 7; Some 8])%Z.
Proof. exact roundtrip_ic_example. Qed.
Print Assumptions C06_compress_uncompress_indexed_contiguous_example.

(* Which profiles are stored: exactly those up to each feature's last
   non-empty one, so every profile keeps its position, and no shorter prefix
   would do. *)
Theorem C06_compress_ic_profiles :
  forall cs, firstn (n_profiles cs) cs ++ repeat 0%nat (length cs - n_profiles cs) = cs.
Proof. exact n_profiles_trim. Qed.
Print Assumptions C06_compress_ic_profiles.

Theorem C06_compress_ic_last_profile_nonempty :
  forall cs n, n_profiles cs = S n -> nth n cs 0%nat <> 0%nat.
Proof. exact n_profiles_last_nonempty. Qed.
Print Assumptions C06_compress_ic_last_profile_nonempty.

(* ---- file level ----
   The writer puts the compressed data on the sample dimension and the count
   and index variables of the compressed array in the file, unchanged (checked
   on every run by reading the written file with netCDF4-python).  Decoding
   these variables with the independent CF decoder of Spec.v (9.3.3 / 9.3.4 /
   9.3.5, written sample by sample) gives back every element of the field -
   for all j, also beyond the largest count, where both sides are missing: the
   element dimension a file can record is the largest count, the rest of the
   array is missing. *)
Theorem C06_file_decode_contiguous :
  forall (V : Type) w counts (rows : list (list (option V))),
  Forall2 (covers w) counts rows ->
  forall i j, (i < length rows)%nat ->
    contig_spec None counts (pack counts rows) i j = nth j (nth i rows []) None.
Proof. exact @file_decode_contiguous. Qed.
Print Assumptions C06_file_decode_contiguous.

Theorem C06_file_decode_indexed :
  forall (V : Type) w counts (rows : list (list (option V))),
  Forall2 (covers w) counts rows ->
  forall i j, (i < length rows)%nat ->
    indexed_spec None (index_of_counts 0 counts) (pack counts rows) i j = nth j (nth i rows []) None.
Proof. exact @file_decode_indexed. Qed.
Print Assumptions C06_file_decode_indexed.

Theorem C06_file_decode_indexed_contiguous :
  forall (V : Type) nprof w cs (rows : list (list (list (option V)))),
  covers3 nprof w cs rows ->
  let '(counts, index, data) := compress_ic cs rows in
  forall i j k, (i < length rows)%nat -> (j < nprof)%nat ->
    ic_spec None counts index data i j k = nth k (nth j (nth i rows []) []) None.
Proof. exact @file_decode_ic. Qed.
Print Assumptions C06_file_decode_indexed_contiguous.

(* ---- subspaces ----
   CompressedArray.__getitem__ uncompresses the whole array and indexes it
   orthogonally.  For ANY shape, any per-axis positions and any array: the
   selection has one element per combination of positions, and element ks (C
   order) is the element of the uncompressed array at the selected position
   of every axis ... *)
Theorem C06_subspace :
  forall (B : Type) (d : B) shape pos (flat : list B),
  length (orth_take d shape pos flat) = prod (map (@length nat) pos) /\
  forall ks, in_shape ks (map (@length nat) pos) ->
    nth_error (orth_take d shape pos flat) (ravel (map (@length nat) pos) ks)
    = Some (nth (ravel shape (pick pos ks)) flat d).
Proof. exact @orth_take_spec. Qed.
Print Assumptions C06_subspace.

(* ... it is the orthogonal selection of property C03 (nested arrays, one
   axis after the other; independent of the order of the axes by
   C03.Props.C03_any_order) ... *)
Theorem C06_subspace_is_C03_selection :
  forall shape pos (flat : list (option Z)),
  length flat = prod shape -> pos_in_shape pos shape ->
  C03.Model.flatten (C03.Model.orth_take pos (C03.Model.reshape shape flat))
  = orth_take None shape pos flat.
Proof. exact orth_take_is_c03. Qed.
Print Assumptions C06_subspace_is_C03_selection.

(* ... every index (integer, slice with a non-zero step, integer list, all
   possibly negative) selects positions of its axis ... *)
Theorem C06_subspace_positions_in_range :
  forall n i, valid_index n i -> Forall (fun p => (p < n)%nat) (axis_positions n i).
Proof. exact axis_positions_in_range. Qed.
Print Assumptions C06_subspace_positions_in_range.

(* ... and end to end for a contiguous ragged array: element (k0, k1) of
   d[i0, i1] is the element the CF conventions define at the positions that
   i0 and i1 select, for every count vector and every pair of indices. *)
Theorem C06_subspace_contiguous :
  forall (A : Type) (miss : A) nrows w counts (data : list A) i0 i1,
  Forall (fun c => (c <= w)%nat) counts ->
  valid_index nrows i0 -> valid_index w i1 ->
  exists u, contiguous_decode miss nrows w counts data = Ok u /\
    let p0 := axis_positions nrows i0 in
    let p1 := axis_positions w i1 in
    let s := subspace miss [nrows; w] [i0; i1] (concat u) in
    length s = (length p0 * length p1)%nat /\
    forall k0 k1, (k0 < length p0)%nat -> (k1 < length p1)%nat ->
      nth (k0 * length p1 + k1) s miss = contig_spec miss counts data (nth k0 p0 0%nat) (nth k1 p1 0%nat).
Proof. exact @subspace_contiguous. Qed.
Print Assumptions C06_subspace_contiguous.

(* The underlying array stays compressed until assigned to: over ANY history
   of reads (array, subspace, copy) the compressed source is unchanged ... *)
Theorem C06_stays_compressed :
  forall (C U I W : Type) (decode : C -> U) (take : U -> I -> U) (put : U -> I -> W -> U)
         (ops : list (@dop I W)) (s : @dstate C U),
  forallb is_read ops = true -> drun decode take put s ops = s.
Proof. exact @reads_keep_compressed. Qed.
Print Assumptions C06_stays_compressed.

(* ... after an assignment anywhere in the history the data are held
   uncompressed ... *)
Theorem C06_assignment_decompresses :
  forall (C U I W : Type) (decode : C -> U) (take : U -> I -> U) (put : U -> I -> W -> U)
         (ops1 ops2 : list (@dop I W)) i v (s : @dstate C U),
  exists u, drun decode take put s (ops1 ++ OAssign i v :: ops2) = Plain u.
Proof. exact @assigned_is_plain. Qed.
Print Assumptions C06_assignment_decompresses.

(* ... and over ANY history of reads and assignments what the user sees is
   what the same history does to the uncompressed array. *)
Theorem C06_view_is_uncompressed :
  forall (C U I W : Type) (decode : C -> U) (take : U -> I -> U) (put : U -> I -> W -> U)
         (ops : list (@dop I W)) (s : @dstate C U),
  view decode (drun decode take put s ops) = fold_left (apply_op put) ops (view decode s).
Proof. exact @view_history. Qed.
Print Assumptions C06_view_is_uncompressed.

(* ---- equality ----
   Data.equals is one of the ways compressed data are seen.  With
   ignore_compression (the default) two data are equal exactly when their
   uncompressed arrays are - whatever the two sources are: compressed with
   different count / index / list variables over the same compressed values
   (not equal unless the arrays coincide), compressed differently or not at
   all with the same array (equal).  [u_eqb] is the comparison of two arrays
   (shape, type, values, mask), any decidable equality. *)
Theorem C06_equals_is_uncompressed_equality :
  forall (C U T K : Type) (decode : C -> U) (ctype : C -> T) (carr : C -> K)
         (u_eqb : U -> U -> bool) (t_eqb : T -> T -> bool) (k_eqb : K -> K -> bool),
  (forall x y, u_eqb x y = true <-> x = y) ->
  forall s t : @dstate C U,
  data_equals decode ctype carr u_eqb t_eqb k_eqb true s t = true <->
  view decode s = view decode t.
Proof. exact @equals_is_view_equality. Qed.
Print Assumptions C06_equals_is_uncompressed_equality.

(* With ignore_compression=False the documentation promises that the
   compression type and the compressed arrays are the same AS WELL AS the
   uncompressed arrays. *)
Theorem C06_equals_strict :
  forall (C U T K : Type) (decode : C -> U) (ctype : C -> T) (carr : C -> K)
         (u_eqb : U -> U -> bool) (t_eqb : T -> T -> bool) (k_eqb : K -> K -> bool),
  (forall x y, u_eqb x y = true <-> x = y) ->
  forall s t : @dstate C U,
  data_equals decode ctype carr u_eqb t_eqb k_eqb false s t = true <->
  same_compression ctype carr t_eqb k_eqb s t = true /\ view decode s = view decode t.
Proof. exact @equals_strict. Qed.
Print Assumptions C06_equals_strict.

(* ---- the type of the count variable ----
   The presented array does not depend on the integer type of the count
   variable: any two types that hold the counts give the same array ... *)
Theorem C06_count_type_irrelevant :
  forall (A : Type) (miss : A) t t' nrows w stored (data : list A),
  stored_ok t stored -> stored_ok t' stored ->
  contiguous_decode_ty miss t nrows w stored data = contiguous_decode_ty miss t' nrows w stored data.
Proof. exact @count_type_irrelevant. Qed.
Print Assumptions C06_count_type_irrelevant.

(* ... namely the array of CF 9.3.3 for the counts as integers - there is no
   hypothesis on their SUM, which may lie far beyond the range of the type
   (int8 counts 60, 50, 0, 40).  Accumulating the partial sums in the type of
   the variable is refuted in Refuted.C06_partial_sums_in_count_type_refuted
   and agrees only under the guard of C06_count_partial_sums_guard. *)
Theorem C06_contiguous_decode_any_count_type :
  forall (A : Type) (miss : A) t nrows w stored (data : list A),
  stored_ok t stored -> Forall (fun v => (v <= Z.of_nat w)%Z) stored ->
  exists u, contiguous_decode_ty miss t nrows w stored data = Ok u /\
            length u = nrows /\ Forall (fun r => length r = w) u /\
            forall i j, (i < nrows)%nat ->
              nth j (nth i u []) miss = contig_spec miss (map Z.to_nat stored) data i j.
Proof. exact @contiguous_decode_ty_spec. Qed.
Print Assumptions C06_contiguous_decode_any_count_type.

Theorem C06_count_partial_sums_guard :
  forall (A : Type) (miss : A) t nrows w stored (data : list A),
  stored_ok t stored -> (sumZ stored <= ity_max t)%Z -> (sumZ stored <= Z.of_nat (length data))%Z ->
  contiguous_decode_wrapped miss t nrows w stored data = contiguous_decode_ty miss t nrows w stored data.
Proof. exact @wrapped_agrees_when_sums_fit. Qed.
Print Assumptions C06_count_partial_sums_guard.

Theorem C06_count_type_example :
  stored_ok I8 [60; 50; 0; 40]%Z /\ (ity_max I8 < sumZ [60; 50; 0; 40])%Z.
Proof. exact count_type_example. Qed.
Print Assumptions C06_count_type_example.
