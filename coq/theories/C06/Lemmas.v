(* C06 - proofs.  Stdlib only. *)
From CfdmV Require Import Common.Base C06.Model C06.Spec.
From CfdmV Require Common.PySlice.

Ltac splits := repeat match goal with |- _ /\ _ => split end.

(* ------------------------------------------------------------------ *)
(* lists                                                               *)
(* ------------------------------------------------------------------ *)
Section Lists.
Context {A : Type}.
Context (miss : A).

Lemma nth_firstn_if : forall (l : list A) n j,
  nth j (firstn n l) miss = if (j <? n)%nat then nth j l miss else miss.
Proof.
  induction l as [|x l IH]; intros n j.
  - rewrite firstn_nil. destruct j; destruct (_ <? _)%nat; reflexivity.
  - destruct n; simpl.
    + destruct j; reflexivity.
    + destruct j; simpl; [reflexivity|]. rewrite IH.
      change (S j <? S n)%nat with (j <? n)%nat. reflexivity.
Qed.

Lemma nth_skipn_add : forall (l : list A) a j, nth j (skipn a l) miss = nth (a + j) l miss.
Proof.
  induction l as [|x l IH]; intros a j.
  - rewrite skipn_nil. destruct j, a; reflexivity.
  - destruct a; simpl; [reflexivity|]. apply IH.
Qed.

Lemma nth_slice : forall (l : list A) a c j,
  nth j (slice_list a (a + c) l) miss = if (j <? c)%nat then nth (a + j) l miss else miss.
Proof.
  intros. unfold slice_list. replace (a + c - a)%nat with c by lia.
  rewrite nth_firstn_if, nth_skipn_add. reflexivity.
Qed.

Lemma length_slice_le : forall (l : list A) a c, (length (slice_list a (a + c) l) <= c)%nat.
Proof.
  intros. unfold slice_list. replace (a + c - a)%nat with c by lia.
  rewrite firstn_length. lia.
Qed.

Lemma nth_repeat_miss : forall n j, nth j (repeat miss n) miss = miss.
Proof. induction n; destruct j; simpl; auto. Qed.

Lemma nth_nil_miss : forall j, nth j (@nil A) miss = miss.
Proof. destruct j; reflexivity. Qed.

Lemma nth_app_pad : forall (l : list A) n j, nth j (l ++ repeat miss n) miss = nth j l miss.
Proof.
  induction l as [|x l IH]; intros n j; simpl.
  - rewrite nth_repeat_miss. destruct j; reflexivity.
  - destruct j; [reflexivity|apply IH].
Qed.

(* ---- one row ---- *)
Lemma ragged_row_ok : forall w (sel : list A), (length sel <= w)%nat ->
  exists row, ragged_row miss w sel = Ok row /\ length row = w /\
              forall j, nth j row miss = nth j sel miss.
Proof.
  intros w sel H. destruct sel as [|x r].
  - exists (repeat miss w). simpl. splits; auto using repeat_length.
    intro j. rewrite nth_repeat_miss. destruct j; reflexivity.
  - unfold ragged_row. destruct (Nat.leb_spec (length (x :: r)) w); [|lia].
    eexists. splits; [reflexivity| |].
    + rewrite app_length, repeat_length. lia.
    + intro j. apply nth_app_pad.
Qed.

(* ---- the zip of rows and selectors ---- *)
Definition sel_at (sels : list selector) (data : list A) (k j : nat) : A :=
  match nth_error sels k with
  | Some s => match select miss s data with Ok sel => nth j sel miss | Err _ => miss end
  | None => miss
  end.

Lemma assemble_spec : forall w data sels rows,
  (forall k s, (k < rows)%nat -> nth_error sels k = Some s ->
     exists sel, select miss s data = Ok sel /\ (length sel <= w)%nat) ->
  exists u, assemble miss w rows sels data = Ok u /\ length u = rows /\
            Forall (fun r => length r = w) u /\
            forall k j, (k < rows)%nat -> nth j (nth k u []) miss = sel_at sels data k j.
Proof.
  intros w data sels. induction sels as [|s ss IH]; intros rows H.
  - destruct rows.
    + exists []. simpl. splits; auto. intros; lia.
    + exists (repeat (repeat miss w) (S rows)). splits; auto using repeat_length.
      * apply Forall_forall. intros r Hr. apply repeat_spec in Hr. subst. apply repeat_length.
      * intros k j Hk. unfold sel_at. rewrite (proj2 (nth_error_None [] k)) by (simpl; lia).
        assert (E : nth k (repeat (repeat miss w) (S rows)) [] = repeat miss w \/
                    nth k (repeat (repeat miss w) (S rows)) [] = []).
        { clear. generalize (S rows). intro n. revert k. induction n; destruct k; simpl; auto. }
        destruct E as [E|E]; rewrite E; [apply nth_repeat_miss|apply nth_nil_miss].
  - destruct rows.
    + exists []. simpl. splits; auto. intros; lia.
    + destruct (H 0%nat s) as [sel [Hs Hl]]; [lia|reflexivity|].
      destruct (ragged_row_ok w sel Hl) as [row [Hr [Hlr Hn]]].
      destruct (IH rows) as [u [Hu [Hlen [Hf Hnth]]]].
      { intros k s' Hk Hs'. apply (H (S k) s'); [lia|exact Hs']. }
      exists (row :: u). simpl. rewrite Hs. simpl. rewrite Hr. simpl. rewrite Hu. simpl.
      splits; auto.
      intros k j Hk. destruct k; simpl.
      * unfold sel_at. simpl. rewrite Hs. apply Hn.
      * rewrite Hnth by lia. reflexivity.
Qed.

Lemma assemble_ext : forall w data sels sels' rows,
  Forall2 (fun s s' => select miss s data = select miss s' data) sels sels' ->
  assemble miss w rows sels data = assemble miss w rows sels' data.
Proof.
  intros w data sels sels' rows H. revert rows.
  induction H as [|s s' l l' Hs Hl IH]; intros rows.
  - reflexivity.
  - destruct rows; simpl; [reflexivity|]. rewrite Hs, IH. reflexivity.
Qed.

End Lists.

(* ------------------------------------------------------------------ *)
(* ragged contiguous                                                    *)
(* ------------------------------------------------------------------ *)
Section Contiguous.
Context {A : Type}.
Context (miss : A).

Lemma contig_selectors_nth : forall counts start k,
  nth_error (contig_selectors start counts) k =
  match nth_error counts k with
  | Some c => Some (SSlice (start + sum (firstn k counts)) (start + sum (firstn k counts) + c))
  | None => None
  end.
Proof.
  induction counts as [|c r IH]; intros start k.
  - destruct k; reflexivity.
  - destruct k; simpl.
    + replace (start + 0)%nat with start by lia. reflexivity.
    + rewrite IH. destruct (nth_error r k); [|reflexivity].
      unfold sum; simpl. fold (sum (firstn k r)).
      replace (start + c + sum (firstn k r))%nat with (start + (c + sum (firstn k r)))%nat by lia.
      reflexivity.
Qed.

Lemma nth_error_nth_default : forall (l : list nat) k,
  nth k l 0%nat = match nth_error l k with Some c => c | None => 0%nat end.
Proof. induction l; destruct k; simpl; auto. Qed.

(* For EVERY count vector whose entries fit the element dimension - zeros
   allowed, whatever its length and sum - the assembled array has the given
   shape and its element (i, j) is the one CF 9.3.3 defines. *)
Lemma contiguous_decode_spec : forall nrows w counts (data : list A),
  Forall (fun c => (c <= w)%nat) counts ->
  exists u, contiguous_decode miss nrows w counts data = Ok u /\
            length u = nrows /\ Forall (fun r => length r = w) u /\
            forall i j, (i < nrows)%nat ->
              nth j (nth i u []) miss = contig_spec miss counts data i j.
Proof.
  intros nrows w counts data Hc. unfold contiguous_decode.
  destruct (assemble_spec miss w data (contig_selectors 0 counts) nrows) as [u [Hu [Hl [Hf Hn]]]].
  - intros k s Hk Hs. rewrite contig_selectors_nth in Hs.
    destruct (nth_error counts k) as [c|] eqn:E; [|discriminate]. inversion Hs; subst.
    eexists. split; [reflexivity|].
    eapply Nat.le_trans; [apply length_slice_le|].
    rewrite Forall_forall in Hc. apply Hc. eapply nth_error_In; eauto.
  - exists u. splits; auto. intros i j Hi. rewrite Hn by exact Hi.
    unfold sel_at, contig_spec. rewrite contig_selectors_nth, nth_error_nth_default.
    destruct (nth_error counts i) as [c|]; simpl.
    + apply nth_slice.
    + reflexivity.
Qed.

End Contiguous.

(* ------------------------------------------------------------------ *)
(* ragged indexed                                                       *)
(* ------------------------------------------------------------------ *)
Section Indexed.
Context {A : Type}.
Context (miss : A).

Lemma find_occ_positions : forall index i j p,
  find_occ i j index p = nth_error (positions_eq i index p) j.
Proof.
  induction index as [|x r IH]; intros i j p; simpl.
  - destruct j; reflexivity.
  - destruct (Z.eqb x i).
    + destruct j; simpl; [reflexivity|apply IH].
    + apply IH.
Qed.

Lemma length_positions_eq : forall index i p,
  length (positions_eq i index p) = count_occ Z.eq_dec index i.
Proof.
  induction index as [|x r IH]; intros i p; simpl; [reflexivity|].
  destruct (Z.eqb_spec x i); destruct (Z.eq_dec x i); try contradiction; simpl; rewrite IH; reflexivity.
Qed.

Lemma positions_eq_bound : forall index i p,
  Forall (fun q => (p <= q < p + length index)%nat) (positions_eq i index p).
Proof.
  induction index as [|x r IH]; intros i p; simpl; [constructor|].
  assert (H : Forall (fun q => (p <= q < p + S (length r))%nat) (positions_eq i r (S p))).
  { eapply Forall_impl; [|apply IH]. simpl. intros; lia. }
  destruct (Z.eqb x i); [constructor; [lia|exact H]|exact H].
Qed.

Lemma slice_single : forall (data : list A) p, (p < length data)%nat ->
  slice_list p (S p) data = [nth p data miss].
Proof.
  intros data p. unfold slice_list. replace (S p - p)%nat with 1%nat by lia.
  revert p. induction data as [|x r IH]; intros p H; simpl in H; [lia|].
  destruct p; simpl.
  - destruct r; reflexivity.
  - apply IH. lia.
Qed.

Lemma select_positions : forall (data : list A) ps,
  Forall (fun p => (p < length data)%nat) ps ->
  select miss (SPos ps) data = Ok (map (fun p => nth p data miss) ps).
Proof.
  intros data ps H.
  assert (G : (if forallb (fun p => (p <? length data)%nat) ps
               then Ok (map (fun p => nth p data miss) ps) else Err IndexErr)
              = Ok (map (fun p => nth p data miss) ps)).
  { replace (forallb (fun p => (p <? length data)%nat) ps) with true; [reflexivity|].
    symmetry. apply forallb_forall. rewrite Forall_forall in H. intros p Hp.
    apply Nat.ltb_lt. auto. }
  destruct ps as [|p [|q r]]; simpl.
  - reflexivity.
  - inversion H; subst. rewrite slice_single by assumption. reflexivity.
  - exact G.
Qed.

Lemma nth_map_nth_error : forall {B} (f : B -> A) ps j,
  nth j (map f ps) miss = match nth_error ps j with Some p => f p | None => miss end.
Proof. induction ps; destruct j; simpl; auto. Qed.

Lemma nth_error_instances : forall n k, (k < n)%nat ->
  nth_error (instances n) k = Some (Z.of_nat k).
Proof.
  intros n k H. unfold instances. rewrite nth_error_map.
  rewrite (nth_error_nth' _ 0%nat) by (rewrite seq_length; exact H).
  rewrite seq_nth by exact H. reflexivity.
Qed.

(* For EVERY index vector - any order, instances absent, values outside
   range(nrows) simply belong to no row - whose instances fit the element
   dimension, the element (i, j) is the j-th sample whose index value is i
   (CF 9.3.4), and everything else is missing. *)
Lemma indexed_decode_spec : forall nrows w index (data : list A),
  (length index <= length data)%nat ->
  (forall i, (i < nrows)%nat -> (count_occ Z.eq_dec index (Z.of_nat i) <= w)%nat) ->
  exists u, indexed_decode miss nrows w index data = Ok u /\
            length u = nrows /\ Forall (fun r => length r = w) u /\
            forall i j, (i < nrows)%nat ->
              nth j (nth i u []) miss = indexed_spec miss index data i j.
Proof.
  intros nrows w index data Hlen Hw. unfold indexed_decode.
  assert (Hsel : forall k, (k < nrows)%nat ->
            nth_error (indexed_selectors (instances nrows) index) k
            = Some (SPos (positions_eq (Z.of_nat k) index 0))).
  { intros k Hk. unfold indexed_selectors. rewrite nth_error_map, nth_error_instances by exact Hk.
    reflexivity. }
  assert (Hpos : forall k, Forall (fun p => (p < length data)%nat) (positions_eq (Z.of_nat k) index 0)).
  { intro k. eapply Forall_impl; [|apply positions_eq_bound]. simpl. intros; lia. }
  destruct (assemble_spec miss w data (indexed_selectors (instances nrows) index) nrows)
    as [u [Hu [Hl [Hf Hn]]]].
  - intros k s Hk Hs. rewrite Hsel in Hs by exact Hk. inversion Hs; subst.
    eexists. split; [apply select_positions, Hpos|].
    rewrite map_length, length_positions_eq. apply Hw, Hk.
  - exists u. splits; auto. intros i j Hi. rewrite Hn by exact Hi.
    unfold sel_at, indexed_spec. rewrite Hsel by exact Hi.
    rewrite select_positions by apply Hpos.
    rewrite nth_map_nth_error, find_occ_positions. reflexivity.
Qed.

End Indexed.

(* ------------------------------------------------------------------ *)
(* gathered                                                             *)
(* ------------------------------------------------------------------ *)
Section Gathered.
Context {A : Type}.
Context (miss : A).

(* np.unravel_index followed by C-order placement is the identity on flat
   positions, for every product of compressed axes *)
Lemma ravel_unravel : forall dims k, (k < prod dims)%nat -> ravel dims (unravel dims k) = k.
Proof.
  induction dims as [|d r IH]; intros k H; simpl in *.
  - lia.
  - fold (prod r) in *. destruct (Nat.eq_dec (prod r) 0) as [E|E].
    + rewrite E in H. lia.
    + rewrite IH by (apply Nat.mod_upper_bound; exact E).
      pose proof (Nat.div_mod k (prod r) E). lia.
Qed.

Lemma set_nth_length : forall {B} (l : list B) n x, length (set_nth n x l) = length l.
Proof. induction l; destruct n; simpl; auto. Qed.

Lemma nth_set_nth : forall (l : list A) n x q,
  nth q (set_nth n x l) miss = if Nat.eqb q n && (n <? length l)%nat then x else nth q l miss.
Proof.
  induction l as [|y r IH]; intros n x q.
  - replace (n <? length (@nil A))%nat with false by (destruct n; reflexivity).
    rewrite andb_false_r. destruct n, q; reflexivity.
  - simpl. destruct n; simpl.
    + destruct q; reflexivity.
    + destruct q; simpl; [reflexivity|]. rewrite IH. reflexivity.
Qed.

Lemma find_occ_shift : forall l i j p,
  find_occ i j l (S p) = option_map S (find_occ i j l p).
Proof.
  induction l as [|x r IH]; intros i j p; simpl; [reflexivity|].
  destruct (Z.eqb x i); [destruct j; [reflexivity|apply IH]|apply IH].
Qed.

Lemma find_occ_not_in : forall l i j p, ~ In i l -> find_occ i j l p = None.
Proof.
  induction l as [|x r IH]; intros i j p H; simpl; [reflexivity|].
  destruct (Z.eqb_spec x i); [exfalso; apply H; left; assumption|].
  apply IH. intro; apply H; right; assumption.
Qed.

Definition gstep (dims : list nat) (u : list A) (kx : Z * A) : list A :=
  set_nth (ravel dims (unravel dims (Z.to_nat (fst kx)))) (snd kx) u.

Lemma gathered_fold : forall dims lst data u0,
  NoDup lst -> Forall (fun k => (0 <= k < Z.of_nat (prod dims))%Z) lst ->
  length lst = length data -> length u0 = prod dims ->
  let u := fold_left (gstep dims) (combine lst data) u0 in
  length u = prod dims /\
  forall q, (q < prod dims)%nat ->
    nth q u miss = match find_occ (Z.of_nat q) 0 lst 0 with
                   | Some k => nth k data miss
                   | None => nth q u0 miss
                   end.
Proof.
  intros dims lst. induction lst as [|k0 r IH]; intros data u0 Hnd Hr Hl Hu.
  - simpl. split; [exact Hu|]. intros; reflexivity.
  - destruct data as [|x0 dr]; [discriminate|]. simpl in Hl. inversion Hl as [Hl'].
    inversion Hnd as [|? ? Hnin Hnd']; subst. inversion Hr as [|? ? Hk0 Hr']; subst.
    simpl combine. simpl fold_left.
    assert (Ek : ravel dims (unravel dims (Z.to_nat k0)) = Z.to_nat k0).
    { apply ravel_unravel. lia. }
    specialize (IH dr (gstep dims u0 (k0, x0)) Hnd' Hr' Hl').
    assert (Hu1 : length (gstep dims u0 (k0, x0)) = prod dims).
    { unfold gstep. rewrite set_nth_length. exact Hu. }
    specialize (IH Hu1). cbv zeta in IH. destruct IH as [IHl IHn].
    split; [exact IHl|]. intros q Hq. rewrite IHn by exact Hq.
    simpl find_occ. rewrite find_occ_shift.
    destruct (Z.eqb_spec k0 (Z.of_nat q)) as [E|E].
    + rewrite find_occ_not_in by (rewrite <- E; exact Hnin). simpl.
      unfold gstep. simpl fst; simpl snd. rewrite Ek, nth_set_nth.
      replace (Z.to_nat k0) with q by lia. rewrite Nat.eqb_refl.
      destruct (Nat.ltb_spec q (length u0)); [reflexivity|lia].
    + destruct (find_occ (Z.of_nat q) 0 r 0) as [k|]; simpl; [reflexivity|].
      unfold gstep. simpl fst; simpl snd. rewrite Ek, nth_set_nth.
      destruct (Nat.eqb_spec q (Z.to_nat k0)); [exfalso; apply E; lia|]. reflexivity.
Qed.

(* For EVERY list vector of distinct in-range values (any order, sparse) over
   ANY product of compressed axes: position list[k] of the C-ordered block
   holds sample k and every other position is missing (CF 8.2). *)
Lemma gathered_block_spec : forall dims lst (data : list A),
  NoDup lst -> Forall (fun k => (0 <= k < Z.of_nat (prod dims))%Z) lst ->
  length lst = length data ->
  exists u, gathered_block miss dims lst data = Ok u /\ length u = prod dims /\
            forall q, (q < prod dims)%nat -> nth q u miss = gathered_spec miss lst data q.
Proof.
  intros dims lst data Hnd Hr Hl. unfold gathered_block.
  replace (forallb (fun k => (0 <=? k)%Z && (k <? Z.of_nat (prod dims))%Z) lst) with true.
  2:{ symmetry. apply forallb_forall. rewrite Forall_forall in Hr. intros k Hk.
      specialize (Hr k Hk). apply andb_true_iff. split; [apply Z.leb_le|apply Z.ltb_lt]; lia. }
  assert (Ed : match data with [x] => repeat x (length lst) | _ => data end = data).
  { destruct data as [|x [|y r]]; try reflexivity. rewrite Hl. reflexivity. }
  rewrite Ed, Hl, Nat.eqb_refl.
  destruct (gathered_fold dims lst data (repeat miss (prod dims)) Hnd Hr Hl (repeat_length _ _))
    as [Hlen Hn].
  eexists. splits; [reflexivity|exact Hlen|].
  intros q Hq. unfold gstep in Hn. rewrite Hn by exact Hq. unfold gathered_spec.
  destruct (find_occ (Z.of_nat q) 0 lst 0); [reflexivity|apply nth_repeat_miss].
Qed.

Lemma gathered_decode_spec : forall dims lst (blocks : list (list A)),
  NoDup lst -> Forall (fun k => (0 <= k < Z.of_nat (prod dims))%Z) lst ->
  Forall (fun b => length lst = length b) blocks ->
  exists us, gathered_decode miss dims lst blocks = Ok us /\ length us = length blocks /\
             Forall (fun u => length u = prod dims) us /\
             forall b q, (b < length blocks)%nat -> (q < prod dims)%nat ->
               nth q (nth b us []) miss = gathered_spec miss lst (nth b blocks []) q.
Proof.
  intros dims lst blocks Hnd Hr. induction blocks as [|b r IH]; intro Hb.
  - exists []. simpl. splits; auto. intros; lia.
  - inversion Hb as [|? ? Hb1 Hb2]; subst.
    destruct (gathered_block_spec dims lst b Hnd Hr Hb1) as [u [Hu [Hlu Hnu]]].
    destruct (IH Hb2) as [us [Hus [Hlus [Hf Hn]]]].
    exists (u :: us). simpl. rewrite Hu. simpl. rewrite Hus. simpl. splits; auto.
    intros k q Hk Hq. destruct k; [apply Hnu, Hq|apply Hn; [lia|exact Hq]].
Qed.

End Gathered.

(* ------------------------------------------------------------------ *)
(* Field.compress then read                                             *)
(* ------------------------------------------------------------------ *)
Lemma Forall2_nth_error : forall {B C} (R : B -> C -> Prop) l l',
  length l = length l' ->
  (forall k x y, nth_error l k = Some x -> nth_error l' k = Some y -> R x y) ->
  Forall2 R l l'.
Proof.
  induction l as [|x r IH]; intros [|y r'] Hl H; try discriminate; constructor.
  - apply (H 0%nat); reflexivity.
  - apply IH; [simpl in Hl; lia|]. intros k a b Ha Hb. apply (H (S k)); assumption.
Qed.

Section Roundtrip.
Context {V : Type}.
Notation cell := (option V).

Lemma derive_count_le_length : forall (r : list cell), (derive_count r <= length r)%nat.
Proof.
  induction r as [|x r IH]; simpl; [lia|].
  destruct (derive_count r); destruct x; simpl; lia.
Qed.

Lemma skipn_beyond_count : forall (r : list cell) c, (derive_count r <= c)%nat ->
  skipn c r = repeat None (length r - c).
Proof.
  induction r as [|x r IH]; intros c H.
  - rewrite skipn_nil. reflexivity.
  - simpl in H. destruct c.
    + simpl. destruct (derive_count r) eqn:E; destruct x; try lia.
      f_equal. assert (G : skipn 0 r = repeat None (length r - 0)) by (apply IH; lia).
      simpl in G. rewrite Nat.sub_0_r in G. exact G.
    + simpl. apply IH. destruct (derive_count r); destruct x; lia.
Qed.

(* trimming the trailing missing values and padding again is the identity *)
Lemma trim_pad : forall (r : list cell) c, (derive_count r <= c)%nat ->
  firstn c r ++ repeat None (length r - c) = r.
Proof.
  intros r c H. rewrite <- (skipn_beyond_count r c H). apply firstn_skipn.
Qed.

Lemma pack_cons : forall {B} c cs (r : list B) rs,
  pack (c :: cs) (r :: rs) = firstn c r ++ pack cs rs.
Proof. reflexivity. Qed.

(* [c] is an admissible count for row [r] of width [w]: nothing of [r] lies
   beyond it *)
Definition covers (w : nat) (c : nat) (r : list cell) : Prop :=
  (derive_count r <= c)%nat /\ (c <= w)%nat /\ length r = w.

Lemma assemble_pack : forall w (counts : list nat) (rows : list (list cell)) (pre : list cell),
  Forall2 (covers w) counts rows ->
  assemble None w (length rows) (contig_selectors (length pre) counts)
           (pre ++ pack counts rows) = Ok rows.
Proof.
  intros w counts rows pre H. revert pre.
  induction H as [|c r counts rows [Hc [Hcw Hr]] HF IH]; intro pre.
  - reflexivity.
  - rewrite pack_cons. simpl length. simpl contig_selectors.
    assert (Hfl : length (firstn c r) = c) by (rewrite firstn_length; lia).
    cbn [assemble select].
    assert (Esel : slice_list (length pre) (length pre + c) (pre ++ firstn c r ++ pack counts rows)
                   = firstn c r).
    { unfold slice_list. replace (length pre + c - length pre)%nat with c by lia.
      rewrite skipn_app, skipn_all, Nat.sub_diag. simpl.
      rewrite firstn_app, Hfl, Nat.sub_diag. simpl. rewrite app_nil_r.
      rewrite <- Hfl at 1. apply firstn_all. }
    rewrite Esel. cbn [rbind].
    assert (Erow : ragged_row None w (firstn c r) = Ok r).
    { pose proof (trim_pad r c Hc) as T. rewrite Hr in T.
      unfold ragged_row. destruct (firstn c r) as [|y ys] eqn:E.
      - simpl in Hfl. rewrite <- Hfl in T. simpl in T. rewrite Nat.sub_0_r in T. rewrite T. reflexivity.
      - rewrite Hfl. destruct (Nat.leb_spec c w); [|lia]. rewrite T. reflexivity. }
    rewrite Erow. cbn [rbind].
    replace (pre ++ firstn c r ++ pack counts rows)
      with ((pre ++ firstn c r) ++ pack counts rows) by (rewrite app_assoc; reflexivity).
    replace (length pre + c)%nat with (length (pre ++ firstn c r)) by (rewrite app_length, Hfl; reflexivity).
    rewrite IH. reflexivity.
Qed.

(* compress('contiguous') then read: identity on values and mask, for every
   rectangular masked 2-d array (all-missing rows included) packed with
   counts that cover it. *)
Lemma roundtrip_contiguous : forall w counts (rows : list (list cell)),
  Forall2 (covers w) counts rows ->
  contiguous_decode None (length rows) w counts (pack counts rows) = Ok rows.
Proof.
  intros w counts rows H. unfold contiguous_decode.
  apply (assemble_pack w counts rows [] H).
Qed.

(* ---- the counts Field.compress derives cover the field data and every
   construct on the same axes ---- *)
Definition rect (n w : nat) (a : list (list cell)) : Prop :=
  length a = n /\ Forall (fun r => length r = w) a.

Lemma zip_max_length : forall a b, length b = length a -> length (zip_max a b) = length a.
Proof.
  intros a b H. unfold zip_max. rewrite map_length, combine_length. lia.
Qed.

Lemma zip_max_nth : forall a b k, length b = length a ->
  nth k (zip_max a b) 0%nat = Nat.max (nth k a 0%nat) (nth k b 0%nat).
Proof.
  induction a as [|x a IH]; intros [|y b] k H; try discriminate.
  - destruct k; reflexivity.
  - destruct k; simpl; [reflexivity|]. apply IH. simpl in H. lia.
Qed.

(* [cnt] bounds row by row the derived counts of [a], within the width *)
Definition bounds_counts (w : nat) (cnt : list nat) (a : list (list cell)) : Prop :=
  forall k, (k < length a)%nat ->
    (derive_count (nth k a []) <= nth k cnt 0 <= w)%nat.

Lemma fold_counts_inv : forall n w (others : list (list (list cell))) (cnt : list nat),
  length cnt = n -> Forall (rect n w) others ->
  (forall k, (nth k cnt 0 <= w)%nat) ->
  let cnt' := fold_left (fun c o => zip_max c (map derive_count o)) others cnt in
  length cnt' = n /\ (forall k, (nth k cnt 0 <= nth k cnt' 0 <= w)%nat) /\
  Forall (bounds_counts w cnt') others.
Proof.
  intros n w others. induction others as [|o r IH]; intros cnt Hl HF Hw.
  - simpl. split; [exact Hl|]. split; [intro k; specialize (Hw k); lia|constructor].
  - inversion HF as [|? ? [Ho1 Ho2] HF']; subst. simpl fold_left.
    set (c1 := zip_max cnt (map derive_count o)).
    assert (Hlo : length (map derive_count o) = length cnt) by (rewrite map_length; lia).
    assert (Hl1 : length c1 = length cnt) by (unfold c1; rewrite zip_max_length; lia).
    assert (Hdo : forall k, (nth k (map derive_count o) 0 <= w)%nat).
    { intro k. destruct (Nat.lt_ge_cases k (length o)) as [Hk|Hk].
      - rewrite (nth_indep _ 0%nat (derive_count (@nil cell))) by (rewrite map_length; exact Hk).
        rewrite map_nth. rewrite Forall_forall in Ho2.
        rewrite <- (Ho2 (nth k o [])) by (apply nth_In; exact Hk). apply derive_count_le_length.
      - rewrite nth_overflow by (rewrite map_length; exact Hk). lia. }
    assert (Hw1 : forall k, (nth k c1 0 <= w)%nat).
    { intro k. unfold c1. rewrite zip_max_nth by exact Hlo. specialize (Hw k). specialize (Hdo k). lia. }
    destruct (IH c1 Hl1 HF' Hw1) as [A [B C]]. cbv zeta in A, B, C. cbv zeta. fold c1.
    split; [exact A|]. split.
    + intro k. specialize (B k). unfold c1 in B at 1. rewrite zip_max_nth in B by exact Hlo. lia.
    + constructor; [|exact C]. intros k Hk. specialize (B k). unfold c1 in B at 1.
      rewrite zip_max_nth in B by exact Hlo.
      rewrite (nth_indep (map derive_count o) 0%nat (derive_count (@nil cell))) in B
        by (rewrite map_length; exact Hk).
      rewrite map_nth in B. lia.
Qed.

Lemma bounds_covers : forall w (a : list (list cell)) (cnt : list nat),
  length cnt = length a -> Forall (fun r => length r = w) a -> bounds_counts w cnt a ->
  Forall2 (covers w) cnt a.
Proof.
  intros w a cnt Hl Hr Hb. apply Forall2_nth_error; [exact Hl|].
  intros k c r Hc Hrr.
  assert (Hk : (k < length a)%nat) by (apply nth_error_Some; rewrite Hrr; discriminate).
  specialize (Hb k Hk).
  rewrite (nth_error_nth _ _ _ Hc), (nth_error_nth _ _ _ Hrr) in Hb.
  unfold covers. rewrite Forall_forall in Hr. specialize (Hr r (nth_error_In _ _ Hrr)). lia.
Qed.

(* The counts of the repaired Field.compress cover the field data and every
   construct spanning the same axes: no guard is left. *)
Lemma derive_counts_cover : forall n w (rows : list (list cell)) others,
  rect n w rows -> Forall (rect n w) others ->
  Forall2 (covers w) (derive_counts rows others) rows /\
  Forall (fun o => Forall2 (covers w) (derive_counts rows others) o) others.
Proof.
  intros n w rows others [Hn Hr] HF. unfold derive_counts.
  assert (Hw0 : forall k, (nth k (map derive_count rows) 0 <= w)%nat).
  { intro k. destruct (Nat.lt_ge_cases k (length rows)) as [Hk|Hk].
    - rewrite (nth_indep _ 0%nat (derive_count (@nil cell))) by (rewrite map_length; exact Hk).
      rewrite map_nth. rewrite Forall_forall in Hr.
      rewrite <- (Hr (nth k rows [])) by (apply nth_In; exact Hk). apply derive_count_le_length.
    - rewrite nth_overflow by (rewrite map_length; exact Hk). lia. }
  destruct (fold_counts_inv n w others (map derive_count rows)) as [A [B C]];
    [rewrite map_length; exact Hn|exact HF|exact Hw0|]. cbv zeta in A, B, C.
  split.
  - apply bounds_covers; [lia|exact Hr|]. intros k Hk. specialize (B k).
    rewrite (nth_indep (map derive_count rows) 0%nat (derive_count (@nil cell))) in B
      by (rewrite map_length; exact Hk).
    rewrite map_nth in B. exact B.
  - rewrite Forall_forall in *. intros o Ho. destruct (HF o Ho) as [Ho1 Ho2].
    apply bounds_covers; [lia|exact Ho2|apply C, Ho].
Qed.

End Roundtrip.

Section RoundtripIndexed.
Context {V : Type}.
Notation cell := (option V).

Lemma positions_eq_app : forall l1 l2 i p,
  positions_eq i (l1 ++ l2) p = positions_eq i l1 p ++ positions_eq i l2 (p + length l1).
Proof.
  induction l1 as [|x r IH]; intros l2 i p; simpl.
  - rewrite Nat.add_0_r. reflexivity.
  - rewrite IH. replace (S p + length r)%nat with (p + S (length r))%nat by lia.
    destruct (Z.eqb x i); reflexivity.
Qed.

Lemma positions_eq_repeat : forall c k i p,
  positions_eq (Z.of_nat i) (repeat (Z.of_nat k) c) p = if Nat.eqb k i then seq p c else [].
Proof.
  induction c as [|c IH]; intros k i p; simpl.
  - destruct (Nat.eqb k i); reflexivity.
  - rewrite IH. destruct (Nat.eqb_spec k i) as [E|E].
    + subst. rewrite Z.eqb_refl. reflexivity.
    + destruct (Z.eqb_spec (Z.of_nat k) (Z.of_nat i)); [lia|reflexivity].
Qed.

Lemma positions_block : forall counts k p i,
  positions_eq (Z.of_nat i) (index_of_counts k counts) p =
  if (k <=? i)%nat && (i <? k + length counts)%nat
  then seq (p + sum (firstn (i - k) counts)) (nth (i - k) counts 0%nat)
  else [].
Proof.
  induction counts as [|c r IH]; intros k p i.
  - simpl. destruct (Nat.leb_spec k i); destruct (Nat.ltb_spec i (k + 0)); simpl; try reflexivity; lia.
  - simpl index_of_counts. rewrite positions_eq_app, positions_eq_repeat, repeat_length, IH.
    destruct (Nat.eqb_spec k i) as [E|E].
    + subst. replace (S i <=? i)%nat with false by (symmetry; apply Nat.leb_gt; lia).
      replace (i <=? i)%nat with true by (symmetry; apply Nat.leb_le; lia).
      replace (i <? i + length (c :: r))%nat with true by (symmetry; apply Nat.ltb_lt; simpl; lia).
      simpl. rewrite Nat.sub_diag. simpl. rewrite app_nil_r, Nat.add_0_r. reflexivity.
    + rewrite app_nil_l. destruct (Nat.leb_spec k i) as [Hki|Hki].
      * replace (S k <=? i)%nat with true by (symmetry; apply Nat.leb_le; lia).
        replace (i <? S k + length r)%nat with (i <? k + length (c :: r))%nat
          by (f_equal; simpl; lia).
        rewrite !andb_true_l. destruct (i <? k + length (c :: r))%nat; [|reflexivity].
        replace (i - k)%nat with (S (i - S k)) by lia.
        cbn [firstn nth]. unfold sum. cbn [fold_right]. fold (sum (firstn (i - S k) r)).
        f_equal. lia.
      * replace (S k <=? i)%nat with false by (symmetry; apply Nat.leb_gt; lia). reflexivity.
Qed.

Lemma skipn_cons_nth : forall {B} (l : list B) a d, (a < length l)%nat ->
  skipn a l = nth a l d :: skipn (S a) l.
Proof.
  induction l as [|x r IH]; intros a d H; simpl in H; [lia|].
  destruct a; [reflexivity|]. simpl. apply IH. lia.
Qed.

Lemma map_nth_seq : forall {B} (l : list B) d c a, (a + c <= length l)%nat ->
  map (fun p => nth p l d) (seq a c) = firstn c (skipn a l).
Proof.
  induction c as [|c IH]; intros a H; [reflexivity|].
  simpl seq. simpl map. rewrite (skipn_cons_nth l a d) by lia. simpl. f_equal. apply IH. lia.
Qed.

Lemma select_seq_slice : forall (data : list cell) a c, (a + c <= length data)%nat ->
  select None (SPos (seq a c)) data = select None (SSlice a (a + c)) data.
Proof.
  intros data a c H. rewrite select_positions.
  - simpl. unfold slice_list. replace (a + c - a)%nat with c by lia. rewrite map_nth_seq by exact H.
    reflexivity.
  - apply Forall_forall. intros p Hp. apply in_seq in Hp. lia.
Qed.

Lemma contig_selectors_length : forall counts start, length (contig_selectors start counts) = length counts.
Proof. induction counts; intros; simpl; auto. Qed.

Lemma sum_firstn_nth_le : forall counts k,
  (sum (firstn k counts) + nth k counts 0 <= sum counts)%nat.
Proof.
  induction counts as [|c r IH]; intros k.
  - destruct k; simpl; lia.
  - destruct k; simpl; [lia|]. specialize (IH k). unfold sum in *. simpl. lia.
Qed.

Lemma length_pack : forall (counts : list nat) (rows : list (list cell)),
  Forall2 (fun c r => (c <= length r)%nat) counts rows ->
  length (pack counts rows) = sum counts.
Proof.
  intros counts rows H. induction H as [|c r cs rs Hc HF IH]; [reflexivity|].
  rewrite pack_cons, app_length, firstn_length, IH. unfold sum; simpl. lia.
Qed.

Lemma indexed_as_contiguous : forall w nrows counts (data : list cell),
  length counts = nrows -> (sum counts <= length data)%nat ->
  indexed_decode None nrows w (index_of_counts 0 counts) data =
  contiguous_decode None nrows w counts data.
Proof.
  intros w nrows counts data Hn Hs. unfold indexed_decode, contiguous_decode.
  apply assemble_ext. apply Forall2_nth_error.
  - unfold indexed_selectors, instances. rewrite !map_length, seq_length, contig_selectors_length. lia.
  - intros k x y Hx Hy.
    assert (Hk : (k < nrows)%nat).
    { assert (Hne : nth_error (indexed_selectors (instances nrows) (index_of_counts 0 counts)) k <> None)
        by (rewrite Hx; discriminate).
      apply nth_error_Some in Hne. unfold indexed_selectors, instances in Hne.
      rewrite !map_length, seq_length in Hne. exact Hne. }
    unfold indexed_selectors in Hx. rewrite nth_error_map, nth_error_instances in Hx by exact Hk.
    simpl in Hx. inversion Hx; subst x. clear Hx.
    rewrite contig_selectors_nth in Hy.
    destruct (nth_error counts k) as [c|] eqn:E; [|discriminate]. inversion Hy; subst y. clear Hy.
    rewrite positions_block. simpl.
    replace (k <? length counts)%nat with true by (symmetry; apply Nat.ltb_lt; lia).
    rewrite Nat.sub_0_r.
    assert (Ec : nth k counts 0%nat = c) by (rewrite nth_error_nth_default, E; reflexivity).
    rewrite Ec. apply select_seq_slice.
    pose proof (sum_firstn_nth_le counts k). lia.
Qed.

Lemma Forall2_length_eq : forall {B C} (R : B -> C -> Prop) l l', Forall2 R l l' -> length l = length l'.
Proof. intros B C R l l' H. induction H; simpl; auto. Qed.

Lemma covers_length_pack : forall w counts (rows : list (list cell)),
  Forall2 (covers w) counts rows -> length (pack counts rows) = sum counts.
Proof.
  intros w counts rows H. apply length_pack.
  induction H as [|c r cs rs [Hc [Hcw Hr]] HF IH]; constructor; auto. lia.
Qed.

(* compress('indexed') then read: identity, all-missing features included *)
Lemma roundtrip_indexed : forall w counts (rows : list (list cell)),
  Forall2 (covers w) counts rows ->
  indexed_decode None (length rows) w (index_of_counts 0 counts) (pack counts rows) = Ok rows.
Proof.
  intros w counts rows H.
  pose proof (Forall2_length_eq _ _ _ H) as Hl.
  pose proof (covers_length_pack w counts rows H) as Hp.
  rewrite indexed_as_contiguous by (auto; lia).
  apply roundtrip_contiguous, H.
Qed.

End RoundtripIndexed.

(* ------------------------------------------------------------------ *)
(* the view presented by Data over any history of operations            *)
(* ------------------------------------------------------------------ *)
Section ViewLemmas.
Context {C U I W : Type}.
Context (decode : C -> U) (take : U -> I -> U) (put : U -> I -> W -> U).

Notation dstate := (@dstate C U).
Notation dop := (@Model.dop I W).
Notation drun := (drun decode take put).

(* reads - array, subspace, copy - never alter the compressed source *)
Lemma reads_keep_compressed : forall (ops : list dop) (s : dstate),
  forallb is_read ops = true -> drun s ops = s.
Proof.
  induction ops as [|o r IH]; intros s H; [reflexivity|].
  simpl in H. apply andb_true_iff in H as [Ho Hr].
  unfold Model.drun in *. simpl. destruct o; simpl in *; try discriminate; apply IH; exact Hr.
Qed.

Definition apply_op (u : U) (o : dop) : U :=
  match o with OAssign i v => put u i v | _ => u end.

(* over ANY history the user sees what the same history does to the
   uncompressed array: compression never shows *)
Lemma view_history : forall (ops : list dop) (s : dstate),
  view decode (drun s ops) = fold_left apply_op ops (view decode s).
Proof.
  induction ops as [|o r IH]; intros s; [reflexivity|].
  unfold Model.drun in *. simpl. rewrite IH. destruct o; reflexivity.
Qed.

(* after an assignment the data are held uncompressed *)
Lemma assigned_is_plain : forall (ops1 ops2 : list dop) i v (s : dstate),
  exists u, drun s (ops1 ++ OAssign i v :: ops2) = Plain u.
Proof.
  intros ops1 ops2 i v s. unfold Model.drun. rewrite fold_left_app. simpl.
  generalize (put (view decode (fold_left (fun s0 o => fst (dstep decode take put s0 o)) ops1 s)) i v).
  induction ops2 as [|o r IH]; intro u; simpl.
  - exists u. reflexivity.
  - destruct o; simpl; apply IH.
Qed.

End ViewLemmas.

(* ------------------------------------------------------------------ *)
(* ragged indexed contiguous                                            *)
(* ------------------------------------------------------------------ *)
Section IC.
Context {A : Type}.
Context (miss : A).

Lemma cumsum_from_length : forall l acc, length (cumsum_from acc l) = length l.
Proof. induction l; intros; simpl; auto. Qed.

Lemma cumsum_from_nth : forall l acc p, (p < length l)%nat ->
  nth p (cumsum_from acc l) 0%nat = (acc + sum (firstn (S p) l))%nat.
Proof.
  induction l as [|x r IH]; intros acc p H; simpl in H; [lia|].
  destruct p.
  - simpl. unfold sum. simpl. lia.
  - cbn [cumsum_from nth]. rewrite IH by lia.
    change (firstn (S (S p)) (x :: r)) with (x :: firstn (S p) r).
    unfold sum. cbn [fold_right]. lia.
Qed.

Lemma sum_firstn_S : forall l p, (p < length l)%nat ->
  sum (firstn (S p) l) = (sum (firstn p l) + nth p l 0)%nat.
Proof.
  induction l as [|x r IH]; intros p H; simpl in H; [lia|].
  destruct p.
  - unfold sum. simpl. lia.
  - change (firstn (S (S p)) (x :: r)) with (x :: firstn (S p) r).
    change (firstn (S p) (x :: r)) with (x :: firstn p r).
    unfold sum in *. cbn [fold_right nth]. rewrite IH by lia. lia.
Qed.

Lemma profile_slice_eq : forall counts p, (p < length counts)%nat ->
  profile_slice (cumsum counts) p =
  SSlice (sum (firstn p counts)) (sum (firstn p counts) + nth p counts 0%nat).
Proof.
  intros counts p H. unfold profile_slice, cumsum.
  rewrite cumsum_from_nth by exact H. rewrite sum_firstn_S by exact H. simpl plus.
  destruct p as [|p']; [reflexivity|].
  rewrite cumsum_from_nth by lia. reflexivity.
Qed.

Definition fsel (nprof : nat) (cps : list nat) (index : list Z) (i : Z) : list selector :=
  let locs := positions_eq i index 0 in
  map (profile_slice cps) locs ++ repeat (SSlice 0 0) (nprof - length locs).

Lemma ic_feature_ok : forall nprof cps index i, (length index <= length cps)%nat ->
  ic_feature_selectors nprof cps index i = Ok (fsel nprof cps index i).
Proof.
  intros nprof cps index i H. unfold ic_feature_selectors, fsel.
  replace (forallb (fun j => (j <? length cps)%nat) (positions_eq i index 0)) with true; [reflexivity|].
  symmetry. apply forallb_forall. intros p Hp.
  pose proof (positions_eq_bound index i 0) as B. rewrite Forall_forall in B.
  specialize (B p Hp). apply Nat.ltb_lt. lia.
Qed.

Lemma ic_selectors_ok : forall nprof cps index feats, (length index <= length cps)%nat ->
  ic_selectors nprof cps index feats = Ok (concat (map (fsel nprof cps index) feats)).
Proof.
  intros nprof cps index feats H. induction feats as [|i r IH]; [reflexivity|].
  simpl. rewrite ic_feature_ok by exact H. simpl. rewrite IH. reflexivity.
Qed.

Lemma fsel_length : forall nprof cps index i,
  (count_occ Z.eq_dec index i <= nprof)%nat -> length (fsel nprof cps index i) = nprof.
Proof.
  intros. unfold fsel. rewrite app_length, map_length, repeat_length, length_positions_eq. lia.
Qed.

Lemma nth_error_concat_uniform : forall {B} n (bs : list (list B)) i j,
  Forall (fun b => length b = n) bs -> (j < n)%nat ->
  nth_error (concat bs) (i * n + j) =
  match nth_error bs i with Some b => nth_error b j | None => None end.
Proof.
  intros B n bs. induction bs as [|b r IH]; intros i j HF Hj.
  - simpl. destruct (i * n + j)%nat; destruct i; reflexivity.
  - inversion HF as [|? ? Hb Hr]; subst. simpl concat. destruct i.
    + simpl. rewrite nth_error_app1 by lia. reflexivity.
    + rewrite nth_error_app2 by (simpl; lia).
      replace (S i * length b + j - length b)%nat with (i * length b + j)%nat by (simpl; lia).
      simpl. apply IH; assumption.
Qed.

Lemma chunks_spec : forall {B} n k (l : list B), length l = (n * k)%nat ->
  length (chunks n k l) = n /\ Forall (fun c => length c = k) (chunks n k l) /\
  forall i j d, (i < n)%nat -> (j < k)%nat -> nth j (nth i (chunks n k l) []) d = nth (i * k + j) l d.
Proof.
  intros B n k. induction n as [|n IH]; intros l Hl.
  - simpl. splits; auto. intros; lia.
  - simpl chunks. destruct (IH (skipn k l)) as [H1 [H2 H3]].
    { rewrite skipn_length, Hl. simpl. lia. }
    splits.
    + simpl. rewrite H1. reflexivity.
    + constructor; [|exact H2]. rewrite firstn_length, Hl. simpl. lia.
    + intros i j d Hi Hj. destruct i.
      * simpl. rewrite <- (firstn_skipn k l) at 2. rewrite app_nth1; [reflexivity|].
        rewrite firstn_length, Hl. simpl. lia.
      * cbn [nth]. rewrite H3 by lia.
        rewrite <- (firstn_skipn k l) at 2. rewrite app_nth2.
        -- f_equal. rewrite firstn_length, Hl. simpl. lia.
        -- rewrite firstn_length, Hl. simpl. lia.
Qed.

Lemma nth_error_map_some : forall {B C} (f : B -> C) l j,
  nth_error (map f l) j = option_map f (nth_error l j).
Proof. intros. apply nth_error_map. Qed.

(* the selector of profile slot (i, j) *)
Lemma fsel_nth : forall nprof counts index i j,
  (length index <= length counts)%nat -> (j < nprof)%nat ->
  (count_occ Z.eq_dec index i <= nprof)%nat ->
  nth_error (fsel nprof (cumsum counts) index i) j =
  Some (match find_occ i j index 0 with
        | Some p => SSlice (sum (firstn p counts)) (sum (firstn p counts) + nth p counts 0%nat)
        | None => SSlice 0 0
        end).
Proof.
  intros nprof counts index i j Hl Hj Hc. unfold fsel. rewrite find_occ_positions.
  set (locs := positions_eq i index 0).
  assert (Hlen : length locs = count_occ Z.eq_dec index i) by apply length_positions_eq.
  destruct (Nat.lt_ge_cases j (length locs)) as [Hlt|Hge].
  - rewrite nth_error_app1 by (rewrite map_length; exact Hlt).
    rewrite nth_error_map. destruct (nth_error locs j) as [p|] eqn:E.
    + simpl. f_equal. apply profile_slice_eq.
      pose proof (positions_eq_bound index i 0) as B. rewrite Forall_forall in B.
      specialize (B p (nth_error_In _ _ E)). lia.
    + apply nth_error_None in E. lia.
  - rewrite nth_error_app2 by (rewrite map_length; exact Hge). rewrite map_length.
    rewrite (proj2 (nth_error_None locs j)) by exact Hge.
    rewrite (nth_error_nth' _ (SSlice 0 0)) by (rewrite repeat_length; lia).
    f_equal. apply nth_repeat_miss.
Qed.

Lemma ic_decode_spec : forall nfeat nprof w counts index (data : list A),
  (length index <= length counts)%nat ->
  Forall (fun c => (c <= w)%nat) counts ->
  (forall i, (i < nfeat)%nat -> (count_occ Z.eq_dec index (Z.of_nat i) <= nprof)%nat) ->
  exists u, ic_decode miss nfeat nprof w counts index data = Ok u /\
            length u = nfeat /\ Forall (fun f => length f = nprof) u /\
            forall i j k, (i < nfeat)%nat -> (j < nprof)%nat ->
              nth k (nth j (nth i u []) []) miss = ic_spec miss counts index data i j k.
Proof.
  intros nfeat nprof w counts index data Hl Hw Hp.
  unfold ic_decode, ic_decode_with.
  assert (Hcl : (length index <= length (cumsum counts))%nat)
    by (unfold cumsum; rewrite cumsum_from_length; exact Hl).
  rewrite ic_selectors_ok by exact Hcl. cbn [rbind].
  set (sels := concat (map (fsel nprof (cumsum counts) index) (instances nfeat))).
  assert (HF : Forall (fun b => length b = nprof) (map (fsel nprof (cumsum counts) index) (instances nfeat))).
  { apply Forall_forall. intros b Hb. apply in_map_iff in Hb as [z [Hz Hin]]. subst b.
    unfold instances in Hin. apply in_map_iff in Hin as [i [Hi Hin]]. subst z.
    apply in_seq in Hin. apply fsel_length, Hp. lia. }
  assert (Hsel : forall i j, (i < nfeat)%nat -> (j < nprof)%nat ->
            nth_error sels (i * nprof + j) =
            Some (match find_occ (Z.of_nat i) j index 0 with
                  | Some p => SSlice (sum (firstn p counts)) (sum (firstn p counts) + nth p counts 0%nat)
                  | None => SSlice 0 0
                  end)).
  { intros i j Hi Hj. unfold sels. rewrite (nth_error_concat_uniform nprof) by assumption.
    rewrite nth_error_map, nth_error_instances by exact Hi. simpl.
    apply fsel_nth; auto. }
  assert (Hdiv : forall r, (r < nfeat * nprof)%nat ->
            exists i j, (i < nfeat)%nat /\ (j < nprof)%nat /\ r = (i * nprof + j)%nat).
  { intros r Hr. assert (Hn : nprof <> 0%nat) by (intro; subst; lia).
    exists (r / nprof)%nat, (r mod nprof)%nat. splits.
    - apply Nat.div_lt_upper_bound; [exact Hn|lia].
    - apply Nat.mod_upper_bound, Hn.
    - pose proof (Nat.div_mod r nprof Hn). lia. }
  destruct (assemble_spec miss w data sels (nfeat * nprof)) as [rows [Hr [Hrl [Hrf Hrn]]]].
  { intros r s Hrlt Hs. destruct (Hdiv r Hrlt) as [i [j [Hi [Hj E]]]]. subst r.
    rewrite Hsel in Hs by assumption. inversion Hs; subst s. clear Hs.
    destruct (find_occ (Z.of_nat i) j index 0) as [p|] eqn:Ef.
    - eexists. split; [reflexivity|]. eapply Nat.le_trans; [apply length_slice_le|].
      destruct (Nat.lt_ge_cases p (length counts)) as [Hpl|Hpl].
      + rewrite Forall_forall in Hw. apply Hw. apply nth_In. exact Hpl.
      + rewrite nth_overflow by exact Hpl. lia.
    - eexists. split; [reflexivity|]. simpl. lia. }
  rewrite Hr. cbn [rbind].
  destruct (chunks_spec nfeat nprof rows Hrl) as [C1 [C2 C3]].
  eexists. splits; [reflexivity|exact C1|exact C2|].
  intros i j k Hi Hj. rewrite C3 by assumption.
  assert (Hlt : (i * nprof + j < nfeat * nprof)%nat) by nia.
  rewrite Hrn by exact Hlt. unfold sel_at, ic_spec. rewrite Hsel by assumption.
  destruct (find_occ (Z.of_nat i) j index 0) as [p|].
  - cbn [select]. unfold contig_spec. apply nth_slice.
  - cbn [select]. unfold slice_list. simpl. destruct k; reflexivity.
Qed.

End IC.

(* ------------------------------------------------------------------ *)
(* compress('indexed_contiguous') then read: the full round trip         *)
(* ------------------------------------------------------------------ *)
Lemma sum_app : forall a b, sum (a ++ b) = (sum a + sum b)%nat.
Proof. induction a as [|x a IH]; intro b; [reflexivity|]. unfold sum in *. simpl. rewrite IH. lia. Qed.

Lemma sum_repeat_0 : forall n, sum (repeat 0%nat n) = 0%nat.
Proof. induction n; [reflexivity|]. unfold sum in *. simpl. exact IHn. Qed.

Lemma length_concat_sum : forall {B} (bs : list (list B)),
  length (concat bs) = sum (map (@length B) bs).
Proof.
  induction bs as [|b r IH]; [reflexivity|]. simpl. rewrite app_length, IH. reflexivity.
Qed.

(* position sum(len(b) for b in bs[:i]) + j of concat bs is position j of bs[i] *)
Lemma firstn_concat_at : forall {B} (bs : list (list B)) i j b,
  nth_error bs i = Some b -> (j <= length b)%nat ->
  firstn (sum (map (@length B) (firstn i bs)) + j) (concat bs) = concat (firstn i bs) ++ firstn j b.
Proof.
  induction bs as [|a r IH]; intros i j b Hb Hj; [destruct i; discriminate|].
  destruct i.
  - inversion Hb; subst. simpl. rewrite firstn_app.
    replace (j - length b)%nat with 0%nat by lia. simpl. rewrite app_nil_r. reflexivity.
  - simpl in Hb. cbn [firstn map concat]. unfold sum. cbn [fold_right].
    fold (sum (map (@length B) (firstn i r))).
    rewrite <- Nat.add_assoc, firstn_app_2, (IH i j b Hb Hj), app_assoc. reflexivity.
Qed.

Lemma nth_error_concat_at : forall {B} (bs : list (list B)) i j b,
  nth_error bs i = Some b -> (j < length b)%nat ->
  nth_error (concat bs) (sum (map (@length B) (firstn i bs)) + j) = nth_error b j.
Proof.
  induction bs as [|a r IH]; intros i j b Hb Hj; [destruct i; discriminate|].
  destruct i.
  - inversion Hb; subst. simpl. apply nth_error_app1. exact Hj.
  - simpl in Hb. cbn [firstn map concat]. unfold sum. cbn [fold_right].
    fold (sum (map (@length B) (firstn i r))).
    rewrite nth_error_app2 by lia.
    replace (length a + sum (map (@length B) (firstn i r)) + j - length a)%nat
      with (sum (map (@length B) (firstn i r)) + j)%nat by lia.
    apply IH; assumption.
Qed.

Lemma sum_map_length_uniform : forall {B} n (bs : list (list B)),
  Forall (fun b => length b = n) bs -> sum (map (@length B) bs) = (length bs * n)%nat.
Proof.
  intros B n bs H. induction H as [|b r Hb HF IH]; [reflexivity|].
  unfold sum in *. simpl. rewrite IH, Hb. reflexivity.
Qed.

Lemma Forall_firstn : forall {B} (P : B -> Prop) n l, Forall P l -> Forall P (firstn n l).
Proof.
  intros B P n l H. revert n. induction H; intros [|n]; simpl; constructor; auto.
Qed.

Lemma nth_error_firstn_lt : forall {B} (l : list B) n j, (j < n)%nat ->
  nth_error (firstn n l) j = nth_error l j.
Proof.
  induction l as [|x l IH]; intros n j H; [rewrite firstn_nil; reflexivity|].
  destruct n; [lia|]. destruct j; simpl; [reflexivity|]. apply IH. lia.
Qed.

(* the stored profiles of every feature *)
Definition trim_profiles (c : list nat) : list nat := firstn (n_profiles c) c.

Lemma kept_profiles_map : forall cs, kept_profiles cs = map trim_profiles cs.
Proof.
  unfold kept_profiles. induction cs as [|c r IH]; [reflexivity|]. simpl. rewrite IH. reflexivity.
Qed.

Lemma n_profiles_le_length : forall cs, (n_profiles cs <= length cs)%nat.
Proof.
  induction cs as [|c r IH]; simpl; [lia|].
  destruct (n_profiles r); destruct c; simpl; lia.
Qed.

Lemma skipn_n_profiles : forall cs n, (n_profiles cs <= n)%nat ->
  skipn n cs = repeat 0%nat (length cs - n).
Proof.
  induction cs as [|c r IH]; intros n H.
  - rewrite skipn_nil. reflexivity.
  - simpl in H. destruct n.
    + simpl. destruct (n_profiles r) eqn:E; destruct c; try lia.
      f_equal. assert (G : skipn 0 r = repeat 0%nat (length r - 0)) by (apply IH; lia).
      simpl in G. rewrite Nat.sub_0_r in G. exact G.
    + simpl. apply IH. destruct (n_profiles r); destruct c; lia.
Qed.

(* the profiles that compress('indexed_contiguous') does not store are exactly
   a feature's trailing empty ones: every stored or dropped profile keeps its
   position *)
Lemma n_profiles_trim : forall cs,
  firstn (n_profiles cs) cs ++ repeat 0%nat (length cs - n_profiles cs) = cs.
Proof.
  intros cs. rewrite <- (skipn_n_profiles cs (n_profiles cs) (le_n _)). apply firstn_skipn.
Qed.

(* and no shorter prefix would do: the last stored profile is non-empty *)
Lemma n_profiles_last_nonempty : forall cs n, n_profiles cs = S n -> nth n cs 0%nat <> 0%nat.
Proof.
  induction cs as [|c r IH]; intros n H; simpl in H; [discriminate|].
  destruct (n_profiles r) eqn:E.
  - destruct c; [discriminate|]. inversion H; subst. simpl. discriminate.
  - inversion H; subst. simpl. apply IH. reflexivity.
Qed.

Lemma trim_profiles_length : forall c, length (trim_profiles c) = n_profiles c.
Proof. intro c. unfold trim_profiles. rewrite firstn_length. pose proof (n_profiles_le_length c). lia. Qed.

Lemma sum_trim_profiles : forall c, sum (trim_profiles c) = sum c.
Proof.
  intro c. rewrite <- (n_profiles_trim c) at 2. rewrite sum_app, sum_repeat_0. unfold trim_profiles. lia.
Qed.

Lemma sum_concat_trim : forall cs, sum (concat (map trim_profiles cs)) = sum (concat cs).
Proof.
  induction cs as [|c r IH]; [reflexivity|]. simpl. rewrite !sum_app, IH, sum_trim_profiles. reflexivity.
Qed.

Lemma nth_beyond_n_profiles : forall c j, (n_profiles c <= j)%nat -> nth j c 0%nat = 0%nat.
Proof.
  intros c j H. rewrite <- (firstn_skipn j c) at 1.
  destruct (Nat.lt_ge_cases j (length c)) as [Hj|Hj].
  - rewrite app_nth2 by (rewrite firstn_length; lia).
    rewrite firstn_length, skipn_n_profiles by exact H.
    replace (j - Nat.min j (length c))%nat with 0%nat by lia.
    destruct (length c - j)%nat; reflexivity.
  - rewrite firstn_skipn. apply nth_overflow. exact Hj.
Qed.

Lemma index_of_counts_length : forall l k, length (index_of_counts k l) = sum l.
Proof.
  induction l as [|c r IH]; intro k; [reflexivity|].
  simpl. rewrite app_length, repeat_length, IH. reflexivity.
Qed.

Lemma chunks_concat : forall {B} k (bs : list (list B)),
  Forall (fun b => length b = k) bs -> chunks (length bs) k (concat bs) = bs.
Proof.
  intros B k bs H. induction H as [|b r Hb HF IH]; [reflexivity|].
  simpl. rewrite firstn_app, <- Hb, firstn_all, Nat.sub_diag. simpl. rewrite app_nil_r.
  rewrite skipn_app, skipn_all, Nat.sub_diag. simpl. rewrite Hb, IH. reflexivity.
Qed.

Section RoundtripIC.
Context {V : Type}.
Notation cell := (option V).

(* [cs] gives every feature [nprof] profile counts that cover its profiles *)
Definition covers3 (nprof w : nat) (cs : list (list nat)) (rows : list (list (list cell))) : Prop :=
  Forall2 (fun c f => length c = nprof /\ Forall2 (covers w) c f) cs rows.

Lemma covers3_flat : forall nprof w cs rows, covers3 nprof w cs rows ->
  Forall2 (covers w) (concat cs) (concat rows) /\
  Forall (fun c => length c = nprof) cs /\ Forall (fun f => length f = nprof) rows /\
  length cs = length rows.
Proof.
  intros nprof w cs rows H. induction H as [|c f cs rows [Hc Hf] HF [IH1 [IH2 [IH3 IH4]]]].
  - repeat split; constructor.
  - splits.
    + simpl. apply Forall2_app; assumption.
    + constructor; assumption.
    + constructor; [|assumption]. rewrite <- (Forall2_length_eq _ _ _ Hf). exact Hc.
    + simpl. rewrite IH4. reflexivity.
Qed.

Lemma roundtrip_ic : forall nprof w cs (rows : list (list (list cell))),
  covers3 nprof w cs rows ->
  let '(counts, index, data) := compress_ic cs rows in
  ic_decode None (length rows) nprof w counts index data = Ok rows.
Proof.
  intros nprof w cs rows H. unfold compress_ic. rewrite kept_profiles_map.
  destruct (covers3_flat nprof w cs rows H) as [Hflat [Hcs [Hrows Hlen]]].
  set (blocks := map trim_profiles cs).
  set (np := map n_profiles cs).
  set (cv := concat blocks). set (iv := index_of_counts 0 np).
  set (cd := pack (concat cs) (concat rows)).
  set (nfeat := length rows).
  assert (Hnp : map (@length nat) blocks = np).
  { unfold blocks, np. rewrite map_map. apply map_ext. apply trim_profiles_length. }
  assert (Hlcv : length cv = sum np) by (unfold cv; rewrite length_concat_sum, Hnp; reflexivity).
  assert (Hliv : length iv = sum np) by (unfold iv; apply index_of_counts_length).
  assert (Hlnp : length np = nfeat) by (unfold np; rewrite map_length; exact Hlen).
  assert (Hnpi : forall i c, nth_error cs i = Some c ->
            nth i np 0%nat = n_profiles c /\ (n_profiles c <= nprof)%nat).
  { intros i c Hc. split.
    - unfold np. rewrite (nth_indep _ 0%nat (n_profiles [])) by
        (rewrite map_length; apply nth_error_Some; rewrite Hc; discriminate).
      rewrite map_nth. f_equal. apply nth_error_nth with (d := []) in Hc. exact Hc.
    - rewrite Forall_forall in Hcs. rewrite <- (Hcs c (nth_error_In _ _ Hc)).
      apply n_profiles_le_length. }
  (* the positions of feature i in the index variable *)
  assert (Hpos : forall i, (i < nfeat)%nat ->
            positions_eq (Z.of_nat i) iv 0 = seq (sum (firstn i np)) (nth i np 0%nat)).
  { intros i Hi. unfold iv. rewrite positions_block. simpl.
    rewrite Nat.sub_0_r. replace (i <? length np)%nat with true; [reflexivity|].
    symmetry. apply Nat.ltb_lt. lia. }
  unfold ic_decode, ic_decode_with.
  rewrite ic_selectors_ok by (unfold cumsum; rewrite cumsum_from_length; lia).
  cbn [rbind].
  set (sels := concat (map (fsel nprof (cumsum cv) iv) (instances nfeat))).
  assert (Hocc : forall i, (i < nfeat)%nat -> (count_occ Z.eq_dec iv (Z.of_nat i) <= nprof)%nat).
  { intros i Hi. rewrite <- length_positions_eq with (p := 0%nat), Hpos, seq_length by exact Hi.
    destruct (nth_error cs i) as [c|] eqn:E.
    - destruct (Hnpi i c E) as [E1 E2]. rewrite E1. exact E2.
    - apply nth_error_None in E. lia. }
  assert (HF : Forall (fun b => length b = nprof) (map (fsel nprof (cumsum cv) iv) (instances nfeat))).
  { apply Forall_forall. intros b Hb. apply in_map_iff in Hb as [z [Hz Hin]]. subst b.
    unfold instances in Hin. apply in_map_iff in Hin as [i [Hi Hin]]. subst z.
    apply in_seq in Hin. apply fsel_length, Hocc. lia. }
  assert (Hsl : length sels = (nfeat * nprof)%nat).
  { unfold sels. rewrite length_concat_sum, (sum_map_length_uniform nprof) by exact HF.
    unfold instances. rewrite !map_length, seq_length. reflexivity. }
  assert (Hcl : length (concat cs) = (nfeat * nprof)%nat).
  { rewrite length_concat_sum, (sum_map_length_uniform nprof) by exact Hcs. rewrite Hlen. reflexivity. }
  assert (Hrl : length (concat rows) = (nfeat * nprof)%nat).
  { rewrite length_concat_sum, (sum_map_length_uniform nprof) by exact Hrows. reflexivity. }
  assert (Hdata : length cd = sum (concat cs)) by (apply (covers_length_pack w), Hflat).
  (* slot by slot the selections are those of the contiguous decoding of all profiles *)
  assert (Hext : Forall2 (fun s s' => select None s cd = select None s' cd)
                   sels (contig_selectors 0 (concat cs))).
  { apply Forall2_nth_error; [rewrite contig_selectors_length; lia|].
    intros r x y Hx Hy.
    assert (Hr : (r < nfeat * nprof)%nat).
    { rewrite <- Hsl. apply nth_error_Some. rewrite Hx. discriminate. }
    assert (Hn : nprof <> 0%nat) by (intro; subst nprof; lia).
    set (i := (r / nprof)%nat). set (j := (r mod nprof)%nat).
    assert (Hi : (i < nfeat)%nat) by (apply Nat.div_lt_upper_bound; [exact Hn|lia]).
    assert (Hj : (j < nprof)%nat) by (apply Nat.mod_upper_bound, Hn).
    assert (Er : r = (i * nprof + j)%nat) by (pose proof (Nat.div_mod r nprof Hn); unfold i, j; lia).
    destruct (nth_error cs i) as [c|] eqn:Ec; [|apply nth_error_None in Ec; lia].
    destruct (Hnpi i c Ec) as [Enp Hle].
    assert (Hlc : length c = nprof).
    { rewrite Forall_forall in Hcs. apply Hcs. eapply nth_error_In; eauto. }
    (* the contiguous selector of slot r *)
    rewrite contig_selectors_nth in Hy.
    assert (Ecc : nth_error (concat cs) r = nth_error c j).
    { rewrite Er, (nth_error_concat_uniform nprof) by assumption. rewrite Ec. reflexivity. }
    rewrite Ecc in Hy.
    destruct (nth_error c j) as [cj|] eqn:Ecj; [|apply nth_error_None in Ecj; lia].
    inversion Hy; subst y. clear Hy. simpl plus.
    assert (Esum : sum (firstn r (concat cs)) = (sum (concat (firstn i cs)) + sum (firstn j c))%nat).
    { assert (Ei : (i * nprof)%nat = sum (map (@length nat) (firstn i cs))).
      { rewrite (sum_map_length_uniform nprof) by (apply Forall_firstn; exact Hcs).
        rewrite firstn_length. replace (Nat.min i (length cs)) with i by lia. reflexivity. }
      rewrite Er, Ei, (firstn_concat_at cs i j c Ec) by lia. apply sum_app. }
    (* the selector the indexed contiguous array builds for slot r *)
    unfold sels in Hx. rewrite Er, (nth_error_concat_uniform nprof) in Hx by assumption.
    rewrite nth_error_map, nth_error_instances in Hx by exact Hi. simpl in Hx.
    rewrite fsel_nth in Hx by (auto; lia).
    inversion Hx; subst x. clear Hx.
    rewrite find_occ_positions, Hpos, Enp by exact Hi.
    destruct (Nat.lt_ge_cases j (n_profiles c)) as [Hjn|Hjn].
    - rewrite (nth_error_nth' _ 0%nat) by (rewrite seq_length; exact Hjn).
      rewrite seq_nth by exact Hjn.
      set (p := (sum (firstn i np) + j)%nat).
      assert (Eb : nth_error blocks i = Some (trim_profiles c)).
      { unfold blocks. rewrite nth_error_map, Ec. reflexivity. }
      assert (Epi : sum (firstn i np) = sum (map (@length nat) (firstn i blocks))).
      { rewrite <- Hnp, firstn_map. reflexivity. }
      assert (E1 : sum (firstn p cv) = sum (firstn r (concat cs))).
      { unfold p, cv. rewrite Epi, (firstn_concat_at blocks i j _ Eb)
          by (rewrite trim_profiles_length; lia).
        rewrite sum_app, Esum. f_equal.
        - unfold blocks. rewrite firstn_map. apply sum_concat_trim.
        - unfold trim_profiles. rewrite firstn_firstn. f_equal. f_equal. lia. }
      assert (E2 : nth p cv 0%nat = cj).
      { assert (G : nth_error cv p = Some cj).
        { unfold p, cv. rewrite Epi, (nth_error_concat_at blocks i j _ Eb)
            by (rewrite trim_profiles_length; exact Hjn).
          unfold trim_profiles. rewrite nth_error_firstn_lt by exact Hjn. exact Ecj. }
        apply nth_error_nth with (d := 0%nat) in G. exact G. }
      rewrite E1, E2. reflexivity.
    - rewrite (proj2 (nth_error_None _ _)) by (rewrite seq_length; exact Hjn).
      assert (Ez : cj = 0%nat).
      { apply nth_error_nth with (d := 0%nat) in Ecj. rewrite <- Ecj.
        apply nth_beyond_n_profiles. exact Hjn. }
      subst cj. cbn [select]. unfold slice_list. rewrite Nat.add_0_r, !Nat.sub_diag. reflexivity. }
  rewrite (assemble_ext None w cd sels (contig_selectors 0 (concat cs)) (nfeat * nprof) Hext).
  rewrite <- Hrl.
  change (contig_selectors 0 (concat cs)) with (contig_selectors (length (@nil cell)) (concat cs)).
  change cd with ([] ++ cd). unfold cd.
  rewrite (assemble_pack w (concat cs) (concat rows) [] Hflat). cbn [rbind].
  unfold nfeat. rewrite (chunks_concat nprof rows Hrows). reflexivity.
Qed.

End RoundtripIC.

(* ------------------------------------------------------------------ *)
(* file level: the variables written for a compressed field, decoded by  *)
(* the independent CF decoder of Spec, give back the array               *)
(* ------------------------------------------------------------------ *)
Section FileLevel.
Context {V : Type}.
Notation cell := (option V).

Lemma covers_le_width : forall w counts (rows : list (list cell)),
  Forall2 (covers w) counts rows -> Forall (fun c => (c <= w)%nat) counts.
Proof. intros w counts rows H. induction H as [|c r cs rs [_ [Hc _]] _ IH]; constructor; auto. Qed.

Lemma file_decode_contiguous : forall w counts (rows : list (list cell)),
  Forall2 (covers w) counts rows ->
  forall i j, (i < length rows)%nat ->
    contig_spec None counts (pack counts rows) i j = nth j (nth i rows []) None.
Proof.
  intros w counts rows H i j Hi.
  destruct (contiguous_decode_spec None (length rows) w counts (pack counts rows)
              (covers_le_width w counts rows H)) as [u [Hu [_ [_ Hn]]]].
  rewrite (roundtrip_contiguous w counts rows H) in Hu. inversion Hu; subst u.
  symmetry. apply Hn, Hi.
Qed.

Lemma count_occ_index_of_counts : forall counts k i,
  count_occ Z.eq_dec (index_of_counts k counts) (Z.of_nat i) =
  if (k <=? i)%nat && (i <? k + length counts)%nat then nth (i - k) counts 0%nat else 0%nat.
Proof.
  intros counts k i. rewrite <- length_positions_eq with (p := 0%nat), positions_block.
  destruct ((k <=? i)%nat && (i <? k + length counts)%nat); [apply seq_length|reflexivity].
Qed.

Lemma file_decode_indexed : forall w counts (rows : list (list cell)),
  Forall2 (covers w) counts rows ->
  forall i j, (i < length rows)%nat ->
    indexed_spec None (index_of_counts 0 counts) (pack counts rows) i j = nth j (nth i rows []) None.
Proof.
  intros w counts rows H i j Hi.
  pose proof (covers_le_width w counts rows H) as Hw.
  destruct (indexed_decode_spec None (length rows) w (index_of_counts 0 counts) (pack counts rows))
    as [u [Hu [_ [_ Hn]]]].
  - rewrite index_of_counts_length, (covers_length_pack w counts rows H). lia.
  - intros k Hk. rewrite count_occ_index_of_counts. simpl. rewrite Nat.sub_0_r.
    destruct (k <? length counts)%nat eqn:E; [|lia].
    apply Nat.ltb_lt in E. rewrite Forall_forall in Hw. apply Hw, nth_In, E.
  - rewrite (roundtrip_indexed w counts rows H) in Hu. inversion Hu; subst u.
    symmetry. apply Hn, Hi.
Qed.

Lemma file_decode_ic : forall nprof w cs (rows : list (list (list cell))),
  covers3 nprof w cs rows ->
  let '(counts, index, data) := compress_ic cs rows in
  forall i j k, (i < length rows)%nat -> (j < nprof)%nat ->
    ic_spec None counts index data i j k = nth k (nth j (nth i rows []) []) None.
Proof.
  intros nprof w cs rows H.
  pose proof (roundtrip_ic nprof w cs rows H) as R.
  destruct (covers3_flat nprof w cs rows H) as [Hflat [Hcs [Hrows Hlen]]].
  unfold compress_ic in *. rewrite kept_profiles_map in *.
  intros i j k Hi Hj.
  set (cv := concat (map trim_profiles cs)) in *.
  set (iv := index_of_counts 0 (map n_profiles cs)) in *.
  set (cd := pack (concat cs) (concat rows)) in *.
  destruct (ic_decode_spec None (length rows) nprof w cv iv cd) as [u [Hu [_ [_ Hn]]]].
  - unfold iv, cv. rewrite index_of_counts_length, length_concat_sum, map_map.
    erewrite map_ext; [apply Nat.le_refl|]. intro c. symmetry. apply trim_profiles_length.
  - unfold cv. apply Forall_concat. apply Forall_forall. intros b Hb.
    apply in_map_iff in Hb as [c [Hc Hin]]. subst b. unfold trim_profiles. apply Forall_firstn.
    (* every count of feature c is within the width *)
    pose proof (covers_le_width w (concat cs) (concat rows) Hflat) as Hw.
    rewrite Forall_forall in *. intros x Hx. apply Hw. apply in_concat. exists c. split; assumption.
  - intros f Hf. unfold iv. rewrite count_occ_index_of_counts. simpl. rewrite Nat.sub_0_r, map_length.
    destruct (f <? length cs)%nat eqn:E; [|lia]. apply Nat.ltb_lt in E.
    rewrite (nth_indep _ 0%nat (n_profiles [])) by (rewrite map_length; exact E).
    rewrite map_nth. rewrite Forall_forall in Hcs.
    rewrite <- (Hcs (nth f cs [])) by (apply nth_In; exact E). apply n_profiles_le_length.
  - rewrite R in Hu. inversion Hu; subst u. symmetry. apply Hn; assumption.
Qed.

End FileLevel.

(* ------------------------------------------------------------------ *)
(* subspaces of the uncompressed view                                    *)
(* ------------------------------------------------------------------ *)
(* the element of the full array that element [ks] of the selection shows *)
Fixpoint pick (pos : list (list nat)) (ks : list nat) : list nat :=
  match pos, ks with
  | p :: pr, k :: kr => nth k p 0%nat :: pick pr kr
  | _, _ => []
  end.

Definition in_shape (ks shape : list nat) : Prop := Forall2 (fun k n => (k < n)%nat) ks shape.

Lemma ravel_lt : forall shape ks, in_shape ks shape -> (ravel shape ks < prod shape)%nat.
Proof.
  intros shape ks H. induction H as [|k n ks shape Hk HF IH]; simpl; [lia|].
  fold (prod shape). nia.
Qed.

Lemma multi_indices_length : forall pos,
  length (multi_indices pos) = prod (map (@length nat) pos).
Proof.
  induction pos as [|p r IH]; [reflexivity|]. cbn [multi_indices map prod fold_right].
  fold (prod (map (@length nat) r)). rewrite <- IH. generalize (multi_indices r). intro m.
  induction p as [|x p IHp]; [reflexivity|]. simpl. rewrite app_length, map_length, IHp. reflexivity.
Qed.

Lemma multi_indices_nth : forall pos ks, in_shape ks (map (@length nat) pos) ->
  nth_error (multi_indices pos) (ravel (map (@length nat) pos) ks) = Some (pick pos ks).
Proof.
  induction pos as [|p r IH]; intros ks H.
  - inversion H; subst. reflexivity.
  - inversion H as [|k n kr sh Hk HF]; subst. cbn [multi_indices map ravel pick].
    set (M := prod (map (@length nat) r)).
    rewrite flat_map_concat_map.
    assert (HU : Forall (fun b : list (list nat) => length b = M)
                   (map (fun x => map (cons x) (multi_indices r)) p)).
    { apply Forall_forall. intros b Hb. apply in_map_iff in Hb as [x [Hx _]]. subst b.
      rewrite map_length. apply multi_indices_length. }
    rewrite (nth_error_concat_uniform M) by (auto; apply ravel_lt; exact HF).
    rewrite nth_error_map, (nth_error_nth' p 0%nat) by exact Hk. simpl.
    rewrite nth_error_map, (IH kr HF). reflexivity.
Qed.

Section SubspaceB.
Context {B : Type} (d : B).

Lemma orth_take_length : forall shape pos (flat : list B),
  length (orth_take d shape pos flat) = prod (map (@length nat) pos).
Proof. intros. unfold orth_take. rewrite map_length. apply multi_indices_length. Qed.

(* Element ks of the orthogonal selection (C order, shape = the numbers of
   selected positions) is the element of the full array at the selected
   position of every axis. *)
Lemma orth_take_nth : forall shape pos (flat : list B) ks,
  in_shape ks (map (@length nat) pos) ->
  nth_error (orth_take d shape pos flat) (ravel (map (@length nat) pos) ks)
  = Some (nth (ravel shape (pick pos ks)) flat d).
Proof.
  intros shape pos flat ks H. unfold orth_take. rewrite nth_error_map, (multi_indices_nth pos ks H).
  reflexivity.
Qed.

Lemma orth_take_spec : forall shape pos (flat : list B),
  length (orth_take d shape pos flat) = prod (map (@length nat) pos) /\
  forall ks, in_shape ks (map (@length nat) pos) ->
    nth_error (orth_take d shape pos flat) (ravel (map (@length nat) pos) ks)
    = Some (nth (ravel shape (pick pos ks)) flat d).
Proof. intros. split; [apply orth_take_length|intros; apply orth_take_nth; assumption]. Qed.

(* a 2-d array flattened in C order *)
Lemma nth_concat_2d : forall w (u : list (list B)) i j,
  Forall (fun r => length r = w) u -> (j < w)%nat ->
  nth (ravel [length u; w] [i; j]) (concat u) d = nth j (nth i u []) d.
Proof.
  intros w u i j HF Hj. replace (ravel [length u; w] [i; j]) with (i * w + j)%nat by (simpl; lia).
  destruct (nth_error u i) as [r|] eqn:E.
  - assert (G : nth_error (concat u) (i * w + j) = nth_error r j).
    { rewrite (nth_error_concat_uniform w) by assumption. rewrite E. reflexivity. }
    rewrite (nth_error_nth _ _ _ E).
    assert (Hr : length r = w) by (rewrite Forall_forall in HF; apply HF; eapply nth_error_In; eauto).
    destruct (nth_error r j) as [x|] eqn:Ex; [|apply nth_error_None in Ex; lia].
    rewrite (nth_error_nth _ _ _ G), (nth_error_nth _ _ _ Ex). reflexivity.
  - assert (G : nth_error (concat u) (i * w + j) = None).
    { rewrite (nth_error_concat_uniform w) by assumption. rewrite E. reflexivity. }
    apply nth_error_None in G. rewrite nth_overflow by exact G.
    apply nth_error_None in E. rewrite (nth_overflow u) by exact E. destruct j; reflexivity.
Qed.

End SubspaceB.

(* the positions an index selects on an axis are positions of the axis *)
Definition valid_index (n : nat) (i : aindex) : Prop :=
  match i with
  | AInt x => (- Z.of_nat n <= x < Z.of_nat n)%Z
  | ASlice _ _ c => c <> Some 0%Z
  | AList l => Forall (fun x => (- Z.of_nat n <= x < Z.of_nat n)%Z) l
  end.

Lemma slice_positions_py : forall n a b c, c <> Some 0%Z ->
  PySlice.slice_positions n a b c = Some (slice_positions n a b c).
Proof.
  intros n a b c Hc. unfold PySlice.slice_positions, slice_positions.
  set (step := match c with Some s0 => s0 | None => 1%Z end).
  assert (Hs : step <> 0%Z) by (unfold step; destruct c as [z|]; [intro; subst; congruence|lia]).
  replace (match c with Some s0 => s0 | None => 1%Z end) with step by reflexivity.
  destruct (Z.eqb_spec step 0); [contradiction|]. f_equal.
  assert (Ea : PySlice.slice_start n a step = adjust n step a 0 (n - 1)).
  { unfold PySlice.slice_start, adjust, PySlice.clip. destruct a as [x|]; [|reflexivity].
    destruct (x <? 0)%Z; [reflexivity|].
    destruct (Z.geb_spec x n); destruct (Z.leb_spec n x); try lia; reflexivity. }
  assert (Eb : PySlice.slice_stop n b step = adjust n step b n (-1)).
  { unfold PySlice.slice_stop, adjust, PySlice.clip. destruct b as [x|]; [|reflexivity].
    destruct (x <? 0)%Z; [reflexivity|].
    destruct (Z.geb_spec x n); destruct (Z.leb_spec n x); try lia; reflexivity. }
  unfold PySlice.range_list. rewrite Ea, Eb.
  set (start := adjust n step a 0 (n - 1)). set (stop := adjust n step b n (-1)).
  assert (El : PySlice.range_len start stop step =
               (if (step <? 0)%Z then (if (stop <? start)%Z then ((start - stop - 1) / (- step) + 1)%Z else 0%Z)
                else if (0 <? step)%Z then (if (start <? stop)%Z then ((stop - start - 1) / step + 1)%Z else 0%Z)
                else 0%Z)).
  { unfold PySlice.range_len. destruct (Z.gtb_spec step 0); destruct (Z.ltb_spec step 0);
      destruct (Z.ltb_spec 0 step); try lia; reflexivity. }
  rewrite El. reflexivity.
Qed.

Lemma axis_positions_in_range : forall n i, valid_index n i ->
  Forall (fun p => (p < n)%nat) (axis_positions n i).
Proof.
  intros n i H. destruct i as [x|a b c|l]; simpl in *.
  - constructor; [|constructor]. destruct (Z.ltb_spec x 0); lia.
  - apply Forall_forall. intros p Hp. apply in_map_iff in Hp as [z [Hz Hin]]. subst p.
    pose proof (slice_positions_py (Z.of_nat n) a b c H) as E.
    pose proof (PySlice.slice_positions_in_range (Z.of_nat n) a b c _ z (Nat2Z.is_nonneg n) E Hin). lia.
  - apply Forall_forall. intros p Hp. apply in_map_iff in Hp as [z [Hz Hin]]. subst p.
    rewrite Forall_forall in H. specialize (H z Hin). destruct (Z.ltb_spec z 0); lia.
Qed.

(* End to end for the contiguous ragged array: element (k0, k1) of the
   subspace d[i0, i1] of the compressed data is the CF-defined element at the
   positions that i0 and i1 select. *)
Lemma subspace_contiguous : forall {A} (miss : A) nrows w counts (data : list A) i0 i1,
  Forall (fun c => (c <= w)%nat) counts ->
  valid_index nrows i0 -> valid_index w i1 ->
  exists u, contiguous_decode miss nrows w counts data = Ok u /\
    let p0 := axis_positions nrows i0 in
    let p1 := axis_positions w i1 in
    let s := subspace miss [nrows; w] [i0; i1] (concat u) in
    length s = (length p0 * length p1)%nat /\
    forall k0 k1, (k0 < length p0)%nat -> (k1 < length p1)%nat ->
      nth (k0 * length p1 + k1) s miss = contig_spec miss counts data (nth k0 p0 0%nat) (nth k1 p1 0%nat).
Proof.
  intros A miss nrows w counts data i0 i1 Hc H0 H1.
  destruct (contiguous_decode_spec miss nrows w counts data Hc) as [u [Hu [Hl [Hf Hn]]]].
  exists u. split; [exact Hu|]. cbv zeta.
  set (p0 := axis_positions nrows i0). set (p1 := axis_positions w i1).
  unfold subspace. cbn [combine map fst snd]. fold p0 p1. split.
  - rewrite orth_take_length. simpl. lia.
  - intros k0 k1 Hk0 Hk1.
    assert (Hin : in_shape [k0; k1] (map (@length nat) [p0; p1])) by (repeat constructor; assumption).
    pose proof (orth_take_nth miss [nrows; w] [p0; p1] (concat u) [k0; k1] Hin) as E.
    cbn [map pick] in E.
    replace (ravel [length p0; length p1] [k0; k1]) with (k0 * length p1 + k1)%nat in E by (simpl; lia).
    apply nth_error_nth with (d := miss) in E.
    rewrite E. clear E.
    pose proof (axis_positions_in_range nrows i0 H0) as R0. fold p0 in R0.
    pose proof (axis_positions_in_range w i1 H1) as R1. fold p1 in R1.
    rewrite Forall_forall in R0, R1.
    assert (Hq0 : (nth k0 p0 0 < nrows)%nat) by (apply R0, nth_In, Hk0).
    assert (Hq1 : (nth k1 p1 0 < w)%nat) by (apply R1, nth_In, Hk1).
    rewrite <- Hn by exact Hq0. rewrite <- Hl.
    apply nth_concat_2d; assumption.
Qed.

(* ------------------------------------------------------------------ *)
(* non-vacuity examples                                                 *)
(* ------------------------------------------------------------------ *)
Open Scope Z_scope.

Lemma contiguous_decode_example :
  exists counts (data : list (option Z)) u,
    Forall (fun c => (c <= 3)%nat) counts /\
    contiguous_decode None 4 3 counts data = Ok u /\
    u = [[Some 1; Some 2; None]; [None; None; None]; [Some 3; Some 4; Some 5]; [None; None; None]].
Proof.
  exists [2; 0; 3; 0]%nat, [Some 1; Some 2; Some 3; Some 4; Some 5]. eexists.
  splits; [repeat constructor|vm_compute; reflexivity|reflexivity].
Qed.

Lemma indexed_decode_example :
  exists index (data : list (option Z)) u,
    (length index <= length data)%nat /\
    (forall i, (i < 3)%nat -> (count_occ Z.eq_dec index (Z.of_nat i) <= 3)%nat) /\
    indexed_decode None 3 3 index data = Ok u /\
    u = [[Some 10; Some 13; None]; [None; None; None]; [Some 11; Some 12; Some 14]].
Proof.
  exists [0; 2; 2; 0; 2], [Some 10; Some 11; Some 12; Some 13; Some 14]. eexists.
  splits; [simpl; lia| |vm_compute; reflexivity|reflexivity].
  intros i Hi. destruct i as [|[|[|i]]]; vm_compute; lia.
Qed.

Lemma gathered_example :
  exists dims lst (data : list (option Z)) u,
    NoDup lst /\ Forall (fun k => 0 <= k < Z.of_nat (prod dims)) lst /\ length lst = length data /\
    gathered_block None dims lst data = Ok u /\
    u = [Some 8; None; None; Some 9; None; Some 7].
Proof.
  exists [2; 3]%nat, [5; 0; 3], [Some 7; Some 8; Some 9]. eexists.
  splits; [|repeat constructor; simpl; lia|reflexivity|vm_compute; reflexivity|reflexivity].
  repeat constructor; simpl; intuition lia.
Qed.

(* non-vacuity of the compress theorems: a field with an all-missing row and an
   interior missing value, and an auxiliary coordinate that is shorter than
   the field in one row and longer in another *)
Lemma roundtrip_example :
  exists (rows aux : list (list (option Z))),
    rect 3 3 rows /\ Forall (rect 3 3) [aux] /\
    In [None; None; None] rows /\ In [Some 1; None; Some 3] rows /\
    derive_counts rows [aux] = [3; 2; 1]%nat.
Proof.
  exists [[Some 1; None; Some 3]; [None; None; None]; [Some 4; None; None]],
         [[Some 100; None; None]; [Some 101; Some 102; None]; [Some 103; None; None]].
  splits; [split; [reflexivity|repeat constructor]|repeat constructor|simpl; auto|simpl; auto|reflexivity].
Qed.

Lemma roundtrip_ic_example :
  exists (rows : list (list (list (option Z)))) cs,
    covers3 3 2 cs rows /\
    cs = [[0; 1; 2]; [2; 0; 0]]%nat /\
    compress_ic cs rows = ([0; 1; 2; 2]%nat, [0; 0; 0; 1], [Some 3; Some 5; Some 6; Some 7; Some 8]).
Proof.
  exists [[[None; None]; [Some 3; None]; [Some 5; Some 6]]; [[Some 7; Some 8]; [None; None]; [None; None]]].
  eexists. splits; [|reflexivity|reflexivity].
  repeat constructor; simpl; lia.
Qed.

Lemma ic_decode_example :
  exists counts index (data : list (option Z)) u,
    (length index <= length counts)%nat /\ Forall (fun c => (c <= 2)%nat) counts /\
    (forall i, (i < 3)%nat -> (count_occ Z.eq_dec index (Z.of_nat i) <= 2)%nat) /\
    ic_decode None 3 2 2 counts index data = Ok u /\
    u = [[[Some 3; None]; [None; None]]; [[None; None]; [None; None]];
         [[Some 1; Some 2]; [None; None]]].
Proof.
  exists [2; 1; 0]%nat, [2; 0; 2], [Some 1; Some 2; Some 3]. eexists.
  splits; [simpl; lia|repeat constructor| |vm_compute; reflexivity|reflexivity].
  intros i Hi. destruct i as [|[|[|i]]]; vm_compute; lia.
Qed.

(* ------------------------------------------------------------------ *)
(* Data.equals on compressed data                                       *)
(* ------------------------------------------------------------------ *)
Section EqualsLemmas.
Context {C U T K : Type}.
Context (decode : C -> U) (ctype : C -> T) (carr : C -> K).
Context (u_eqb : U -> U -> bool) (t_eqb : T -> T -> bool) (k_eqb : K -> K -> bool).
Hypothesis u_eqb_spec : forall x y, u_eqb x y = true <-> x = y.

(* with ignore_compression (the default) equality of data is equality of the
   uncompressed arrays, whatever the two sources are: compressed the same way,
   differently, or not at all *)
Lemma equals_is_view_equality : forall s t,
  data_equals decode ctype carr u_eqb t_eqb k_eqb true s t = true <->
  view decode s = view decode t.
Proof. intros s t. unfold data_equals. simpl. apply u_eqb_spec. Qed.

(* without it the compression type and the compressed arrays must be equal
   AS WELL AS the uncompressed arrays *)
Lemma equals_strict : forall s t,
  data_equals decode ctype carr u_eqb t_eqb k_eqb false s t = true <->
  same_compression ctype carr t_eqb k_eqb s t = true /\ view decode s = view decode t.
Proof.
  intros s t. unfold data_equals. rewrite andb_true_iff, u_eqb_spec. reflexivity.
Qed.

Lemma equals_strict_implies_default : forall s t,
  data_equals decode ctype carr u_eqb t_eqb k_eqb false s t = true ->
  data_equals decode ctype carr u_eqb t_eqb k_eqb true s t = true.
Proof.
  intros s t H. apply equals_strict in H as [_ H]. apply equals_is_view_equality. exact H.
Qed.

End EqualsLemmas.

(* ------------------------------------------------------------------ *)
(* the integer type of the count variable                               *)
(* ------------------------------------------------------------------ *)
Open Scope Z_scope.

Lemma ity_signed_facts : forall t, ity_signed t = true ->
  ity_min t = - ity_max t - 1 /\ 2 ^ ity_bits t = 2 * ity_max t + 2 /\ 0 <= ity_max t.
Proof. intros t H. destruct t; try discriminate H; vm_compute; repeat split; discriminate. Qed.

Lemma ity_unsigned_facts : forall t, ity_signed t = false ->
  ity_min t = 0 /\ 2 ^ ity_bits t = ity_max t + 1 /\ 0 <= ity_max t.
Proof. intros t H. destruct t; try discriminate H; vm_compute; repeat split; discriminate. Qed.

Lemma wrap_in_range : forall t v, in_ity t v = true -> wrap t v = v.
Proof.
  intros t v H. unfold in_ity in H. apply andb_true_iff in H as [H1 H2].
  apply Z.leb_le in H1. apply Z.leb_le in H2.
  unfold wrap. set (m := 2 ^ ity_bits t). set (M := ity_max t) in *.
  destruct (ity_signed t) eqn:Hs.
  - destruct (ity_signed_facts t Hs) as [Emin [Em HM]]. fold m in Em. fold M in Emin, Em, HM.
    rewrite Emin in H1. simpl andb.
    destruct (Z.lt_ge_cases v 0) as [Hn|Hp].
    + assert (E : v mod m = v + m).
      { rewrite <- (Z_mod_plus_full v 1 m). rewrite Z.mul_1_l. apply Z.mod_small. lia. }
      rewrite E. destruct (Z.ltb_spec M (v + m)); lia.
    + rewrite Z.mod_small by lia. destruct (Z.ltb_spec M v); lia.
  - destruct (ity_unsigned_facts t Hs) as [Emin [Em HM]]. fold m in Em. fold M in Em, HM.
    rewrite Emin in H1. simpl andb. apply Z.mod_small. lia.
Qed.

Definition sumZ (l : list Z) : Z := fold_right Z.add 0 l.

Lemma ity_min_le_0 : forall t, ity_min t <= 0.
Proof. destruct t; vm_compute; discriminate. Qed.

Close Scope Z_scope.

Section TypedLemmas.
Context {A : Type}.
Context (miss : A).

Definition stored_ok (t : ity) (stored : list Z) : Prop :=
  Forall (fun v => (0 <= v)%Z /\ in_ity t v = true) stored.

Lemma count_tolist_in_range : forall t stored, stored_ok t stored ->
  count_tolist t stored = map Z.to_nat stored.
Proof.
  intros t stored H. unfold count_tolist, stored_ok in *. apply map_ext_in. intros v Hv.
  rewrite Forall_forall in H. rewrite wrap_in_range by (apply H, Hv). reflexivity.
Qed.

(* The presented array does not depend on the integer type of the count
   variable: any two types that can hold the counts give the same array ... *)
Lemma count_type_irrelevant : forall t t' nrows w stored (data : list A),
  stored_ok t stored -> stored_ok t' stored ->
  contiguous_decode_ty miss t nrows w stored data = contiguous_decode_ty miss t' nrows w stored data.
Proof.
  intros. unfold contiguous_decode_ty. rewrite !count_tolist_in_range by assumption. reflexivity.
Qed.

(* ... namely the array CF 9.3.3 defines, also when the SUM of the counts is
   beyond the range of the type *)
Lemma contiguous_decode_ty_spec : forall t nrows w stored (data : list A),
  stored_ok t stored -> Forall (fun v => (v <= Z.of_nat w)%Z) stored ->
  exists u, contiguous_decode_ty miss t nrows w stored data = Ok u /\
            length u = nrows /\ Forall (fun r => length r = w) u /\
            forall i j, (i < nrows)%nat ->
              nth j (nth i u []) miss = contig_spec miss (map Z.to_nat stored) data i j.
Proof.
  intros t nrows w stored data Hs Hw. unfold contiguous_decode_ty.
  rewrite count_tolist_in_range by exact Hs.
  apply contiguous_decode_spec. apply Forall_forall. intros c Hc.
  apply in_map_iff in Hc as [v [Ev Hv]]. subst c. rewrite Forall_forall in Hw. specialize (Hw v Hv). lia.
Qed.

(* Accumulating the partial sums in the variable's own type gives the same
   array exactly when the sums fit: guard for the witness in Refuted.v *)
Lemma wrapped_selectors : forall t n counts acc,
  (0 <= acc)%Z -> stored_ok t counts ->
  (acc + sumZ counts <= ity_max t)%Z -> (acc + sumZ counts <= n)%Z ->
  slices_between n acc (cumsum_wrap t acc (map (wrap t) counts))
  = contig_selectors (Z.to_nat acc) (count_tolist t counts).
Proof.
  intros t n counts. unfold stored_ok. induction counts as [|x r IH]; intros acc Ha Hs Hm Hn; [reflexivity|].
  inversion Hs as [|? ? [Hx0 Hxr] Hs']; subst. unfold sumZ in Hm, Hn. simpl in Hm, Hn. fold (sumZ r) in Hm, Hn.
  assert (Hr0 : (0 <= sumZ r)%Z).
  { clear -Hs'. induction Hs' as [|y l [Hy _] _ IHl]; unfold sumZ; simpl; [lia|]. fold (sumZ l). lia. }
  cbn [map cumsum_wrap slices_between count_tolist contig_selectors].
  rewrite (wrap_in_range t x Hxr).
  assert (Hacc : wrap t (acc + x) = (acc + x)%Z).
  { apply wrap_in_range. unfold in_ity. apply andb_true_iff. split; apply Z.leb_le;
      [pose proof (ity_min_le_0 t); lia|lia]. }
  rewrite Hacc. f_equal.
  - unfold norm_bound.
    destruct (Z.ltb_spec acc 0); [lia|]. destruct (Z.ltb_spec (acc + x) 0); [lia|].
    rewrite !Z.min_l by lia. rewrite Z2Nat.inj_add by lia. reflexivity.
  - rewrite IH by (auto; lia). rewrite Z2Nat.inj_add by lia. reflexivity.
Qed.

Lemma wrapped_agrees_when_sums_fit : forall t nrows w stored (data : list A),
  stored_ok t stored -> (sumZ stored <= ity_max t)%Z -> (sumZ stored <= Z.of_nat (length data))%Z ->
  contiguous_decode_wrapped miss t nrows w stored data = contiguous_decode_ty miss t nrows w stored data.
Proof.
  intros t nrows w stored data Hs Hm Hn. unfold contiguous_decode_wrapped, contiguous_decode_ty, contiguous_decode.
  rewrite (wrapped_selectors t (Z.of_nat (length data)) stored 0%Z) by (auto; lia). reflexivity.
Qed.

End TypedLemmas.

Lemma count_type_example :
  stored_ok I8 [60; 50; 0; 40]%Z /\ (ity_max I8 < sumZ [60; 50; 0; 40])%Z.
Proof. split; [repeat constructor; vm_compute; discriminate|vm_compute; reflexivity]. Qed.
