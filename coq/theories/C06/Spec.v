(* C06 - what the CF conventions say an uncompressed array is, written
   element by element and independently of the way cfdm assembles it.

   CF 9.3.3 (contiguous ragged array): the elements of feature i are the
     count[i] consecutive samples that follow those of features 0 .. i-1.
   CF 9.3.4 (indexed ragged array): sample p belongs to feature index[p]; the
     elements of a feature are its samples in sample order.
   CF 9.3.5 (indexed contiguous): profile p (count[p] consecutive samples)
     belongs to feature index[p]; the profiles of a feature are taken in order.
   CF 8.2 (gathering): list[k] is the position of sample k in the C-ordered
     block of the compressed dimensions.
   Everything that receives no sample is missing. *)
From CfdmV Require Import Common.Base.

Section Spec.
Context {A : Type}.
Context (miss : A).

Definition sum (l : list nat) : nat := fold_right Nat.add 0%nat l.

Definition contig_spec (counts : list nat) (data : list A) (i j : nat) : A :=
  if (j <? nth i counts 0)%nat then nth (sum (firstn i counts) + j) data miss else miss.

(* position of the (j+1)-th entry of [index] that equals i, counting from p *)
Fixpoint find_occ (i : Z) (j : nat) (index : list Z) (p : nat) : option nat :=
  match index with
  | [] => None
  | x :: r =>
      if Z.eqb x i
      then match j with O => Some p | S j' => find_occ i j' r (S p) end
      else find_occ i j r (S p)
  end.

Definition indexed_spec (index : list Z) (data : list A) (i j : nat) : A :=
  match find_occ (Z.of_nat i) j index 0 with
  | Some p => nth p data miss
  | None => miss
  end.

Definition ic_spec (counts : list nat) (index : list Z) (data : list A) (i j k : nat) : A :=
  match find_occ (Z.of_nat i) j index 0 with
  | Some p => contig_spec counts data p k
  | None => miss
  end.

Definition gathered_spec (lst : list Z) (data : list A) (q : nat) : A :=
  match find_occ (Z.of_nat q) 0 lst 0 with
  | Some k => nth k data miss
  | None => miss
  end.

End Spec.
