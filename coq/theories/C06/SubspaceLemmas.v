(* C06 - the orthogonal selection of the C06 model (on C-ordered flat arrays)
   is the orthogonal selection of property C03 (nested arrays, one axis at a
   time - proved independent of the order of the axes in C03.Props.C03_any_order). *)
From CfdmV Require Import Common.Base C06.Model C06.Spec C06.Lemmas.
From CfdmV Require C03.Model.

Module M3 := C03.Model.

Lemma take_all_nil : forall a, M3.take_all [] a = a.
Proof. reflexivity. Qed.

Lemma take_all_cons : forall op ops a,
  M3.take_all (op :: ops) a = M3.take_all ops (M3.take (fst op) (snd op) a).
Proof. reflexivity. Qed.

(* selections on the axes k+1, k+2, ... of Node l are selections on the axes
   k, k+1, ... of its elements *)
Lemma take_all_shift : forall ps k l,
  M3.take_all (combine (seq (S k) (length ps)) ps) (M3.Node l)
  = M3.Node (map (M3.take_all (combine (seq k (length ps)) ps)) l).
Proof.
  induction ps as [|p r IH]; intros k l.
  - cbn [length seq combine]. rewrite take_all_nil. f_equal.
    induction l as [|a l IHl]; [reflexivity|]. simpl. rewrite <- IHl. reflexivity.
  - cbn [length seq combine]. rewrite take_all_cons. cbn [fst snd M3.take].
    rewrite IH, map_map. f_equal.
Qed.

Lemma orth_take_node : forall p ps l,
  M3.orth_take (p :: ps) (M3.Node l)
  = M3.Node (map (fun i => M3.orth_take ps (nth i l M3.dummy)) p).
Proof.
  intros p ps l. unfold M3.orth_take. cbn [length seq combine].
  rewrite take_all_cons. cbn [fst snd M3.take]. rewrite take_all_shift, map_map. reflexivity.
Qed.

Lemma chunk_list_length : forall {B} k n (l : list B), length (M3.chunk_list k n l) = n.
Proof. intros B k n. induction n; intro l; simpl; auto. Qed.

Lemma skipn_add : forall {B} a b (l : list B), skipn (a + b) l = skipn b (skipn a l).
Proof.
  intros B a b. induction a as [|a IH]; intro l; [reflexivity|].
  destruct l as [|x l]; [rewrite !skipn_nil; reflexivity|]. simpl. apply IH.
Qed.

Lemma chunk_list_nth : forall {B} k n (l : list B) i, (i < n)%nat ->
  nth i (M3.chunk_list k n l) [] = firstn k (skipn (i * k) l).
Proof.
  intros B k n. induction n as [|n IH]; intros l i H; [lia|].
  destruct i; [reflexivity|]. cbn [M3.chunk_list nth]. rewrite IH by lia.
  replace (S i * k)%nat with (k + i * k)%nat by lia. rewrite skipn_add. reflexivity.
Qed.

Lemma flat_map_map : forall {X Y Z} (f : Y -> list Z) (g : X -> Y) l,
  flat_map f (map g l) = flat_map (fun x => f (g x)) l.
Proof. induction l as [|x l IH]; simpl; [reflexivity|]. rewrite IH. reflexivity. Qed.

Lemma flat_map_ext_in : forall {X Y} (f g : X -> list Y) l,
  (forall x, In x l -> f x = g x) -> flat_map f l = flat_map g l.
Proof.
  induction l as [|x l IH]; intro H; [reflexivity|]. simpl.
  rewrite (H x) by (left; reflexivity). rewrite IH; [reflexivity|].
  intros y Hy. apply H. right. exact Hy.
Qed.

Lemma map_flat_map : forall {X Y Z} (f : Y -> Z) (g : X -> list Y) l,
  map f (flat_map g l) = flat_map (fun x => map f (g x)) l.
Proof. induction l as [|x l IH]; simpl; [reflexivity|]. rewrite map_app, IH. reflexivity. Qed.

Definition pos_in_shape (pos : list (list nat)) (shape : list nat) : Prop :=
  Forall2 (fun p n => Forall (fun i => (i < n)%nat) p) pos shape.

Lemma multi_indices_in_shape : forall pos shape, pos_in_shape pos shape ->
  forall mi, In mi (multi_indices pos) -> in_shape mi shape.
Proof.
  intros pos shape H. induction H as [|p n ps sh Hp HF IH]; intros mi Hmi.
  - simpl in Hmi. destruct Hmi as [E|[]]. subst. constructor.
  - simpl in Hmi. apply in_flat_map in Hmi as [x [Hx Hin]].
    apply in_map_iff in Hin as [mi' [E Hin]]. subst mi.
    constructor; [|apply IH, Hin]. rewrite Forall_forall in Hp. apply Hp, Hx.
Qed.

(* The subspace of the C06 model is the orthogonal selection of C03. *)
Lemma orth_take_is_c03 : forall shape pos (flat : list (option Z)),
  length flat = prod shape -> pos_in_shape pos shape ->
  M3.flatten (M3.orth_take pos (M3.reshape shape flat)) = orth_take None shape pos flat.
Proof.
  induction shape as [|n sh IH]; intros pos flat Hl Hp.
  - inversion Hp; subst. destruct flat as [|x [|y r]]; try discriminate. reflexivity.
  - inversion Hp as [|p n' ps sh' Hpn HF]; subst.
    cbn [M3.reshape]. change (fold_right Nat.mul 1%nat sh) with (prod sh).
    set (W := prod sh). rewrite orth_take_node. cbn [M3.flatten].
    rewrite flat_map_map.
    match goal with |- _ = ?R => change R with
      (map (fun mi => nth (ravel (n :: sh) mi) flat None)
           (flat_map (fun x => map (cons x) (multi_indices ps)) p)) end.
    rewrite map_flat_map.
    apply flat_map_ext_in. intros x Hx.
    rewrite Forall_forall in Hpn. specialize (Hpn x Hx).
    assert (Hlen : length flat = (n * W)%nat) by (rewrite Hl; reflexivity).
    rewrite (nth_indep _ M3.dummy (M3.reshape sh [])) by (rewrite map_length, chunk_list_length; exact Hpn).
    rewrite map_nth, chunk_list_nth by exact Hpn.
    rewrite IH; [|rewrite firstn_length, skipn_length; nia|exact HF].
    unfold orth_take. rewrite map_map. apply map_ext_in. intros mi Hmi.
    pose proof (ravel_lt sh mi (multi_indices_in_shape ps sh HF mi Hmi)) as Hq. fold W in Hq.
    rewrite (nth_firstn_if None), (nth_skipn_add None).
    destruct (Nat.ltb_spec (ravel sh mi) W); [|lia]. reflexivity.
Qed.
