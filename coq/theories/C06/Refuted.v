(* C06 - the code as it stood at the pinned commit does NOT satisfy the C06
   theorems.  Each witness is a closed term evaluated by vm_compute on the
   transcription of the old code (Model: ..._old), and was replayed against
   the implementation before the repairs of handoff/C06-fix-*.diff (the
   harness corpus in harness/props/c06.py holds the same inputs). *)
From CfdmV Require Import Common.Base C06.Model C06.Spec.
Open Scope Z_scope.

Notation v := (@Some Z).

(* F06a: an instance that is absent from the index variable shifts the later
   rows up - np.unique(index) was zipped against the rows.
   index = [0,2,2,0,2], three instances: instance 2's samples land in row 1. *)
Theorem C06_old_indexed_absent_instance_refuted :
  exists nrows w index (data : list (option Z)) u,
    length index = length data /\
    (forall i, (i < nrows)%nat -> (count_occ Z.eq_dec index (Z.of_nat i) <= w)%nat) /\
    indexed_decode_old None nrows w index data = Ok u /\
    exists i j, (i < nrows)%nat /\ nth j (nth i u []) None <> indexed_spec None index data i j.
Proof.
  exists 3%nat, 3%nat, [0; 2; 2; 0; 2], [v 10; v 11; v 12; v 13; v 14].
  eexists. split; [reflexivity|]. split.
  - intros i Hi. destruct i as [|[|[|i]]]; vm_compute; lia.
  - split; [vm_compute; reflexivity|]. exists 1%nat, 0%nat. split; [lia|]. vm_compute. discriminate.
Qed.

(* F06a in the indexed contiguous array: feature 1 has no profile. *)
Theorem C06_old_ic_absent_feature_refuted :
  exists nfeat nprof w counts index (data : list (option Z)) u,
    ic_decode_old None nfeat nprof w counts index data = Ok u /\
    exists i j k, (i < nfeat)%nat /\ (j < nprof)%nat /\
      nth k (nth j (nth i u []) []) None <> ic_spec None counts index data i j k.
Proof.
  exists 3%nat, 2%nat, 2%nat, [2; 1; 1]%nat, [2; 0; 2], [v 1; v 2; v 3; v 4].
  eexists. split; [vm_compute; reflexivity|].
  exists 1%nat, 0%nat, 0%nat. split; [lia|]. split; [lia|]. vm_compute. discriminate.
Qed.

(* F06d: an indexed contiguous array whose trailing dimension (3) is larger
   than its element dimension (2) could not be read at all. *)
Theorem C06_old_ic_trailing_dimension_refuted :
  exists nfeat nprof w tdims counts index (data : list (list (option Z))),
    ic_decode_old_trailing (repeat None (prod tdims)) nfeat nprof w tdims counts index data
      = Err ValueErr /\
    exists u, ic_decode (repeat None (prod tdims)) nfeat nprof w counts index data = Ok u.
Proof.
  exists 2%nat, 2%nat, 2%nat, [3%nat], [2; 1; 2]%nat, [0; 1; 0],
    [[v 1; v 2; v 3]; [v 4; v 5; v 6]; [v 7; v 8; v 9]; [v 10; v 11; v 12]; [v 13; v 14; v 15]].
  split; [vm_compute; reflexivity|]. eexists. vm_compute. reflexivity.
Qed.

(* F06b: compress('contiguous') dropped zero counts, so an all-missing
   feature moved the later features up. *)
Theorem C06_old_compress_contiguous_refuted :
  exists w (rows : list (list (option Z))),
    Forall (fun r => length r = w) rows /\
    let '(counts, data) := compress_contiguous_old rows rows in
    contiguous_decode None (length rows) w counts data <> Ok rows.
Proof.
  exists 3%nat, [[v 1; v 2; None]; [None; None; None]; [v 3; None; None]; [v 4; v 5; v 6]].
  split; [repeat constructor|]. vm_compute. discriminate.
Qed.

(* F06c: compress('indexed_contiguous') dropped an empty profile that
   precedes a non-empty one: the profile moved to slot 0. *)
Theorem C06_old_compress_ic_refuted :
  exists nprof w (rows : list (list (list (option Z)))),
    let '(counts, index, data) := compress_ic_old rows rows in
    ic_decode None (length rows) nprof w counts index data <> Ok rows.
Proof.
  exists 3%nat, 2%nat,
    [[[None; None]; [v 3; None]; [v 5; v 6]]; [[v 7; v 8]; [None; None]; [None; None]]].
  vm_compute. discriminate.
Qed.

(* F06e: a missing value inside a feature came back unmasked (the value
   stored under the mask, here 99, appeared). *)
Theorem C06_old_compress_mask_lost_refuted :
  exists w hidden (rows : list (list (option Z))),
    Forall (fun r => length r = w) rows /\
    contiguous_decode None (length rows) w (map derive_count rows)
      (pack_old hidden (map derive_count rows) rows) <> Ok rows.
Proof.
  exists 3%nat, 99, [[v 1; None; v 3]; [v 4; v 5; None]].
  split; [repeat constructor|]. vm_compute. discriminate.
Qed.

(* F06f (repaired by handoff/C06-fix2-1.diff): the counts were those of the
   first auxiliary coordinate spanning the field's axes, so a field value
   beyond that coordinate's last value was dropped ([[1, --, 99]] with the
   coordinate [[100, --, --]] came back as [[1, --, --]]).  With the counts of
   the repaired code the same field survives. *)
Theorem C06_old_compress_beyond_count_refuted :
  exists w (aux rows : list (list (option Z))),
    Forall (fun r => length r = w) aux /\ Forall (fun r => length r = w) rows /\
    length aux = length rows /\
    (let counts := derive_counts_old rows (Some aux) in
     contiguous_decode None (length rows) w counts (pack counts rows) <> Ok rows) /\
    (let counts := derive_counts rows [aux] in
     contiguous_decode None (length rows) w counts (pack counts rows) = Ok rows).
Proof.
  exists 3%nat, [[v 100; None; None]], [[v 1; None; v 99]].
  repeat split; try (repeat constructor). vm_compute. discriminate.
Qed.

(* Third pass.  Accumulating the partial sums of the counts in the count
   variable's own type (np.cumsum with the dtype of an int8 count variable)
   wraps at 127: counts 60, 50, 0, 40 give the sums 60, 110, 110, -106 and the
   last feature is all missing. *)
Theorem C06_partial_sums_in_count_type_refuted :
  exists t nrows w stored (data : list (option Z)),
    Forall (fun x => (0 <= x)%Z /\ in_ity t x = true) stored /\
    Z.of_nat (length data) = fold_right Z.add 0 stored /\
    contiguous_decode_wrapped None t nrows w stored data <> contiguous_decode_ty None t nrows w stored data /\
    exists u, contiguous_decode_wrapped None t nrows w stored data = Ok u /\
              nth 3 u [] = repeat None w.
Proof.
  exists I8, 4%nat, 60%nat, [60; 50; 0; 40], (map (fun k => v (Z.of_nat k)) (seq 1 150)).
  split; [repeat constructor; vm_compute; discriminate|].
  split; [vm_compute; reflexivity|].
  split; [vm_compute; discriminate|].
  eexists. split; vm_compute; reflexivity.
Qed.

(* An equality that answers True as soon as the compression types and the
   compressed arrays are equal never looks at the count variable: the same
   four samples with counts 1, 3 and with counts 3, 1 are different arrays. *)
Theorem C06_equals_shortcut_refuted :
  let decode := fun c : list nat * list (option Z) => contiguous_decode None 2 3 (fst c) (snd c) in
  let u_eqb := fun a b : result (list (list (option Z))) =>
                 match a, b with
                 | Ok x, Ok y => list_eqb (list_eqb (option_eqb Z.eqb)) x y
                 | _, _ => false
                 end in
  exists s t : @dstate (list nat * list (option Z)) (result (list (list (option Z)))),
    data_equals_shortcut decode (fun _ => tt) snd u_eqb (fun _ _ => true)
                         (list_eqb (option_eqb Z.eqb)) true s t = true /\
    data_equals decode (fun _ => tt) snd u_eqb (fun _ _ => true)
                (list_eqb (option_eqb Z.eqb)) true s t = false /\
    view decode s <> view decode t.
Proof.
  exists (Compressed ([1; 3]%nat, [v 1; v 2; v 3; v 4])), (Compressed ([3; 1]%nat, [v 1; v 2; v 3; v 4])).
  split; [vm_compute; reflexivity|]. split; [vm_compute; reflexivity|]. vm_compute. discriminate.
Qed.
