(* C06 - evaluation entry points for the correspondence harness.
   Imports Model only (never Lemmas), so it runs when a proof is broken. *)
From CfdmV Require Import Common.Base C06.Model.

Notation val := (option Z).
Notation cell := (list val).

(* what the implementation showed: the flat C-ordered array, or an error class *)
Inductive obs := OOk (flat : list val) | OErr (e : errk).

Definition val_eqb : val -> val -> bool := option_eqb Z.eqb.

Definition obs_eqb (a b : obs) : bool :=
  match a, b with
  | OOk x, OOk y => list_eqb val_eqb x y
  | OErr e, OErr f => errk_eqb e f
  | _, _ => false
  end.

Definition missc (tc : nat) : cell := repeat None tc.

(* subspace of the uncompressed view: Model.subspace; [] stands for the whole array *)
Definition subspace := @Model.subspace val None.

Definition finish {T} (flatten : T -> list val) (shape : list nat) (idx : list aindex)
  (r : result T) : obs :=
  match r with
  | Ok u => OOk (subspace shape idx (flatten u))
  | Err e => OErr e
  end.

Definition flat2 (u : list (list cell)) : list val := concat (concat u).
Definition flat3 (u : list (list (list cell))) : list val := concat (concat (concat u)).

Inductive method := MContiguous | MIndexed.

Inductive case :=
(* RaggedContiguousArray(data, shape=(nrows, w, tdims...), count) [idx] *)
| KContig (nrows w : nat) (tdims : list nat) (counts : list nat) (data : list cell)
          (idx : list aindex) (o : obs)
(* RaggedIndexedArray(data, shape=(nrows, w, tdims...), index) [idx] *)
| KIndexed (nrows w : nat) (tdims : list nat) (index : list Z) (data : list cell)
           (idx : list aindex) (o : obs)
(* RaggedIndexedContiguousArray(data, shape=(nfeat, nprof, w, tdims...), count, index) [idx] *)
| KIC (nfeat nprof w : nat) (tdims : list nat) (counts : list nat) (index : list Z)
      (data : list cell) (idx : list aindex) (o : obs)
(* GatheredArray(data, shape = ldims ++ dims ++ tdims, list); one block of
   samples per position of the leading dimensions *)
| KGathered (ldims dims tdims : list nat) (lst : list Z) (blocks : list (list cell))
            (idx : list aindex) (o : obs)
(* Field.compress('contiguous'|'indexed') of a 2-d field: rows, optional
   auxiliary coordinate the counts are derived from, a second construct
   spanning the same axes; observed: count or index variable, compressed
   data of the field and of the construct, both uncompressed arrays *)
| KCompress2 (m : method) (w : nat) (rows : list (list val)) (aux : option (list (list val)))
             (other : list (list val))
             (o_var : list Z) (o_cdata o_cother : list val) (o_array o_other : obs)
(* Field.compress('indexed_contiguous') of a 3-d field *)
| KCompress3 (nprof w : nat) (rows : list (list (list val))) (aux : option (list (list (list val))))
             (o_count o_index : list Z) (o_cdata : list val) (o_array o_aux : obs).

Definition zlist_eqb := list_eqb Z.eqb.
Definition vlist_eqb := list_eqb val_eqb.

Definition flatv2 (u : list (list val)) : list val := concat u.
Definition flatv3 (u : list (list (list val))) : list val := concat (concat u).

Definition run_case (c : case) : obs :=
  match c with
  | KContig nrows w tdims counts data idx _ =>
      finish flat2 (nrows :: w :: tdims) idx
        (contiguous_decode (missc (prod tdims)) nrows w counts data)
  | KIndexed nrows w tdims index data idx _ =>
      finish flat2 (nrows :: w :: tdims) idx
        (indexed_decode (missc (prod tdims)) nrows w index data)
  | KIC nfeat nprof w tdims counts index data idx _ =>
      finish flat3 (nfeat :: nprof :: w :: tdims) idx
        (ic_decode (missc (prod tdims)) nfeat nprof w counts index data)
  | KGathered ldims dims tdims lst blocks idx _ =>
      finish flat2 (ldims ++ dims ++ tdims) idx
        (gathered_decode (missc (prod tdims)) dims lst blocks)
  | _ => OErr OtherErr
  end.

(* the constructs spanning the field's axes: the auxiliary coordinate (if any)
   and the second construct *)
Definition others2 (aux : option (list (list val))) (other : list (list val)) : list (list (list val)) :=
  match aux with Some a => [a; other] | None => [other] end.

Definition check_compress2 (m : method) (w : nat) (rows : list (list val))
  (aux : option (list (list val))) (other : list (list val))
  (o_var : list Z) (o_cdata o_cother : list val) (o_array o_other : obs) : bool :=
  let nrows := length rows in
  let counts := derive_counts rows (others2 aux other) in
  match m with
  | MContiguous =>
      let '(cv, cd) := compress_contiguous counts rows in
      let co := pack counts other in
      zlist_eqb (map Z.of_nat cv) o_var && vlist_eqb cd o_cdata && vlist_eqb co o_cother &&
      obs_eqb (finish flatv2 [nrows; w] [] (contiguous_decode None nrows w cv cd)) o_array &&
      obs_eqb (finish flatv2 [nrows; w] [] (contiguous_decode None nrows w cv co)) o_other
  | MIndexed =>
      let '(iv, cd) := compress_indexed counts rows in
      let co := pack counts other in
      zlist_eqb iv o_var && vlist_eqb cd o_cdata && vlist_eqb co o_cother &&
      obs_eqb (finish flatv2 [nrows; w] [] (indexed_decode None nrows w iv cd)) o_array &&
      obs_eqb (finish flatv2 [nrows; w] [] (indexed_decode None nrows w iv co)) o_other
  end.

(* count = flat list over all profiles; count[shape1 * i : shape1 * (i + 1)]
   are the counts of feature i *)
Definition check_compress3 (nprof w : nat) (rows : list (list (list val)))
  (aux : option (list (list (list val)))) (o_count o_index : list Z) (o_cdata : list val)
  (o_array o_aux : obs) : bool :=
  let nfeat := length rows in
  let others := match aux with Some a => [concat a] | None => [] end in
  let cs := chunks nfeat nprof (derive_counts (concat rows) others) in
  let '(cv, iv, cd) := compress_ic cs rows in
  zlist_eqb (map Z.of_nat cv) o_count && zlist_eqb iv o_index && vlist_eqb cd o_cdata &&
  obs_eqb (finish flatv3 [nfeat; nprof; w] [] (ic_decode None nfeat nprof w cv iv cd)) o_array &&
  match aux with
  | Some a =>
      let '(_, _, ca) := compress_ic cs a in
      obs_eqb (finish flatv3 [nfeat; nprof; w] [] (ic_decode None nfeat nprof w cv iv ca)) o_aux
  | None => true
  end.

Definition case_obs (c : case) : obs :=
  match c with
  | KContig _ _ _ _ _ _ o | KIndexed _ _ _ _ _ _ o | KIC _ _ _ _ _ _ _ _ o
  | KGathered _ _ _ _ _ _ o => o
  | KCompress2 _ _ _ _ _ _ _ _ o _ => o
  | KCompress3 _ _ _ _ _ _ _ o _ => o
  end.

Definition check_case (c : case) : bool :=
  match c with
  | KCompress2 m w rows aux other o_var o_cdata o_cother o_array o_other =>
      check_compress2 m w rows aux other o_var o_cdata o_cother o_array o_other
  | KCompress3 nprof w rows aux o_count o_index o_cdata o_array o_aux =>
      check_compress3 nprof w rows aux o_count o_index o_cdata o_array o_aux
  | _ => obs_eqb (run_case c) (case_obs c)
  end.
