(* C06 - evaluation entry points for the correspondence harness.
   Imports Model only (never Lemmas), so it runs when a proof is broken. *)
From CfdmV Require Import Common.Base C06.Model.

Notation val := (option Z).
Notation cell := (list val).

(* what the implementation showed: the flat C-ordered array, or an error class *)
Inductive obs := OOk (flat : list val) | OErr (e : errk).

Definition val_eqb : val -> val -> bool := option_eqb Z.eqb.

Definition obs_eqb (a b : obs) : bool :=
  match a, b with
  | OOk x, OOk y => list_eqb val_eqb x y
  | OErr e, OErr f => errk_eqb e f
  | _, _ => false
  end.

Definition missc (tc : nat) : cell := repeat None tc.

(* subspace of the uncompressed view: Model.subspace; [] stands for the whole array *)
Definition subspace := @Model.subspace val None.

Definition finish {T} (flatten : T -> list val) (shape : list nat) (idx : list aindex)
  (r : result T) : obs :=
  match r with
  | Ok u => OOk (subspace shape idx (flatten u))
  | Err e => OErr e
  end.

Definition flat2 (u : list (list cell)) : list val := concat (concat u).
Definition flat3 (u : list (list (list cell))) : list val := concat (concat (concat u)).

Inductive method := MContiguous | MIndexed.

Inductive case :=
(* RaggedContiguousArray(data, shape=(nrows, w, tdims...), count) [idx] *)
| KContig (ty : ity) (nrows w : nat) (tdims : list nat) (counts : list Z) (data : list cell)
          (idx : list aindex) (o : obs)
(* RaggedIndexedArray(data, shape=(nrows, w, tdims...), index) [idx] *)
| KIndexed (ty : ity) (nrows w : nat) (tdims : list nat) (index : list Z) (data : list cell)
           (idx : list aindex) (o : obs)
(* RaggedIndexedContiguousArray(data, shape=(nfeat, nprof, w, tdims...), count, index) [idx] *)
| KIC (ty : ity) (nfeat nprof w : nat) (tdims : list nat) (counts : list Z) (index : list Z)
      (data : list cell) (idx : list aindex) (o : obs)
(* GatheredArray(data, shape = ldims ++ dims ++ tdims, list); one block of
   samples per position of the leading dimensions *)
| KGathered (ty : ity) (ldims dims tdims : list nat) (lst : list Z) (blocks : list (list cell))
            (idx : list aindex) (o : obs)
(* Field.compress('contiguous'|'indexed') of a 2-d field: rows, optional
   auxiliary coordinate the counts are derived from, a second construct
   spanning the same axes; observed: count or index variable, compressed
   data of the field and of the construct, both uncompressed arrays *)
| KCompress2 (m : method) (w : nat) (rows : list (list val)) (aux : option (list (list val)))
             (other : list (list val))
             (o_var : list Z) (o_cdata o_cother : list val) (o_array o_other : obs)
(* Field.compress('indexed_contiguous') of a 3-d field *)
| KCompress3 (nprof w : nat) (rows : list (list (list val))) (aux : option (list (list (list val))))
             (o_count o_index : list Z) (o_cdata : list val) (o_array o_aux : obs)
(* d1.equals(d2, ignore_compression=True / False) for two compressed arrays (a and b are
   array cases; their idx and o fields are not used) *)
| KPair (a b : case) (o_default o_strict : bool).


Definition flatv2 (u : list (list val)) : list val := concat u.
Definition flatv3 (u : list (list (list val))) : list val := concat (concat u).

Definition zlist_eqb := list_eqb Z.eqb.
Definition vlist_eqb := list_eqb val_eqb.

(* the count / index / list variable holds its values in the integer type ty:
   what is read back is [wrap ty v] *)
Definition run_case (c : case) : obs :=
  match c with
  | KContig ty nrows w tdims counts data idx _ =>
      finish flat2 (nrows :: w :: tdims) idx
        (contiguous_decode_ty (missc (prod tdims)) ty nrows w counts data)
  | KIndexed ty nrows w tdims index data idx _ =>
      finish flat2 (nrows :: w :: tdims) idx
        (indexed_decode (missc (prod tdims)) nrows w (map (wrap ty) index) data)
  | KIC ty nfeat nprof w tdims counts index data idx _ =>
      finish flat3 (nfeat :: nprof :: w :: tdims) idx
        (ic_decode (missc (prod tdims)) nfeat nprof w (count_tolist ty counts) (map (wrap ty) index) data)
  | KGathered ty ldims dims tdims lst blocks idx _ =>
      finish flat2 (ldims ++ dims ++ tdims) idx
        (gathered_decode (missc (prod tdims)) dims (map (wrap ty) lst) blocks)
  | _ => OErr OtherErr
  end.

(* ---- pairs: Data.equals ---- *)
Definition whole (c : case) : case :=
  match c with
  | KContig ty n w t cs d _ o => KContig ty n w t cs d [] o
  | KIndexed ty n w t ix d _ o => KIndexed ty n w t ix d [] o
  | KIC ty nf np w t cs ix d _ o => KIC ty nf np w t cs ix d [] o
  | KGathered ty l ds t ls bs _ o => KGathered ty l ds t ls bs [] o
  | _ => c
  end.

Definition case_shape (c : case) : list nat :=
  match c with
  | KContig _ n w t _ _ _ _ | KIndexed _ n w t _ _ _ _ => n :: w :: t
  | KIC _ nf np w t _ _ _ _ _ => nf :: np :: w :: t
  | KGathered _ l ds t _ _ _ _ => l ++ ds ++ t
  | _ => []
  end.

(* compression type (as a number) and compressed array (shape, flat values) *)
Definition case_ctype (c : case) : nat :=
  match c with KContig _ _ _ _ _ _ _ _ => 1 | KIndexed _ _ _ _ _ _ _ _ => 2
             | KIC _ _ _ _ _ _ _ _ _ _ => 3 | KGathered _ _ _ _ _ _ _ _ => 4 | _ => 0 end%nat.

Definition case_carr (c : case) : list nat * list val :=
  match c with
  | KContig _ _ _ t _ d _ _ | KIndexed _ _ _ t _ d _ _ | KIC _ _ _ _ t _ _ d _ _ =>
      (length d :: t, concat d)
  | KGathered _ l _ t ls bs _ _ => (l ++ length (hd [] bs) :: t, concat (concat bs))
  | _ => ([], [])
  end.

Definition nats_eqb := list_eqb Nat.eqb.

Definition view_eqb (a b : list nat * obs) : bool :=
  nats_eqb (fst a) (fst b) &&
  match snd a, snd b with OOk x, OOk y => vlist_eqb x y | _, _ => false end.

Definition pair_equals (ignore_compression : bool) (a b : case) : bool :=
  data_equals (fun c => (case_shape c, run_case (whole c))) case_ctype case_carr
              view_eqb Nat.eqb (fun x y => nats_eqb (fst x) (fst y) && vlist_eqb (snd x) (snd y))
              ignore_compression (Compressed a) (Compressed b).

(* the constructs spanning the field's axes: the auxiliary coordinate (if any)
   and the second construct *)
Definition others2 (aux : option (list (list val))) (other : list (list val)) : list (list (list val)) :=
  match aux with Some a => [a; other] | None => [other] end.

Definition check_compress2 (m : method) (w : nat) (rows : list (list val))
  (aux : option (list (list val))) (other : list (list val))
  (o_var : list Z) (o_cdata o_cother : list val) (o_array o_other : obs) : bool :=
  let nrows := length rows in
  let counts := derive_counts rows (others2 aux other) in
  match m with
  | MContiguous =>
      let '(cv, cd) := compress_contiguous counts rows in
      let co := pack counts other in
      zlist_eqb (map Z.of_nat cv) o_var && vlist_eqb cd o_cdata && vlist_eqb co o_cother &&
      obs_eqb (finish flatv2 [nrows; w] [] (contiguous_decode None nrows w cv cd)) o_array &&
      obs_eqb (finish flatv2 [nrows; w] [] (contiguous_decode None nrows w cv co)) o_other
  | MIndexed =>
      let '(iv, cd) := compress_indexed counts rows in
      let co := pack counts other in
      zlist_eqb iv o_var && vlist_eqb cd o_cdata && vlist_eqb co o_cother &&
      obs_eqb (finish flatv2 [nrows; w] [] (indexed_decode None nrows w iv cd)) o_array &&
      obs_eqb (finish flatv2 [nrows; w] [] (indexed_decode None nrows w iv co)) o_other
  end.

(* count = flat list over all profiles; count[shape1 * i : shape1 * (i + 1)]
   are the counts of feature i *)
Definition check_compress3 (nprof w : nat) (rows : list (list (list val)))
  (aux : option (list (list (list val)))) (o_count o_index : list Z) (o_cdata : list val)
  (o_array o_aux : obs) : bool :=
  let nfeat := length rows in
  let others := match aux with Some a => [concat a] | None => [] end in
  let cs := chunks nfeat nprof (derive_counts (concat rows) others) in
  let '(cv, iv, cd) := compress_ic cs rows in
  zlist_eqb (map Z.of_nat cv) o_count && zlist_eqb iv o_index && vlist_eqb cd o_cdata &&
  obs_eqb (finish flatv3 [nfeat; nprof; w] [] (ic_decode None nfeat nprof w cv iv cd)) o_array &&
  match aux with
  | Some a =>
      let '(_, _, ca) := compress_ic cs a in
      obs_eqb (finish flatv3 [nfeat; nprof; w] [] (ic_decode None nfeat nprof w cv iv ca)) o_aux
  | None => true
  end.

Definition case_obs (c : case) : obs :=
  match c with
  | KContig _ _ _ _ _ _ _ o | KIndexed _ _ _ _ _ _ _ o | KIC _ _ _ _ _ _ _ _ _ o
  | KGathered _ _ _ _ _ _ _ o => o
  | KPair _ _ _ _ => OErr OtherErr
  | KCompress2 _ _ _ _ _ _ _ _ o _ => o
  | KCompress3 _ _ _ _ _ _ _ o _ => o
  end.

Definition check_case (c : case) : bool :=
  match c with
  | KCompress2 m w rows aux other o_var o_cdata o_cother o_array o_other =>
      check_compress2 m w rows aux other o_var o_cdata o_cother o_array o_other
  | KCompress3 nprof w rows aux o_count o_index o_cdata o_array o_aux =>
      check_compress3 nprof w rows aux o_count o_index o_cdata o_array o_aux
  | KPair a b o_default o_strict =>
      Bool.eqb (pair_equals true a b) o_default && Bool.eqb (pair_equals false a b) o_strict
  | _ => obs_eqb (run_case c) (case_obs c)
  end.
