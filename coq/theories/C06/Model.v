(* C06 - executable model of cfdm's decompression-by-convention code.
   Definitions only; transcribed from

     cfdm/data/abstract/compressedarray.py   CompressedArray.__getitem__
     cfdm/data/abstract/raggedarray.py       _uncompressed_descriptors
     cfdm/data/raggedcontiguousarray.py      subarrays
     cfdm/data/raggedindexedarray.py         subarrays
     cfdm/data/raggedindexedcontiguousarray.py  subarrays
     cfdm/data/subarray/raggedsubarray.py    __getitem__
     cfdm/data/gatheredarray.py              _uncompressed_indices, subarrays
     cfdm/data/subarray/gatheredsubarray.py  __getitem__
     cfdm/field.py                           Field.compress

   An array element ("cell") has an arbitrary type A with a distinguished
   missing cell [miss]: for a compressed array without trailing dimensions a
   cell is one optional value, with trailing dimensions it is the block of all
   elements that share a sample.  Compressed data are lists of cells along the
   sample dimension.

   Definitions named ..._old transcribe the code as it was at the pinned
   commit (before the fix: commits proposed in handoff/C06-fix-*.diff); they
   are kept for the witnesses in Refuted.v. *)
From CfdmV Require Import Common.Base.

Section Cells.
Context {A : Type}.
Context (miss : A).

(* ---- numpy basic slice a[start:stop] with 0 <= start <= stop (clipped) ---- *)
Definition slice_list (start stop : nat) (l : list A) : list A :=
  firstn (stop - start) (skipn start l).

(* The compressed indices of one subarray: a slice (contiguous) or an integer
   array (indexed). *)
Inductive selector := SSlice (start stop : nat) | SPos (ps : list nat).

(* Subarray._select_data: data[indices], where data is a cfdm Data object:
   Data._parse_indices turns a one-element integer array [p] into
   slice(p, p + 1, 1), which is clipped rather than checked. *)
Definition select (s : selector) (data : list A) : result (list A) :=
  match s with
  | SSlice a b => Ok (slice_list a b data)
  | SPos [p] => Ok (slice_list p (S p) data)
  | SPos ps =>
      if forallb (fun p => p <? length data)%nat ps
      then Ok (map (fun p => nth p data miss) ps)
      else Err IndexErr
  end.

(* RaggedSubarray.__getitem__: the selected samples of one feature become one
   row of the element dimension, padded with missing cells.
     if data.size:  u = masked_all(width); u[0:n] = data   (ValueError if n > width)
     else:          u = masked_all(width)                                        *)
Definition ragged_row (w : nat) (sel : list A) : result (list A) :=
  match sel with
  | [] => Ok (repeat miss w)
  | _ :: _ =>
      if (length sel <=? w)%nat
      then Ok (sel ++ repeat miss (w - length sel))
      else Err ValueErr
  end.

(* CompressedArray.__getitem__ for ragged arrays:
     u = masked_all(shape)
     for u_indices, u_shape, c_indices, _ in zip of self.subarrays():
         u[u_indices] = Subarray(indices=c_indices, ...)[...]
   The uncompressed descriptors enumerate the rows 0 .. rows-1 in order (one
   subarray per row); zip stops at the shorter of the two sequences, rows that
   receive no subarray stay missing. *)
Fixpoint assemble (w rows : nat) (sels : list selector) (data : list A)
  : result (list (list A)) :=
  match rows with
  | O => Ok []
  | S r =>
      match sels with
      | [] => Ok (repeat (repeat miss w) rows)
      | s :: ss =>
          rbind (select s data) (fun sel =>
          rbind (ragged_row w sel) (fun row =>
          rbind (assemble w r ss data) (fun rest => Ok (row :: rest))))
      end
  end.

(* ---- ragged contiguous: c = accumulate([0] + count); slice(c[i], c[i+1]) ---- *)
Fixpoint contig_selectors (start : nat) (counts : list nat) : list selector :=
  match counts with
  | [] => []
  | c :: r => SSlice start (start + c) :: contig_selectors (start + c) r
  end.

Definition contiguous_decode (nrows w : nat) (counts : list nat) (data : list A) :=
  assemble w nrows (contig_selectors 0 counts) data.

(* ---- ragged indexed: np.where(index == i)[0] ---- *)
Fixpoint positions_eq (i : Z) (index : list Z) (p : nat) : list nat :=
  match index with
  | [] => []
  | x :: r => if Z.eqb x i then p :: positions_eq i r (S p) else positions_eq i r (S p)
  end.

Definition instances (n : nat) : list Z := map Z.of_nat (seq 0 n).

(* np.unique(index).tolist(): sorted distinct values *)
Fixpoint insert_unique (x : Z) (l : list Z) : list Z :=
  match l with
  | [] => [x]
  | y :: r => if Z.ltb x y then x :: l else if Z.eqb x y then l else y :: insert_unique x r
  end.
Definition unique (l : list Z) : list Z := fold_right insert_unique [] l.

Definition indexed_selectors (insts : list Z) (index : list Z) : list selector :=
  map (fun i => SPos (positions_eq i index 0)) insts.

(* repaired code: for i in range(n_instances) *)
Definition indexed_decode (nrows w : nat) (index : list Z) (data : list A) :=
  assemble w nrows (indexed_selectors (instances nrows) index) data.

(* pinned code: for i in np.unique(index) *)
Definition indexed_decode_old (nrows w : nat) (index : list Z) (data : list A) :=
  assemble w nrows (indexed_selectors (unique index) index) data.

(* ---- ragged indexed contiguous ---- *)
Fixpoint cumsum_from (acc : nat) (l : list nat) : list nat :=
  match l with [] => [] | x :: r => (acc + x) :: cumsum_from (acc + x) r end.
Definition cumsum := cumsum_from 0.

(* for j in profile_locations: start = 0 if not j else cps[j-1]; slice(start, cps[j])
   (IndexError while building the descriptors if j is beyond the count variable);
   then (slice(0,0),) * (max_n_profiles - profile_locations.size)  *)
Definition profile_slice (cps : list nat) (j : nat) : selector :=
  SSlice (match j with O => 0 | S j' => nth j' cps 0 end) (nth j cps 0).

Definition ic_feature_selectors (nprof : nat) (cps : list nat) (index : list Z) (i : Z)
  : result (list selector) :=
  let locs := positions_eq i index 0 in
  if forallb (fun j => j <? length cps)%nat locs
  then Ok (map (profile_slice cps) locs ++ repeat (SSlice 0 0) (nprof - length locs))
  else Err IndexErr.

Fixpoint ic_selectors (nprof : nat) (cps : list nat) (index : list Z) (feats : list Z)
  : result (list selector) :=
  match feats with
  | [] => Ok []
  | i :: r =>
      rbind (ic_feature_selectors nprof cps index i) (fun s =>
      rbind (ic_selectors nprof cps index r) (fun ss => Ok (s ++ ss)))
  end.

(* split a list of n*k rows into n groups of k *)
Fixpoint chunks {B} (n k : nat) (l : list B) : list (list B) :=
  match n with
  | O => []
  | S n' => firstn k l :: chunks n' k (skipn k l)
  end.

Definition ic_decode_with (feats : list Z) (nfeat nprof w : nat)
  (counts : list nat) (index : list Z) (data : list A)
  : result (list (list (list A))) :=
  rbind (ic_selectors nprof (cumsum counts) index feats) (fun sels =>
  rbind (assemble w (nfeat * nprof) sels data) (fun rows =>
  Ok (chunks nfeat nprof rows))).

(* repaired: for i in range(n_features) *)
Definition ic_decode (nfeat nprof w : nat) counts index data :=
  ic_decode_with (instances nfeat) nfeat nprof w counts index data.

(* pinned: for i in np.unique(index) *)
Definition ic_decode_old (nfeat nprof w : nat) counts (index : list Z) data :=
  ic_decode_with (unique index) nfeat nprof w counts index data.

(* pinned code, trailing dimensions: the slice of the k-th trailing dimension
   of the compressed array was taken from shapes[d + 1] - the size of the
   dimension before it in the uncompressed array (element dimension, first
   trailing dimension, ...) - so a larger trailing dimension was clipped and
   the reshape of any non-empty subarray raised ValueError. *)
Definition trailing_clipped_old (w : nat) (tdims : list nat) : bool :=
  existsb (fun pt => (fst pt <? snd pt)%nat) (combine (w :: tdims) tdims).

Definition nonempty_selection (data : list A) (s : selector) : bool :=
  match select s data with Ok (_ :: _) => true | _ => false end.

Definition ic_decode_old_trailing (nfeat nprof w : nat) (tdims : list nat)
  counts (index : list Z) (data : list A) : result (list (list (list A))) :=
  rbind (ic_selectors nprof (cumsum counts) index (unique index)) (fun sels =>
  if trailing_clipped_old w tdims &&
     existsb (nonempty_selection data) (firstn (nfeat * nprof) sels)
  then Err ValueErr
  else rbind (assemble w (nfeat * nprof) sels data) (fun rows =>
       Ok (chunks nfeat nprof rows))).

(* ---- gathered ---- *)
Definition prod (dims : list nat) : nat := fold_right Nat.mul 1%nat dims.

(* np.unravel_index (C order) of an in-range flat index *)
Fixpoint unravel (dims : list nat) (k : nat) : list nat :=
  match dims with
  | [] => []
  | _ :: r => (k / prod r)%nat :: unravel r (k mod prod r)%nat
  end.

(* position of a multi-index in a C-ordered block *)
Fixpoint ravel (dims : list nat) (c : list nat) : nat :=
  match dims, c with
  | _ :: r, x :: cs => (x * prod r + ravel r cs)%nat
  | _, _ => O
  end.

Fixpoint set_nth {B} (n : nat) (x : B) (l : list B) : list B :=
  match l, n with
  | [], _ => []
  | _ :: r, O => x :: r
  | y :: r, S n' => y :: set_nth n' x r
  end.

(* GatheredArray._uncompressed_indices + GatheredSubarray.__getitem__ for one
   position of the leading dimensions:
     u = masked_all(shape); u[unravel_index(list, dims)] = data
   unravel_index raises ValueError for a value outside [0, prod dims); the
   assignment raises ValueError unless the sample dimension of the data has
   the size of the list variable (a size-1 sample dimension broadcasts);
   repeated list values: the last assignment wins. *)
Definition gathered_block (dims : list nat) (lst : list Z) (data : list A)
  : result (list A) :=
  let P := prod dims in
  if forallb (fun k => (0 <=? k)%Z && (k <? Z.of_nat P)%Z) lst then
    let data' := match data with [x] => repeat x (length lst) | _ => data end in
    if (length lst =? length data')%nat then
      Ok (fold_left
            (fun u kx => set_nth (ravel dims (unravel dims (Z.to_nat (fst kx)))) (snd kx) u)
            (combine lst data') (repeat miss P))
    else Err ValueErr
  else Err ValueErr.

Fixpoint gathered_decode (dims : list nat) (lst : list Z) (blocks : list (list A))
  : result (list (list A)) :=
  match blocks with
  | [] => Ok []
  | b :: r =>
      rbind (gathered_block dims lst b) (fun u =>
      rbind (gathered_decode dims lst r) (fun us => Ok (u :: us)))
  end.

(* ---- Field.compress: packing ---- *)
(* compressed_data[start:end] = d[:last] for every feature, in order *)
Definition pack (counts : list nat) (rows : list (list A)) : list A :=
  concat (map (fun cr => firstn (fst cr) (snd cr)) (combine counts rows)).

(* pinned code: compressed_data[start:end] = d[:last] with d a Data object;
   Data.__setitem__ does np.asanyarray(value), which drops the mask of a Data
   value, so a missing value inside a feature came back as the number that
   was stored under the mask. *)
Definition pack_old {V} (hidden : V) (counts : list nat) (rows : list (list (option V)))
  : list (option V) :=
  map (fun x => match x with None => Some hidden | Some v => Some v end)
      (concat (map (fun cr => firstn (fst cr) (snd cr)) (combine counts rows))).

End Cells.


(* _derive_count: size of the row minus its trailing missing values *)
Fixpoint derive_count {V} (row : list (option V)) : nat :=
  match row with
  | [] => O
  | x :: r =>
      match derive_count r, x with
      | O, None => O
      | n, _ => S n
      end
  end.

(* index_variable.data[start:end] = i *)
Fixpoint index_of_counts (i : nat) (counts : list nat) : list Z :=
  match counts with
  | [] => []
  | c :: r => repeat (Z.of_nat i) c ++ index_of_counts (S i) r
  end.

(* _n_profiles (repaired code): position of the last non-empty profile + 1 *)
Fixpoint n_profiles (counts : list nat) : nat :=
  match counts with
  | [] => O
  | c :: r =>
      match n_profiles r, c with
      | O, O => O
      | n, _ => S n
      end
  end.

(* The counts used by Field.compress.
   Repaired code (handoff/C06-fix2-1.diff):
     count = _derive_count(field data)
     for every construct c spanning the same axes in the same order:
         count = [max(m, n) for m, n in zip(count, _derive_count(c.data))]   *)
Definition zip_max (a b : list nat) : list nat :=
  map (fun p => Nat.max (fst p) (snd p)) (combine a b).

Definition derive_counts {V} (rows : list (list (option V)))
  (others : list (list (list (option V)))) : list nat :=
  fold_left (fun cnt o => zip_max cnt (map derive_count o)) others (map derive_count rows).

(* Before that repair: the counts of the first auxiliary coordinate spanning
   the field's axes when there is one, else those of the field data. *)
Definition derive_counts_old {V} (rows : list (list (option V)))
  (aux : option (list (list (option V)))) : list nat :=
  map derive_count (match aux with Some a => a | None => rows end).

Section Compress.
Context {V : Type}.
Notation cell := (option V).

(* every array on the field's axes (the field data and each such construct)
   is packed with the same counts *)
Definition compress_contiguous (counts : list nat) (rows : list (list cell))
  : list nat * list cell :=
  (counts, pack counts rows).

(* pinned: data=self._Data([n for n in count if n]) *)
Definition compress_contiguous_old (src rows : list (list cell)) : list nat * list cell :=
  let counts := map derive_count src in
  (filter (fun n => negb (n =? 0)%nat) counts, pack counts rows).

Definition compress_indexed (counts : list nat) (rows : list (list cell))
  : list Z * list cell :=
  (index_of_counts 0 counts, pack counts rows).

(* indexed contiguous: rows : features x profiles x elements; cs : the counts
   of every profile, feature by feature (count[shape1 * i : shape1 * (i + 1)]) *)
Definition kept_profiles (cs : list (list nat)) : list (list nat) :=
  map (fun nc => firstn (fst nc) (snd nc)) (combine (map n_profiles cs) cs).

Definition compress_ic (cs : list (list nat)) (rows : list (list (list cell)))
  : list nat * list Z * list cell :=
  (concat (kept_profiles cs),
   index_of_counts 0 (map n_profiles cs),
   pack (concat cs) (concat rows)).

(* pinned: zero counts dropped; a feature has as many profiles as non-zero counts *)
Definition ic_counts (src : list (list (list cell))) : list (list nat) :=
  map (map derive_count) src.

Definition compress_ic_old (src rows : list (list (list cell)))
  : list nat * list Z * list cell :=
  let cs := ic_counts src in
  let nz := filter (fun n => negb (n =? 0)%nat) in
  (nz (concat cs),
   index_of_counts 0 (map (fun c => length (nz c)) cs),
   pack (concat cs) (concat rows)).

End Compress.

(* ---- the view presented by Data: a compressed source stays compressed under
   reads and is replaced by a plain array on assignment (Data.__setitem__:
   array = self.array; _set_subspace; _set_Array) ---- *)
Section View.
Context {C U I W : Type}.
Context (decode : C -> U) (take : U -> I -> U) (put : U -> I -> W -> U).

Inductive dstate := Compressed (c : C) | Plain (u : U).

Definition view (s : dstate) : U :=
  match s with Compressed c => decode c | Plain u => u end.

Inductive dop := OArray | OSubspace (i : I) | OCopy | OAssign (i : I) (v : W).

Definition is_read (o : dop) : bool :=
  match o with OAssign _ _ => false | _ => true end.

(* state after the operation, and what the operation returns (for reads) *)
Definition dstep (s : dstate) (o : dop) : dstate * option U :=
  match o with
  | OArray => (s, Some (view s))
  | OSubspace i => (s, Some (take (view s) i))
  | OCopy => (s, None)
  | OAssign i v => (Plain (put (view s) i v), None)
  end.

Definition drun (s : dstate) (ops : list dop) : dstate :=
  fold_left (fun s o => fst (dstep s o)) ops s.

End View.

(* ---- minimal index semantics for subspaces of the uncompressed view ----
   (Python slices as PySlice_AdjustIndices + range; integers keep the axis;
   integer lists index orthogonally) *)
Inductive aindex := AInt (i : Z) | ASlice (a b c : option Z) | AList (l : list Z).

Open Scope Z_scope.

Definition adjust (n step : Z) (v : option Z) (dflt_pos dflt_neg : Z) : Z :=
  match v with
  | None => if step <? 0 then dflt_neg else dflt_pos
  | Some x =>
      if x <? 0 then
        let y := x + n in
        if y <? 0 then (if step <? 0 then -1 else 0) else y
      else if n <=? x then (if step <? 0 then n - 1 else n) else x
  end.

Definition slice_positions (n : Z) (a b c : option Z) : list Z :=
  let step := match c with None => 1 | Some s => s end in
  let start := adjust n step a 0 (n - 1) in
  let stop := adjust n step b n (-1) in
  let len :=
    if step <? 0 then (if stop <? start then (start - stop - 1) / (- step) + 1 else 0)
    else if 0 <? step then (if start <? stop then (stop - start - 1) / step + 1 else 0)
    else 0 in
  map (fun k => start + Z.of_nat k * step) (seq 0 (Z.to_nat len)).

Definition axis_positions (n : nat) (i : aindex) : list nat :=
  let nz := Z.of_nat n in
  let norm := fun x => Z.to_nat (if x <? 0 then x + nz else x) in
  match i with
  | AInt x => [norm x]
  | ASlice a b c => map Z.to_nat (slice_positions nz a b c)
  | AList l => map norm l
  end.

Close Scope Z_scope.

(* all multi-indices of the orthogonal selection, in C order *)
Fixpoint multi_indices (pos : list (list nat)) : list (list nat) :=
  match pos with
  | [] => [[]]
  | p :: r => flat_map (fun x => map (cons x) (multi_indices r)) p
  end.

(* u[indices] with orthogonal indexing, on a C-ordered flat array *)
Definition orth_take {B} (dflt : B) (shape : list nat) (pos : list (list nat)) (flat : list B)
  : list B :=
  map (fun mi => nth (ravel shape mi) flat dflt) (multi_indices pos).

(* CompressedArray.__getitem__(indices): the whole array is uncompressed and
   then indexed orthogonally (netcdf_indexer(u, orthogonal_indexing=True)[indices]);
   [] stands for the whole array *)
Definition subspace {B} (dflt : B) (shape : list nat) (idx : list aindex) (flat : list B) : list B :=
  match idx with
  | [] => flat
  | _ => orth_take dflt shape (map (fun ni => axis_positions (fst ni) (snd ni)) (combine shape idx)) flat
  end.

Definition subspace_shape (shape : list nat) (idx : list aindex) : list nat :=
  match idx with
  | [] => shape
  | _ => map (fun ni => length (axis_positions (fst ni) (snd ni))) (combine shape idx)
  end.

(* ---- Data.equals on compressed data (cfdm/data/data.py Data.equals) ----
     if not ignore_compression:
         compression types differ        -> False
         compressed arrays differ        -> False
     uncompressed arrays differ          -> False
     True
   (shape, data type, fill value and units are part of the comparison of the
   uncompressed arrays here.)  [ctype] and [carr] project the compression type
   and the compressed array out of a compressed source; plain data have the
   compression type ''. *)
Section Equals.
Context {C U T K : Type}.
Context (decode : C -> U) (ctype : C -> T) (carr : C -> K).
Context (u_eqb : U -> U -> bool) (t_eqb : T -> T -> bool) (k_eqb : K -> K -> bool).

Definition same_compression (s t : @dstate C U) : bool :=
  match s, t with
  | Plain _, Plain _ => true
  | Compressed a, Compressed b => t_eqb (ctype a) (ctype b) && k_eqb (carr a) (carr b)
  | _, _ => false
  end.

Definition data_equals (ignore_compression : bool) (s t : @dstate C U) : bool :=
  (if ignore_compression then true else same_compression s t) &&
  u_eqb (view decode s) (view decode t).

(* a variant that does not look at the uncompressed arrays when the
   compression types and the compressed arrays are equal (never in cfdm; kept
   for the witness Refuted.C06_equals_shortcut_refuted: the count / index /
   list variables are not part of that comparison) *)
Definition data_equals_shortcut (ignore_compression : bool) (s t : @dstate C U) : bool :=
  match s, t with
  | Compressed a, Compressed b =>
      if t_eqb (ctype a) (ctype b) && k_eqb (carr a) (carr b) then true
      else data_equals ignore_compression s t
  | _, _ => data_equals ignore_compression s t
  end.

End Equals.

(* ---- the integer type of a count / index / list variable ----
   A value v kept in a variable of type t is read back as [wrap t v] (two's
   complement); RaggedContiguousArray.subarrays does
       count = np.array(self.get_count()).tolist();  c = tuple(accumulate([0] + count))
   so the partial sums are sums of Python integers, whatever the type. *)
Inductive ity := I8 | U8 | I16 | U16 | I32 | U32 | I64.

Open Scope Z_scope.

Definition ity_bits (t : ity) : Z :=
  match t with I8 | U8 => 8 | I16 | U16 => 16 | I32 | U32 => 32 | I64 => 64 end.

Definition ity_signed (t : ity) : bool :=
  match t with I8 | I16 | I32 | I64 => true | _ => false end.

Definition ity_min (t : ity) : Z := if ity_signed t then - 2 ^ (ity_bits t - 1) else 0.
Definition ity_max (t : ity) : Z :=
  if ity_signed t then 2 ^ (ity_bits t - 1) - 1 else 2 ^ ity_bits t - 1.

Definition in_ity (t : ity) (v : Z) : bool := (ity_min t <=? v) && (v <=? ity_max t).

Definition wrap (t : ity) (v : Z) : Z :=
  let m := 2 ^ ity_bits t in
  let r := v mod m in
  if ity_signed t && (ity_max t <? r) then r - m else r.

Close Scope Z_scope.

Section Typed.
Context {A : Type}.
Context (miss : A).

(* the code: the values read back from the variable, as Python integers *)
Definition count_tolist (t : ity) (stored : list Z) : list nat :=
  map (fun v => Z.to_nat (wrap t v)) stored.

Definition contiguous_decode_ty (t : ity) (nrows w : nat) (stored : list Z) (data : list A) :=
  contiguous_decode miss nrows w (count_tolist t stored) data.

(* a variant in which the partial sums are accumulated in the variable's own
   type (np.cumsum(..., dtype=count.dtype)) - never in cfdm; for the witness
   Refuted.C06_partial_sums_in_count_type_refuted.  A slice with a negative or
   reversed bound follows Python: negative bounds count from the end, bounds
   are clipped, a stop at or before the start selects nothing. *)
Fixpoint cumsum_wrap (t : ity) (acc : Z) (l : list Z) : list Z :=
  match l with
  | [] => []
  | x :: r => let s := wrap t (acc + x) in s :: cumsum_wrap t s r
  end.

Definition norm_bound (n x : Z) : nat :=
  Z.to_nat (if Z.ltb x 0 then Z.max 0 (x + n) else Z.min x n).

Fixpoint slices_between (n : Z) (start : Z) (ends : list Z) : list selector :=
  match ends with
  | [] => []
  | e :: r => SSlice (norm_bound n start) (norm_bound n e) :: slices_between n e r
  end.

Definition contiguous_decode_wrapped (t : ity) (nrows w : nat) (stored : list Z) (data : list A) :=
  let counts := map (wrap t) stored in
  assemble miss w nrows
    (slices_between (Z.of_nat (length data)) 0%Z (cumsum_wrap t 0%Z counts)) data.

End Typed.
