(* C04 - the code as it stood at the pinned commit does NOT satisfy the
   property.  Witnesses (each replayed against the implementation before the
   repair; see handoff/C04.md). *)
From CfdmV Require Import Common.Base C04.Model C04.Lemmas.
Open Scope string_scope.

(* F04a: decorators.py _inplace_enabled without try/except: a call that fails
   before the body reaches the clean-up (unexpected keyword: TypeError) leaves
   a whole copy of the receiver (or the receiver itself) stored on it. *)
Theorem C04_old_placeholder_survives_refuted :
  exists inplace b n x, a_placeholder (call false inplace b n x) <> None.
Proof. exact old_placeholder_survives. Qed.

(* F04b: set_data(data, inplace=False) built its result from
   self.copy(data=False): the result differs from what the in-place form
   makes of a copy - the bounds have lost their data. *)
Definition coord_example : obj :=
  Node 0 "DimensionCoordinate" [("_components", Node 1 "dict"
    [("'bounds'", Node 2 "Bounds" [("_components", Node 3 "dict"
        [("'custom'", Node 4 "dict" []);
         ("'data'", Node 5 "Data" [("_components", Node 6 "dict" [("'custom'", Node 7 "dict" [])])])])]);
     ("'custom'", Node 8 "dict" []);
     ("'data'", Node 9 "Data" [("_components", Node 10 "dict" [("'custom'", Node 11 "dict" [])])])])].

Theorem C04_old_set_data_not_inplace_refuted :
  exists x d n, below n x /\
    erase (set_data_new true x d n) <> erase (set_data_inplace (snd (copy x MCopy n)) d).
Proof.
  exists coord_example, (Imm "newdata"), 12. split.
  - unfold below. vm_compute. repeat constructor.
  - vm_compute. discriminate.
Qed.

(* the repaired form agrees with the in-place form on a copy, by construction *)
Theorem C04_set_data_not_inplace :
  forall x d n, set_data_new false x d n = set_data_inplace (snd (copy x MCopy n)) d.
Proof. reflexivity. Qed.
