(* C04 - the code as it stood at the pinned commit does NOT satisfy the
   property.  Witnesses (each replayed against the implementation before the
   repair; see handoff/C04.md). *)
From CfdmV Require Import Common.Base C04.Model C04.Lemmas.
Open Scope string_scope.

(* F04a: decorators.py _inplace_enabled without try/except: a call that fails
   before the body reaches the clean-up (unexpected keyword: TypeError) leaves
   a whole copy of the receiver (or the receiver itself) stored on it. *)
Theorem C04_old_placeholder_survives_refuted :
  exists inplace b n x, a_placeholder (call false inplace b n x) <> None.
Proof. exact old_placeholder_survives. Qed.

(* F04b: set_data(data, inplace=False) built its result from
   self.copy(data=False): the result differs from what the in-place form
   makes of a copy - the bounds have lost their data. *)
Definition coord_example : obj :=
  Node 0 "DimensionCoordinate" [("_components", Node 1 "dict"
    [("'bounds'", Node 2 "Bounds" [("_components", Node 3 "dict"
        [("'custom'", Node 4 "dict" []);
         ("'data'", Node 5 "Data" [("_components", Node 6 "dict" [("'custom'", Node 7 "dict" [])])])])]);
     ("'custom'", Node 8 "dict" []);
     ("'data'", Node 9 "Data" [("_components", Node 10 "dict" [("'custom'", Node 11 "dict" [])])])])].

Theorem C04_old_set_data_not_inplace_refuted :
  exists x d n, below n x /\
    erase (set_data_new true x d n) <> erase (set_data_inplace (snd (copy x MCopy n)) d).
Proof.
  exists coord_example, (Imm "newdata"), 12. split.
  - unfold below. vm_compute. repeat constructor.
  - vm_compute. discriminate.
Qed.

(* the repaired form agrees with the in-place form on a copy, by construction *)
Theorem C04_set_data_not_inplace :
  forall x d n, set_data_new false x d n = set_data_inplace (snd (copy x MCopy n)) d.
Proof. reflexivity. Qed.

(* ---- second pass: seeded variants ------------------------------------------------ *)

(* Field.set_data with the data-axes assignment hoisted above the copy
   ("validate before the expensive copy"): inplace=False changes the receiver. *)
Theorem C04_hoisted_set_data_axes_refuted :
  exists x data axes n, below n x /\
    path_copied MCopy [C; "'constructs'"] x = true /\ path_copied MCopy [C] x = true /\
    erase (fst (field_set_data true x data axes n)) <> erase x.
Proof. exact field_set_data_hoisted_changes_receiver. Qed.

(* Constructs.copy carrying the filter history over with shallow_copy(): a
   write to a construct reached through the copy's history changes the source
   (and does not under the real recipe). *)
Theorem C04_shallow_filter_history_refuted :
  exists x n w, below n x /\
    resolve (snd (copy x MCopyPV n)) w <> [] /\
    erase (apply_all (resolve (snd (copy x MCopyPV n)) w) x) <> erase x /\
    apply_all (resolve (snd (copy x MCopy n)) w) x = x.
Proof. exact history_shared_if_shallow. Qed.
