(* C04 - the property theorems, nothing else.  Each is closed by [exact] of a
   lemma from Lemmas.v and followed by Print Assumptions. *)
From CfdmV Require Import Common.Base C04.Model C04.Lemmas.
Open Scope string_scope.

(* Where the cells of a copy come from: every address reachable from
   y = copy x is either newly allocated ([n, n')) or one of the cells the
   recipe shares on purpose ([shared x m]); holds for every object tree of any
   size and depth, every mode and every recipe table. *)
Theorem C04_copy_cells :
  forall x m n n' y, copy x m n = (n', y) ->
  n <= n' /\ forall a, In a (addrs y) -> (n <= a < n') \/ In a (shared x m).
Proof. exact copy_range. Qed.
Print Assumptions C04_copy_cells.

(* Separation: a cell reachable from both the source and its copy is one of
   the cells listed shared-by-design. *)
Theorem C04_copy_separation :
  forall x m n n' y, below n x -> copy x m n = (n', y) ->
  forall a, In a (addrs y) -> In a (addrs x) -> In a (shared x m).
Proof. exact copy_separation. Qed.
Print Assumptions C04_copy_separation.

(* The shared cells are cells of the source (nothing else leaks in). *)
Theorem C04_shared_are_source_cells :
  forall t m a, In a (shared t m) -> In a (addrs t).
Proof. exact shared_sub. Qed.
Print Assumptions C04_shared_are_source_cells.

(* Frame, copy side: any sequence (any length) of writes into cells that
   belong to the copy and are not shared, or into cells allocated later,
   leaves the source - the very tree, hence its fingerprint - unchanged. *)
Theorem C04_mutating_copy_keeps_source :
  forall x m n n' y ws, below n x -> copy x m n = (n', y) ->
  Forall (own_write x m y n') ws -> apply_all ws x = x.
Proof. exact mutate_copy_frame. Qed.
Print Assumptions C04_mutating_copy_keeps_source.

(* Frame, source side: the converse. *)
Theorem C04_mutating_source_keeps_copy :
  forall x m n n' y ws, below n x -> copy x m n = (n', y) ->
  Forall (own_write_src x m n') ws -> apply_all ws y = y.
Proof. exact mutate_source_frame. Qed.
Print Assumptions C04_mutating_source_keeps_copy.

(* Both at once, as fingerprints. *)
Theorem C04_fingerprints_kept :
  forall x m n n' y wy wx, below n x -> copy x m n = (n', y) ->
  Forall (own_write x m y n') wy -> Forall (own_write_src x m n') wx ->
  erase (apply_all wy x) = erase x /\ erase (apply_all wx y) = erase y.
Proof. exact fingerprints_kept. Qed.
Print Assumptions C04_fingerprints_kept.

(* Non-vacuity: a Data object whose copy shares nothing, with effective
   writes on either side that satisfy the hypotheses. *)
Theorem C04_frame_example :
  exists x n n' y wy wx,
    below n x /\ copy x MCopy n = (n', y) /\ wy <> [] /\ wx <> [] /\
    Forall (own_write x MCopy y n') wy /\ Forall (own_write_src x MCopy n') wx /\
    erase (apply_all wy y) <> erase y /\ erase (apply_all wx x) <> erase x /\
    shared x MCopy = [].
Proof. exact frame_example. Qed.
Print Assumptions C04_frame_example.

(* The guard is exact: without "not shared" the frame statement is false.
   A stand-alone NumpyArray and its copy share the components dict and the
   numpy buffer; an in-place write to that buffer through the copy changes the
   fingerprint of the source.  (cfdm never writes a held buffer in place -
   that is the hypothesis the reflection sweep checks on every run.) *)
Theorem C04_frame_unguarded_refuted :
  exists x n w, below n x /\
    In (target w) (addrs (snd (copy x MCopy n))) /\
    erase (apply_wr w x) <> erase x.
Proof. exact shared_write_visible. Qed.
Print Assumptions C04_frame_unguarded_refuted.

(* 'custom' is shallow-copied by design: a mutable value stored in it is a
   shared cell, and a write to it is seen from both sides. *)
Theorem C04_custom_value_shared_refuted :
  exists x n w, below n x /\
    In (target w) (addrs (snd (copy x MCopy n))) /\
    In (target w) (shared x MCopy) /\
    erase (apply_wr w x) <> erase x.
Proof. exact custom_value_shared. Qed.
Print Assumptions C04_custom_value_shared_refuted.

(* A pickle round trip (property values, netCDF names, parameters,
   qualifiers) reproduces the value exactly. *)
Theorem C04_deepcopy_faithful :
  forall t n, erase (snd (copy t MDeep n)) = erase t.
Proof. exact deep_faithful. Qed.
Print Assumptions C04_deepcopy_faithful.

(* In-place protocol.  If the body of a decorated method writes only cells of
   the object handed out by _inplace_enabled_define_and_cleanup (or newer
   ones), then m(inplace=False): leaves the receiver unchanged, also when the
   body raises; leaves no placeholder; returns exactly the state that
   m(inplace=True) produces on a copy of the receiver; and m(inplace=True)
   returns None. *)
Theorem C04_inplace_protocol :
  forall g ws r n x, below n x -> body_owns x n ws ->
  let res := call g false (BRun ws r) n x in
  let n' := fst (copy x MCopy n) in
  let z := snd (copy x MCopy n) in
  a_receiver res = x /\
  a_placeholder res = None /\
  a_outcome res = (if r then Raised
                   else Returned (Some (a_receiver (call g true (BRun ws r) n' z)))) /\
  a_outcome (call g true (BRun ws r) n' z) = (if r then Raised else Returned None).
Proof. exact not_inplace_pure. Qed.
Print Assumptions C04_inplace_protocol.

(* Non-vacuity of C04_inplace_protocol: an effective body meeting [body_owns]. *)
Theorem C04_inplace_protocol_example :
  exists ws x n, below n x /\ body_owns x n ws /\
    ws (snd (copy x MCopy n)) <> [] /\
    erase (a_receiver (call true true (BRun ws false) n x)) <> erase x.
Proof. exact protocol_example. Qed.
Print Assumptions C04_inplace_protocol_example.

(* The placeholder never survives a call of the (repaired) wrapper, whatever
   the body does - also when the call fails before the body runs. *)
Theorem C04_placeholder_never_survives :
  forall inplace b n x, a_placeholder (call true inplace b n x) = None.
Proof. exact placeholder_cleared. Qed.
Print Assumptions C04_placeholder_never_survives.

(* A call that fails before the body runs leaves the receiver as it was. *)
Theorem C04_early_failure_pure :
  forall g inplace n x,
  a_receiver (call g inplace BEarly n x) = x /\ a_outcome (call g inplace BEarly n x) = Raised.
Proof. exact early_failure_pure. Qed.
Print Assumptions C04_early_failure_pure.
