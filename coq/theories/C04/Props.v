(* C04 - the property theorems, nothing else.  Each is closed by [exact] of a
   lemma from Lemmas.v and followed by Print Assumptions. *)
From CfdmV Require Import Common.Base C04.Model C04.Lemmas.
Open Scope string_scope.

(* Where the cells of a copy come from: every address reachable from
   y = copy x is either newly allocated ([n, n')) or one of the cells the
   recipe shares on purpose ([shared x m]); holds for every object tree of any
   size and depth, every mode and every recipe table. *)
Theorem C04_copy_cells :
  forall x m n n' y, copy x m n = (n', y) ->
  n <= n' /\ forall a, In a (addrs y) -> (n <= a < n') \/ In a (shared x m).
Proof. exact copy_range. Qed.
Print Assumptions C04_copy_cells.

(* Separation: a cell reachable from both the source and its copy is one of
   the cells listed shared-by-design. *)
Theorem C04_copy_separation :
  forall x m n n' y, below n x -> copy x m n = (n', y) ->
  forall a, In a (addrs y) -> In a (addrs x) -> In a (shared x m).
Proof. exact copy_separation. Qed.
Print Assumptions C04_copy_separation.

(* The shared cells are cells of the source (nothing else leaks in). *)
Theorem C04_shared_are_source_cells :
  forall t m a, In a (shared t m) -> In a (addrs t).
Proof. exact shared_sub. Qed.
Print Assumptions C04_shared_are_source_cells.

(* Frame, copy side: any sequence (any length) of writes into cells that
   belong to the copy and are not shared, or into cells allocated later,
   leaves the source - the very tree, hence its fingerprint - unchanged. *)
Theorem C04_mutating_copy_keeps_source :
  forall x m n n' y ws, below n x -> copy x m n = (n', y) ->
  Forall (own_write x m y n') ws -> apply_all ws x = x.
Proof. exact mutate_copy_frame. Qed.
Print Assumptions C04_mutating_copy_keeps_source.

(* Frame, source side: the converse. *)
Theorem C04_mutating_source_keeps_copy :
  forall x m n n' y ws, below n x -> copy x m n = (n', y) ->
  Forall (own_write_src x m n') ws -> apply_all ws y = y.
Proof. exact mutate_source_frame. Qed.
Print Assumptions C04_mutating_source_keeps_copy.

(* Both at once, as fingerprints. *)
Theorem C04_fingerprints_kept :
  forall x m n n' y wy wx, below n x -> copy x m n = (n', y) ->
  Forall (own_write x m y n') wy -> Forall (own_write_src x m n') wx ->
  erase (apply_all wy x) = erase x /\ erase (apply_all wx y) = erase y.
Proof. exact fingerprints_kept. Qed.
Print Assumptions C04_fingerprints_kept.

(* Non-vacuity: a Data object whose copy shares nothing, with effective
   writes on either side that satisfy the hypotheses. *)
Theorem C04_frame_example :
  exists x n n' y wy wx,
    below n x /\ copy x MCopy n = (n', y) /\ wy <> [] /\ wx <> [] /\
    Forall (own_write x MCopy y n') wy /\ Forall (own_write_src x MCopy n') wx /\
    erase (apply_all wy y) <> erase y /\ erase (apply_all wx x) <> erase x /\
    shared x MCopy = [].
Proof. exact frame_example. Qed.
Print Assumptions C04_frame_example.

(* The guard is exact: without "not shared" the frame statement is false.
   A stand-alone NumpyArray and its copy share the components dict and the
   numpy buffer; an in-place write to that buffer through the copy changes the
   fingerprint of the source.  (cfdm never writes a held buffer in place -
   that is the hypothesis the reflection sweep checks on every run.) *)
Theorem C04_frame_unguarded_refuted :
  exists x n w, below n x /\
    In (target w) (addrs (snd (copy x MCopy n))) /\
    erase (apply_wr w x) <> erase x.
Proof. exact shared_write_visible. Qed.
Print Assumptions C04_frame_unguarded_refuted.

(* 'custom' is shallow-copied by design: a mutable value stored in it is a
   shared cell, and a write to it is seen from both sides. *)
Theorem C04_custom_value_shared_refuted :
  exists x n w, below n x /\
    In (target w) (addrs (snd (copy x MCopy n))) /\
    In (target w) (shared x MCopy) /\
    erase (apply_wr w x) <> erase x.
Proof. exact custom_value_shared. Qed.
Print Assumptions C04_custom_value_shared_refuted.

(* A pickle round trip (property values, netCDF names, parameters,
   qualifiers) reproduces the value exactly. *)
Theorem C04_deepcopy_faithful :
  forall t n, erase (snd (copy t MDeep n)) = erase t.
Proof. exact deep_faithful. Qed.
Print Assumptions C04_deepcopy_faithful.

(* In-place protocol.  If the body of a decorated method writes only cells of
   the object handed out by _inplace_enabled_define_and_cleanup (or newer
   ones), then m(inplace=False): leaves the receiver unchanged, also when the
   body raises; leaves no placeholder; returns exactly the state that
   m(inplace=True) produces on a copy of the receiver; and m(inplace=True)
   returns None. *)
Theorem C04_inplace_protocol :
  forall g ws r n x, below n x -> body_owns x n ws ->
  let res := call g false (BRun ws r) n x in
  let n' := fst (copy x MCopy n) in
  let z := snd (copy x MCopy n) in
  a_receiver res = x /\
  a_placeholder res = None /\
  a_outcome res = (if r then Raised
                   else Returned (Some (a_receiver (call g true (BRun ws r) n' z)))) /\
  a_outcome (call g true (BRun ws r) n' z) = (if r then Raised else Returned None).
Proof. exact not_inplace_pure. Qed.
Print Assumptions C04_inplace_protocol.

(* Non-vacuity of C04_inplace_protocol: an effective body meeting [body_owns]. *)
Theorem C04_inplace_protocol_example :
  exists ws x n, below n x /\ body_owns x n ws /\
    ws (snd (copy x MCopy n)) <> [] /\
    erase (a_receiver (call true true (BRun ws false) n x)) <> erase x.
Proof. exact protocol_example. Qed.
Print Assumptions C04_inplace_protocol_example.

(* The placeholder never survives a call of the (repaired) wrapper, whatever
   the body does - also when the call fails before the body runs. *)
Theorem C04_placeholder_never_survives :
  forall inplace b n x, a_placeholder (call true inplace b n x) = None.
Proof. exact placeholder_cleared. Qed.
Print Assumptions C04_placeholder_never_survives.

(* A call that fails before the body runs leaves the receiver as it was. *)
Theorem C04_early_failure_pure :
  forall g inplace n x,
  a_receiver (call g inplace BEarly n x) = x /\ a_outcome (call g inplace BEarly n x) = Raised.
Proof. exact early_failure_pure. Qed.
Print Assumptions C04_early_failure_pure.

(* ---- second pass ---------------------------------------------------------------- *)

(* A path followed by copying modes all the way leads, in the copy, to a newly
   allocated cell - for every tree, every path length, every mode table. *)
Theorem C04_owned_path_fresh :
  forall p t m n, path_copied m p t = true ->
  exists a cls ks, lookup p (snd (copy t m n)) = Some (Node a cls ks) /\ n <= a.
Proof. exact path_fresh. Qed.
Print Assumptions C04_owned_path_fresh.

(* The shape the property demands of EVERY operation with an in-place switch:
   op(inplace=False) s = (s, result).  Any operation whose body reaches the
   cells it writes along owned paths of the object it was handed (any number
   of writes / deletions, any values) leaves the receiver as it was and
   returns what the in-place form makes of a copy. *)
Theorem C04_op_not_inplace_pure :
  forall ws n x, below n x -> paths_owned x ws ->
  fst (op_not_inplace ws n x) = x /\
  snd (op_not_inplace ws n x) = op_inplace ws (snd (copy x MCopy n)).
Proof. exact op_not_inplace_pure. Qed.
Print Assumptions C04_op_not_inplace_pure.

(* ... for the whole table of write sets of the methods that offer `inplace`
   (Data, PropertiesData, PropertiesDataBounds, Field). *)
Theorem C04_not_inplace_table :
  forall name l v n x,
  In (name, l) inplace_table -> below n x -> paths_owned x (pws_of l v) ->
  fst (op_not_inplace (pws_of l v) n x) = x /\
  snd (op_not_inplace (pws_of l v) n x) = op_inplace (pws_of l v) (snd (copy x MCopy n)).
Proof. exact table_not_inplace_pure. Qed.
Print Assumptions C04_not_inplace_table.

(* Non-vacuity: the Field row on a concrete field, with an effective result. *)
Theorem C04_not_inplace_table_example :
  exists name l, In (name, l) inplace_table /\ below 16 field_example /\
    paths_owned field_example (pws_of l (Some (Imm "new"))) /\
    erase (snd (op_not_inplace (pws_of l (Some (Imm "new"))) 16 field_example)) <> erase field_example.
Proof. exact table_example. Qed.
Print Assumptions C04_not_inplace_table_example.

(* Field.set_data(data, axes=..., inplace=False): data axes and data are set
   on the copy; the receiver - its data axes included - is unchanged. *)
Theorem C04_field_set_data_not_inplace :
  forall x data axes n, below n x ->
  path_copied MCopy [C; "'constructs'"] x = true -> path_copied MCopy [C] x = true ->
  fst (field_set_data false x data axes n) = x.
Proof. exact field_set_data_pure. Qed.
Print Assumptions C04_field_set_data_not_inplace.

(* The filter history of a Constructs collection is owned by its copy at every
   depth: stepping into _prefiltered (resp. _constructs) preserves ownership,
   so C04_owned_path_fresh applies to constructs reached through
   unfilter() / inverse_filter() of the copy, however long the history. *)
Theorem C04_filter_history_owned :
  (forall a kids pf p, assoc "_prefiltered" kids = Some pf ->
     path_copied MCopy ("_prefiltered" :: p) (Node a "Constructs" kids) = path_copied MCopy p pf) /\
  (forall a kids tdict p, assoc "_constructs" kids = Some tdict ->
     path_copied MCopy ("_constructs" :: p) (Node a "Constructs" kids)
     = path_copied (MEach (MEach MCopy)) p tdict) /\
  below 9 filtered_example /\ path_copied MCopy history_path filtered_example = true.
Proof. exact (conj prefiltered_step (conj construct_step history_example)). Qed.
Print Assumptions C04_filter_history_owned.

(* ---- thorough tier and seed robustness -------------------------------------------- *)

(* An operation that a class refuses outright (DimensionCoordinate.insert_dimension:
   the data must stay 1-d) is refused in BOTH forms: same outcome with the switch
   on or off, receiver untouched, no placeholder. *)
Theorem C04_refusing_op_consistent :
  forall g n x,
  let off := call g false refusing_body n x in
  let on := call g true refusing_body n x in
  a_outcome off = Raised /\ a_outcome on = Raised /\
  a_receiver off = x /\ a_receiver on = x /\
  a_placeholder off = None /\ a_placeholder on = None.
Proof. exact refusing_consistent. Qed.
Print Assumptions C04_refusing_op_consistent.
