(* C04 - proofs. *)
From CfdmV Require Import Common.Base C04.Model.
Open Scope string_scope.

(* ---- induction over object trees ---------------------------------------- *)
Section ObjInd.
  Variable P : obj -> Prop.
  Hypothesis HImm : forall s, P (Imm s).
  Hypothesis HBuf : forall a c, P (Buf a c).
  Hypothesis HNode : forall a cls kids,
      Forall (fun kc => P (snd kc)) kids -> P (Node a cls kids).

  Fixpoint obj_ind' (t : obj) : P t :=
    match t with
    | Imm s => HImm s
    | Buf a c => HBuf a c
    | Node a cls kids =>
        HNode a cls kids
          ((fix go (ks : list (string * obj)) : Forall (fun kc => P (snd kc)) ks :=
              match ks with
              | [] => Forall_nil _
              | kc :: r => Forall_cons kc (obj_ind' (snd kc)) (go r)
              end) kids)
    end.
End ObjInd.

(* ---- copy (Node ...) in terms of copy_kids -------------------------------- *)
Lemma copy_node : forall a cls kids m n,
  copy (Node a cls kids) m n =
  match m with
  | MShare | MDrop => (n, Node a cls kids)
  | MEmpty => (S n, Node n "dict" [])
  | _ => let (n1, kids') := copy_kids m cls kids (S n) in (n1, Node n cls kids')
  end.
Proof.
  intros a cls kids m n.
  destruct m; try reflexivity;
    match goal with
    | |- copy _ ?M _ = _ =>
        cbn [copy];
        match goal with
        | |- (let (_, _) := ?F kids (S n) in _) = _ =>
            assert (E : forall ks n0, F ks n0 = copy_kids M cls ks n0)
              by (induction ks as [|[k c] r IH]; intro n0; [reflexivity|];
                  cbn [copy_kids]; destruct (sel M cls k); [|apply IH];
                  destruct (copy c _ n0) as [n1 c']; rewrite IH; reflexivity);
            rewrite E; reflexivity
        end
    end.
Qed.

Lemma shared_node : forall a cls kids m, plain m = true ->
  shared (Node a cls kids) m =
  flat_map (fun kc => match sel m cls (fst kc) with
                      | None => []
                      | Some mk => shared (snd kc) mk
                      end) kids.
Proof. intros a cls kids m H; destruct m; try discriminate H; reflexivity. Qed.

Lemma copy_node_plain : forall a cls kids m n, plain m = true ->
  copy (Node a cls kids) m n =
  (fst (copy_kids m cls kids (S n)), Node n cls (snd (copy_kids m cls kids (S n)))).
Proof.
  intros a cls kids m n H. rewrite copy_node.
  destruct (copy_kids m cls kids (S n)) as [n1 ks'].
  destruct m; try discriminate H; reflexivity.
Qed.

(* ---- where the addresses of a copy come from ------------------------------ *)
Definition kids_addrs (ks : list (string * obj)) : list nat :=
  flat_map (fun kc => addrs (snd kc)) ks.

Definition kids_shared (m : mode) (cls : string) (ks : list (string * obj)) : list nat :=
  flat_map (fun kc => match sel m cls (fst kc) with
                      | None => []
                      | Some mk => shared (snd kc) mk
                      end) ks.

Definition copy_ok (t : obj) : Prop :=
  forall m n,
    n <= fst (copy t m n) /\
    forall a, In a (addrs (snd (copy t m n))) ->
              (n <= a < fst (copy t m n)) \/ In a (shared t m).

Lemma copy_kids_ok : forall m cls ks,
  Forall (fun kc => copy_ok (snd kc)) ks ->
  forall n,
    n <= fst (copy_kids m cls ks n) /\
    forall a, In a (kids_addrs (snd (copy_kids m cls ks n))) ->
              (n <= a < fst (copy_kids m cls ks n)) \/ In a (kids_shared m cls ks).
Proof.
  intros m cls ks H. induction H as [|[k c] r Hc _ IH]; intro n.
  - simpl. split; [lia|intros a []].
  - cbn [copy_kids kids_shared flat_map fst snd].
    destruct (sel m cls k) as [mk|] eqn:Es.
    + destruct (Hc mk n) as [L1 A1]. cbn [snd] in *.
      destruct (copy c mk n) as [n1 c'] eqn:E1. cbn [fst snd] in *.
      destruct (IH n1) as [L2 A2].
      destruct (copy_kids m cls r n1) as [n2 r'] eqn:E2. cbn [fst snd] in *.
      split; [lia|]. intros a Ha. unfold kids_addrs in Ha. cbn [flat_map snd] in Ha.
      apply in_app_or in Ha as [Ha|Ha].
      * destruct (A1 a Ha) as [?|?]; [left; lia|right; apply in_or_app; left; assumption].
      * destruct (A2 a Ha) as [?|?]; [left; lia|right; apply in_or_app; right; assumption].
    + destruct (IH n) as [L2 A2]. split; [exact L2|]. intros a Ha.
      destruct (A2 a Ha) as [?|?]; [left; assumption|right; assumption].
Qed.

Lemma copy_ok_all : forall t, copy_ok t.
Proof.
  induction t as [s|a c|a cls kids IH] using obj_ind'; intros m n.
  - simpl. split; [lia|intros ? []].
  - cbn [copy shared]. destruct (buf_fresh m); cbn [fst snd addrs].
    + split; [lia|]. intros x [<-|[]]. left; lia.
    + split; [lia|]. intros x [<-|[]]. right; left; reflexivity.
  - destruct (plain m) eqn:Pm.
    + rewrite copy_node_plain by exact Pm. rewrite shared_node by exact Pm.
      destruct (copy_kids_ok m cls kids IH (S n)) as [L A]. cbn [fst snd addrs].
      split; [lia|]. intros x [<-|Hx].
      * left; lia.
      * destruct (A x Hx) as [?|?]; [left; lia|right; assumption].
    + rewrite copy_node.
      destruct m; try discriminate Pm; cbn [fst snd].
      * split; [lia|]. intros x Hx. right. exact Hx.
      * split; [lia|]. intros x [<-|[]]. left; lia.
      * split; [lia|]. intros x Hx. right. exact Hx.
Qed.

Lemma shared_sub : forall t m a, In a (shared t m) -> In a (addrs t).
Proof.
  induction t as [s|b c|b cls kids IH] using obj_ind'; intros m a H.
  - destruct H.
  - cbn [shared] in H. destruct (buf_fresh m); [destruct H|exact H].
  - destruct (plain m) eqn:Pm.
    + rewrite shared_node in H by exact Pm. cbn [addrs]. right.
      apply in_flat_map in H as [[k c] [Hin Hc]]. cbn [fst snd] in Hc.
      apply in_flat_map. exists (k, c). split; [exact Hin|]. cbn [snd].
      rewrite Forall_forall in IH. specialize (IH (k, c) Hin). cbn [snd] in IH.
      destruct (sel m cls k) as [mk|]; [exact (IH mk a Hc)|destruct Hc].
    + destruct m; try discriminate Pm; cbn [shared] in H; try exact H. destruct H.
Qed.

(* ---- separation ------------------------------------------------------------ *)
Lemma copy_range : forall x m n n' y, copy x m n = (n', y) ->
  n <= n' /\ forall a, In a (addrs y) -> (n <= a < n') \/ In a (shared x m).
Proof.
  intros x m n n' y E. pose proof (copy_ok_all x m n) as H. rewrite E in H. exact H.
Qed.

Lemma copy_separation : forall x m n n' y, below n x -> copy x m n = (n', y) ->
  forall a, In a (addrs y) -> In a (addrs x) -> In a (shared x m).
Proof.
  intros x m n n' y B E a Hy Hx. destruct (copy_range _ _ _ _ _ E) as [_ A].
  destruct (A a Hy) as [[L _]|S]; [|exact S].
  unfold below in B. rewrite Forall_forall in B. specialize (B a Hx). lia.
Qed.

Lemma copy_below : forall x m n n' y, below n x -> copy x m n = (n', y) -> below n' y.
Proof.
  intros x m n n' y B E. destruct (copy_range _ _ _ _ _ E) as [L A].
  unfold below in *. rewrite Forall_forall in *. intros a Ha.
  destruct (A a Ha) as [[_ ?]|S]; [assumption|].
  apply shared_sub in S. specialize (B a S). lia.
Qed.

(* ---- frame ------------------------------------------------------------------ *)
Lemma set_kid_map_id : forall (kids : list (string * obj)),
  map (fun kc => (fst kc, snd kc)) kids = kids.
Proof. induction kids as [|[k c] r IH]; simpl; [reflexivity|rewrite IH; reflexivity]. Qed.

Lemma apply_wr_frame : forall w t, ~ In (target w) (addrs t) -> apply_wr w t = t.
Proof.
  intros w. induction t as [s|a c|a cls kids IH] using obj_ind'; intro H.
  - reflexivity.
  - cbn [apply_wr]. destruct w as [a' k v|a' k|a' c']; try reflexivity.
    cbn [target addrs] in H. destruct (Nat.eqb a a') eqn:E; [|reflexivity].
    apply Nat.eqb_eq in E. subst. exfalso. apply H. left; reflexivity.
  - cbn [addrs] in H.
    assert (K : map (fun kc => (fst kc, apply_wr w (snd kc))) kids = kids).
    { assert (Hk : forall kc, In kc kids -> ~ In (target w) (addrs (snd kc))).
      { intros kc Hin Hc. apply H. right. apply in_flat_map. exists kc. split; assumption. }
      clear H. induction kids as [|[k c] r IHr]; [reflexivity|].
      inversion IH as [|? ? Hc Hr]; subst. cbn [map fst snd] in *.
      rewrite Hc by (apply (Hk (k, c)); left; reflexivity).
      rewrite IHr; [reflexivity|exact Hr|].
      intros kc Hin. apply Hk. right. exact Hin. }
    assert (Ne : Nat.eqb a (target w) = false).
    { apply Nat.eqb_neq. intro; subst. apply H. left; reflexivity. }
    cbn [apply_wr]. rewrite K.
    destruct w as [a' k v|a' k|a' c']; cbn [target] in Ne; try rewrite Ne; reflexivity.
Qed.

Lemma apply_all_frame : forall ws t,
  Forall (fun w => ~ In (target w) (addrs t)) ws -> apply_all ws t = t.
Proof.
  induction ws as [|w r IH]; intros t H; [reflexivity|].
  inversion H as [|? ? Hw Hr]; subst. unfold apply_all in *. cbn [fold_left].
  rewrite apply_wr_frame by exact Hw. apply IH. exact Hr.
Qed.

(* the writes a mutator of [y] may perform: into cells of y that are not
   shared with x, or into cells allocated after the copy was made *)
Definition own_write (x : obj) (m : mode) (y : obj) (n' : nat) (w : wr) : Prop :=
  (In (target w) (addrs y) /\ ~ In (target w) (shared x m)) \/ n' <= target w.

(* and of [x]: into cells of x that the copy does not share, or later cells *)
Definition own_write_src (x : obj) (m : mode) (n' : nat) (w : wr) : Prop :=
  (In (target w) (addrs x) /\ ~ In (target w) (shared x m)) \/ n' <= target w.

Lemma mutate_copy_frame : forall x m n n' y ws,
  below n x -> copy x m n = (n', y) ->
  Forall (own_write x m y n') ws -> apply_all ws x = x.
Proof.
  intros x m n n' y ws B E H. apply apply_all_frame.
  eapply Forall_impl; [|exact H]. intros w [[Hy Hs]|Hl] Hx.
  - apply Hs. eapply copy_separation; eassumption.
  - destruct (copy_range _ _ _ _ _ E) as [L _].
    unfold below in B. rewrite Forall_forall in B. specialize (B _ Hx). lia.
Qed.

Lemma mutate_source_frame : forall x m n n' y ws,
  below n x -> copy x m n = (n', y) ->
  Forall (own_write_src x m n') ws -> apply_all ws y = y.
Proof.
  intros x m n n' y ws B E H. apply apply_all_frame.
  eapply Forall_impl; [|exact H]. intros w [[Hx Hs]|Hl] Hy.
  - apply Hs. eapply copy_separation; eassumption.
  - pose proof (copy_below _ _ _ _ _ B E) as B'.
    unfold below in B'. rewrite Forall_forall in B'. specialize (B' _ Hy). lia.
Qed.

Lemma fingerprints_kept : forall x m n n' y wy wx,
  below n x -> copy x m n = (n', y) ->
  Forall (own_write x m y n') wy -> Forall (own_write_src x m n') wx ->
  erase (apply_all wy x) = erase x /\ erase (apply_all wx y) = erase y.
Proof.
  intros. split.
  - erewrite mutate_copy_frame; eauto.
  - erewrite mutate_source_frame; eauto.
Qed.

(* ---- a pickle round trip is faithful ----------------------------------------- *)
Lemma deep_faithful : forall t n, erase (snd (copy t MDeep n)) = erase t.
Proof.
  induction t as [s|a c|a cls kids IH] using obj_ind'; intro n.
  - reflexivity.
  - reflexivity.
  - rewrite copy_node_plain by reflexivity. cbn [snd erase]. f_equal.
    generalize (S n). clear n.
    induction kids as [|[k c] r IHr]; intro n; [reflexivity|].
    inversion IH as [|? ? Hc Hr]; subst. cbn [copy_kids sel].
    specialize (Hc n). cbn [snd] in Hc.
    destruct (copy c MDeep n) as [n1 c'] eqn:E1. cbn [snd] in Hc.
    specialize (IHr Hr n1).
    destruct (copy_kids MDeep cls r n1) as [n2 r'] eqn:E2. cbn [snd map fst] in *.
    rewrite Hc, IHr. reflexivity.
Qed.

(* sharing is not copying: the reference itself *)
Lemma share_identity : forall t n, copy t MShare n = (n, t).
Proof. intros [s|a c|a cls kids] n; reflexivity. Qed.

(* ---- the side condition is needed --------------------------------------------- *)
(* a stand-alone NumpyArray and its copy share the components dict and the
   buffer (numpyarray.py:115-139): an in-place write through either is seen
   by both.  No public operation of cfdm performs such a write; the harness
   checks that on every run. *)
Definition np_example : obj :=
  Node 0 "NumpyArray" [("_components", Node 1 "dict" [("'array'", Buf 2 5%Z); ("'custom'", Node 3 "dict" [])])].

Lemma shared_write_visible :
  exists x n w, below n x /\
    In (target w) (addrs (snd (copy x MCopy n))) /\
    erase (apply_wr w x) <> erase x.
Proof.
  exists np_example, 4, (WBuf 2 9%Z). split; [|split].
  - unfold below. vm_compute. repeat constructor.
  - vm_compute. right; right; left; reflexivity.
  - vm_compute. discriminate.
Qed.

(* 'custom' is shallow: a mutable VALUE stored in it is shared by design *)
Definition custom_example : obj :=
  Node 0 "DomainAxis" [("_components", Node 1 "dict" [("'custom'", Node 2 "dict" [("'k'", Node 3 "list" [("000", Imm "a")])]);
                                                      ("'size'", Imm "int:3")])].

Lemma custom_value_shared :
  exists x n w, below n x /\
    In (target w) (addrs (snd (copy x MCopy n))) /\
    In (target w) (shared x MCopy) /\
    erase (apply_wr w x) <> erase x.
Proof.
  exists custom_example, 4, (WSet 3 "000" (Imm "b")). split; [|split; [|split]].
  - unfold below. vm_compute. repeat constructor.
  - vm_compute. right; right; right; left; reflexivity.
  - vm_compute. left; reflexivity.
  - vm_compute. discriminate.
Qed.

(* non-vacuity of the frame theorems: a Data object, its copy, a write into
   the copy's own components dict (y.set_units) and one into the source's *)
Definition data_example : obj :=
  Node 0 "Data" [("_components", Node 1 "dict"
     [("'array'", Node 2 "NumpyArray" [("_components", Node 3 "dict" [("'array'", Buf 4 7%Z); ("'custom'", Node 5 "dict" [])])]);
      ("'custom'", Node 6 "dict" []); ("'netcdf'", Node 7 "dict" []); ("'units'", Imm "str:'m'")])].

Lemma frame_example :
  exists x n n' y wy wx,
    below n x /\ copy x MCopy n = (n', y) /\ wy <> [] /\ wx <> [] /\
    Forall (own_write x MCopy y n') wy /\ Forall (own_write_src x MCopy n') wx /\
    erase (apply_all wy y) <> erase y /\ erase (apply_all wx x) <> erase x /\
    shared x MCopy = [].
Proof.
  exists data_example, 8.
  eexists. eexists. exists [WSet 9 "'units'" (Imm "str:'km'")], [WSet 1 "'units'" (Imm "str:'km'")].
  split; [unfold below; vm_compute; repeat constructor|].
  split; [vm_compute; reflexivity|].
  split; [discriminate|]. split; [discriminate|].
  split; [constructor; [|constructor]; left; split; [vm_compute; tauto|vm_compute; tauto]|].
  split; [constructor; [|constructor]; left; split; [vm_compute; tauto|vm_compute; tauto]|].
  split; [vm_compute; discriminate|]. split; [vm_compute; discriminate|].
  vm_compute. reflexivity.
Qed.

(* ---- the in-place protocol ------------------------------------------------------ *)
Lemma placeholder_cleared : forall inplace b n x,
  a_placeholder (call true inplace b n x) = None.
Proof. intros inplace [|ws r] n x; reflexivity. Qed.

Lemma old_placeholder_survives :
  exists inplace b n x, a_placeholder (call false inplace b n x) <> None.
Proof. exists false, BEarly, 8, data_example. vm_compute. discriminate. Qed.

Definition body_owns (x : obj) (n : nat) (ws : obj -> list wr) : Prop :=
  Forall (own_write x MCopy (snd (copy x MCopy n)) (fst (copy x MCopy n)))
         (ws (snd (copy x MCopy n))).

Lemma not_inplace_pure : forall g ws r n x,
  below n x -> body_owns x n ws ->
  let res := call g false (BRun ws r) n x in
  let n' := fst (copy x MCopy n) in
  let z := snd (copy x MCopy n) in
  a_receiver res = x /\
  a_placeholder res = None /\
  a_outcome res = (if r then Raised
                   else Returned (Some (a_receiver (call g true (BRun ws r) n' z)))) /\
  a_outcome (call g true (BRun ws r) n' z) = (if r then Raised else Returned None).
Proof.
  intros g ws r n x B H. cbn [call a_receiver a_placeholder a_outcome].
  split; [|split; [reflexivity|split; reflexivity]].
  unfold body_owns in H.
  destruct (copy x MCopy n) as [n' y] eqn:E. cbn [fst snd] in *.
  eapply mutate_copy_frame; eassumption.
Qed.

Lemma early_failure_pure : forall g inplace n x,
  a_receiver (call g inplace BEarly n x) = x /\ a_outcome (call g inplace BEarly n x) = Raised.
Proof. intros; split; reflexivity. Qed.

Lemma protocol_example :
  exists ws x n, below n x /\ body_owns x n ws /\
    ws (snd (copy x MCopy n)) <> [] /\
    erase (a_receiver (call true true (BRun ws false) n x)) <> erase x.
Proof.
  exists (fun d => match d with Node _ _ (("_components", Node a _ _) :: _) => [WSet a "'units'" (Imm "str:'km'")] | _ => [] end),
         data_example, 8.
  split; [unfold below; vm_compute; repeat constructor|].
  split; [unfold body_owns; vm_compute; constructor; [|constructor]; left; split; tauto|].
  split; [vm_compute; discriminate|vm_compute; discriminate].
Qed.

(* ---- second pass: operations as writes along owned paths ------------------------- *)
Lemma copy_fst_le : forall t m n, n <= fst (copy t m n).
Proof. intros. apply (copy_ok_all t m n). Qed.

Lemma copy_kids_fst_le : forall m cls ks n, n <= fst (copy_kids m cls ks n).
Proof.
  intros m cls ks. induction ks as [|[k c] r IH]; intro n; cbn [copy_kids]; [simpl; lia|].
  destruct (sel m cls k) as [mk|]; [|apply IH].
  pose proof (copy_fst_le c mk n) as L1.
  destruct (copy c mk n) as [n1 c'] eqn:E1. cbn [fst] in L1.
  specialize (IH n1). destruct (copy_kids m cls r n1) as [n2 r']. cbn [fst] in *. lia.
Qed.

Lemma assoc_copy_kids : forall m cls k mk ks c n0,
  sel m cls k = Some mk -> assoc k ks = Some c ->
  exists n1, n0 <= n1 /\ assoc k (snd (copy_kids m cls ks n0)) = Some (snd (copy c mk n1)).
Proof.
  intros m cls k mk ks. induction ks as [|[k' c'] r IH]; intros c n0 Hs Ha; [discriminate Ha|].
  cbn [assoc] in Ha. cbn [copy_kids].
  destruct (String.eqb k k') eqn:Ek.
  - apply String.eqb_eq in Ek. subst k'. inversion Ha; subst c'. rewrite Hs.
    exists n0. split; [lia|].
    destruct (copy c mk n0) as [n1 c''] eqn:E1.
    destruct (copy_kids m cls r n1) as [n2 r']. cbn [snd assoc].
    rewrite String.eqb_refl. reflexivity.
  - destruct (sel m cls k') as [mk'|] eqn:Es'.
    + pose proof (copy_fst_le c' mk' n0) as L1.
      destruct (copy c' mk' n0) as [n1 c''] eqn:E1. cbn [fst] in L1.
      destruct (IH c n1 Hs Ha) as [n2 [L2 A2]].
      destruct (copy_kids m cls r n1) as [n3 r'] eqn:E3. cbn [snd] in *.
      exists n2. split; [lia|]. cbn [assoc]. rewrite Ek. exact A2.
    + apply IH; assumption.
Qed.

(* an owned path leads, in the copy, to a newly allocated cell *)
Lemma path_fresh : forall p t m n, path_copied m p t = true ->
  exists a cls ks, lookup p (snd (copy t m n)) = Some (Node a cls ks) /\ n <= a.
Proof.
  induction p as [|k r IH]; intros t m n H.
  - destruct t as [s|b c|b cls kids]; try discriminate H. cbn [path_copied] in H.
    apply andb_true_iff in H as [Pm _]. rewrite copy_node_plain by exact Pm.
    cbn [snd lookup]. eexists _, _, _. split; [reflexivity|lia].
  - destruct t as [s|b c|b cls kids]; try discriminate H. cbn [path_copied] in H.
    apply andb_true_iff in H as [Pm H].
    destruct (sel m cls k) as [mk|] eqn:Es; [|discriminate H].
    destruct (assoc k kids) as [c|] eqn:Ea; [|discriminate H].
    rewrite copy_node_plain by exact Pm. cbn [snd lookup].
    destruct (assoc_copy_kids m cls k mk kids c (S n) Es Ea) as [n1 [L1 A1]].
    rewrite A1. destruct (IH c mk n1 H) as [a [cls' [ks' [Hl Ha]]]].
    exists a, cls', ks'. split; [exact Hl|lia].
Qed.

Lemma fresh_writes_frame : forall n x ws, below n x ->
  Forall (fun w => n <= target w) ws -> apply_all ws x = x.
Proof.
  intros n x ws B H. apply apply_all_frame. eapply Forall_impl; [|exact H].
  intros w L Hx. unfold below in B. rewrite Forall_forall in B. specialize (B _ Hx). cbv beta in *. lia.
Qed.

Definition paths_owned (x : obj) (ws : list pw) : Prop :=
  Forall (fun w => path_copied MCopy (pw_path w) x = true) ws.

Lemma resolve_fresh : forall x n ws, paths_owned x ws ->
  Forall (fun w => n <= target w) (resolve_all (snd (copy x MCopy n)) ws).
Proof.
  intros x n ws H. unfold resolve_all. induction H as [|w r Hw _ IH]; [constructor|].
  cbn [flat_map]. apply Forall_app. split; [|exact IH].
  unfold resolve. destruct (path_fresh _ _ _ n Hw) as [a [cls [ks [Hl Ha]]]].
  rewrite Hl. destruct (pw_val w); (constructor; [exact Ha|constructor]).
Qed.

(* every operation of the shape op_not_inplace whose paths are owned leaves
   the receiver as it was and returns the in-place result of a copy *)
Lemma op_not_inplace_pure : forall ws n x, below n x -> paths_owned x ws ->
  fst (op_not_inplace ws n x) = x /\
  snd (op_not_inplace ws n x) = op_inplace ws (snd (copy x MCopy n)).
Proof.
  intros ws n x B H. split; [|reflexivity]. unfold op_not_inplace. cbn [fst].
  eapply fresh_writes_frame; [exact B|]. apply resolve_fresh. exact H.
Qed.

Lemma table_not_inplace_pure : forall name l v n x,
  In (name, l) inplace_table -> below n x -> paths_owned x (pws_of l v) ->
  fst (op_not_inplace (pws_of l v) n x) = x /\
  snd (op_not_inplace (pws_of l v) n x) = op_inplace (pws_of l v) (snd (copy x MCopy n)).
Proof. intros name l v n x _ B H. apply op_not_inplace_pure; assumption. Qed.

Lemma field_set_data_pure : forall x data axes n, below n x ->
  path_copied MCopy [C; "'constructs'"] x = true -> path_copied MCopy [C] x = true ->
  fst (field_set_data false x data axes n) = x.
Proof.
  intros x data axes n B H1 H2. unfold field_set_data.
  apply op_not_inplace_pure; [exact B|]. repeat constructor; assumption.
Qed.

(* a field: data, constructs with a filter-free collection holding one coordinate *)
Definition field_example : obj :=
  Node 0 "Field" [(C, Node 1 "dict"
    [("'constructs'", Node 2 "Constructs"
        [("_construct_axes", Node 3 "dict" []);
         ("_constructs", Node 4 "dict" [("'dimension_coordinate'", Node 5 "dict"
            [("'dimensioncoordinate0'", Node 6 "DimensionCoordinate" [(C, Node 7 "dict"
                [("'custom'", Node 8 "dict" []);
                 ("'data'", Node 9 "Data" [(C, Node 10 "dict" [("'custom'", Node 11 "dict" [])])])])])])]);
         ("_field_data_axes", Imm "tuple:['domainaxis0']")]);
     ("'custom'", Node 12 "dict" []);
     ("'data'", Node 13 "Data" [(C, Node 14 "dict" [("'custom'", Node 15 "dict" [])])])])].

Lemma table_example :
  exists name l, In (name, l) inplace_table /\ below 16 field_example /\
    paths_owned field_example (pws_of l (Some (Imm "new"))) /\
    erase (snd (op_not_inplace (pws_of l (Some (Imm "new"))) 16 field_example)) <> erase field_example.
Proof.
  eexists "Field", _. split; [right; right; right; left; reflexivity|].
  split; [unfold below; vm_compute; repeat constructor|].
  split; [repeat constructor|vm_compute; discriminate].
Qed.

Lemma field_set_data_hoisted_changes_receiver :
  exists x data axes n, below n x /\
    path_copied MCopy [C; "'constructs'"] x = true /\ path_copied MCopy [C] x = true /\
    erase (fst (field_set_data true x data axes n)) <> erase x.
Proof.
  exists field_example, (Imm "d"), (Imm "tuple:['domainaxis1']"), 16.
  split; [unfold below; vm_compute; repeat constructor|].
  split; [reflexivity|split; [reflexivity|vm_compute; discriminate]].
Qed.

(* the filter history of a Constructs collection is copied at every depth:
   one step, to be iterated along the chain of _prefiltered collections *)
Lemma prefiltered_step : forall a kids pf p,
  assoc "_prefiltered" kids = Some pf ->
  path_copied MCopy ("_prefiltered" :: p) (Node a "Constructs" kids) = path_copied MCopy p pf.
Proof. intros a kids pf p H. cbn [path_copied plain sel attr_mode]. simpl. rewrite H. reflexivity. Qed.

Lemma construct_step : forall a kids tdict p,
  assoc "_constructs" kids = Some tdict ->
  path_copied MCopy ("_constructs" :: p) (Node a "Constructs" kids) = path_copied (MEach (MEach MCopy)) p tdict.
Proof. intros a kids tdict p H. cbn [path_copied plain sel attr_mode]. simpl. rewrite H. reflexivity. Qed.

(* a filtered collection: the visible part is empty here, the history holds one coordinate *)
Definition filtered_example : obj :=
  Node 0 "Constructs"
    [("_constructs", Node 1 "dict" []);
     ("_prefiltered", Node 2 "Constructs"
        [("_constructs", Node 3 "dict" [("'dimension_coordinate'", Node 4 "dict"
            [("'dimensioncoordinate0'", Node 5 "DimensionCoordinate" [(C, Node 6 "dict"
                [("'custom'", Node 7 "dict" []); ("'properties'", Node 8 "dict" [("'units'", Imm "str:'m'")])])])])])])].

Definition history_path : list string :=
  ["_prefiltered"; "_constructs"; "'dimension_coordinate'"; "'dimensioncoordinate0'"; C; "'properties'"].

Lemma history_example :
  below 9 filtered_example /\ path_copied MCopy history_path filtered_example = true.
Proof. split; [unfold below; vm_compute; repeat constructor|reflexivity]. Qed.

(* seeded variant (history carried over by shallow_copy): the same write,
   made through the copy, changes the source *)
Lemma history_shared_if_shallow :
  exists x n w, below n x /\
    resolve (snd (copy x MCopyPV n)) w <> [] /\
    erase (apply_all (resolve (snd (copy x MCopyPV n)) w) x) <> erase x /\
    apply_all (resolve (snd (copy x MCopy n)) w) x = x.
Proof.
  exists filtered_example, 9,
    {| pw_path := history_path; pw_key := "'units'"; pw_val := Some (Imm "str:'km'") |}.
  split; [unfold below; vm_compute; repeat constructor|].
  split; [vm_compute; discriminate|]. split; [vm_compute; discriminate|vm_compute; reflexivity].
Qed.

(* ---- third pass: an operation that the class refuses --------------------------- *)
Lemma refusing_consistent : forall g n x,
  let off := call g false refusing_body n x in
  let on := call g true refusing_body n x in
  a_outcome off = Raised /\ a_outcome on = Raised /\
  a_receiver off = x /\ a_receiver on = x /\
  a_placeholder off = None /\ a_placeholder on = None.
Proof. intros g n x. cbn. repeat split; reflexivity. Qed.
