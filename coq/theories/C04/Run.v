(* C04 - evaluation entry points for the correspondence harness. *)
From CfdmV Require Import Common.Base C04.Model.
Open Scope string_scope.

(* an address of the model's copy against the address observed in the
   implementation's copy: old cells must be the very same cell, fresh cells
   must both be fresh *)
Definition addr_ok (n a b : nat) : bool :=
  if Nat.ltb a n then Nat.eqb a b else Nat.leb n b.

Fixpoint same_shape (n : nat) (a b : obj) {struct a} : bool :=
  match a, b with
  | Imm s, Imm s' => String.eqb s s'
  | Buf a1 c1, Buf a2 c2 => Z.eqb c1 c2 && addr_ok n a1 a2
  | Node a1 cls1 k1, Node a2 cls2 k2 =>
      addr_ok n a1 a2 && String.eqb cls1 cls2 &&
      (fix go (l1 : list (string * obj)) (l2 : list (string * obj)) : bool :=
         match l1, l2 with
         | [], [] => true
         | (k, c) :: r1, (k', c') :: r2 =>
             (* an old (shared) cell is not descended into: it is the source's *)
             String.eqb k k' && same_shape n c c' && go r1 r2
         | _, _ => false
         end) k1 k2
  | _, _ => false
  end.

(* a case: first free address after the source, the source tree, the tree of
   the implementation's copy (addresses consistent with the source's) *)
Definition check_case (cs : nat * obj * obj) : bool :=
  let '(n, x, yobs) := cs in
  same_shape n (snd (copy x MCopy n)) yobs.

(* set_data(inplace=False): source, the new data (as observed), observed result *)
Definition check_set_data (cs : nat * obj * obj * obj) : bool :=
  let '(n, x, d, robs) := cs in
  match comps_addr robs with
  | Some _ => true
  | None => false
  end &&
  same_shape n (match comps_addr (snd (copy x MCopy n)) with
                | Some a => apply_wr (WDel a "'data'") (snd (copy x MCopy n))
                | None => snd (copy x MCopy n)
                end)
             (match comps_addr robs with
              | Some a => apply_wr (WDel a "'data'") robs
              | None => robs
              end).

(* the in-place protocol on an abstract receiver *)
Definition proto_x : obj :=
  Node 0 "Data" [("_components", Node 1 "dict" [("'custom'", Node 2 "dict" []); ("'units'", Imm "m")])].

Definition proto_ws (d : obj) : list wr :=
  match comps_addr d with Some a => [WSet a "'units'" (Imm "km")] | None => [] end.

Definition obj_eqb_shallow (a b : obj) : bool := same_shape 0 a b.

(* (early failure?, inplace?, body raises?,
    observed: placeholder left?, raised?, receiver changed?, returned None?) *)
Definition check_protocol (cs : bool * bool * bool * (bool * bool * bool * bool)) : bool :=
  let '(early, inplace, raises, (o_ph, o_raised, o_changed, o_none)) := cs in
  let b := if early then BEarly else BRun proto_ws raises in
  let r := call true inplace b 3 proto_x in
  Bool.eqb o_ph (match a_placeholder r with Some _ => true | None => false end) &&
  Bool.eqb o_raised (match a_outcome r with Raised => true | _ => false end) &&
  (if inplace then true
   else Bool.eqb o_changed (negb (same_shape 3 (a_receiver r) proto_x))) &&
  (match a_outcome r with
   | Returned None => o_none
   | Returned (Some _) => negb o_none
   | Raised => true
   end).

(* second pass: on the object graph of a real instance, every write path of
   its row of Model.inplace_table that exists in the instance must be owned
   (the hypothesis paths_owned of C04_not_inplace_table) *)
Definition check_paths (cs : string * obj) : bool :=
  let '(name, x) := cs in
  match assoc name inplace_table with
  | Some l => forallb (fun pk => match lookup (fst pk) x with
                                 | Some (Node _ _ _) => path_copied MCopy (fst pk) x
                                 | _ => true
                                 end) l
  | None => false
  end.
