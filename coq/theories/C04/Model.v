(* C04 - copies are independent; operations that are not in-place are pure.

   Executable model of
     cfdm/core/abstract/container.py   Container.__init__(source=, copy=True), copy()
     cfdm/core/functions.py            deepcopy = pickle round trip
     cfdm/mixin/netcdf.py              _initialise_netcdf (deep copy of the names)
     cfdm/core/data/numpyarray.py      NumpyArray.copy (new object, SAME __dict__ contents)
     cfdm/core/data/data.py, cfdm/data/data.py   Data.__init__ / _set_Array
     cfdm/core/constructs.py           Constructs.__init__(source=)
     cfdm/decorators.py                _inplace_enabled / _inplace_enabled_define_and_cleanup

   An object graph is a tree whose mutable cells carry their ADDRESS (Python
   identity).  Two trees that mention the same address mention the same cell:
   a write to address [a] acts on every tree of a configuration at once, so
   aliasing between a source and its copy is represented exactly.  Copying
   draws fresh addresses from a counter.  Definitions only; proofs in Lemmas.v. *)
From CfdmV Require Import Common.Base.
Open Scope string_scope.

Inductive obj :=
| Imm (tok : string)                               (* immutable leaf: str, number, tuple of those, None, dtype ... *)
| Buf (a : nat) (sum : Z)                          (* numpy buffer: address, checksum of its raw bytes *)
| Node (a : nat) (cls : string) (kids : list (string * obj)).
       (* dict / list / set / instance __dict__ : address, class name, entries *)

(* How Container.__init__(source=..., copy=True) treats one entry. *)
Inductive mode :=
| MShare                    (* the reference itself is stored *)
| MShallow                  (* dict.copy(), set.copy(): new cell, same entries  ('custom') *)
| MDeep                     (* core.functions.deepcopy: pickle round trip *)
| MCopy                     (* value.copy(): by the recipe of the value's class *)
| MEach (m : mode)          (* new dict; every value by m *)
| MComps                    (* the _components dict: new dict; every component by comp_mode *)
| MArray                    (* Data._set_Array(array, copy=True) *)
| MNumpyComps               (* NumpyArray(np.asanyarray(array)): array buffer copied, custom empty *)
| MEmpty                    (* a new empty dict *)
| MDrop                     (* not carried over *)
| MCopyND                   (* value.copy(data=False): the recipe with _use_data=False *)
| MCompsND                  (* the _components dict under _use_data=False *)
| MView                     (* Constructs.shallow_copy(): new collection, new per-type dicts, SAME constructs *)
| MCopyPV.                  (* seeded variant of Constructs.copy: filter history carried over by shallow_copy() *)

(* components, by name (cfdm/core/abstract/*.py, cfdm/*.py __init__ methods) *)
Definition comp_mode (k : string) : mode :=
  if String.eqb k "'custom'" then MShallow                  (* container.py:35-47 *)
  else if String.eqb k "'properties'" then MDeep            (* core/abstract/properties.py *)
  else if String.eqb k "'netcdf'" then MDeep                (* mixin/netcdf.py:21 *)
  else if String.eqb k "'inherited_properties'" then MDeep
  else if String.eqb k "'dataset_compliance'" then MDeep
  else if String.eqb k "'original_filenames'" then MShallow
  else if String.eqb k "'qualifiers'" then MDeep            (* core/cellmethod.py *)
  else if String.eqb k "'parameters'" then MDeep            (* core/abstract/parameters.py *)
  else if String.eqb k "'domain_ancillaries'" then MShallow
  else if String.eqb k "'coordinates'" then MShallow        (* a set *)
  else if String.eqb k "'compressed_dimensions'" then MDeep
  else if String.eqb k "'array'" then MArray                (* core/data/data.py:124 *)
  else if String.eqb k "'data'" then MCopy
  else if String.eqb k "'bounds'" then MCopy
  else if String.eqb k "'interior_ring'" then MCopy
  else if String.eqb k "'node_count'" then MCopy
  else if String.eqb k "'part_node_count'" then MCopy
  else if String.eqb k "'datum'" then MCopy
  else if String.eqb k "'coordinate_conversion'" then MCopy
  else if String.eqb k "'constructs'" then MCopy
  else if String.eqb k "'compressed_Array'" then MCopy
  else if String.eqb k "'count_variable'" then MDeep        (* data/abstract/raggedarray.py:111-114: _set_component(copy=True) *)
  else if String.eqb k "'index_variable'" then MDeep
  else if String.eqb k "'list_variable'" then MDeep         (* data/gatheredarray.py:120 *)
  else MShare.   (* scalars, strings, tuples; file-array 'attributes' / 'storage_options' dicts *)

(* instance attributes (__dict__), by class *)
Definition attr_mode (cls k : string) : option mode :=
  if String.eqb cls "Constructs" then                       (* core/constructs.py:134-200, constructs.py *)
    if String.eqb k "_constructs" then Some (MEach (MEach MCopy))
    else if String.eqb k "_construct_axes" then Some MShallow
    else if String.eqb k "_construct_type" then Some MShallow
    else if String.eqb k "_key_base" then Some MShallow
    else if String.eqb k "_array_constructs" then Some MShallow
    else if String.eqb k "_non_array_constructs" then Some MShallow
    else if String.eqb k "_prefiltered" then Some MCopy
    else if String.eqb k "_filters_applied" then Some MShare
    else Some MShare
  else if String.eqb cls "dict" then Some MShare            (* dict.copy() *)
  else if String.eqb cls "list" then Some MShare
  else if String.eqb cls "set" then Some MShare
  else if String.eqb cls "tuple" then Some MShare
  else if String.eqb cls "NumpyArray" then Some MShare      (* numpyarray.py:115: new.__dict__ = self.__dict__.copy() *)
  else if String.eqb k "_components" then Some MComps
  else if String.eqb k "_Subarray" then Some MShallow
  else Some MShare.

(* the mode of entry k of a cell of class cls that is itself copied by m;
   None = the entry is not carried over *)
Definition sel (m : mode) (cls k : string) : option mode :=
  match m with
  | MShare => Some MShare
  | MShallow => Some MShare
  | MDeep => Some MDeep
  | MCopy => attr_mode cls k
  | MEach m' => Some m'
  | MComps => match comp_mode k with MDrop => None | mk => Some mk end
  | MArray => if String.eqb cls "NumpyArray"
              then (if String.eqb k "_components" then Some MNumpyComps else None)
              else attr_mode cls k
  | MNumpyComps => if String.eqb k "'array'" then Some MDeep
                   else if String.eqb k "'custom'" then Some MEmpty else None
  | MEmpty => None
  | MDrop => None
  | MCopyND =>                          (* propertiesdata.py copy(data=False); constructs.py:173 *)
      if String.eqb cls "Constructs" then
        (if String.eqb k "_constructs" then Some (MEach (MEach MCopyND)) else attr_mode cls k)
      else if String.eqb k "_components" then
        match attr_mode cls k with Some MComps => Some MCompsND | o => o end
      else attr_mode cls k
  | MView =>                            (* constructs.py shallow_copy / core/constructs.py copy=False *)
      if String.eqb k "_constructs" then Some (MEach MShallow)
      else if String.eqb k "_prefiltered" then Some MView
      else attr_mode "Constructs" k
  | MCopyPV =>
      if String.eqb cls "Constructs" && String.eqb k "_prefiltered" then Some MView
      else attr_mode cls k
  | MCompsND =>
      if String.eqb k "'data'" then None
      else if String.eqb k "'bounds'" then Some MCopyND
      else if String.eqb k "'interior_ring'" then Some MCopyND
      else if String.eqb k "'constructs'" then Some MCopyND
      else match comp_mode k with MDrop => None | mk => Some mk end
  end.

(* modes under which a dict / object cell is re-created (not shared, not emptied) *)
Definition plain (m : mode) : bool :=
  match m with MShare | MDrop | MEmpty => false | _ => true end.

(* does copying a buffer by m make a new buffer? *)
Definition buf_fresh (m : mode) : bool :=
  match m with MDeep | MCopy | MArray => true | _ => false end.

(* copy t by mode m, drawing addresses from n; returns the next free address *)
Fixpoint copy (t : obj) (m : mode) (n : nat) {struct t} : nat * obj :=
  match t with
  | Imm s => (n, Imm s)
  | Buf a c => if buf_fresh m then (S n, Buf n c) else (n, Buf a c)
  | Node a cls kids =>
      match m with
      | MShare => (n, t)
      | MDrop => (n, t)
      | MEmpty => (S n, Node n "dict" [])
      | _ =>
        let fix go (ks : list (string * obj)) (n : nat) : nat * list (string * obj) :=
          match ks with
          | [] => (n, [])
          | (k, c) :: r =>
              match sel m cls k with
              | None => go r n
              | Some mk => let (n1, c') := copy c mk n in
                           let (n2, r') := go r n1 in (n2, (k, c') :: r')
              end
          end in
        let (n1, kids') := go kids (S n) in (n1, Node n cls kids')
      end
  end.

(* the same recursion over the entries, as a top-level function (Lemmas.v
   shows copy (Node ..) unfolds to it) *)
Fixpoint copy_kids (m : mode) (cls : string) (ks : list (string * obj)) (n : nat)
  : nat * list (string * obj) :=
  match ks with
  | [] => (n, [])
  | (k, c) :: r =>
      match sel m cls k with
      | None => copy_kids m cls r n
      | Some mk => let (n1, c') := copy c mk n in
                   let (n2, r') := copy_kids m cls r n1 in (n2, (k, c') :: r')
      end
  end.

(* every address mentioned by a tree *)
Fixpoint addrs (t : obj) : list nat :=
  match t with
  | Imm _ => []
  | Buf a _ => [a]
  | Node a _ kids => a :: flat_map (fun kc => addrs (snd kc)) kids
  end.

(* the cells of the source that its copy still points to *)
Fixpoint shared (t : obj) (m : mode) {struct t} : list nat :=
  match t with
  | Imm _ => []
  | Buf a _ => if buf_fresh m then [] else [a]
  | Node a cls kids =>
      match m with
      | MShare => addrs t
      | MDrop => addrs t
      | MEmpty => []
      | _ => flat_map (fun kc => match sel m cls (fst kc) with
                                 | None => []
                                 | Some mk => shared (snd kc) mk
                                 end) kids
      end
  end.

(* ---- mutation: primitive writes, addressed by cell ---------------------- *)
Fixpoint set_kid (k : string) (v : obj) (kids : list (string * obj)) : list (string * obj) :=
  match kids with
  | [] => [(k, v)]
  | (k', c) :: r => if String.eqb k k' then (k, v) :: r else (k', c) :: set_kid k v r
  end.

Fixpoint del_kid (k : string) (kids : list (string * obj)) : list (string * obj) :=
  match kids with
  | [] => []
  | (k', c) :: r => if String.eqb k k' then r else (k', c) :: del_kid k r
  end.

Inductive wr :=
| WSet (a : nat) (k : string) (v : obj)     (* cell[a][k] = v      (dict / attribute / component store) *)
| WDel (a : nat) (k : string)               (* del cell[a][k] *)
| WBuf (a : nat) (sum : Z).                 (* in-place write into numpy buffer a *)

Definition target (w : wr) : nat :=
  match w with WSet a _ _ => a | WDel a _ => a | WBuf a _ => a end.

Fixpoint apply_wr (w : wr) (t : obj) {struct t} : obj :=
  match t with
  | Imm s => Imm s
  | Buf a c => match w with
               | WBuf a' c' => if Nat.eqb a a' then Buf a c' else Buf a c
               | _ => Buf a c
               end
  | Node a cls kids =>
      let kids' := map (fun kc => (fst kc, apply_wr w (snd kc))) kids in
      match w with
      | WSet a' k v => if Nat.eqb a a' then Node a cls (set_kid k v kids') else Node a cls kids'
      | WDel a' k => if Nat.eqb a a' then Node a cls (del_kid k kids') else Node a cls kids'
      | WBuf _ _ => Node a cls kids'
      end
  end.

Definition apply_all (ws : list wr) (t : obj) : obj := fold_left (fun t w => apply_wr w t) ws t.

(* ---- fingerprint: the tree with the addresses erased --------------------- *)
Inductive fobj :=
| FImm (tok : string)
| FBuf (sum : Z)
| FNode (cls : string) (kids : list (string * fobj)).

Fixpoint erase (t : obj) : fobj :=
  match t with
  | Imm s => FImm s
  | Buf _ c => FBuf c
  | Node _ cls kids => FNode cls (map (fun kc => (fst kc, erase (snd kc))) kids)
  end.

Definition below (n : nat) (t : obj) : Prop := Forall (fun a => a < n) (addrs t).

(* ---- set_data(data, inplace=False)  (core/abstract/propertiesdata.py:589-606,
   core/field.py:520-540).  At the pinned commit the new object was made with
   self.copy(data=False), which also strips the data of the bounds, of the
   interior ring and of every metadata construct; repaired: self.copy(). *)
Definition comps_addr (t : obj) : option nat :=
  match t with
  | Node _ _ kids => match assoc "_components" kids with
                     | Some (Node a _ _) => Some a
                     | _ => None
                     end
  | _ => None
  end.

Definition set_data_inplace (x d : obj) : obj :=
  match comps_addr x with
  | Some a => apply_wr (WSet a "'data'" d) x
  | None => x
  end.

Definition set_data_new (old : bool) (x d : obj) (n : nat) : obj :=
  set_data_inplace (snd (copy x (if old then MCopyND else MCopy) n)) d.

(* ---- operations as writes along paths ---------------------------------------
   A method body that works on the object d handed to it reaches the cells it
   writes by attribute / component / key look-ups starting from d. *)
Fixpoint lookup (p : list string) (t : obj) : option obj :=
  match p with
  | [] => Some t
  | k :: r => match t with
              | Node _ _ kids => match assoc k kids with
                                 | Some c => lookup r c
                                 | None => None
                                 end
              | _ => None
              end
  end.

(* every cell on the path, and the cell it ends in, is re-created when t is
   copied by m (no step crosses a shared / shallow / dropped entry) *)
Fixpoint path_copied (m : mode) (p : list string) (t : obj) {struct p} : bool :=
  match t with
  | Node _ cls kids =>
      plain m &&
      match p with
      | [] => true
      | k :: r => match sel m cls k, assoc k kids with
                  | Some mk, Some c => path_copied mk r c
                  | _, _ => false
                  end
      end
  | _ => false
  end.

Record pw := { pw_path : list string; pw_key : string; pw_val : option obj }.   (* None = delete *)

Definition resolve (d : obj) (w : pw) : list wr :=
  match lookup (pw_path w) d with
  | Some (Node a _ _) => match pw_val w with
                         | Some v => [WSet a (pw_key w) v]
                         | None => [WDel a (pw_key w)]
                         end
  | _ => []
  end.

Definition resolve_all (d : obj) (ws : list pw) : list wr := flat_map (resolve d) ws.

(* the shape every operation with an in-place switch must have when the
   switch is off: (receiver afterwards, result) *)
Definition op_inplace (ws : list pw) (x : obj) : obj := apply_all (resolve_all x ws) x.

Definition op_not_inplace (ws : list pw) (n : nat) (x : obj) : obj * obj :=
  let d := snd (copy x MCopy n) in
  let w := resolve_all d ws in
  (apply_all w x, apply_all w d).

(* where the bodies of the methods that offer `inplace` write (read off
   cfdm/data/data.py, mixin/propertiesdata.py, mixin/propertiesdatabounds.py,
   core/field.py, field.py, domain.py): (cells, key) relative to the object
   handed out by the clean-up call *)
Definition C := "_components".
Definition inplace_table : list (string * list (list string * string)) :=
  [ ("Data",                 [([C], "'array'")]);
    ("PropertiesData",       [([C], "'data'"); ([C; "'data'"; C], "'array'")]);
    ("PropertiesDataBounds", [([C], "'data'"); ([C; "'data'"; C], "'array'");
                              ([C; "'bounds'"; C; "'data'"; C], "'array'");
                              ([C; "'interior_ring'"; C; "'data'"; C], "'array'")]);
    ("Field",                [([C], "'data'"); ([C; "'data'"; C], "'array'");
                              ([C; "'constructs'"], "_field_data_axes");
                              ([C; "'constructs'"], "_construct_axes")]) ].

Definition pws_of (l : list (list string * string)) (v : option obj) : list pw :=
  map (fun pk => {| pw_path := fst pk; pw_key := snd pk; pw_val := v |}) l.

(* Field.set_data(data, axes=, inplace=False)  (core/field.py:526-545): the
   data axes are set on f = self.copy(), then the data.  [hoisted] is the
   seeded variant that sets the axes on self before making the copy. *)
Definition field_set_data (hoisted : bool) (x data axes : obj) (n : nat) : obj * obj :=
  let wa := {| pw_path := [C; "'constructs'"]; pw_key := "_field_data_axes"; pw_val := Some axes |} in
  let wd := {| pw_path := [C]; pw_key := "'data'"; pw_val := Some data |} in
  if hoisted then
    let x1 := apply_all (resolve x wa) x in
    let d := snd (copy x1 MCopy n) in
    (apply_all (resolve d wd) x1, apply_all (resolve d wd) d)
  else op_not_inplace [wa; wd] n x.

(* ---- the in-place protocol (cfdm/decorators.py:15-84) -------------------- *)
(* A decorated method body either fails before it reaches
   `d = _inplace_enabled_define_and_cleanup(self)` (argument binding: an
   unexpected keyword), or takes d and then performs writes that may depend
   on d, and finally returns d or raises. *)
Inductive body :=
| BEarly
| BRun (ws : obj -> list wr) (raises : bool).

Inductive outcome :=
| Returned (r : option obj)
| Raised.

Record after := { a_receiver : obj; a_placeholder : option obj; a_outcome : outcome }.

(* [guarded]: the wrapper removes the placeholder when the body raises
   (the repaired decorator); the decorator at the pinned commit does not. *)
Definition call (guarded inplace : bool) (b : body) (n : nat) (x : obj) : after :=
  let d := if inplace then x else snd (copy x MCopy n) in
  match b with
  | BEarly => {| a_receiver := x;
                 a_placeholder := if guarded then None else Some d;
                 a_outcome := Raised |}
  | BRun ws raises =>
      let w := ws d in
      {| a_receiver := apply_all w x;
         a_placeholder := None;
         a_outcome := if raises then Raised
                      else Returned (if inplace then None else Some (apply_all w d)) |}
  end.

(* ---- an operation the class refuses (DimensionCoordinate.insert_dimension,
   dimensioncoordinate.py: a dimension coordinate has 1-d data): the body
   raises before it writes anything, whatever the in-place switch says *)
Definition refusing_body : body := BRun (fun _ => []) true.
