(* C08 - evaluation entry points for the correspondence harness. *)
From CfdmV Require Import Common.Base Tables.WriterConstants C08.Model.
Open Scope string_scope.

Definition pair_eqb (a b : string * string) : bool :=
  String.eqb (fst a) (fst b) && String.eqb (snd a) (snd b).

Definition pairs_incl (l1 l2 : list (string * string)) : bool :=
  forallb (fun x => existsb (pair_eqb x) l2) l1.

(* equality as sets (the file and Python's dicts / sets have no order) *)
Definition pairs_same (l1 l2 : list (string * string)) : bool :=
  pairs_incl l1 l2 && pairs_incl l2 l1.

(* ---- names: the answers of the allocator to a history of requests, up to
   and including the first error; [dry] = the dry run of append mode *)
Definition step_for (dry : bool) := if dry then step_dry else step.

Fixpoint run_names (dry : bool) (ops : list op) (s : nstate) : list string * bool * nstate :=
  match ops with
  | [] => ([], false, s)
  | o :: r =>
    match step_for dry s o with
    | Err _ => ([], true, s)
    | Ok (s1, n, _) => let '(l, e, s2) := run_names dry r s1 in (n :: l, e, s2)
    end
  end.

Definition names_same (l1 l2 : list string) : bool :=
  forallb (fun x => mem x l2) l1 && forallb (fun x => mem x l1) l2.

(* case: dry run?, requests, names answered, whether the history ended in an error,
   final ncvar_names, final ncdim_to_size *)
Definition check_names
  (c : bool * list op * list string * bool * list string * list (string * Z)) : bool :=
  let '(dry, ops, names, failed, vars_, dims_) := c in
  let '(l, e, s) := run_names dry ops n_init in
  list_eqb String.eqb l names && Bool.eqb e failed &&
  (if failed then true else
     names_same (n_vars s) vars_ &&
     names_same (map fst (n_dims s)) (map fst dims_) &&
     forallb (fun d => match assoc (fst d) (n_dims s) with
                       | Some z => Z.eqb z (snd d) | None => false end) dims_).

(* the allocator as it was before the fix (for Refuted.v and the corpus) *)
Fixpoint run_names_old (ops : list op) (s : nstate) : list string * bool :=
  match ops with
  | [] => ([], false)
  | o :: r =>
    match step_old s o with
    | Err _ => ([], true)
    | Ok (s1, n, _) => let (l, e) := run_names_old r s1 in (n :: l, e)
    end
  end.

(* ---- global attributes + Conventions, as seen in the file.
   observed: Ok (Conventions attribute, other global attributes, the property
   attributes of each field's data variable)  or the error class of the write *)
Definition check_globals
  (c : list fld * gopts * conv_opt *
       result (string * list (string * string) * list (list (string * string)))) : bool :=
  let '(fs, o, co, obs) := c in
  match conventions c08_cf_version co (forced_conventions o fs), obs with
  | Err e1, Err e2 => errk_eqb e1 e2
  | Ok cv, Ok (ocv, og, ovs) =>
    String.eqb cv ocv &&
    pairs_same (file_globals c08_dofc o fs) og &&
    list_eqb pairs_same (map (var_attrs c08_dofc o fs) fs) ovs
  | _, _ => false
  end.

(* ---- one variable: type on disk, type of the fill attributes, chunking *)
Inductive raw_req := RNone | RContig | RBytes (b : Z) | RSeq (l : list (option Z)).

Definition req_of (r : raw_req) (shape : list Z) : result chunk_req :=
  match r with
  | RNone => Ok CRnone
  | RContig => Ok CRcontig
  | RBytes b => Ok (CRbytes b)
  | RSeq l => rbind (norm_chunksizes l shape) (fun l' => Ok (CRshape l'))
  end.

Open Scope Z_scope.

(* does some round of auto_chunks sit exactly on a boundary (p/q a perfect
   n-th power, or a dimension exactly equal to the ideal edge)?  There the
   floating point evaluation in dask may fall on either side. *)
Fixpoint auto_boundary (fuel : nat) (limit isz : Z) (ds : list cdim) : bool :=
  match fuel with
  | O => false
  | S f =>
    let n := n_auto ds in
    match n with
    | O => false
    | _ =>
      let q := isz * block ds in
      let r := iroot limit q n in
      (q * r ^ Z.of_nat n =? limit) ||
      existsb (fun d => is_none (snd d) && (q * fst d ^ Z.of_nat n =? limit)) ds ||
      (if existsb (fun d => is_none (snd d) && is_small limit q n (fst d)) ds
       then auto_boundary f limit isz
              (map (fun d => match snd d with
                             | None => if is_small limit q n (fst d) then (fst d, Some (fst d)) else d
                             | Some _ => d
                             end) ds)
       else false)
    end
  end.

Definition prod (l : list Z) : Z := fold_right Z.mul 1 l.

Definition within (limit isz : Z) (shape l : list Z) : bool :=
  Nat.eqb (length l) (length shape) &&
  forallb (fun cs => (1 <=? fst cs) && (fst cs <=? snd cs)) (combine l shape) &&
  (prod l * isz <=? Z.max limit isz).

Definition chunks_eqb (a b : file_chunks) : bool :=
  match a, b with
  | FContig, FContig => true
  | FChunks l1, FChunks l2 => list_eqb Z.eqb l1 l2
  | FChunks [], FContig => true      (* a scalar variable has no chunks in a file *)
  | _, _ => false
  end.

Definition byte_limit (req opt : chunk_req) : option Z :=
  match req with
  | CRbytes b => Some b
  | CRnone => match opt with CRbytes b => Some b | _ => None end
  | _ => None
  end.

(* case: fmt, string option, datatype= pairs, dtype tag of the data, shape,
   chunk request stored on the data (as given to nc_set_hdf5_chunksizes),
   hdf5_chunks option, whether the format has chunks at all;
   observed: type on disk, types of _FillValue / missing_value attributes, chunking *)
Definition check_var
  (c : string * bool * list (string * string) * string * list Z * raw_req * chunk_req * bool *
       (string * list string * file_chunks)) : bool :=
  let '(fmt, sopt, user, t, shape, raw, opt, chunked, (odt, ofill, och)) := c in
  let dt := disk_type fmt sopt user t in
  String.eqb dt odt &&
  forallb (String.eqb (fill_type user t)) ofill &&
  (if negb chunked || is_string_tag t then true else
   match req_of raw shape with
   | Err _ => false
   | Ok req =>
     let isz := itemsize dt in
     let expected := chunking_parameters req opt shape isz in
     chunks_eqb expected och ||
     match byte_limit req opt, och with
     | Some b, FChunks l =>
       auto_boundary (S (length shape)) (Z.max 1 b) isz (map (fun s => (s, None)) shape) &&
       within (Z.max 1 b) isz shape l
     | _, _ => false
     end
   end).

(* nc_set_hdf5_chunksizes alone: request, shape, what nc_hdf5_chunksizes() then reports *)
Definition check_norm (c : list (option Z) * list Z * result (list Z)) : bool :=
  let '(req, shape, obs) := c in
  match norm_chunksizes req shape, obs with
  | Ok l, Ok l' => list_eqb Z.eqb l l'
  | Err _, Err _ => true
  | _, _ => false
  end.

(* ---- reference attributes built from the auxiliary coordinates of one field.
   observed: the auxiliary coordinate names in the data variable's coordinates attribute,
   and the geometry container's node_coordinates / coordinates / grid_mapping
   (None = absent, Some [] = an empty attribute) *)
Definition opt_names_same (a b : option (list string)) : bool :=
  match a, b with
  | None, None => true
  | Some l1, Some l2 => names_same l1 l2 && Nat.eqb (length l1) (length l2)
  | _, _ => false
  end.

Definition check_refs
  (c : list auxc * (option (list string) *
                    option (list string * option (list string) * option (list string)))) : bool :=
  let '(auxs, (ocoords, ocont)) := c in
  opt_names_same (coordinates_attr auxs) ocoords &&
  match container_of auxs, ocont with
  | Ok None, None => true
  | Ok (Some g), Some (n, co, gm) =>
    opt_names_same (Some (g_nodes g)) (Some n) && opt_names_same (g_coords g) co &&
    opt_names_same (g_gm g) gm
  | _, _ => false
  end.
