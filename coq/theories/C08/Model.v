(* C08 - executable model of the pure decision logic of the netCDF writer
   (cfdm/read_write/netcdf/netcdfwrite.py, cfdm/mixin/netcdf.py).
   Definitions only; transcribed branch for branch from the code.

     1. names        NetCDFWrite._netcdf_name and the registration its callers do
     2. conventions  the Conventions part of _write_global_attributes
     3. globals      the rest of _write_global_attributes + the omit set used by
                     _write_field_or_domain
     4. datatype     _datatype, the dtype used by _write_attributes for
                     _FillValue / missing_value
     5. chunks       NetCDFHDF5.nc_set_hdf5_chunksizes, _chunking_parameters and the
                     branch of dask's auto_chunks that it reaches

   The [_old] definitions are the code as it stood before the fix: commits
   proposed by this property (see Refuted.v). *)
From Coq Require Import DecimalString.
From CfdmV Require Import Common.Base Tables.WriterConstants.
Open Scope string_scope.

(* ------------------------------------------------------------------ *)
(* small string functions                                               *)
(* ------------------------------------------------------------------ *)
Definition space : ascii := " "%char.
Definition comma : ascii := ","%char.
Definition underscore : ascii := "_"%char.

Fixpoint contains_char (c : ascii) (s : string) : bool :=
  match s with
  | EmptyString => false
  | String a r => Ascii.eqb a c || contains_char c r
  end.

(* str.replace(" ", "_") *)
Fixpoint sanitize (s : string) : string :=
  match s with
  | EmptyString => EmptyString
  | String a r => String (if Ascii.eqb a space then underscore else a) (sanitize r)
  end.

(* str(k) for a non-negative int *)
Definition dec (k : nat) : string := NilEmpty.string_of_uint (Nat.to_uint k).

Definition mem (x : string) (l : list string) : bool := existsb (String.eqb x) l.

Definition is_empty (s : string) : bool :=
  match s with EmptyString => true | _ => false end.

(* s.split(c): keeps empty pieces *)
Fixpoint split_on (c : ascii) (s : string) : list string :=
  match s with
  | EmptyString => [EmptyString]
  | String a r =>
    if Ascii.eqb a c then EmptyString :: split_on c r
    else match split_on c r with
         | h :: t => String a h :: t
         | [] => [String a EmptyString]
         end
  end.

(* s.split() for strings whose only white space is the blank *)
Definition words (s : string) : list string :=
  filter (fun w => negb (is_empty w)) (split_on space s).

(* d.join(l) *)
Fixpoint join (d : ascii) (l : list string) : string :=
  match l with
  | [] => EmptyString
  | [x] => x
  | x :: r => x ++ String d (join d r)
  end.

(* ------------------------------------------------------------------ *)
(* 1. names                                                             *)
(* ------------------------------------------------------------------ *)
(* write_vars["ncvar_names"], ["ncdim_to_size"], ["dimensions_with_role"] *)
Record nstate := mkN {
  n_vars : list string;
  n_dims : list (string * Z);
  n_roles : list (string * list string)
}.

Definition n_init : nstate := mkN [] [] [].

(* existing_names = ncvar_names | set(ncdim_to_size) *)
Definition existing (s : nstate) : list string := (n_vars s ++ map fst (n_dims s))%list.

Definition cand (base : string) (k : nat) : string := base ++ String underscore (dec k).

(* the while loop: base_k for the first k (from the given one) not in use *)
Fixpoint first_free (base : string) (ex : list string) (k fuel : nat) : option string :=
  match fuel with
  | O => None
  | S f => if mem (cand base k) ex then first_free base ex (S k) f else Some (cand base k)
  end.

(* the name issued for [base] when nothing with a matching role exists
   (spaces are replaced BEFORE the test for uniqueness) *)
Definition fresh (base : string) (ex : list string) : option string :=
  let b := sanitize base in
  if mem b ex then first_free b ex 1 (S (length ex)) else Some b.

(* before the fix: uniqueness is tested on the name with spaces, the spaces
   are replaced afterwards *)
Definition fresh_old (base : string) (ex : list string) : option string :=
  match (if mem base ex then first_free base ex 1 (S (length ex)) else Some base) with
  | Some n => Some (sanitize n)
  | None => None
  end.

(* for ncdim in dimensions_with_role[role]:
       if named and ncdim != base: continue
       if ncdim_to_size[ncdim] == dimsize: return ncdim
   (a name without a size is the KeyError of the code; [named] = the name was set
   on the construct, not a default: only a dimension of that very name is re-used) *)
Fixpoint find_role_dim (named : bool) (base : string) (cands : list string)
         (dims : list (string * Z)) (size : Z) : result (option string) :=
  match cands with
  | [] => Ok None
  | c :: r =>
    if named && negb (String.eqb c base) then find_role_dim named base r dims size
    else
      match assoc c dims with
      | None => Err KeyErr
      | Some sz => if Z.eqb sz size then Ok (Some c) else find_role_dim named base r dims size
      end
  end.

Definition role_list (role : string) (roles : list (string * list string)) : list string :=
  match assoc role roles with Some l => l | None => [] end.

Fixpoint role_add (role n : string) (roles : list (string * list string))
  : list (string * list string) :=
  match roles with
  | [] => [(role, [n])]
  | (r, l) :: t => if String.eqb role r then (r, (l ++ [n])%list) :: t else (r, l) :: role_add role n t
  end.

(* if name not in ncdim_to_size: ncdim_to_size[name] = size *)
Definition add_dim (n : string) (sz : Z) (dims : list (string * Z)) : list (string * Z) :=
  if mem n (map fst dims) then dims else (n, sz) :: dims.

Inductive op :=
| OName (base : string)                          (* _netcdf_name(base) *)
| ODim (base : string) (size : Z)                (* _netcdf_name(base); _write_dimension(name, size) *)
| ORole (base : string) (size : Z) (role : string) (named : bool).
                                                 (* _netcdf_name(base, dimsize=size, role=role, named=named);
                                                    if name not in ncdim_to_size: ncdim_to_size[name] = size *)

(* result of one request: the new state, the name, and whether it was newly issued *)
Definition step_with (fr : string -> list string -> option string)
           (s : nstate) (o : op) : result (nstate * string * bool) :=
  match o with
  | OName b =>
    match fr b (existing s) with
    | None => Err OtherErr
    | Some n => Ok (mkN (n :: n_vars s) (n_dims s) (n_roles s), n, true)
    end
  | ODim b sz =>
    match fr b (existing s) with
    | None => Err OtherErr
    | Some n => Ok (mkN (n :: n_vars s) ((n, sz) :: n_dims s) (n_roles s), n, true)
    end
  | ORole b sz role named =>
    if is_empty role then Err ValueErr else
    match find_role_dim named b (role_list role (n_roles s)) (n_dims s) sz with
    | Err e => Err e
    | Ok (Some n) => Ok (s, n, false)
    | Ok None =>
      match fr b (existing s) with
      | None => Err OtherErr
      | Some n => Ok (mkN (n :: n_vars s) (add_dim n sz (n_dims s)) (role_add role n (n_roles s)), n, true)
      end
    end
  end.

(* in the dry run of append mode (the constructs were read from the dataset and carry
   the names the dataset uses) a name in use is handed out again as it is *)
Definition fresh_dry (base : string) (ex : list string) : option string := Some (sanitize base).

Definition step := step_with fresh.
Definition step_old := step_with fresh_old.
Definition step_dry := step_with fresh_dry.

(* a history of requests; the answers in order *)
Fixpoint run_with (fr : string -> list string -> option string)
         (ops : list op) (s : nstate) : result (nstate * list (string * bool)) :=
  match ops with
  | [] => Ok (s, [])
  | o :: r =>
    match step_with fr s o with
    | Err e => Err e
    | Ok (s1, n, isnew) =>
      match run_with fr r s1 with
      | Err e => Err e
      | Ok (s2, out) => Ok (s2, (n, isnew) :: out)
      end
    end
  end.

Definition run := run_with fresh.
Definition run_old := run_with fresh_old.

Definition issued (out : list (string * bool)) : list string :=
  map fst (filter snd out).

(* ------------------------------------------------------------------ *)
(* 2. Conventions                                                       *)
(* ------------------------------------------------------------------ *)
Definition is_digit (c : ascii) : bool :=
  let n := nat_of_ascii c in (48 <=? n)%nat && (n <=? 57)%nat.

(* does the string start with C F - digit *)
Definition starts_cf (s : string) : bool :=
  match s with
  | String c (String f (String m (String d _))) =>
    Ascii.eqb c "C"%char && Ascii.eqb f "F"%char && Ascii.eqb m "-"%char && is_digit d
  | _ => false
  end.

(* re.search of the pattern  C F - digit anything : the substring CF-<digit> occurs *)
Fixpoint has_cf (s : string) : bool :=
  match s with
  | EmptyString => false
  | String _ r => starts_cf s || has_cf r
  end.

Inductive conv_opt := CNone | CStr (s : string) | CList (l : list string).

(* the list the user asked for: the Conventions parameter if it is truthy,
   else the Conventions value forced by every field's nc_global_attributes *)
Definition conv_requested (o : conv_opt) (forced : option string) : list string :=
  match o with
  | CStr (String a r) => [String a r]
  | CList (x :: l) => x :: l
  | _ =>
    match forced with
    | None => []
    | Some s => if contains_char comma s then split_on comma s else words s
    end
  end.

Definition non_cf (c : string) : bool := negb (has_cf c).

Definition conv_finish (ver : string) (l : list string) : result string :=
  if existsb (contains_char comma) l then Err ValueErr
  else
    let l' := ("CF-" ++ ver) :: l in
    Ok (join (if existsb (contains_char space) l' then comma else space) l').

Definition conventions (ver : string) (o : conv_opt) (forced : option string) : result string :=
  conv_finish ver (filter non_cf (conv_requested o forced)).

(* before the fix:
     for i, c in enumerate(g["Conventions"][:]):
         if <the CF pattern is found in c>: g["Conventions"].pop(i)          *)
Fixpoint pop_nth {A} (i : nat) (l : list A) : option (list A) :=
  match i, l with
  | _, [] => None
  | O, _ :: r => Some r
  | S j, x :: r => match pop_nth j r with Some r' => Some (x :: r') | None => None end
  end.

Fixpoint pop_loop (orig : list string) (i : nat) (cur : list string) : result (list string) :=
  match orig with
  | [] => Ok cur
  | c :: r =>
    if has_cf c then
      match pop_nth i cur with
      | None => Err IndexErr
      | Some cur' => pop_loop r (S i) cur'
      end
    else pop_loop r (S i) cur
  end.

Definition conventions_old (ver : string) (o : conv_opt) (forced : option string) : result string :=
  let l := conv_requested o forced in
  match pop_loop l 0 l with
  | Err e => Err e
  | Ok l' => conv_finish ver l'
  end.

(* how a reader takes the attribute apart (CF 2.6.1: blank separated, or comma
   separated if there is a comma) *)
Definition parse_conv (s : string) : list string :=
  if contains_char comma s then split_on comma s else words s.

(* ------------------------------------------------------------------ *)
(* 3. global attributes                                                 *)
(* ------------------------------------------------------------------ *)
(* values are opaque tokens compared for equality *)
Record fld := mkF {
  f_props : list (string * string);               (* properties() *)
  f_ncglobal : list (string * option string)      (* nc_global_attributes() *)
}.

Record gopts := mkO {
  o_global : list string;                         (* global_attributes= *)
  o_variable : list string;                       (* variable_attributes= *)
  o_fd : list (string * string)                   (* file_descriptors= *)
}.

Definition is_none {A} (o : option A) : bool := match o with None => true | _ => false end.

(* names marked global on some field with no value of their own *)
Definition marked (fs : list fld) : list string :=
  flat_map (fun f => map fst (filter (fun kv => is_none (snd kv)) (f_ncglobal f))) fs.

Definition eligible (dofc : list string) (o : gopts) (fs : list fld) : list string :=
  (o_global o ++ dofc ++ marked fs)%list.

Definition ncg_value (f : fld) (a : string) : option string :=
  match assoc a (f_ncglobal f) with Some (Some v) => Some v | _ => None end.

(* force_global after the filter  len(v) == len(fields) and len(set(v)) == 1 *)
Definition forced_val (fs : list fld) (a : string) : option string :=
  match fs with
  | [] => None
  | f0 :: r =>
    match ncg_value f0 a with
    | None => None
    | Some v =>
      if forallb (fun f => match ncg_value f a with Some v' => String.eqb v' v | None => false end) r
      then Some v else None
    end
  end.

Definition fd_keys (o : gopts) : list string := map fst (o_fd o).

(* "file descriptors supersede forced global attributes" *)
Definition forced (o : gopts) (fs : list fld) (a : string) : option string :=
  if mem a (fd_keys o) then None else forced_val fs a.

(* every field has the property, with the value of the first field *)
Definition agree (fs : list fld) (a : string) : bool :=
  match fs with
  | [] => false
  | f0 :: r =>
    match assoc a (f_props f0) with
    | None => false
    | Some v0 =>
      forallb (fun f => match assoc a (f_props f) with Some v => String.eqb v v0 | None => false end) r
    end
  end.

(* membership in write_vars["global_attributes"] after _write_global_attributes *)
Definition is_global (dofc : list string) (o : gopts) (fs : list fld) (a : string) : bool :=
  mem a (eligible dofc o fs) && negb (mem a (o_variable o)) && negb (mem a (fd_keys o)) &&
  is_none (forced o fs a) && agree fs a.

Fixpoint dedup (l : list string) : list string :=
  match l with
  | [] => []
  | x :: r => if mem x r then dedup r else x :: dedup r
  end.

Definition conv_name : string := "Conventions".
Definition not_conv (a : string) : bool := negb (String.eqb a conv_name).

Definition first_props (fs : list fld) : list (string * string) :=
  match fs with [] => [] | f0 :: _ => f_props f0 end.

Definition forced_names (fs : list fld) : list string :=
  dedup (flat_map (fun f => map fst (f_ncglobal f)) fs).

(* the global attributes written from properties (everything but Conventions) *)
Definition file_globals (dofc : list string) (o : gopts) (fs : list fld) : list (string * string) :=
  (o_fd o
  ++ flat_map (fun a => if not_conv a && is_global dofc o fs a
                        then match assoc a (first_props fs) with Some v => [(a, v)] | None => [] end
                        else [])
              (dedup (eligible dofc o fs))
  ++ flat_map (fun a => if not_conv a
                        then match forced o fs a with Some v => [(a, v)] | None => [] end
                        else [])
              (forced_names fs))%list.

(* the value that set_Conventions receives *)
Definition forced_conventions (o : gopts) (fs : list fld) : option string := forced o fs conv_name.

(* the properties that stay on the data variable of field f *)
Definition var_attrs (dofc : list string) (o : gopts) (fs : list fld) (f : fld) : list (string * string) :=
  filter (fun kv => negb (is_global dofc o fs (fst kv))) (f_props f).

(* ------------------------------------------------------------------ *)
(* 4. data types                                                        *)
(* ------------------------------------------------------------------ *)
(* dtype tags: kind letter + item size ("f8", "i4", "b1", ...), "U"/"S" for numpy
   strings, "O" for object arrays *)
Definition is_string_tag (t : string) : bool := String.eqb t "U" || String.eqb t "S".

(* g["datatype"]: booleans -> int32, objects -> float64, updated by datatype= *)
Definition convert (user : list (string * string)) (t : string) : string :=
  match assoc t user with
  | Some t' => t'
  | None => if String.eqb t "b1" then "i4" else if String.eqb t "O" then "f8" else t
  end.

(* _datatype: what is passed to createVariable *)
Definition disk_type (fmt : string) (string_opt : bool) (user : list (string * string)) (t : string)
  : string :=
  if is_string_tag t then
    if String.eqb fmt "NETCDF4" && string_opt then "vlen-str" else "S1"
  else convert user t.

(* _write_attributes: dtype given to _FillValue and missing_value *)
Definition fill_type (user : list (string * string)) (t : string) : string := convert user t.

Definition itemsize (t : string) : Z :=
  match t with
  | String _ (String d EmptyString) => Z.of_nat (nat_of_ascii d) - 48
  | _ => 1
  end.

(* ------------------------------------------------------------------ *)
(* 5. HDF5 chunks                                                       *)
(* ------------------------------------------------------------------ *)
Open Scope Z_scope.

(* NetCDFHDF5.nc_set_hdf5_chunksizes for a sequence: None / -1 / too large
   mean the whole dimension; anything else must be a positive integer *)
Fixpoint norm_chunksizes (req : list (option Z)) (shape : list Z) : result (list Z) :=
  match req, shape with
  | [], [] => Ok []
  | i :: r, j :: s =>
    match i with
    | None => rbind (norm_chunksizes r s) (fun t => Ok (j :: t))
    | Some i =>
      if negb ((0 <? i) || (i =? -1)) then Err ValueErr
      else rbind (norm_chunksizes r s)
                 (fun t => Ok ((if (i =? -1) || (j <? i) then j else i) :: t))
    end
  | _, _ => Err ValueErr
  end.

(* largest r >= 0 with q * r^n <= p, built bit by bit (the integer part of
   (p/q) ** (1/n)) *)
Fixpoint iroot_bits (bits : nat) (p q : Z) (n : nat) (acc : Z) : Z :=
  match bits with
  | O => acc
  | S b =>
    let t := acc + 2 ^ Z.of_nat b in
    iroot_bits b p q n (if q * t ^ Z.of_nat n <=? p then t else acc)
  end.

Definition iroot (p q : Z) (n : nat) : Z := iroot_bits 62 p q n 0.

(* a dimension: its size and, once decided, its chunk size *)
Definition cdim := (Z * option Z)%type.

Definition block (ds : list cdim) : Z :=
  fold_right (fun d acc => match snd d with Some c => c * acc | None => acc end) 1 ds.

Definition n_auto (ds : list cdim) : nat :=
  length (filter (fun d => is_none (snd d)) ds).

(* shape[i] < size, with size = (limit / itemsize / largest_block) ** (1/len(autos)) *)
Definition is_small (p q : Z) (n : nat) (s : Z) : bool := q * s ^ Z.of_nat n <? p.

(* dask.array.core.auto_chunks without previous chunks: dimensions smaller
   than the ideal edge are kept whole and the rest is shared out again *)
Fixpoint auto_rounds (fuel : nat) (limit isz : Z) (ds : list cdim) : list cdim :=
  match fuel with
  | O => ds
  | S f =>
    let n := n_auto ds in
    match n with
    | O => ds
    | _ =>
      let q := isz * block ds in
      if existsb (fun d => is_none (snd d) && is_small limit q n (fst d)) ds
      then auto_rounds f limit isz
             (map (fun d => match snd d with
                            | None => if is_small limit q n (fst d) then (fst d, Some (fst d)) else d
                            | Some _ => d
                            end) ds)
      else map (fun d => match snd d with
                         | None => (fst d, Some (Z.max 1 (iroot limit q n)))
                         | Some _ => d
                         end) ds
    end
  end.

Definition auto_chunks (limit isz : Z) (shape : list Z) : list Z :=
  map (fun d => match snd d with Some c => c | None => fst d end)
      (auto_rounds (S (length shape)) (Z.max 1 limit) isz (map (fun s => (s, None)) shape)).

(* what the data / the hdf5_chunks option ask for *)
Inductive chunk_req := CRnone | CRcontig | CRbytes (b : Z) | CRshape (l : list Z).
Inductive file_chunks := FContig | FChunks (l : list Z).

(* _chunking_parameters: (contiguous, chunksizes) for createVariable.
   [opt] is the hdf5_chunks option (contiguous or bytes), [req] the strategy
   stored on the data, [isz] the item size of the type on disk. *)
Definition chunking_parameters (req opt : chunk_req) (shape : list Z) (isz : Z) : file_chunks :=
  match req with
  | CRcontig => FContig
  | CRshape l => FChunks l
  | _ =>
    let lim := match req with
               | CRbytes b => Some b
               | _ => match opt with CRbytes b => Some b | _ => None end
               end in
    match lim with
    | None => FContig
    | Some b =>
      match shape with
      | [] => FContig
      | _ => FChunks (auto_chunks b isz shape)
      end
    end
  end.

(* ------------------------------------------------------------------ *)
(* 6. reference attributes built from the auxiliary coordinates         *)
(* ------------------------------------------------------------------ *)
Open Scope string_scope.

(* an auxiliary coordinate as _write_auxiliary_coordinate / _create_geometry_container
   see it, after its netCDF names have been allocated *)
Record auxc := mkA {
  x_name : string;            (* the name allocated for the coordinate variable *)
  x_props : bool;             (* it has properties *)
  x_data : bool;              (* it has (representative) values *)
  x_nodes : option string;    (* geometry with nodes: the node coordinates variable written for it *)
  x_gm : list string          (* the grid mapping variables written for coordinate references that contain it *)
}.

(* the netCDF variables that exist in the file because of these coordinates *)
Definition aux_created (a : auxc) : list string :=
  ((if x_data a then [x_name a] else []) ++
   (match x_nodes a with Some n => [n] | None => [] end) ++ x_gm a)%list.

Definition created (auxs : list auxc) : list string := flat_map aux_created auxs.

(* _write_auxiliary_coordinate: what is appended to the 'coordinates' list of the
   data variable.  No properties and no data: only bounds / nodes are written and
   nothing is appended.  Otherwise a name is allocated, but the variable is only
   created when there are data - and only then is there something to name. *)
Definition aux_listed (a : auxc) : list string :=
  if negb (x_props a) && negb (x_data a) then []
  else if x_data a then [x_name a] else [].

(* before C08-fix3-1: the allocated name was appended whether or not the variable was created *)
Definition aux_listed_old (a : auxc) : list string :=
  if negb (x_props a) && negb (x_data a) then [] else [x_name a].

(* an attribute that holds names: absent, or a list (the empty list is the
   empty - not even string valued - attribute that netCDF4 makes of []) *)
Definition attr_of (l : list string) : option (list string) :=
  match l with [] => None | _ => Some l end.

Definition coordinates_attr (auxs : list auxc) : option (list string) :=
  attr_of (flat_map aux_listed auxs).

Definition coordinates_attr_old (auxs : list auxc) : option (list string) :=
  attr_of (flat_map aux_listed_old auxs).

(* the geometry container (one per field) *)
Record container := mkG {
  g_nodes : list string;                  (* node_coordinates *)
  g_coords : option (list string);        (* coordinates *)
  g_gm : option (list string)             (* grid_mapping *)
}.

Definition is_geom (a : auxc) : bool := match x_nodes a with Some _ => true | None => false end.

Definition geoms (auxs : list auxc) : list auxc := filter is_geom auxs.

Definition container_with (empty_gm : option (list string)) (auxs : list auxc)
  : result (option container) :=
  match geoms auxs with
  | [] => Ok None
  | gs =>
    let nodes := flat_map (fun a => match x_nodes a with Some n => [n] | None => [] end) gs in
    let coords := attr_of (flat_map (fun a => if x_data a then [x_name a] else []) gs) in
    match dedup (flat_map x_gm gs) with
    | [] => Ok (Some (mkG nodes coords empty_gm))
    | [m] => Ok (Some (mkG nodes coords (Some [m])))
    | _ => Err ValueErr
    end
  end.

(* no grid mapping: no attribute *)
Definition container_of := container_with None.
(* before C08-fix3-2: the empty list stayed in the dictionary and was written *)
Definition container_of_old := container_with (Some []).

(* a reference attribute is in order: absent, or a non-empty list of names of
   variables that exist *)
Definition attr_ok (vars : list string) (a : option (list string)) : Prop :=
  match a with
  | None => True
  | Some l => l <> [] /\ forall n, In n l -> In n vars
  end.
