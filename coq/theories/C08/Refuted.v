(* C08 - the writer as it stood before the fix: diffs proposed by this property
   does NOT satisfy C08_names_distinct / C08_conventions.  Each witness was
   replayed against the implementation (harness corpus, families corpus-F08a/b). *)
From CfdmV Require Import Common.Base Tables.WriterConstants C08.Model C08.Lemmas.
Open Scope string_scope.

(* F08a: blanks were replaced after the uniqueness test: "a_b" then "a b" are
   both answered "a_b" (netCDF then refuses the second variable). *)
Theorem C08_old_names_collide_refuted :
  exists ops s out, run_old ops n_init = Ok (s, out) /\ ~ NoDup (issued out).
Proof.
  exists [OName "a_b"; OName "a b"]. eexists. eexists. split; [vm_compute; reflexivity|].
  vm_compute. intros H. inversion H as [|x l NI _]. apply NI. left; reflexivity.
Qed.

(* F08b: popping while enumerating leaves a stale CF version in and drops a
   requested name. *)
Theorem C08_old_conventions_refuted :
  exists o s, conventions_old c08_cf_version o None = Ok s /\
    Forall (fun x => x <> EmptyString) (extras o None) /\
    parse_conv s <> ("CF-" ++ c08_cf_version) :: extras o None.
Proof.
  exists (CList ["CF-1.8"; "CF-1.9"; "UGRID-1.0"]). eexists.
  split; [vm_compute; reflexivity|]. split; [vm_compute; repeat constructor; discriminate|].
  vm_compute. discriminate.
Qed.

(* F08b, second face: two CF versions and nothing else made the write crash. *)
Theorem C08_old_conventions_crash_refuted :
  exists o, conventions_old c08_cf_version o None = Err IndexErr /\
            exists s, conventions c08_cf_version o None = Ok s.
Proof.
  exists (CList ["CF-1.8"; "CF-1.9"]). split; [vm_compute; reflexivity|].
  eexists. vm_compute. reflexivity.
Qed.

(* Second pass (C08-fix3-1): a geometry coordinate with properties but without
   representative values was named by the data variable's coordinates attribute
   although no variable was created for it. *)
Theorem C08_old_coordinates_dangling_refuted :
  exists auxs, ~ attr_ok (created auxs) (coordinates_attr_old auxs).
Proof.
  exists [mkA "lon" true false (Some "x") []]. vm_compute. intros [_ H].
  destruct (H "lon" (or_introl eq_refl)) as [E|[]]. discriminate.
Qed.

(* Second pass (C08-fix3-2): without a grid mapping the geometry container got an
   empty grid_mapping attribute. *)
Theorem C08_old_empty_grid_mapping_refuted :
  exists auxs c, container_of_old auxs = Ok (Some c) /\ ~ attr_ok (created auxs) (g_gm c).
Proof.
  exists [mkA "lon" true true (Some "x") []]. eexists. split; [vm_compute; reflexivity|].
  vm_compute. intros [H _]. apply H. reflexivity.
Qed.
