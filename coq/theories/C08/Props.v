(* C08 - the property theorems, nothing else.  Each is closed by [exact] of a
   lemma from Lemmas.v and followed by Print Assumptions.  The model is the
   writer with the proposed fix: diffs applied (handoff/C08-fix-1.diff, -2.diff);
   the behaviour before them is refuted in Refuted.v. *)
From CfdmV Require Import Common.Base Tables.WriterConstants C08.Model C08.Lemmas.
Open Scope string_scope.

(* ---- names ---------------------------------------------------------------- *)

(* Over any history of requests (variable names, dimension names, dimensions with
   a role that may be re-used), from any state of the writer: the newly issued
   names are pairwise distinct, none was in use before, all are in use after. *)
Theorem C08_names_distinct :
  forall ops s s' out, run ops s = Ok (s', out) ->
  NoDup (issued out) /\
  (forall n, In n (issued out) -> ~ In n (existing s) /\ In n (existing s')) /\
  incl (existing s) (existing s').
Proof. exact run_names_distinct. Qed.
Print Assumptions C08_names_distinct.

(* A newly issued name is the construct's own name with blanks replaced, or that
   name followed by _k for the least k >= 1 not in use; it contains no blank. *)
Theorem C08_name_form :
  forall base ex n, fresh base ex = Some n ->
  name_of base n ex /\ contains_char space n = false.
Proof.
  exact (fun base ex n H => conj (fresh_inv base ex n H)
                                 (name_of_no_space base n ex (fresh_inv base ex n H))).
Qed.
Print Assumptions C08_name_form.

(* Every answer in a history is new and of that form, or the re-use of a dimension. *)
Theorem C08_names_form_history :
  forall ops s s' out, run ops s = Ok (s', out) ->
  Forall2 (fun o (a : string * bool) =>
             if snd a then exists ex, name_of (base_of o) (fst a) ex
             else exists b sz role named, o = ORole b sz role named) ops out.
Proof. exact run_names_form. Qed.
Print Assumptions C08_names_form_history.

(* A name that is not new is an existing dimension with the requested role and size -
   and, when the name was set on the construct (named), of that very name. *)
Theorem C08_name_reuse :
  forall s o s' n, step s o = Ok (s', n, false) ->
  s' = s /\ exists b sz role named, o = ORole b sz role named /\
     In n (role_list role (n_roles s)) /\ assoc n (n_dims s) = Some sz /\
     (named = true -> n = b).
Proof. exact step_reuse. Qed.
Print Assumptions C08_name_reuse.

(* The allocator never gets stuck or fails: from a state in which every dimension
   with a role has a size (true initially and preserved), every history is answered. *)
Theorem C08_names_total :
  forall ops s, sized s -> Forall role_ok ops ->
  exists s' out, run ops s = Ok (s', out) /\ length out = length ops.
Proof. exact run_total. Qed.
Print Assumptions C08_names_total.

Theorem C08_names_example :
  exists s out, run [OName "a_b"; OName "a b"; ODim "lat" 5; ORole "bounds2" 2 "bounds" false;
                     ORole "bounds2" 2 "bounds" false; OName "lat"] n_init = Ok (s, out) /\
    map fst out = ["a_b"; "a_b_1"; "lat"; "bounds2"; "bounds2"; "lat_1"] /\
    issued out = ["a_b"; "a_b_1"; "lat"; "bounds2"; "lat_1"].
Proof. exact names_example. Qed.
Print Assumptions C08_names_example.

(* ---- Conventions ------------------------------------------------------------ *)

(* Whatever is requested (a string, a list, or the value forced by the fields),
   a reader that splits the written attribute by the CF rule finds the writer's
   CF version first, then every requested name that is not a CF version, each
   once per request and in order, and nothing else. *)
Theorem C08_conventions :
  forall o forced s,
  conventions c08_cf_version o forced = Ok s ->
  Forall (fun x => x <> EmptyString) (extras o forced) ->
  parse_conv s = ("CF-" ++ c08_cf_version) :: extras o forced.
Proof. exact (fun o forced s => conventions_parse_back c08_cf_version o forced s cf_version_ok). Qed.
Print Assumptions C08_conventions.

(* "extras" are exactly the requested names without a CF-<digit> in them. *)
Theorem C08_conventions_extras :
  forall o forced x,
  (In x (extras o forced) -> has_cf x = false) /\
  (In x (conv_requested o forced) -> has_cf x = false -> In x (extras o forced)).
Proof. exact (fun o forced x => conj (extras_non_cf o forced x) (extras_kept o forced x)). Qed.
Print Assumptions C08_conventions_extras.

(* The write is refused exactly when a kept name contains a comma. *)
Theorem C08_conventions_refusal :
  forall ver o forced,
  (exists e, conventions ver o forced = Err e) <->
  exists x, In x (extras o forced) /\ contains_char comma x = true.
Proof. exact conventions_error. Qed.
Print Assumptions C08_conventions_refusal.

Theorem C08_conventions_example :
  conventions c08_cf_version (CList ["CF-1.8"; "CF-1.9"; "UGRID-1.0"; "my conv"]) None
  = Ok ("CF-" ++ c08_cf_version ++ ",UGRID-1.0,my conv") /\
  Forall (fun x => x <> EmptyString) (extras (CList ["CF-1.8"; "CF-1.9"; "UGRID-1.0"; "my conv"]) None).
Proof. exact conventions_example. Qed.
Print Assumptions C08_conventions_example.

(* ---- global attributes ------------------------------------------------------ *)

(* A (name, value) pair is written as a global attribute iff it is a file
   descriptor, or a property that is global by the rule below with the value it
   has in the fields, or a value forced by every field. *)
Theorem C08_global_iff :
  forall o fs a v,
  In (a, v) (file_globals c08_dofc o fs) <->
  In (a, v) (o_fd o) \/
  (a <> conv_name /\ is_global c08_dofc o fs a = true /\ assoc a (first_props fs) = Some v) \/
  (a <> conv_name /\ forced o fs a = Some v).
Proof. exact (file_globals_spec c08_dofc). Qed.
Print Assumptions C08_global_iff.

(* The rule: eligible (requested, description of file contents, or marked on a
   field), not claimed for the variables, not overridden by a file descriptor or a
   forced value, and present with one and the same value in every field. *)
Theorem C08_global_rule :
  forall o fs a,
  is_global c08_dofc o fs a = true <->
  In a (eligible c08_dofc o fs) /\ ~ In a (o_variable o) /\ ~ In a (fd_keys o) /\
  forced o fs a = None /\
  fs <> [] /\ exists v, forall f, In f fs -> assoc a (f_props f) = Some v.
Proof. exact (is_global_spec c08_dofc). Qed.
Print Assumptions C08_global_rule.

Theorem C08_forced_rule :
  forall o fs a v,
  forced o fs a = Some v <->
  ~ In a (fd_keys o) /\ fs <> [] /\ forall f, In f fs -> ncg_value f a = Some v.
Proof. exact forced_spec. Qed.
Print Assumptions C08_forced_rule.

(* A data variable keeps exactly the properties that are not global. *)
Theorem C08_variable_attributes :
  forall o fs f a v,
  In (a, v) (var_attrs c08_dofc o fs f) <-> In (a, v) (f_props f) /\ is_global c08_dofc o fs a = false.
Proof. exact (var_attrs_spec c08_dofc). Qed.
Print Assumptions C08_variable_attributes.

(* No property is lost: it is on the field's variable or, with the same value,
   a global attribute (Conventions is replaced by the assembled attribute). *)
Theorem C08_property_not_lost :
  forall o fs f a v,
  In f fs -> assoc a (f_props f) = Some v -> a <> conv_name ->
  In (a, v) (var_attrs c08_dofc o fs f) \/ In (a, v) (file_globals c08_dofc o fs).
Proof. exact (property_not_lost c08_dofc). Qed.
Print Assumptions C08_property_not_lost.

(* Each global attribute is written once: descriptors, agreed properties and
   forced values never overlap. *)
Theorem C08_globals_once :
  forall o fs, NoDup (fd_keys o) -> NoDup (map fst (file_globals c08_dofc o fs)).
Proof. exact (file_globals_once c08_dofc). Qed.
Print Assumptions C08_globals_once.

(* ---- reference attributes ------------------------------------------------------ *)

(* For every set of auxiliary coordinates of a field - with or without values,
   properties, geometry nodes, grid mappings: every name in the data variable's
   coordinates attribute and in the geometry container's node_coordinates,
   coordinates and grid_mapping attributes is the name of a variable that the
   writer created; no such attribute is empty; grid_mapping names one variable. *)
Theorem C08_refs_resolve :
  forall auxs,
  attr_ok (created auxs) (coordinates_attr auxs) /\
  forall c, container_of auxs = Ok (Some c) ->
    attr_ok (created auxs) (Some (g_nodes c)) /\
    attr_ok (created auxs) (g_coords c) /\
    attr_ok (created auxs) (g_gm c) /\
    (forall l, g_gm c = Some l -> length l = 1%nat).
Proof. exact refs_resolve. Qed.
Print Assumptions C08_refs_resolve.

(* ... and every coordinate variable that was created is named by it. *)
Theorem C08_coordinates_complete :
  forall auxs a, In a auxs -> x_data a = true -> In (x_name a) (flat_map aux_listed auxs).
Proof. exact coordinates_complete. Qed.
Print Assumptions C08_coordinates_complete.

Theorem C08_refs_example :
  let auxs := [mkA "lon" true false (Some "x") ["datum"]; mkA "lat" true true (Some "y") ["datum"];
               mkA "alt" false false (Some "z") []; mkA "name" true true None []] in
  coordinates_attr auxs = Some ["lat"; "name"] /\
  container_of auxs = Ok (Some (mkG ["x"; "y"; "z"] (Some ["lat"]) (Some ["datum"]))).
Proof. exact refs_example. Qed.
Print Assumptions C08_refs_example.

(* ---- chunks, types ------------------------------------------------------------ *)
Open Scope Z_scope.

(* With a byte budget (hdf5_chunks, or an integer stored on the data), for every
   shape of any rank: each chunk extent lies in [1, dim] and a whole chunk fits
   the budget (one element is always allowed). *)
Theorem C08_chunks :
  forall limit isz shape,
  1 <= isz -> Forall (fun s => 1 <= s) shape ->
  let l := auto_chunks limit isz shape in
  Forall2 (fun c s => 1 <= c <= s) l shape /\ lprod l * isz <= Z.max (Z.max 1 limit) isz.
Proof. exact auto_chunks_bounds. Qed.
Print Assumptions C08_chunks.

(* A chunk shape stored on the data is within [1, dim] in every dimension. *)
Theorem C08_chunks_explicit :
  forall req shape l,
  Forall (fun s => 1 <= s) shape -> norm_chunksizes req shape = Ok l ->
  Forall2 (fun c s => 1 <= c <= s) l shape.
Proof. exact norm_chunksizes_bounds. Qed.
Print Assumptions C08_chunks_explicit.

(* Contiguous storage exactly when asked for, or when the data are scalar. *)
Theorem C08_chunks_contiguous_iff :
  forall req opt shape isz,
  chunking_parameters req opt shape isz = FContig <->
  req = CRcontig \/
  ((req = CRnone \/ exists b, req = CRbytes b) /\
   ((req = CRnone /\ (opt = CRnone \/ opt = CRcontig \/ exists l, opt = CRshape l)) \/ shape = [])).
Proof. exact chunking_contiguous_iff. Qed.
Print Assumptions C08_chunks_contiguous_iff.

Theorem C08_chunks_example : auto_chunks 4194304 8 [400; 300; 60] = [93; 93; 60].
Proof. exact auto_chunks_doc_example. Qed.
Print Assumptions C08_chunks_example.

(* _FillValue and missing_value are written with the type the variable has on disk. *)
Theorem C08_fill_type :
  forall fmt sopt user t,
  is_string_tag t = false -> fill_type user t = disk_type fmt sopt user t.
Proof. exact fill_type_is_disk_type. Qed.
Print Assumptions C08_fill_type.

(* Strings are netCDF strings in NETCDF4 files written with string=True, character arrays otherwise. *)
Theorem C08_string_storage :
  forall fmt sopt user t,
  is_string_tag t = true ->
  (fmt = "NETCDF4"%string /\ sopt = true -> disk_type fmt sopt user t = "vlen-str"%string) /\
  (~ (fmt = "NETCDF4"%string /\ sopt = true) -> disk_type fmt sopt user t = "S1"%string).
Proof. exact string_storage. Qed.
Print Assumptions C08_string_storage.
