(* C08 - proofs. *)
From Coq Require Import DecimalString DecimalNat FinFun.
From CfdmV Require Import Common.Base Tables.WriterConstants C08.Model.
Open Scope string_scope.

Ltac splits := repeat match goal with |- _ /\ _ => split end.

(* ================================================================== *)
(* strings                                                             *)
(* ================================================================== *)
Lemma mem_In x l : mem x l = true <-> In x l.
Proof.
  unfold mem. rewrite existsb_exists. split.
  - intros [y [Hy E]]. apply String.eqb_eq in E. subst. exact Hy.
  - intros H. exists x. split; [exact H|apply String.eqb_refl].
Qed.

Lemma mem_false x l : mem x l = false <-> ~ In x l.
Proof.
  rewrite <- mem_In. destruct (mem x l); split; intro H; try discriminate; auto.
  exfalso; apply H; reflexivity.
Qed.

Lemma append_inj_l (s a b : string) : (s ++ a = s ++ b)%string -> a = b.
Proof. induction s; simpl; intros H; [exact H|]. inversion H; auto. Qed.

Lemma dec_inj k k' : dec k = dec k' -> k = k'.
Proof.
  unfold dec. intros H.
  assert (E : NilEmpty.uint_of_string (NilEmpty.string_of_uint (Nat.to_uint k)) =
              NilEmpty.uint_of_string (NilEmpty.string_of_uint (Nat.to_uint k'))) by (rewrite H; reflexivity).
  rewrite !NilEmpty.usu in E. inversion E as [E'].
  apply (f_equal Nat.of_uint) in E'. rewrite !DecimalNat.Unsigned.of_to in E'. exact E'.
Qed.

Lemma cand_inj b k k' : cand b k = cand b k' -> k = k'.
Proof.
  unfold cand. intros H. apply append_inj_l in H. inversion H as [H']. apply dec_inj; exact H'.
Qed.

Lemma contains_char_sanitize s : contains_char space (sanitize s) = false.
Proof.
  induction s as [|a r IH]; simpl; [reflexivity|].
  destruct (Ascii.eqb a space) eqn:E; simpl.
  - rewrite IH. reflexivity.
  - rewrite E, IH. reflexivity.
Qed.

Lemma contains_char_app c a b :
  contains_char c (a ++ b) = contains_char c a || contains_char c b.
Proof. induction a as [|x r IH]; simpl; [reflexivity|]. rewrite IH, orb_assoc. reflexivity. Qed.

(* decimal digits contain no blank *)
Lemma no_space_little d : forall acc,
  contains_char space (NilEmpty.string_of_uint acc) = false ->
  contains_char space (NilEmpty.string_of_uint (Decimal.revapp d acc)) = false.
Proof. induction d; intros acc H; simpl; try exact H; apply IHd; simpl; exact H. Qed.

Lemma dec_no_space k : contains_char space (dec k) = false.
Proof.
  unfold dec, Nat.to_uint, Decimal.rev. apply no_space_little. reflexivity.
Qed.

(* ================================================================== *)
(* 1. names                                                            *)
(* ================================================================== *)
Lemma first_free_some b ex : forall fuel k n,
  first_free b ex k fuel = Some n ->
  exists j, (k <= j < k + fuel)%nat /\ n = cand b j /\ ~ In n ex /\
            forall i, (k <= i < j)%nat -> In (cand b i) ex.
Proof.
  induction fuel as [|f IH]; intros k n H; simpl in H; [discriminate|].
  destruct (mem (cand b k) ex) eqn:M.
  - apply IH in H. destruct H as [j [Hj [E [N A]]]].
    exists j. splits; try lia; auto.
    intros i Hi. destruct (Nat.eq_dec i k) as [->|Ne]; [apply mem_In; exact M|apply A; lia].
  - inversion H; subst. exists k. split; [lia|]. split; [reflexivity|].
    split; [apply mem_false; exact M|]. intros i Hi; lia.
Qed.

Lemma first_free_none b ex : forall fuel k,
  first_free b ex k fuel = None -> forall i, (k <= i < k + fuel)%nat -> In (cand b i) ex.
Proof.
  induction fuel as [|f IH]; intros k H i Hi; [lia|]. simpl in H.
  destruct (mem (cand b k) ex) eqn:M; [|discriminate].
  destruct (Nat.eq_dec i k) as [->|Ne]; [apply mem_In; exact M|]. apply (IH (S k) H). lia.
Qed.

(* the loop always finds a free name: among length+1 different candidates one is unused *)
Lemma first_free_total b ex : first_free b ex 1 (S (length ex)) <> None.
Proof.
  intros H. pose proof (first_free_none _ _ _ _ H) as A.
  assert (I : incl (map (cand b) (seq 1 (S (length ex)))) ex).
  { intros x Hx. apply in_map_iff in Hx. destruct Hx as [i [<- Hi]]. apply in_seq in Hi. apply A. lia. }
  assert (N : NoDup (map (cand b) (seq 1 (S (length ex))))).
  { apply FinFun.Injective_map_NoDup; [|apply seq_NoDup]. intros x y. apply cand_inj. }
  pose proof (NoDup_incl_length N I) as L. rewrite map_length, seq_length in L. lia.
Qed.

Definition name_of (base n : string) (ex : list string) : Prop :=
  (n = sanitize base /\ ~ In n ex) \/
  (exists k, (1 <= k)%nat /\ n = cand (sanitize base) k /\ ~ In n ex /\ In (sanitize base) ex /\
             forall i, (1 <= i < k)%nat -> In (cand (sanitize base) i) ex).

Lemma fresh_spec base ex : exists n, fresh base ex = Some n /\ name_of base n ex.
Proof.
  unfold fresh, name_of. destruct (mem (sanitize base) ex) eqn:M.
  - destruct (first_free (sanitize base) ex 1 (S (length ex))) as [n|] eqn:F.
    + exists n. split; [reflexivity|]. right.
      apply first_free_some in F. destruct F as [j [Hj [E [N A]]]].
      exists j. splits; auto; try lia. apply mem_In; exact M.
    + exfalso. exact (first_free_total _ _ F).
  - exists (sanitize base). split; [reflexivity|]. left. split; [reflexivity|apply mem_false; exact M].
Qed.

Lemma name_of_no_space base n ex : name_of base n ex -> contains_char space n = false.
Proof.
  intros [[-> _]|[k [_ [-> _]]]].
  - apply contains_char_sanitize.
  - unfold cand. rewrite contains_char_app, contains_char_sanitize. simpl. apply dec_no_space.
Qed.

Lemma fresh_inv base ex n : fresh base ex = Some n -> name_of base n ex.
Proof. intros H. destruct (fresh_spec base ex) as [n' [E S]]. congruence. Qed.

Lemma add_dim_incl n sz dims x : In x (map fst dims) -> In x (map fst (add_dim n sz dims)).
Proof. unfold add_dim. destruct (mem n (map fst dims)); simpl; auto. Qed.

Lemma assoc_key_some {A} k (l : list (string * A)) : In k (map fst l) -> exists x, assoc k l = Some x.
Proof.
  induction l as [|[k' v] r IH]; simpl; [intros []|].
  destruct (String.eqb k k') eqn:E; [eauto|].
  intros [H|H]; [apply String.eqb_neq in E; congruence|apply IH; exact H].
Qed.

Lemma add_dim_assoc n sz dims k :
  (exists x, assoc k dims = Some x) -> exists x, assoc k (add_dim n sz dims) = Some x.
Proof.
  unfold add_dim. destruct (mem n (map fst dims)); [auto|].
  intros [x H]. simpl. destruct (String.eqb k n); eauto.
Qed.

Lemma add_dim_self n sz dims : exists x, assoc n (add_dim n sz dims) = Some x.
Proof.
  unfold add_dim. destruct (mem n (map fst dims)) eqn:M.
  - apply assoc_key_some. apply mem_In. exact M.
  - simpl. rewrite String.eqb_refl. eauto.
Qed.

(* one request *)
Definition base_of (o : op) : string :=
  match o with OName b | ODim b _ | ORole b _ _ _ => b end.

Lemma step_new s o s' n :
  step s o = Ok (s', n, true) ->
  name_of (base_of o) n (existing s) /\ In n (existing s') /\ incl (existing s) (existing s').
Proof.
  unfold step, step_with, existing. destruct o as [b|b sz|b sz role named]; simpl.
  - destruct (fresh b _) eqn:F; [|discriminate]. intros H; inversion H; subst; clear H.
    apply fresh_inv in F. splits; simpl; auto. intros x Hx; right; exact Hx.
  - destruct (fresh b _) eqn:F; [|discriminate]. intros H; inversion H; subst; clear H.
    apply fresh_inv in F. splits; simpl; auto. intros x Hx. right.
    apply in_app_iff in Hx. apply in_app_iff. destruct Hx; [left|right; right]; auto.
  - destruct (is_empty role); [discriminate|].
    destruct (find_role_dim _ _ _ _ _) as [[c|]|e]; try discriminate.
    destruct (fresh b _) eqn:F; [|discriminate]. intros H; inversion H; subst; clear H.
    apply fresh_inv in F. splits; simpl; auto. intros x Hx. right.
    apply in_app_iff in Hx. apply in_app_iff. destruct Hx; [left|right; apply add_dim_incl]; auto.
Qed.

Lemma find_role_dim_some named base cands dims size c :
  find_role_dim named base cands dims size = Ok (Some c) ->
  In c cands /\ assoc c dims = Some size /\ (named = true -> c = base).
Proof.
  induction cands as [|x r IH]; simpl; [discriminate|].
  destruct (named && negb (String.eqb x base)) eqn:N.
  - intros H. apply IH in H. tauto.
  - destruct (assoc x dims) as [sz|] eqn:A; [|discriminate].
    destruct (Z.eqb sz size) eqn:E.
    + intros H; inversion H; subst. apply Z.eqb_eq in E. subst. splits; auto.
      intros ->. simpl in N. apply negb_false_iff, String.eqb_eq in N. exact N.
    + intros H. apply IH in H. tauto.
Qed.

(* an answer that is not new is an existing dimension of that role and size *)
Lemma step_reuse s o s' n :
  step s o = Ok (s', n, false) ->
  s' = s /\ exists b sz role named, o = ORole b sz role named /\
     In n (role_list role (n_roles s)) /\ assoc n (n_dims s) = Some sz /\
     (named = true -> n = b).
Proof.
  unfold step, step_with. destruct o as [b|b sz|b sz role named]; simpl.
  - destruct (fresh b _); discriminate.
  - destruct (fresh b _); discriminate.
  - destruct (is_empty role); [discriminate|].
    destruct (find_role_dim _ _ _ _ _) as [[c|]|e] eqn:F; try discriminate.
    + intros H; inversion H; subst; clear H. split; [reflexivity|].
      apply find_role_dim_some in F. exists b, sz, role, named. tauto.
    + destruct (fresh b _); discriminate.
Qed.

Lemma step_incl s o s' n isnew :
  step s o = Ok (s', n, isnew) -> incl (existing s) (existing s').
Proof.
  destruct isnew; intros H.
  - apply step_new in H. tauto.
  - apply step_reuse in H. destruct H as [-> _]. apply incl_refl.
Qed.

(* histories *)
Lemma run_cons o r s :
  run (o :: r) s =
  match step s o with
  | Err e => Err e
  | Ok (s1, n, isnew) =>
    match run r s1 with Err e => Err e | Ok (s2, out) => Ok (s2, (n, isnew) :: out) end
  end.
Proof. reflexivity. Qed.

Lemma run_names_distinct : forall ops s s' out,
  run ops s = Ok (s', out) ->
  NoDup (issued out) /\ (forall n, In n (issued out) -> ~ In n (existing s) /\ In n (existing s')) /\
  incl (existing s) (existing s').
Proof.
  induction ops as [|o r IH]; intros s s' out H.
  - inversion H; subst. splits; [constructor|intros n []|apply incl_refl].
  - rewrite run_cons in H. destruct (step s o) as [[[s1 n] isnew]|e] eqn:S; [|discriminate].
    destruct (run r s1) as [[s2 out']|e] eqn:R; [|discriminate].
    inversion H; subst; clear H.
    destruct (IH _ _ _ R) as [ND [A I]].
    pose proof (step_incl _ _ _ _ _ S) as I1.
    destruct isnew; unfold issued in *; simpl.
    + apply step_new in S. destruct S as [NO [IN _]].
      assert (NE : ~ In n (existing s)) by (destruct NO as [[_ X]|[k [_ [_ [X _]]]]]; exact X).
      splits.
      * constructor; [|exact ND]. intros C. apply A in C. tauto.
      * intros m [<-|Hm]; [split; [exact NE|apply I; exact IN]|].
        apply A in Hm. split; [|tauto]. intros C. apply (proj1 Hm). apply I1. exact C.
      * intros x Hx. apply I, I1, Hx.
    + splits; [exact ND| |intros x Hx; apply I, I1, Hx].
      intros m Hm. apply A in Hm. split; [|tauto]. intros C. apply (proj1 Hm). apply I1. exact C.
Qed.

(* every answer has the documented form *)
Lemma run_names_form : forall ops s s' out,
  run ops s = Ok (s', out) ->
  Forall2 (fun o (a : string * bool) =>
             if snd a then exists ex, name_of (base_of o) (fst a) ex
             else exists b sz role named, o = ORole b sz role named) ops out.
Proof.
  induction ops as [|o r IH]; intros s s' out H.
  - inversion H; subst. constructor.
  - rewrite run_cons in H. destruct (step s o) as [[[s1 n] isnew]|e] eqn:S; [|discriminate].
    destruct (run r s1) as [[s2 out']|e] eqn:R; [|discriminate].
    inversion H; subst; clear H. constructor; [|eapply IH; exact R].
    simpl. destruct isnew.
    + apply step_new in S. exists (existing s). tauto.
    + apply step_reuse in S. destruct S as [_ [b [sz [role [named [E _]]]]]]. exists b, sz, role, named. exact E.
Qed.

(* totality: the allocator never fails on a history whose roles are not empty *)
Definition sized (s : nstate) : Prop :=
  forall role n, In n (role_list role (n_roles s)) -> exists sz, assoc n (n_dims s) = Some sz.

Lemma role_list_add role n roles r :
  role_list r (role_add role n roles) =
  (role_list r roles ++ (if String.eqb r role then [n] else []))%list.
Proof.
  unfold role_list. induction roles as [|[r0 l0] t IH]; simpl.
  - destruct (String.eqb r role); reflexivity.
  - destruct (String.eqb role r0) eqn:E1; simpl.
    + apply String.eqb_eq in E1. subst r0.
      destruct (String.eqb r role) eqn:E2; simpl; [reflexivity|]. rewrite app_nil_r. reflexivity.
    + destruct (String.eqb r r0) eqn:E3; simpl.
      * apply String.eqb_eq in E3. subst r0.
        rewrite String.eqb_sym in E1. rewrite E1, app_nil_r. reflexivity.
      * exact IH.
Qed.

Lemma find_role_dim_ok named base cands dims size :
  (forall n, In n cands -> exists sz, assoc n dims = Some sz) ->
  exists r, find_role_dim named base cands dims size = Ok r.
Proof.
  induction cands as [|c r IH]; intros H; simpl; [eexists; reflexivity|].
  assert (IH' : exists r0, find_role_dim named base r dims size = Ok r0)
    by (apply IH; intros n Hn; apply H; right; exact Hn).
  destruct (named && negb (String.eqb c base)); [exact IH'|].
  destruct (H c (or_introl eq_refl)) as [sz ->].
  destruct (Z.eqb sz size); [eexists; reflexivity|exact IH'].
Qed.

Definition role_ok (o : op) : Prop :=
  match o with ORole _ _ role _ => role <> EmptyString | _ => True end.

Lemma assoc_cons_some {A} k k' (v : A) l :
  (exists x, assoc k l = Some x) -> exists x, assoc k ((k', v) :: l) = Some x.
Proof. intros [x H]. simpl. destruct (String.eqb k k'); eauto. Qed.

Lemma step_total s o : sized s -> role_ok o ->
  exists s' n isnew, step s o = Ok (s', n, isnew) /\ sized s'.
Proof.
  intros SZ RO. unfold step, step_with. destruct o as [b|b sz|b sz role named]; simpl.
  - destruct (fresh_spec b (existing s)) as [n [-> _]]. do 3 eexists. split; [reflexivity|]. exact SZ.
  - destruct (fresh_spec b (existing s)) as [n [-> _]]. do 3 eexists. split; [reflexivity|].
    intros r m Hm. simpl in *. apply assoc_cons_some. apply (SZ r m Hm).
  - simpl in RO. destruct role as [|a rr]; [congruence|]. simpl.
    destruct (find_role_dim_ok named b (role_list (String a rr) (n_roles s)) (n_dims s) sz) as [[c|] ->].
    + intros n Hn. apply (SZ _ _ Hn).
    + do 3 eexists. split; [reflexivity|]. exact SZ.
    + destruct (fresh_spec b (existing s)) as [n [-> _]]. do 3 eexists. split; [reflexivity|].
      intros r m Hm. simpl in *. rewrite role_list_add in Hm. apply in_app_iff in Hm.
      destruct Hm as [Hm|Hm].
      * apply add_dim_assoc. apply (SZ r m Hm).
      * destruct (String.eqb r (String a rr)); [|destruct Hm]. destruct Hm as [<-|[]].
        apply add_dim_self.
Qed.

Lemma run_total : forall ops s, sized s -> Forall role_ok ops ->
  exists s' out, run ops s = Ok (s', out) /\ length out = length ops.
Proof.
  induction ops as [|o r IH]; intros s SZ F.
  - exists s, []. split; reflexivity.
  - inversion F as [|? ? RO F']; subst.
    destruct (step_total s o SZ RO) as [s1 [n [isnew [S SZ1]]]].
    destruct (IH s1 SZ1 F') as [s2 [out [R L]]].
    exists s2, ((n, isnew) :: out). rewrite run_cons, S, R. split; [reflexivity|simpl; congruence].
Qed.

Lemma sized_init : sized n_init.
Proof. intros r n H. destruct H. Qed.

(* ================================================================== *)
(* 2. Conventions                                                      *)
(* ================================================================== *)
Lemma split_on_nochar c x : contains_char c x = false -> split_on c x = [x].
Proof.
  induction x as [|a r IH]; simpl; intros H; [reflexivity|].
  apply orb_false_iff in H. destruct H as [H1 H2]. rewrite H1, (IH H2). reflexivity.
Qed.

Lemma split_on_app c x rest :
  contains_char c x = false -> split_on c (x ++ String c rest) = x :: split_on c rest.
Proof.
  induction x as [|a r IH]; simpl; intros H.
  - rewrite Ascii.eqb_refl. reflexivity.
  - apply orb_false_iff in H. destruct H as [H1 H2]. rewrite H1, (IH H2). reflexivity.
Qed.

Lemma split_on_join c l :
  l <> [] -> (forall x, In x l -> contains_char c x = false) -> split_on c (join c l) = l.
Proof.
  induction l as [|x r IH]; intros NE H; [congruence|].
  destruct r as [|y r'].
  - simpl. apply split_on_nochar. apply H. left; reflexivity.
  - change (join c (x :: y :: r')) with (x ++ String c (join c (y :: r'))).
    rewrite split_on_app by (apply H; left; reflexivity).
    rewrite IH; [reflexivity|discriminate|]. intros z Hz. apply H. right; exact Hz.
Qed.

Lemma contains_join_other c d l :
  Ascii.eqb d c = false -> (forall x, In x l -> contains_char c x = false) ->
  contains_char c (join d l) = false.
Proof.
  intros Hd. induction l as [|x r IH]; intros H; [reflexivity|].
  destruct r as [|y r'].
  - simpl. apply H. left; reflexivity.
  - change (join d (x :: y :: r')) with (x ++ String d (join d (y :: r'))).
    rewrite contains_char_app. simpl. rewrite Hd.
    rewrite (H x (or_introl eq_refl)). simpl. apply IH. intros z Hz. apply H. right; exact Hz.
Qed.

Lemma contains_join_two d x y r : contains_char d (join d (x :: y :: r)) = true.
Proof.
  change (join d (x :: y :: r)) with (x ++ String d (join d (y :: r))).
  rewrite contains_char_app. simpl. rewrite Ascii.eqb_refl. apply orb_true_r.
Qed.

Lemma existsb_false_forall {A} (f : A -> bool) l :
  existsb f l = false -> forall x, In x l -> f x = false.
Proof.
  induction l as [|a r IH]; simpl; intros H x Hx; [destruct Hx|].
  apply orb_false_iff in H. destruct H as [H1 H2]. destruct Hx as [<-|Hx]; auto.
Qed.

Lemma filter_all {A} (f : A -> bool) l : (forall x, In x l -> f x = true) -> filter f l = l.
Proof.
  induction l as [|a r IH]; simpl; intros H; [reflexivity|].
  rewrite (H a (or_introl eq_refl)). f_equal. apply IH. intros x Hx. apply H. right; exact Hx.
Qed.

Local Opaque join.

Definition ver_ok (ver : string) : Prop :=
  contains_char comma ver = false /\ contains_char space ver = false.

Definition extras (o : conv_opt) (forced : option string) : list string :=
  filter non_cf (conv_requested o forced).

(* the attribute is the CF version followed by the requested non-CF names, and a
   reader that splits it by the CF rule gets exactly that list back *)
Lemma conventions_parse_back ver o forced s :
  ver_ok ver ->
  conventions ver o forced = Ok s ->
  Forall (fun x => x <> EmptyString) (extras o forced) ->
  parse_conv s = ("CF-" ++ ver) :: extras o forced.
Proof.
  intros [V1 V2]. unfold conventions, conv_finish. fold (extras o forced).
  set (l := extras o forced).
  destruct (existsb (contains_char comma) l) eqn:EC; [discriminate|].
  cbv zeta. intros H NE.
  assert (CV1 : contains_char comma ("CF-" ++ ver) = false) by (simpl; exact V1).
  assert (CV2 : contains_char space ("CF-" ++ ver) = false) by (simpl; exact V2).
  pose proof (existsb_false_forall _ _ EC) as NC.
  assert (NC' : forall x, In x (("CF-" ++ ver) :: l) -> contains_char comma x = false).
  { intros x [<-|Hx]; [exact CV1|apply NC; exact Hx]. }
  unfold parse_conv.
  destruct (existsb (contains_char space) (("CF-" ++ ver) :: l)) eqn:ES;
    inversion H as [Hs]; clear H.
  - (* some name contains a blank: comma separated *)
    assert (L : exists y r, l = y :: r).
    { destruct l as [|y r]; [|eauto]. simpl in ES. rewrite V2 in ES. discriminate. }
    destruct L as [y [r L]]. rewrite L. rewrite contains_join_two.
    rewrite <- L. apply split_on_join; [discriminate|exact NC'].
  - (* blank separated *)
    pose proof (existsb_false_forall _ _ ES) as NS.
    rewrite (contains_join_other comma space); [|reflexivity|exact NC'].
    unfold words. rewrite split_on_join; [|discriminate|exact NS].
    apply filter_all. intros x [<-|Hx]; [reflexivity|].
    rewrite Forall_forall in NE. specialize (NE x Hx). destruct x; [congruence|reflexivity].
Qed.

(* what is refused, and only that *)
Lemma conventions_error ver o forced :
  (exists e, conventions ver o forced = Err e) <->
  exists x, In x (extras o forced) /\ contains_char comma x = true.
Proof.
  unfold conventions, conv_finish. fold (extras o forced).
  destruct (existsb (contains_char comma) (extras o forced)) eqn:E.
  - split; [intros _|intros _; eexists; reflexivity].
    apply existsb_exists in E. exact E.
  - split; [intros [e H]; discriminate|].
    intros [x [Hx C]]. rewrite (existsb_false_forall _ _ E x Hx) in C. discriminate.
Qed.

(* no CF version but the writer's own survives *)
Lemma extras_non_cf o forced x : In x (extras o forced) -> has_cf x = false.
Proof.
  unfold extras. intros H. apply filter_In in H. destruct H as [_ H].
  unfold non_cf in H. destruct (has_cf x); [discriminate|reflexivity].
Qed.

Lemma extras_kept o forced x :
  In x (conv_requested o forced) -> has_cf x = false -> In x (extras o forced).
Proof. intros H C. unfold extras. apply filter_In. split; [exact H|]. unfold non_cf. rewrite C. reflexivity. Qed.

Local Transparent join.

Lemma cf_version_ok : ver_ok c08_cf_version.
Proof. split; vm_compute; reflexivity. Qed.

(* ================================================================== *)
(* 3. global attributes                                                *)
(* ================================================================== *)
Lemma dedup_In x l : In x (dedup l) <-> In x l.
Proof.
  induction l as [|a r IH]; simpl; [tauto|].
  destruct (mem a r) eqn:M.
  - rewrite IH. split; [auto|]. intros [<-|H]; [apply mem_In; exact M|exact H].
  - simpl. rewrite IH. tauto.
Qed.

Lemma dedup_NoDup l : NoDup (dedup l).
Proof.
  induction l as [|a r IH]; simpl; [constructor|].
  destruct (mem a r) eqn:M; [exact IH|]. constructor; [|exact IH].
  rewrite dedup_In. apply mem_false. exact M.
Qed.

Lemma assoc_In {A} k (v : A) l : assoc k l = Some v -> In (k, v) l.
Proof.
  induction l as [|[k' v'] r IH]; simpl; [discriminate|].
  destruct (String.eqb k k') eqn:E.
  - apply String.eqb_eq in E. subst. intros H; inversion H; subst. left; reflexivity.
  - intros H. right. apply IH. exact H.
Qed.

Lemma assoc_In_key {A} k (v : A) l : assoc k l = Some v -> In k (map fst l).
Proof. intros H. apply assoc_In in H. apply in_map_iff. exists (k, v). split; [reflexivity|exact H]. Qed.

(* the forced value: every field gives the attribute the same value of its own *)
Lemma forced_val_spec fs a v :
  forced_val fs a = Some v <-> fs <> [] /\ forall f, In f fs -> ncg_value f a = Some v.
Proof.
  unfold forced_val. destruct fs as [|f0 r]; [split; [discriminate|intros [H _]; congruence]|].
  destruct (ncg_value f0 a) as [v0|] eqn:E0.
  - destruct (forallb _ r) eqn:FA.
    + rewrite forallb_forall in FA. split.
      * intros H; inversion H; subst. split; [discriminate|].
        intros f [<-|Hf]; [exact E0|]. specialize (FA f Hf).
        destruct (ncg_value f a); [|discriminate]. apply String.eqb_eq in FA. congruence.
      * intros [_ H]. rewrite <- E0. apply H. left; reflexivity.
    + split; [discriminate|]. intros [_ H].
      assert (X : forallb (fun f => match ncg_value f a with Some v' => String.eqb v' v0 | None => false end) r = true).
      { apply forallb_forall. intros f Hf. rewrite (H f (or_intror Hf)).
        rewrite (H f0 (or_introl eq_refl)) in E0. inversion E0. apply String.eqb_refl. }
      congruence.
  - split; [discriminate|]. intros [_ H]. rewrite (H f0 (or_introl eq_refl)) in E0. discriminate.
Qed.

Lemma forced_spec o fs a v :
  forced o fs a = Some v <->
  ~ In a (fd_keys o) /\ fs <> [] /\ forall f, In f fs -> ncg_value f a = Some v.
Proof.
  unfold forced. destruct (mem a (fd_keys o)) eqn:M.
  - split; [discriminate|]. intros [N _]. apply mem_In in M. contradiction.
  - rewrite forced_val_spec. apply mem_false in M. tauto.
Qed.

Lemma agree_spec fs a :
  agree fs a = true <-> fs <> [] /\ exists v, forall f, In f fs -> assoc a (f_props f) = Some v.
Proof.
  unfold agree. destruct fs as [|f0 r].
  - split; [discriminate|intros [H _]; congruence].
  - destruct (assoc a (f_props f0)) as [v0|] eqn:E0.
    + rewrite forallb_forall. split.
      * intros FA. split; [discriminate|]. exists v0. intros f [<-|Hf]; [exact E0|].
        specialize (FA f Hf). destruct (assoc a (f_props f)); [|discriminate].
        apply String.eqb_eq in FA. congruence.
      * intros [_ [v H]] f Hf. rewrite (H f (or_intror Hf)).
        rewrite (H f0 (or_introl eq_refl)) in E0. inversion E0. apply String.eqb_refl.
    + split; [discriminate|]. intros [_ [v H]]. rewrite (H f0 (or_introl eq_refl)) in E0. discriminate.
Qed.

(* membership in the set of properties written globally / left off the variables *)
Lemma is_global_spec dofc o fs a :
  is_global dofc o fs a = true <->
  In a (eligible dofc o fs) /\ ~ In a (o_variable o) /\ ~ In a (fd_keys o) /\
  forced o fs a = None /\
  fs <> [] /\ exists v, forall f, In f fs -> assoc a (f_props f) = Some v.
Proof.
  unfold is_global. rewrite !andb_true_iff, !negb_true_iff, mem_In, !mem_false, agree_spec.
  destruct (forced o fs a); simpl; split; intros H; try tauto.
  - destruct H as [[[[_ _] _] H] _]. discriminate.
  - destruct H as [_ [_ [_ [H _]]]]. discriminate.
Qed.

Lemma in_flat_map_opt (c : string -> bool) (g : string -> option string) l a v :
  In (a, v) (flat_map (fun a => if c a then match g a with Some v => [(a, v)] | None => [] end else []) l)
  <-> In a l /\ c a = true /\ g a = Some v.
Proof.
  rewrite in_flat_map. split.
  - intros [x [Hx H]]. destruct (c x) eqn:C; [|destruct H].
    destruct (g x) eqn:G; [|destruct H]. destruct H as [H|[]]. inversion H; subst. auto.
  - intros [H1 [H2 H3]]. exists a. split; [exact H1|]. rewrite H2, H3. left; reflexivity.
Qed.

(* which (name, value) pairs become global attributes *)
Lemma file_globals_spec dofc o fs a v :
  In (a, v) (file_globals dofc o fs) <->
  In (a, v) (o_fd o) \/
  (a <> conv_name /\ is_global dofc o fs a = true /\ assoc a (first_props fs) = Some v) \/
  (a <> conv_name /\ forced o fs a = Some v).
Proof.
  unfold file_globals. rewrite !in_app_iff.
  rewrite (in_flat_map_opt (fun a => not_conv a && is_global dofc o fs a) (fun a => assoc a (first_props fs))).
  rewrite (in_flat_map_opt not_conv (forced o fs)).
  rewrite dedup_In, andb_true_iff.
  unfold not_conv. rewrite !negb_true_iff, String.eqb_neq.
  split; intros [H|[H|H]]; auto.
  - right; left. tauto.
  - right; right. tauto.
  - right; left. destruct H as [N [G A]]. splits; auto. apply is_global_spec in G. tauto.
  - right; right. destruct H as [N F]. splits; auto.
    unfold forced_names. rewrite dedup_In. apply forced_spec in F. destruct F as [_ [NE F]].
    destruct fs as [|f0 r]; [congruence|]. specialize (F f0 (or_introl eq_refl)).
    unfold ncg_value in F. destruct (assoc a (f_ncglobal f0)) as [[w|]|] eqn:A; try discriminate.
    simpl. apply in_app_iff. left. eapply assoc_In_key; exact A.
Qed.

(* nothing is lost: a property of a field is on its variable or, with the same
   value, among the global attributes *)
Lemma property_not_lost dofc o fs f a v :
  In f fs -> assoc a (f_props f) = Some v -> a <> conv_name ->
  In (a, v) (var_attrs dofc o fs f) \/ In (a, v) (file_globals dofc o fs).
Proof.
  intros Hf A NC. destruct (is_global dofc o fs a) eqn:G.
  - right. apply file_globals_spec. right; left. splits; auto.
    apply is_global_spec in G. destruct G as [_ [_ [_ [_ [NE [w W]]]]]].
    destruct fs as [|f0 r]; [congruence|]. simpl.
    rewrite (W f0 (or_introl eq_refl)). rewrite (W f Hf) in A. exact A.
  - left. unfold var_attrs. apply filter_In. split; [apply assoc_In; exact A|]. simpl. rewrite G. reflexivity.
Qed.

Lemma var_attrs_spec dofc o fs f a v :
  In (a, v) (var_attrs dofc o fs f) <-> In (a, v) (f_props f) /\ is_global dofc o fs a = false.
Proof. unfold var_attrs. rewrite filter_In. simpl. rewrite negb_true_iff. tauto. Qed.

(* each global attribute is written once: the three sources never overlap *)
Lemma flat_map_opt_keys_NoDup (c : string -> bool) (g : string -> option string) l :
  NoDup l ->
  NoDup (map fst (flat_map (fun a => if c a then match g a with Some v => [(a, v)] | None => [] end else []) l)).
Proof.
  induction l as [|x r IH]; intros N; simpl; [constructor|].
  inversion N as [|? ? NI N']; subst.
  rewrite map_app. destruct (c x); [|simpl; apply IH; exact N'].
  destruct (g x) eqn:G; [|simpl; apply IH; exact N'].
  simpl. constructor; [|apply IH; exact N'].
  intros C. apply in_map_iff in C. destruct C as [[a v] [E C]]. simpl in E. subst a.
  apply in_flat_map_opt in C. tauto.
Qed.

Lemma NoDup_app_intro {A} (l1 l2 : list A) :
  NoDup l1 -> NoDup l2 -> (forall x, In x l1 -> ~ In x l2) -> NoDup (l1 ++ l2).
Proof.
  induction l1 as [|a r IH]; simpl; intros N1 N2 D; [exact N2|].
  inversion N1; subst. constructor.
  - rewrite in_app_iff. intros [H|H]; [contradiction|]. apply (D a (or_introl eq_refl) H).
  - apply IH; auto.
Qed.

Lemma file_globals_once dofc o fs :
  NoDup (fd_keys o) -> NoDup (map fst (file_globals dofc o fs)).
Proof.
  intros NF. unfold file_globals. rewrite !map_app.
  apply NoDup_app_intro; [exact NF| |].
  - apply NoDup_app_intro.
    + apply flat_map_opt_keys_NoDup. apply dedup_NoDup.
    + apply flat_map_opt_keys_NoDup. apply dedup_NoDup.
    + intros a H1 H2. apply in_map_iff in H1. destruct H1 as [[a1 v1] [E1 H1]].
      apply in_map_iff in H2. destruct H2 as [[a2 v2] [E2 H2]]. simpl in *. subst.
      apply (in_flat_map_opt (fun a => not_conv a && is_global dofc o fs a)) in H1.
      apply (in_flat_map_opt not_conv) in H2.
      destruct H1 as [_ [G _]]. apply andb_true_iff in G. destruct G as [_ G].
      apply is_global_spec in G. destruct H2 as [_ [_ F]]. destruct G as [_ [_ [_ [F' _]]]]. congruence.
  - intros a H1 H2. fold (fd_keys o) in H1. apply in_app_iff in H2. destruct H2 as [H2|H2].
    + apply in_map_iff in H2. destruct H2 as [[a2 v2] [E2 H2]]. simpl in *. subst.
      apply (in_flat_map_opt (fun a => not_conv a && is_global dofc o fs a)) in H2.
      destruct H2 as [_ [G _]]. apply andb_true_iff in G. destruct G as [_ G].
      apply is_global_spec in G. tauto.
    + apply in_map_iff in H2. destruct H2 as [[a2 v2] [E2 H2]]. simpl in *. subst.
      apply (in_flat_map_opt not_conv) in H2. destruct H2 as [_ [_ F]].
      apply forced_spec in F. tauto.
Qed.

(* ================================================================== *)
(* 5. HDF5 chunks                                                      *)
(* ================================================================== *)
Open Scope Z_scope.

(* nc_set_hdf5_chunksizes: every stored chunk size is within [1, dim] *)
Lemma norm_chunksizes_bounds : forall req shape l,
  Forall (fun s => 1 <= s) shape ->
  norm_chunksizes req shape = Ok l ->
  Forall2 (fun c s => 1 <= c <= s) l shape.
Proof.
  induction req as [|i r IH]; intros [|j s] l F H; simpl in H; try discriminate.
  - inversion H; subst. constructor.
  - inversion F as [|? ? Hj F']; subst.
    destruct i as [i|].
    + destruct (negb ((0 <? i) || (i =? -1))) eqn:V; [discriminate|].
      destruct (norm_chunksizes r s) as [t|e] eqn:R; [|discriminate]. simpl in H.
      inversion H; subst; clear H. constructor; [|apply IH; auto].
      apply negb_false_iff, orb_true_iff in V.
      destruct ((i =? -1) || (j <? i)) eqn:C; [lia|].
      apply orb_false_iff in C. destruct C as [C1 C2].
      apply Z.eqb_neq in C1. apply Z.ltb_ge in C2.
      destruct V as [V|V]; [apply Z.ltb_lt in V; lia|apply Z.eqb_eq in V; lia].
    + destruct (norm_chunksizes r s) as [t|e] eqn:R; [|discriminate]. simpl in H.
      inversion H; subst; clear H. constructor; [lia|apply IH; auto].
Qed.

Lemma iroot_bits_le p q n : forall bits acc,
  0 <= acc -> q * acc ^ Z.of_nat n <= p ->
  0 <= iroot_bits bits p q n acc /\ q * (iroot_bits bits p q n acc) ^ Z.of_nat n <= p.
Proof.
  induction bits as [|b IH]; intros acc A H; simpl; [auto|].
  destruct (q * (acc + 2 ^ Z.of_nat b) ^ Z.of_nat n <=? p) eqn:E.
  - apply Z.leb_le in E. apply IH; [|exact E].
    assert (0 <= 2 ^ Z.of_nat b) by (apply Z.pow_nonneg; lia). lia.
  - apply IH; assumption.
Qed.

Lemma iroot_le p q n : (1 <= n)%nat -> 0 <= p ->
  0 <= iroot p q n /\ q * (iroot p q n) ^ Z.of_nat n <= p.
Proof.
  intros Hn Hp. unfold iroot. apply iroot_bits_le; [lia|].
  rewrite Z.pow_0_l by lia. lia.
Qed.

Definition dim_ok (d : cdim) : Prop :=
  1 <= fst d /\ match snd d with Some c => 1 <= c <= fst d | None => True end.

Definition decided (d : cdim) : Prop := exists c, snd d = Some c /\ 1 <= c <= fst d.

Lemma block_pos ds : Forall dim_ok ds -> 1 <= block ds.
Proof.
  induction ds as [|[s [c|]] r IH]; intros F; simpl; [lia| |];
    inversion F as [|? ? D F']; subst; specialize (IH F').
  - destruct D as [_ D]. simpl in D. nia.
  - exact IH.
Qed.

(* filling every undecided dimension with the same edge r *)
Definition fill (r : Z) (d : cdim) : cdim :=
  match snd d with None => (fst d, Some r) | Some _ => d end.

Lemma n_auto_none s t : n_auto ((s, None) :: t) = S (n_auto t).
Proof. reflexivity. Qed.
Lemma n_auto_some s c t : n_auto ((s, Some c) :: t) = n_auto t.
Proof. reflexivity. Qed.

Lemma block_fill r ds : block (map (fill r) ds) = block ds * r ^ Z.of_nat (n_auto ds).
Proof.
  induction ds as [|[s [c|]] t IH].
  - simpl. reflexivity.
  - rewrite n_auto_some. change (block (map (fill r) ((s, Some c) :: t))) with (c * block (map (fill r) t)).
    change (block ((s, Some c) :: t)) with (c * block t). rewrite IH. ring.
  - rewrite n_auto_none. change (block (map (fill r) ((s, None) :: t))) with (r * block (map (fill r) t)).
    change (block ((s, None) :: t)) with (block t). rewrite IH.
    rewrite Nat2Z.inj_succ, Z.pow_succ_r by lia. ring.
Qed.

(* keeping the small dimensions whole *)
Definition keep_small (p q : Z) (n : nat) (d : cdim) : cdim :=
  match snd d with
  | None => if is_small p q n (fst d) then (fst d, Some (fst d)) else d
  | Some _ => d
  end.

Definition smalls (p q : Z) (n : nat) (ds : list cdim) : list Z :=
  map fst (filter (fun d => is_none (snd d) && is_small p q n (fst d)) ds).

Definition lprod (l : list Z) : Z := fold_right Z.mul 1 l.

Lemma block_keep_small p q n ds :
  block (map (keep_small p q n) ds) = block ds * lprod (smalls p q n ds).
Proof.
  induction ds as [|[s [c|]] t IH]; simpl.
  - reflexivity.
  - unfold smalls in *. simpl. rewrite IH. ring.
  - unfold smalls, keep_small in *. simpl. destruct (is_small p q n s); simpl; rewrite IH; ring.
Qed.

Lemma n_auto_keep_small p q n ds :
  (n_auto (map (keep_small p q n) ds) + length (smalls p q n ds) = n_auto ds)%nat.
Proof.
  unfold n_auto, smalls. induction ds as [|[s [c|]] t IH]; simpl; [reflexivity|exact IH|].
  unfold keep_small at 1. simpl. destruct (is_small p q n s); simpl; lia.
Qed.

Lemma keep_small_ok p q n ds : Forall dim_ok ds -> Forall dim_ok (map (keep_small p q n) ds).
Proof.
  intros F. apply Forall_map. eapply Forall_impl; [|exact F].
  intros [s [c|]] [D1 D2]; unfold keep_small; simpl in *; [split; auto|].
  destruct (is_small p q n s); split; simpl; auto; lia.
Qed.

Lemma keep_small_fst p q n ds : map fst (map (keep_small p q n) ds) = map fst ds.
Proof.
  rewrite map_map. apply map_ext. intros [s [c|]]; unfold keep_small; simpl; [reflexivity|].
  destruct (is_small p q n s); reflexivity.
Qed.

Lemma fill_fst r ds : map fst (map (fill r) ds) = map fst ds.
Proof. rewrite map_map. apply map_ext. intros [s [c|]]; reflexivity. Qed.

(* a product of numbers >= 1 is at most (their maximum) ^ (how many there are) *)
Lemma lprod_le_pow l : l <> [] -> Forall (fun x => 1 <= x) l ->
  exists m, In m l /\ lprod l <= m ^ Z.of_nat (length l).
Proof.
  induction l as [|x r IH]; intros NE F; [congruence|].
  inversion F as [|? ? Hx F']; subst.
  destruct r as [|y r'].
  - exists x. split; [left; reflexivity|]. simpl. lia.
  - destruct IH as [m [Hm L]]; [discriminate|exact F'|].
    assert (M1 : 1 <= m) by (rewrite Forall_forall in F'; apply F'; exact Hm).
    set (k := length (y :: r')) in *.
    assert (P : 0 <= lprod (y :: r')).
    { clear -F'. induction F'; simpl; [lia|]. nia. }
    assert (RW : forall z, z ^ Z.of_nat (length (x :: y :: r')) = z * z ^ Z.of_nat k).
    { intros z. change (length (x :: y :: r')) with (S k).
      rewrite Nat2Z.inj_succ, Z.pow_succ_r by lia. reflexivity. }
    change (lprod (x :: y :: r')) with (x * lprod (y :: r')).
    destruct (Z_le_gt_dec x m) as [C|C].
    + exists m. split; [right; exact Hm|]. rewrite RW. nia.
    + exists x. split; [left; reflexivity|]. rewrite RW.
      assert (m ^ Z.of_nat k <= x ^ Z.of_nat k) by (apply Z.pow_le_mono_l; lia).
      assert (0 <= x ^ Z.of_nat k) by (apply Z.pow_nonneg; lia). nia.
Qed.

Lemma smalls_budget p q n ds :
  0 < q -> Forall dim_ok ds -> n = n_auto ds -> smalls p q n ds <> [] ->
  q * lprod (smalls p q n ds) <= p.
Proof.
  intros Hq F Hn NE.
  assert (G : Forall (fun x => 1 <= x) (smalls p q n ds)).
  { unfold smalls. apply Forall_map. apply Forall_forall. intros d Hd.
    apply filter_In in Hd. rewrite Forall_forall in F. apply (F d). tauto. }
  destruct (lprod_le_pow _ NE G) as [m [Hm L]].
  assert (M1 : 1 <= m) by (rewrite Forall_forall in G; apply G; exact Hm).
  assert (S : q * m ^ Z.of_nat n < p).
  { unfold smalls in Hm. apply in_map_iff in Hm. destruct Hm as [d [<- Hd]].
    apply filter_In in Hd. destruct Hd as [_ Hd]. apply andb_true_iff in Hd.
    destruct Hd as [_ Hd]. unfold is_small in Hd. apply Z.ltb_lt in Hd. exact Hd. }
  assert (K : (length (smalls p q n ds) <= n)%nat).
  { pose proof (n_auto_keep_small p q n ds). lia. }
  assert (m ^ Z.of_nat (length (smalls p q n ds)) <= m ^ Z.of_nat n)
    by (apply Z.pow_le_mono_r; lia).
  nia.
Qed.

Lemma existsb_smalls p q n ds :
  existsb (fun d => is_none (snd d) && is_small p q n (fst d)) ds = true -> smalls p q n ds <> [].
Proof.
  intros E. apply existsb_exists in E. destruct E as [d [Hd E]].
  unfold smalls. intros C.
  assert (I : In (fst d) (map fst (filter (fun d => is_none (snd d) && is_small p q n (fst d)) ds))).
  { apply in_map. apply filter_In. split; assumption. }
  rewrite C in I. destruct I.
Qed.

Lemma n_auto_zero_decided ds : Forall dim_ok ds -> n_auto ds = 0%nat -> Forall decided ds.
Proof.
  unfold n_auto. induction ds as [|[s [c|]] t IH]; intros F H; [constructor| |simpl in H; discriminate].
  inversion F as [|? ? D F']; subst. constructor; [|apply IH; auto].
  destruct D as [_ D]. exists c. split; [reflexivity|exact D].
Qed.

(* the state between rounds: decided dimensions within range, and the block of
   decided dimensions within the byte budget unless nothing is decided yet *)
Definition budget_inv (limit isz : Z) (ds : list cdim) : Prop :=
  block ds = 1 \/ isz * block ds <= limit.

Lemma auto_rounds_spec limit isz : 1 <= limit -> 1 <= isz ->
  forall fuel ds,
  (n_auto ds < fuel)%nat -> Forall dim_ok ds -> budget_inv limit isz ds ->
  let ds' := auto_rounds fuel limit isz ds in
  map fst ds' = map fst ds /\ Forall decided ds' /\ isz * block ds' <= Z.max limit isz.
Proof.
  intros HL HI. induction fuel as [|f IH]; intros ds Hf F B; [lia|].
  simpl. destruct (n_auto ds) as [|n'] eqn:N.
  - (* nothing left to decide *)
    splits; [reflexivity|apply n_auto_zero_decided; assumption|].
    destruct B as [B|B]; [rewrite B|]; lia.
  - set (n := S n') in *. set (q := isz * block ds).
    assert (Q : 0 < q) by (pose proof (block_pos ds F); unfold q; nia).
    fold (keep_small limit q n). 
    destruct (existsb (fun d => is_none (snd d) && is_small limit q n (fst d)) ds) eqn:E.
    + (* some dimensions are smaller than the ideal edge: keep them whole, go round again *)
      change (map (fun d : Z * option Z => match snd d with
                 | Some _ => d
                 | None => if is_small limit q n (fst d) then (fst d, Some (fst d)) else d
                 end) ds) with (map (keep_small limit q n) ds).
      pose proof (existsb_smalls _ _ _ _ E) as NE.
      pose proof (n_auto_keep_small limit q n ds) as NA.
      assert (L : (0 < length (smalls limit q n ds))%nat)
        by (destruct (smalls limit q n ds); [congruence|simpl; lia]).
      destruct (IH (map (keep_small limit q n) ds)) as [I1 [I2 I3]].
      * lia.
      * apply keep_small_ok; exact F.
      * right. rewrite block_keep_small.
        pose proof (smalls_budget limit q n ds Q F (eq_sym N) NE). unfold q in *. nia.
      * splits; [rewrite I1; apply keep_small_fst|exact I2|exact I3].
    + (* every remaining dimension gets the integer part of the ideal edge *)
      change (map (fun d : Z * option Z => match snd d with
                 | Some _ => d
                 | None => (fst d, Some (Z.max 1 (iroot limit q n)))
                 end) ds) with (map (fill (Z.max 1 (iroot limit q n))) ds).
      destruct (iroot_le limit q n) as [R0 R1]; [lia|lia|].
      set (r := iroot limit q n) in *.
      splits.
      * apply fill_fst.
      * apply Forall_map. apply Forall_forall. intros [s [c|]] Hd.
        -- rewrite Forall_forall in F. destruct (F _ Hd) as [_ D]. exists c. split; [reflexivity|exact D].
        -- unfold fill; simpl. eexists. split; [reflexivity|].
           rewrite Forall_forall in F. destruct (F _ Hd) as [D _]. simpl in D.
           split; [lia|]. apply Z.max_lub; [exact D|].
           pose proof (existsb_false_forall _ _ E _ Hd) as NS. simpl in NS.
           unfold is_small in NS. apply Z.ltb_ge in NS.
           destruct (Z_le_gt_dec r s) as [C|C]; [exact C|exfalso].
           assert (s ^ Z.of_nat n < r ^ Z.of_nat n) by (apply Z.pow_lt_mono_l; lia). nia.
      * rewrite block_fill, N. fold n.
        destruct (Z_le_gt_dec 1 r) as [C|C].
        -- rewrite Z.max_r by lia. unfold q in R1. nia.
        -- rewrite Z.max_l by lia. rewrite Z.pow_1_l by lia.
           destruct B as [B|B]; [rewrite B|]; lia.
Qed.

Lemma lprod_block_decided ds : Forall decided ds ->
  lprod (map (fun d : cdim => match snd d with Some c => c | None => fst d end) ds) = block ds.
Proof.
  induction ds as [|[s [c|]] t IH]; intros F; simpl; [reflexivity| |];
    inversion F as [|? ? D F']; subst.
  - rewrite IH by exact F'. reflexivity.
  - destruct D as [c [D _]]. discriminate.
Qed.

Lemma n_auto_le_length ds : (n_auto ds <= length ds)%nat.
Proof.
  unfold n_auto. induction ds as [|d t IH]; simpl; [lia|].
  destruct (is_none (snd d)); simpl; lia.
Qed.

(* _chunking_parameters with a byte budget: every extent within [1, dim], and
   a whole chunk within the budget (at least one element is always allowed) *)
Lemma auto_chunks_bounds limit isz shape :
  1 <= isz -> Forall (fun s => 1 <= s) shape ->
  let l := auto_chunks limit isz shape in
  Forall2 (fun c s => 1 <= c <= s) l shape /\ lprod l * isz <= Z.max (Z.max 1 limit) isz.
Proof.
  intros HI F. unfold auto_chunks.
  set (ds0 := map (fun s => (s, None)) shape : list cdim).
  assert (F0 : Forall dim_ok ds0).
  { unfold ds0. apply Forall_map. eapply Forall_impl; [|exact F]. intros s Hs. split; simpl; auto. }
  assert (B0 : budget_inv (Z.max 1 limit) isz ds0).
  { left. unfold ds0. clear. induction shape; simpl; auto. }
  destruct (auto_rounds_spec (Z.max 1 limit) isz (Z.le_max_l _ _) HI (S (length shape)) ds0)
    as [S1 [S2 S3]]; auto.
  { pose proof (n_auto_le_length ds0). unfold ds0 in *. rewrite map_length in *. lia. }
  set (ds' := auto_rounds (S (length shape)) (Z.max 1 limit) isz ds0) in *.
  split.
  - assert (Sh : map fst ds' = shape).
    { rewrite S1. unfold ds0. rewrite map_map. simpl. apply map_id. }
    rewrite <- Sh. clear -S2. induction S2 as [|d t D _ IH]; simpl; [constructor|].
    constructor; [|exact IH]. destruct D as [c [-> D]]. exact D.
  - rewrite lprod_block_decided by exact S2. lia.
Qed.

(* non-vacuity and a worked example from the documentation of cfdm.write *)
Lemma auto_chunks_doc_example : auto_chunks 4194304 8 [400; 300; 60] = [93; 93; 60].
Proof. vm_compute. reflexivity. Qed.

(* contiguous storage exactly when asked for (or when the data are scalar) *)
Lemma chunking_contiguous_iff req opt shape isz :
  chunking_parameters req opt shape isz = FContig <->
  req = CRcontig \/
  ((req = CRnone \/ exists b, req = CRbytes b) /\
   ((req = CRnone /\ (opt = CRnone \/ opt = CRcontig \/ exists l, opt = CRshape l)) \/ shape = [])).
Proof.
  unfold chunking_parameters. destruct req as [| |b|l]; simpl.
  - destruct opt as [| |b|l]; simpl.
    + split; [intros _|reflexivity]. right. split; [left; reflexivity|]. left. auto.
    + split; [intros _|reflexivity]. right. split; [left; reflexivity|]. left. auto.
    + destruct shape; split; intros H; try reflexivity; try discriminate.
      * right. split; [left; reflexivity|right; reflexivity].
      * destruct H as [H|[_ [[_ [H|[H|[l H]]]]|H]]]; discriminate.
    + split; [intros _|reflexivity]. right. split; [left; reflexivity|]. left. split; eauto.
  - split; auto.
  - destruct shape; split; intros H; try reflexivity; try discriminate.
    + right. split; [right; eauto|right; reflexivity].
    + destruct H as [H|[_ [[H _]|H]]]; discriminate.
  - split; [discriminate|]. intros [H|[[H|[b H]] _]]; discriminate.
Qed.

(* ================================================================== *)
(* 4. data types                                                       *)
(* ================================================================== *)
Open Scope string_scope.

(* the fill attributes get the type the variable has on disk *)
Lemma fill_type_is_disk_type fmt sopt user t :
  is_string_tag t = false -> fill_type user t = disk_type fmt sopt user t.
Proof. intros H. unfold fill_type, disk_type. rewrite H. reflexivity. Qed.

(* strings become netCDF strings exactly in NETCDF4 files written with string=True,
   character arrays otherwise *)
Lemma string_storage fmt sopt user t :
  is_string_tag t = true ->
  (fmt = "NETCDF4" /\ sopt = true -> disk_type fmt sopt user t = "vlen-str") /\
  (~ (fmt = "NETCDF4" /\ sopt = true) -> disk_type fmt sopt user t = "S1").
Proof.
  intros H. unfold disk_type. rewrite H. split.
  - intros [-> ->]. reflexivity.
  - intros N. destruct (String.eqb fmt "NETCDF4") eqn:E; [|reflexivity].
    apply String.eqb_eq in E. destruct sopt; [exfalso; apply N; auto|reflexivity].
Qed.

(* a conversion is applied once, never chained *)
Lemma convert_user user t t' : assoc t user = Some t' -> convert user t = t'.
Proof. intros H. unfold convert. rewrite H. reflexivity. Qed.

(* ================================================================== *)
(* 6. reference attributes                                             *)
(* ================================================================== *)
Lemma attr_of_ok vars l : (forall n, In n l -> In n vars) -> attr_ok vars (attr_of l).
Proof. destruct l as [|x r]; simpl; [tauto|]. intros H. split; [discriminate|exact H]. Qed.

Lemma created_In auxs a n : In a auxs -> In n (aux_created a) -> In n (created auxs).
Proof. intros Ha Hn. unfold created. apply in_flat_map. exists a. split; assumption. Qed.

Lemma aux_listed_created a n : In n (aux_listed a) -> In n (aux_created a).
Proof.
  unfold aux_listed, aux_created.
  destruct (negb (x_props a) && negb (x_data a)); [intros []|].
  destruct (x_data a); [|intros []]. intros [<-|[]]. apply in_app_iff. left. left. reflexivity.
Qed.

Lemma geoms_incl auxs a : In a (geoms auxs) -> In a auxs /\ is_geom a = true.
Proof. unfold geoms. intros H. apply filter_In in H. exact H. Qed.

(* every name in every reference attribute built from the auxiliary coordinates
   - the data variable's coordinates, the container's node_coordinates,
   coordinates and grid_mapping - is the name of a variable that exists; no
   attribute is empty; grid_mapping names one variable *)
Lemma refs_resolve auxs :
  attr_ok (created auxs) (coordinates_attr auxs) /\
  forall c, container_of auxs = Ok (Some c) ->
    attr_ok (created auxs) (Some (g_nodes c)) /\
    attr_ok (created auxs) (g_coords c) /\
    attr_ok (created auxs) (g_gm c) /\
    (forall l, g_gm c = Some l -> length l = 1%nat).
Proof.
  split.
  - unfold coordinates_attr. apply attr_of_ok. intros n Hn.
    apply in_flat_map in Hn. destruct Hn as [a [Ha Hn]].
    eapply created_In; [exact Ha|]. apply aux_listed_created. exact Hn.
  - intros c. unfold container_of, container_with.
    destruct (geoms auxs) as [|g0 gr] eqn:G; [discriminate|].
    assert (GI : forall a, In a (g0 :: gr) -> In a auxs /\ is_geom a = true)
      by (intros a Ha; apply geoms_incl; rewrite G; exact Ha).
    set (gs := g0 :: gr) in *.
    assert (NODES : attr_ok (created auxs)
              (Some (flat_map (fun a => match x_nodes a with Some n => [n] | None => [] end) gs))).
    { split.
      - unfold gs. simpl. destruct (GI g0 (or_introl eq_refl)) as [_ I0].
        unfold is_geom in I0. destruct (x_nodes g0); [discriminate|discriminate].
      - intros n Hn. apply in_flat_map in Hn. destruct Hn as [a [Ha Hn]].
        destruct (GI a Ha) as [Ha' _]. eapply created_In; [exact Ha'|].
        unfold aux_created. destruct (x_nodes a); [|destruct Hn]. destruct Hn as [<-|[]].
        apply in_app_iff. right. apply in_app_iff. left. left. reflexivity. }
    assert (COORDS : attr_ok (created auxs)
              (attr_of (flat_map (fun a => if x_data a then [x_name a] else []) gs))).
    { apply attr_of_ok. intros n Hn. apply in_flat_map in Hn. destruct Hn as [a [Ha Hn]].
      destruct (GI a Ha) as [Ha' _]. eapply created_In; [exact Ha'|].
      unfold aux_created. destruct (x_data a); [|destruct Hn]. destruct Hn as [<-|[]].
      apply in_app_iff. left. left. reflexivity. }
    destruct (dedup (flat_map x_gm gs)) as [|m [|m2 r2]] eqn:D; intros H; inversion H; subst; clear H;
      cbn [g_nodes g_coords g_gm].
    + split; [exact NODES|]. split; [exact COORDS|]. split; [exact I|]. intros l Hl. discriminate.
    + split; [exact NODES|]. split; [exact COORDS|]. split.
      * split; [discriminate|]. intros n [<-|[]].
        assert (Hm : In m (dedup (flat_map x_gm gs))) by (rewrite D; left; reflexivity).
        apply (proj1 (dedup_In _ _)) in Hm. apply in_flat_map in Hm. destruct Hm as [a [Ha Hm]].
        destruct (GI a Ha) as [Ha' _]. eapply created_In; [exact Ha'|].
        unfold aux_created. apply in_app_iff. right. apply in_app_iff. right. exact Hm.
      * intros l Hl. inversion Hl. reflexivity.
Qed.

(* and the coordinates attribute is complete: every coordinate variable that was
   created is named *)
Lemma coordinates_complete auxs a :
  In a auxs -> x_data a = true -> In (x_name a) (flat_map aux_listed auxs).
Proof.
  intros Ha D. apply in_flat_map. exists a. split; [exact Ha|].
  unfold aux_listed. rewrite D. rewrite andb_false_r. left. reflexivity.
Qed.

Lemma refs_example :
  let auxs := [mkA "lon" true false (Some "x") ["datum"]; mkA "lat" true true (Some "y") ["datum"];
               mkA "alt" false false (Some "z") []; mkA "name" true true None []] in
  coordinates_attr auxs = Some ["lat"; "name"] /\
  container_of auxs = Ok (Some (mkG ["x"; "y"; "z"] (Some ["lat"]) (Some ["datum"]))).
Proof. vm_compute. split; reflexivity. Qed.

(* ================================================================== *)
(* examples (non-vacuity)                                              *)
(* ================================================================== *)
Lemma names_example :
  exists s out, run [OName "a_b"; OName "a b"; ODim "lat" 5; ORole "bounds2" 2 "bounds" false;
                     ORole "bounds2" 2 "bounds" false; OName "lat"] n_init = Ok (s, out) /\
    map fst out = ["a_b"; "a_b_1"; "lat"; "bounds2"; "bounds2"; "lat_1"] /\
    issued out = ["a_b"; "a_b_1"; "lat"; "bounds2"; "lat_1"].
Proof. eexists. eexists. vm_compute. splits; reflexivity. Qed.

Lemma conventions_example :
  conventions c08_cf_version (CList ["CF-1.8"; "CF-1.9"; "UGRID-1.0"; "my conv"]) None
  = Ok ("CF-" ++ c08_cf_version ++ ",UGRID-1.0,my conv") /\
  Forall (fun x => x <> EmptyString) (extras (CList ["CF-1.8"; "CF-1.9"; "UGRID-1.0"; "my conv"]) None).
Proof. split; [vm_compute; reflexivity|]. vm_compute. repeat constructor; discriminate. Qed.

Lemma globals_example :
  let f1 := mkF [("comment", "x"); ("project", "p"); ("foo", "1")] [("project", None); ("source", Some "S")] in
  let f2 := mkF [("comment", "x"); ("project", "p"); ("foo", "2")] [("source", Some "S")] in
  let o := mkO ["foo"] [] [("title", "T")] in
  file_globals c08_dofc o [f1; f2] = [("title", "T"); ("comment", "x"); ("project", "p"); ("source", "S")] /\
  var_attrs c08_dofc o [f1; f2] f2 = [("foo", "2")].
Proof. vm_compute. split; reflexivity. Qed.
