(* C19 - the property theorems, nothing else.  Each is closed by [exact] of a
   lemma from Lemmas.v and followed by Print Assumptions. *)
From CfdmV Require Import Common.Base C19.Model C19.Lemmas.
Open Scope string_scope.

(* The look-ups performed by str() and dump() of a field or domain succeed on
   EVERY state of the weak invariant: any number of axes and constructs,
   constructs without data, without axes assignment, without identity, axes
   without size, field data without data axes, names shared by several axes or
   constructs, custom keys. *)
Theorem C19_describe_total :
  forall s, inv_partial s = true -> exists d, describe true s = Ok d.
Proof. exact describe_total. Qed.
Print Assumptions C19_describe_total.

(* Non-vacuity: a state with all of those gaps satisfies the invariant. *)
Theorem C19_describe_example :
  exists s d, inv_partial s = true /\ describe true s = Ok d /\ length (ds_cons s) = 3%nat.
Proof. exact describe_example. Qed.
Print Assumptions C19_describe_example.

(* The guard is needed: when a construct's axes name a key that is not a domain
   axis (referential integrity, property C02) the look-up fails. *)
Theorem C19_describe_without_integrity_refuted :
  exists s, inv_partial s = false /\ describe true s = Err KeyErr.
Proof. exact describe_needs_integrity. Qed.
Print Assumptions C19_describe_without_integrity_refuted.

(* dump() drops nothing: one entry per domain axis and per construct (plus the
   field's Data line). *)
Theorem C19_dump_mentions_every_construct :
  forall s l, describe_dump true s = Ok l ->
  length l = ((if ds_field s && ds_has_data s then 1 else 0) + length (ds_axes s) + length (ds_cons s))%nat.
Proof. exact dump_mentions_all. Qed.
Print Assumptions C19_dump_mentions_every_construct.

(* Executing the commands compiled from a field or domain, in an empty
   namespace, binds the requested name to exactly that field: same properties,
   netCDF names, data, and the same constructs with their keys, axes, bounds,
   interior rings - for every number of constructs (induction over them) and
   every pair of names that is not refused. *)
Theorem C19_commands_roundtrip_field :
  forall x dn f cs, compile_fld true x dn f = Ok cs -> wf_fld f = true ->
  exists e, run cs [] = Some e /\ assoc x e = Some (VObj (den_fld f)).
Proof. exact commands_roundtrip_field. Qed.
Print Assumptions C19_commands_roundtrip_field.

(* The same for a stand-alone metadata construct of any class, with every
   choice of name / data_name / bounds_name / interior_ring_name not refused. *)
Theorem C19_commands_roundtrip_construct :
  forall n a cs, compile_acon true n a = Ok cs -> wf_acon a = true ->
  exists e, run cs [] = Some e /\ assoc (n_name n) e = Some (VObj (lift (den_acon a))).
Proof. exact commands_roundtrip_construct. Qed.
Print Assumptions C19_commands_roundtrip_construct.

(* Names that are pairwise distinct and not reserved are never refused, so the
   field is rebuilt (totality of the compiler under the exact documented guard). *)
Theorem C19_commands_rebuild_field :
  forall x dn f, good_names x dn = true -> wf_fld f = true ->
  exists cs e, compile_fld true x dn f = Ok cs /\ run cs [] = Some e /\
               assoc x e = Some (VObj (den_fld f)).
Proof. exact commands_rebuild_field. Qed.
Print Assumptions C19_commands_rebuild_field.

(* Reserved or coinciding names are refused whatever the field contains. *)
Theorem C19_commands_refuse_reserved :
  forall x dn f, mem x ["b"; "c"; "mask"; "i"] = true \/ x = dn ->
  compile_fld true x dn f = Err ValueErr.
Proof. exact commands_refuse_reserved. Qed.
Print Assumptions C19_commands_refuse_reserved.

(* The commands of a construct assign only the four names they were given:
   whatever else the namespace holds is untouched. *)
Theorem C19_commands_frame :
  forall n a cs e e', compile_acon true n a = Ok cs -> wf_acon a = true -> run cs e = Some e' ->
  forall z, z <> n_name n -> z <> n_data n -> z <> n_bounds n -> z <> n_ring n ->
  assoc z e' = assoc z e.
Proof. exact commands_frame. Qed.
Print Assumptions C19_commands_frame.

(* Non-vacuity: a field with a domain axis, a climatological coordinate with
   masked data and bounds, and a cell method is compiled and rebuilt. *)
Theorem C19_commands_example :
  exists f cs e, wf_fld f = true /\ length (f_items f) = 3%nat /\
    compile_fld true "f" "d" f = Ok cs /\ run cs [] = Some e /\
    assoc "f" e = Some (VObj (den_fld f)).
Proof. exact commands_example. Qed.
Print Assumptions C19_commands_example.

(* ---- Data.__str__ (deepening pass) ---- *)

(* str() of a Data object performs up to three element look-ups (first, last,
   second), each a partial operation, and up to three date-time conversions,
   each of which may raise.  For EVERY shape (any number of dimensions, sizes
   0, 1, 2, 3, more), any units (unset, string, not a string), any calendar and
   any array of elements: the look-ups the code performs are defined, and when
   each conversion site catches what the conversion raises the text is
   produced. *)
Theorem C19_data_str_total :
  forall k d, wf_ddata d = true -> conversions_caught k d = true -> exists t, data_str k d = Ok t.
Proof. exact data_str_total. Qed.
Print Assumptions C19_data_str_total.

(* The repaired code (except Exception at the three sites) has no guard left. *)
Theorem C19_data_str_total_repaired :
  forall d, wf_ddata d = true -> exists t, data_str k_repaired d = Ok t.
Proof. exact data_str_total_repaired. Qed.
Print Assumptions C19_data_str_total_repaired.

(* Data that are not reference times never reach a conversion. *)
Theorem C19_data_str_total_plain :
  forall k d, wf_ddata d = true -> is_reftime (dd_units d) = false -> exists t, data_str k d = Ok t.
Proof. exact data_str_total_plain. Qed.
Print Assumptions C19_data_str_total_plain.

(* Non-vacuity, and the layout for sizes 0, 1, 2, 3 (row and column), 4, a
   masked element, an unconvertible middle reference time, no array. *)
Theorem C19_data_str_examples :
  let plain sh els := mkDD true (UStr "K") None sh els (COk "") (COk ("", "")) (COk "") in
  data_str k_repaired (plain [0%nat] []) = Ok " K" /\
  data_str k_repaired (plain [] [EVal "9"]) = Ok "9 K" /\
  data_str k_repaired (plain [2%nat] [EVal "1"; EMasked]) = Ok "[1, --] K" /\
  data_str k_repaired (plain [1%nat; 3%nat] [EVal "1"; EVal "2"; EVal "3"]) = Ok "[[1, 2, 3]] K" /\
  data_str k_repaired (plain [3%nat; 1%nat] [EVal "1"; EVal "2"; EVal "3"]) = Ok "[[1, ..., 3]] K" /\
  data_str k_repaired (plain [2%nat; 2%nat] [EVal "1"; EVal "2"; EVal "3"; EVal "4"]) = Ok "[[1, ..., 4]] K" /\
  data_str k_repaired (mkDD true (UStr "days since 2000-01-01") (Some "noleap") [3%nat]
                            [EVal "1.0"; EVal "1e+20"; EVal "3.0"]
                            (COk "a") (COk ("a", "c")) (CErr XOverflow)) = Ok "[a, ??, c] noleap" /\
  data_str k_repaired (mkDD false UOther (Some "x") [] [] (COk "") (COk ("", "")) (COk "")) = Ok " ?? x".
Proof. exact data_str_examples. Qed.
Print Assumptions C19_data_str_examples.

(* The descriptions of a field or domain INCLUDING every Data object they
   format (field data, data and bounds data of every construct) are total on
   the weak invariant plus "every array holds as many elements as its shape". *)
Theorem C19_describe_all_total :
  forall s, inv_full s = true -> exists d, describe_all true k_repaired s = Ok d.
Proof. exact describe_all_total. Qed.
Print Assumptions C19_describe_all_total.

(* ---- order of the cell methods (deepening pass) ---- *)

(* The constructs inserted without a key (cell methods, coordinate references)
   come back as the SAME LIST, in the same order. *)
Theorem C19_commands_preserve_order :
  forall x dn f cs, compile_fld true x dn f = Ok cs -> wf_fld f = true ->
  exists e o, run cs [] = Some e /\ assoc x e = Some (VObj o) /\
    filter unkeyed_entry (o_items o) = map den_item (filter unkeyed_item (f_items f)).
Proof. exact commands_preserve_order. Qed.
Print Assumptions C19_commands_preserve_order.

(* For cell methods held in application order under ANY keys (explicit keys out
   of order, eleven or more automatic keys): the rebuilt field holds exactly
   those cell methods in application order - list equality. *)
Theorem C19_commands_cell_methods_in_order :
  forall x dn fv mid keyed cms post cs,
  forallb (fun it => negb (unkeyed_item it)) keyed = true ->
  let f := mkF fv mid (keyed ++ cm_items cms) post in
  compile_fld true x dn f = Ok cs -> wf_fld f = true ->
  exists e o, run cs [] = Some e /\ assoc x e = Some (VObj o) /\
    filter unkeyed_entry (o_items o) = map (fun kc => (den_acon (snd kc), None, None)) cms.
Proof. exact commands_cell_methods_in_order. Qed.
Print Assumptions C19_commands_cell_methods_in_order.
