(* C19 - the property theorems, nothing else.  Each is closed by [exact] of a
   lemma from Lemmas.v and followed by Print Assumptions. *)
From CfdmV Require Import Common.Base C19.Model C19.Lemmas.
Open Scope string_scope.

(* The look-ups performed by str() and dump() of a field or domain succeed on
   EVERY state of the weak invariant: any number of axes and constructs,
   constructs without data, without axes assignment, without identity, axes
   without size, field data without data axes, names shared by several axes or
   constructs, custom keys. *)
Theorem C19_describe_total :
  forall s, inv_partial s = true -> exists d, describe true s = Ok d.
Proof. exact describe_total. Qed.
Print Assumptions C19_describe_total.

(* Non-vacuity: a state with all of those gaps satisfies the invariant. *)
Theorem C19_describe_example :
  exists s d, inv_partial s = true /\ describe true s = Ok d /\ length (ds_cons s) = 3%nat.
Proof. exact describe_example. Qed.
Print Assumptions C19_describe_example.

(* The guard is needed: when a construct's axes name a key that is not a domain
   axis (referential integrity, property C02) the look-up fails. *)
Theorem C19_describe_without_integrity_refuted :
  exists s, inv_partial s = false /\ describe true s = Err KeyErr.
Proof. exact describe_needs_integrity. Qed.
Print Assumptions C19_describe_without_integrity_refuted.

(* dump() drops nothing: one entry per domain axis and per construct (plus the
   field's Data line). *)
Theorem C19_dump_mentions_every_construct :
  forall s l, describe_dump true s = Ok l ->
  length l = ((if ds_field s && ds_has_data s then 1 else 0) + length (ds_axes s) + length (ds_cons s))%nat.
Proof. exact dump_mentions_all. Qed.
Print Assumptions C19_dump_mentions_every_construct.

(* Executing the commands compiled from a field or domain, in an empty
   namespace, binds the requested name to exactly that field: same properties,
   netCDF names, data, and the same constructs with their keys, axes, bounds,
   interior rings - for every number of constructs (induction over them) and
   every pair of names that is not refused. *)
Theorem C19_commands_roundtrip_field :
  forall x dn f cs, compile_fld true x dn f = Ok cs -> wf_fld f = true ->
  exists e, run cs [] = Some e /\ assoc x e = Some (VObj (den_fld f)).
Proof. exact commands_roundtrip_field. Qed.
Print Assumptions C19_commands_roundtrip_field.

(* The same for a stand-alone metadata construct of any class, with every
   choice of name / data_name / bounds_name / interior_ring_name not refused. *)
Theorem C19_commands_roundtrip_construct :
  forall n a cs, compile_acon true n a = Ok cs -> wf_acon a = true ->
  exists e, run cs [] = Some e /\ assoc (n_name n) e = Some (VObj (lift (den_acon a))).
Proof. exact commands_roundtrip_construct. Qed.
Print Assumptions C19_commands_roundtrip_construct.

(* Names that are pairwise distinct and not reserved are never refused, so the
   field is rebuilt (totality of the compiler under the exact documented guard). *)
Theorem C19_commands_rebuild_field :
  forall x dn f, good_names x dn = true -> wf_fld f = true ->
  exists cs e, compile_fld true x dn f = Ok cs /\ run cs [] = Some e /\
               assoc x e = Some (VObj (den_fld f)).
Proof. exact commands_rebuild_field. Qed.
Print Assumptions C19_commands_rebuild_field.

(* Reserved or coinciding names are refused whatever the field contains. *)
Theorem C19_commands_refuse_reserved :
  forall x dn f, mem x ["b"; "c"; "mask"; "i"] = true \/ x = dn ->
  compile_fld true x dn f = Err ValueErr.
Proof. exact commands_refuse_reserved. Qed.
Print Assumptions C19_commands_refuse_reserved.

(* The commands of a construct assign only the four names they were given:
   whatever else the namespace holds is untouched. *)
Theorem C19_commands_frame :
  forall n a cs e e', compile_acon true n a = Ok cs -> wf_acon a = true -> run cs e = Some e' ->
  forall z, z <> n_name n -> z <> n_data n -> z <> n_bounds n -> z <> n_ring n ->
  assoc z e' = assoc z e.
Proof. exact commands_frame. Qed.
Print Assumptions C19_commands_frame.

(* Non-vacuity: a field with a domain axis, a climatological coordinate with
   masked data and bounds, and a cell method is compiled and rebuilt. *)
Theorem C19_commands_example :
  exists f cs e, wf_fld f = true /\ length (f_items f) = 3%nat /\
    compile_fld true "f" "d" f = Ok cs /\ run cs [] = Some e /\
    assoc "f" e = Some (VObj (den_fld f)).
Proof. exact commands_example. Qed.
Print Assumptions C19_commands_example.
