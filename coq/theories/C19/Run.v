(* C19 - evaluation entry points for the correspondence harness. *)
From CfdmV Require Import Common.Base C19.Model.
Open Scope string_scope.

(* ---- equality of lists up to order ---- *)
Fixpoint remove1 {A} (eqb : A -> A -> bool) (x : A) (l : list A) : option (list A) :=
  match l with
  | [] => None
  | y :: r => if eqb x y then Some r
              else match remove1 eqb x r with Some r' => Some (y :: r') | None => None end
  end.

Fixpoint perm_eqb {A} (eqb : A -> A -> bool) (l1 l2 : list A) : bool :=
  match l1 with
  | [] => match l2 with [] => true | _ => false end
  | x :: r => match remove1 eqb x l2 with Some l2' => perm_eqb eqb r l2' | None => false end
  end.

Definition olist_eqb (a b : option (list string)) : bool := option_eqb (list_eqb String.eqb) a b.

(* ---- (a) descriptions ---- *)
Definition sitem_eqb (a b : sitem) : bool :=
  let '(s1, i1, l1) := a in let '(s2, i2, l2) := b in
  String.eqb s1 s2 && (String.eqb s1 "data" || String.eqb i1 i2) && olist_eqb l1 l2.

Definition ditem_eqb (a b : ditem) : bool :=
  let '(s1, i1, d1, b1) := a in let '(s2, i2, d2, b2) := b in
  String.eqb s1 s2 && (String.eqb s1 "data" || String.eqb i1 i2) && olist_eqb d1 d2 && olist_eqb b1 b2.

(* what the implementation showed: the parsed items, or the class of the exception *)
Definition obs_match {A} (eqb : A -> A -> bool) (m : result (list A)) (o : result (list A)) : bool :=
  match m, o with
  | Ok a, Ok b => perm_eqb eqb a b
  | Err e1, Err e2 => errk_eqb e1 e2
  | _, _ => false
  end.

Definition check_describe (cs : bool * dstate * result (list sitem) * result (list ditem)) : bool :=
  let '(fixed, s, ostr, odump) := cs in
  obs_match sitem_eqb (describe_str fixed s) ostr &&
  obs_match ditem_eqb (describe_dump fixed s) odump.

(* the states the harness generates satisfy the weak invariant (checked, so
   that the totality theorem applies to them) *)
Definition check_inv (s : dstate) : bool := inv_partial s.

(* ---- (b) creation commands ---- *)
Definition attr_eqb (a b : attr) : bool :=
  match a, b with
  | A1 s1 v1, A1 s2 v2 => String.eqb s1 s2 && Z.eqb v1 v2
  | A2 s1 k1 v1, A2 s2 k2 v2 => String.eqb s1 s2 && String.eqb k1 k2 && Z.eqb v1 v2
  | _, _ => false
  end.

Definition dtok_eqb (a b : dtok) : bool := Z.eqb (fst a) (fst b) && Bool.eqb (snd a) (snd b).

Definition sobj_eqb (a b : sobj) : bool :=
  String.eqb (s_cls a) (s_cls b) && perm_eqb attr_eqb (s_attrs a) (s_attrs b) &&
  option_eqb dtok_eqb (s_data a) (s_data b).

Definition cobj_eqb (a b : cobj) : bool :=
  sobj_eqb (c_s a) (c_s b) && option_eqb sobj_eqb (c_bounds a) (c_bounds b) &&
  option_eqb sobj_eqb (c_ring a) (c_ring b).

Definition entry_eqb (a b : entry) : bool :=
  let '(c1, x1, k1) := a in let '(c2, x2, k2) := b in
  cobj_eqb c1 c2 && olist_eqb x1 x2 && option_eqb String.eqb k1 k2.

(* constructs inserted with a key may come in any order; the others (cell
   methods: their order is significant) are compared in order *)
Definition keyed (e : entry) : bool := match snd e with Some _ => true | None => false end.

Definition fobj_eqb (a b : fobj) : bool :=
  cobj_eqb (o_c a) (o_c b) &&
  perm_eqb entry_eqb (filter keyed (o_items a)) (filter keyed (o_items b)) &&
  list_eqb entry_eqb (filter (fun e => negb (keyed e)) (o_items a))
                     (filter (fun e => negb (keyed e)) (o_items b)).

Inductive absval := AFld (f : fld) | ACon (a : acon) | AData (d : dtok).

Definition compile_abs (fixed : bool) (n : names) (x : absval) : result (list cmd) :=
  match x with
  | AFld f => compile_fld fixed (n_name n) (n_data n) f
  | ACon a => compile_acon fixed n a
  | AData d => compile_data (n_name n) d
  end.

Definition built_ok (x : absval) (v : option value) : bool :=
  match x, v with
  | AFld f, Some (VObj o) => fobj_eqb o (den_fld f)
  | ACon a, Some (VObj o) => fobj_eqb o (lift (den_acon a))
  | AData d, Some (VData d') => dtok_eqb d d'
  | _, _ => false
  end.

Definition runs_to (x : absval) (n : names) (cs : list cmd) : bool :=
  match run cs [] with
  | Some e => built_ok x (assoc (n_name n) e)
  | None => false
  end.

(* a case: which tree (repaired or pinned), the abstract value read off the
   real object through its getters, the names passed to creation_commands,
   and what the implementation returned: the parsed commands or a refusal.
   The model must refuse exactly when the implementation does; otherwise the
   implementation's commands, run by the model's interpreter, must build the
   abstract value, and so must the model's own commands. *)
Definition check_cc (cs : bool * absval * names * result (list cmd)) : bool :=
  let '(fixed, x, n, impl) := cs in
  match compile_abs fixed n x, impl with
  | Err e1, Err e2 => errk_eqb e1 e2
  | Ok mine, Ok theirs => runs_to x n theirs && runs_to x n mine
  | _, _ => false
  end.

(* ---- (c) Data.__str__: the model's text against str(d) of the implementation
   (the repaired code: except Exception at the three conversion sites) ---- *)
Definition check_data_str (cs : ddata * result string) : bool :=
  let '(d, obs) := cs in
  wf_ddata d &&
  match data_str k_repaired d, obs with
  | Ok a, Ok b => String.eqb a b
  | Err e1, Err e2 => errk_eqb e1 e2
  | _, _ => false
  end.
