(* C19 - the code of the pinned commit ([fixed := false] in Model.v) does NOT
   satisfy the C19 theorems.  Each witness was replayed against the
   implementation before the repairs (handoff/C19-fix-1,2,4.diff); the repaired
   model gives the expected answer on the same input. *)
From CfdmV Require Import Common.Base C19.Model.
Open Scope string_scope.

(* F19a: a field holding a dimension coordinate whose axes were never set
   satisfies the weak invariant, yet str() and dump() raise KeyError
   (domain.py: construct_data_axes[cid]). *)
Definition s_f19a : dstate :=
  mkDs [mkAx "domainaxis0" "key%domainaxis0" (Some "3")]
       [mkDc "dimensioncoordinate0" TDim "" (Some ["3"]) None]
       [] true false None.

Theorem C19_old_missing_axes_refuted :
  exists s, inv_partial s = true /\ describe_str false s = Err KeyErr /\
            describe_dump false s = Err KeyErr /\ exists d, describe true s = Ok d.
Proof. exists s_f19a. repeat split; try reflexivity. eexists; reflexivity. Qed.

(* two constructs of one type with the same identity under keys that do not
   end with a digit: dump() raises IndexError (re.findall(...)[0]);
   two such domain axes: str() raises as well. *)
Definition s_custom : dstate :=
  mkDs [mkAx "x" "ncdim%d" (Some "3"); mkAx "y" "ncdim%d" (Some "3")]
       [mkDc "p" TAux "long_name=q" (Some ["3"]) None; mkDc "q" TAux "long_name=q" (Some ["3"]) None]
       [("p", ["x"]); ("q", ["x"])] false false None.

Theorem C19_old_custom_keys_refuted :
  exists s, inv_partial s = true /\ describe_str false s = Err IndexErr /\
            describe_dump false s = Err IndexErr /\ exists d, describe true s = Ok d.
Proof. exists s_custom. repeat split; try reflexivity. eexists; reflexivity. Qed.

(* mixin.Coordinate.creation_commands ignored name / data_name / bounds_name /
   interior_ring_name: asked for the name "x1", the commands bind "c". *)
Definition a_coord : acon :=
  mkA (mkV "AuxiliaryCoordinate" [A1 "set_properties" 1%Z] (Some (2%Z, false)) []) FCoord []
      (Some (mkV "Bounds" [] (Some (3%Z, false)) [])) None [].

Theorem C19_old_coordinate_names_refuted :
  exists a n cs e, wf_acon a = true /\ compile_acon false n a = Ok cs /\ run cs [] = Some e /\
    assoc (n_name n) e = None /\
    exists cs' e', compile_acon true n a = Ok cs' /\ run cs' [] = Some e' /\
                   assoc (n_name n) e' = Some (VObj (lift (den_acon a))).
Proof.
  exists a_coord, (mkN "x1" "dd" "bb" "ir"). eexists. eexists.
  repeat split; try reflexivity. eexists. eexists. repeat split; reflexivity.
Qed.

(* ---- Data.__str__ before handoff/C19-fix2-1.diff: the three conversion sites
   caught (ValueError, OverflowError) only.  netCDF4.num2date raises
   AttributeError for a NaN or infinite scalar: str() of one-element
   reference-time data holding NaN raised; the repaired code shows "??". *)
Definition d_nan : ddata :=
  mkDD true (UStr "days since 2000-01-01") None [1%nat] [EVal "nan"]
       (CErr XAttr) (COk ("", "")) (COk "").

Theorem C19_before_nan_reftime_refuted :
  exists d, wf_ddata d = true /\ data_str k_before d = Err OtherErr /\
            data_str k_repaired d = Ok "[??]".
Proof. exists d_nan. repeat split; reflexivity. Qed.

(* the same for the middle element of three (NaN or inf between two good values) *)
Definition d_mid (e : cerr) : ddata :=
  mkDD true (UStr "days since 2000-01-01") (Some "noleap") [3%nat]
       [EVal "1.0"; EVal "x"; EVal "3.0"] (COk "a") (COk ("a", "c")) (CErr e).

Theorem C19_before_nan_middle_refuted :
  wf_ddata (d_mid XAttr) = true /\ data_str k_before (d_mid XAttr) = Err OtherErr /\
  data_str k_repaired (d_mid XAttr) = Ok "[a, ??, c] noleap".
Proof. repeat split; reflexivity. Qed.

(* every site needs its own guard: a variant whose third site (the middle
   element) catches nothing because the first/last conversion succeeded fails
   for a middle value out of the date range (seeded change C19-s1) *)
Theorem C19_unguarded_middle_refuted :
  exists k, k_single k = catch_vo /\ k_pair k = catch_vo /\
            data_str k (d_mid XOverflow) = Err OtherErr /\
            data_str k_before (d_mid XOverflow) = Ok "[a, ??, c] noleap".
Proof. exists (mkK catch_vo catch_vo (fun _ => false)). repeat split; reflexivity. Qed.

(* iterating over the cell methods in sorted key order (as dump() may) instead
   of application order rebuilds a different field as soon as the keys do not
   sort into application order: 'cellmethod10' < 'cellmethod2' (seeded change
   C19-s2) *)
Definition cm_a : acon := mkA (mkV "CellMethod" [] None []) FPlain [] None None [A1 "set_method" 1%Z].
Definition cm_b : acon := mkA (mkV "CellMethod" [] None []) FPlain [] None None [A1 "set_method" 2%Z].
Definition cms_w : list (string * acon) := [("cellmethod2", cm_a); ("cellmethod10", cm_b)].

Theorem C19_sorted_cell_methods_refuted :
  exists cms cs e o,
    compile_fld true "f" "d" (mkF (mkV "Field" [] None []) [] (cm_items (sort_by_key cms)) []) = Ok cs /\
    run cs [] = Some e /\ assoc "f" e = Some (VObj o) /\
    o_items o <> o_items (den_fld (mkF (mkV "Field" [] None []) [] (cm_items cms) [])).
Proof.
  exists cms_w. eexists. eexists. eexists.
  split; [reflexivity|]. split; [reflexivity|]. split; [reflexivity|].
  vm_compute. discriminate.
Qed.
