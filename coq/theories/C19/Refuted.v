(* C19 - the code of the pinned commit ([fixed := false] in Model.v) does NOT
   satisfy the C19 theorems.  Each witness was replayed against the
   implementation before the repairs (handoff/C19-fix-1,2,4.diff); the repaired
   model gives the expected answer on the same input. *)
From CfdmV Require Import Common.Base C19.Model.
Open Scope string_scope.

(* F19a: a field holding a dimension coordinate whose axes were never set
   satisfies the weak invariant, yet str() and dump() raise KeyError
   (domain.py: construct_data_axes[cid]). *)
Definition s_f19a : dstate :=
  mkDs [mkAx "domainaxis0" "key%domainaxis0" (Some "3")]
       [mkDc "dimensioncoordinate0" TDim "" (Some ["3"]) None]
       [] true false None.

Theorem C19_old_missing_axes_refuted :
  exists s, inv_partial s = true /\ describe_str false s = Err KeyErr /\
            describe_dump false s = Err KeyErr /\ exists d, describe true s = Ok d.
Proof. exists s_f19a. repeat split; try reflexivity. eexists; reflexivity. Qed.

(* two constructs of one type with the same identity under keys that do not
   end with a digit: dump() raises IndexError (re.findall(...)[0]);
   two such domain axes: str() raises as well. *)
Definition s_custom : dstate :=
  mkDs [mkAx "x" "ncdim%d" (Some "3"); mkAx "y" "ncdim%d" (Some "3")]
       [mkDc "p" TAux "long_name=q" (Some ["3"]) None; mkDc "q" TAux "long_name=q" (Some ["3"]) None]
       [("p", ["x"]); ("q", ["x"])] false false None.

Theorem C19_old_custom_keys_refuted :
  exists s, inv_partial s = true /\ describe_str false s = Err IndexErr /\
            describe_dump false s = Err IndexErr /\ exists d, describe true s = Ok d.
Proof. exists s_custom. repeat split; try reflexivity. eexists; reflexivity. Qed.

(* mixin.Coordinate.creation_commands ignored name / data_name / bounds_name /
   interior_ring_name: asked for the name "x1", the commands bind "c". *)
Definition a_coord : acon :=
  mkA (mkV "AuxiliaryCoordinate" [A1 "set_properties" 1%Z] (Some (2%Z, false)) []) FCoord []
      (Some (mkV "Bounds" [] (Some (3%Z, false)) [])) None [].

Theorem C19_old_coordinate_names_refuted :
  exists a n cs e, wf_acon a = true /\ compile_acon false n a = Ok cs /\ run cs [] = Some e /\
    assoc (n_name n) e = None /\
    exists cs' e', compile_acon true n a = Ok cs' /\ run cs' [] = Some e' /\
                   assoc (n_name n) e' = Some (VObj (lift (den_acon a))).
Proof.
  exists a_coord, (mkN "x1" "dd" "bb" "ir"). eexists. eexists.
  repeat split; try reflexivity. eexists. eexists. repeat split; reflexivity.
Qed.
