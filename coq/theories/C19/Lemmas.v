(* C19 - proofs. *)
From CfdmV Require Import Common.Base C19.Model.
Open Scope string_scope.
Open Scope list_scope.

Ltac splits := repeat match goal with |- _ /\ _ => split end.

(* ===================================================================== *)
(* environments                                                          *)
(* ===================================================================== *)
Lemma assoc_hd {A} x (v : A) e : assoc x ((x, v) :: e) = Some v.
Proof. simpl. rewrite String.eqb_refl. reflexivity. Qed.

Lemma assoc_tl {A} x y (v : A) e : x <> y -> assoc x ((y, v) :: e) = assoc x e.
Proof. intro H. simpl. apply String.eqb_neq in H. rewrite H. reflexivity. Qed.

Lemma run_app a b e :
  run (a ++ b) e = match run a e with Some e' => run b e' | None => None end.
Proof.
  revert e; induction a as [|c r IH]; intro e; simpl; [reflexivity|].
  destruct (step e c); [apply IH|reflexivity].
Qed.

Lemma run_cons c r e :
  run (c :: r) e = match step e c with Some e' => run r e' | None => None end.
Proof. reflexivity. Qed.

(* appending attributes to an object *)
Definition app_attrs (o : fobj) (l : list attr) : fobj :=
  mkO (mkC (mkS (s_cls (c_s (o_c o))) (s_attrs (c_s (o_c o)) ++ l) (s_data (c_s (o_c o))))
           (c_bounds (o_c o)) (c_ring (o_c o))) (o_items o).

Lemma app_attrs_nil o : app_attrs o [] = o.
Proof. destruct o as [[[c a d] b r] it]. unfold app_attrs; simpl. rewrite app_nil_r. reflexivity. Qed.

Lemma app_attrs_cons o a l : app_attrs (add_attr o a) l = app_attrs o (a :: l).
Proof.
  destruct o as [[[c at' d] b r] it]. unfold app_attrs, add_attr; simpl.
  rewrite <- app_assoc. reflexivity.
Qed.

Lemma app_attrs_app o l1 l2 : app_attrs (app_attrs o l1) l2 = app_attrs o (l1 ++ l2).
Proof.
  destruct o as [[[c at' d] b r] it]. unfold app_attrs; simpl. rewrite app_assoc. reflexivity.
Qed.

Definition frame (keep : string -> Prop) (e e' : env) : Prop :=
  forall z, keep z -> assoc z e' = assoc z e.

Lemma run_attrs : forall l x o e,
  assoc x e = Some (VObj o) ->
  exists e', run (map (CAttr x) l) e = Some e' /\
             assoc x e' = Some (VObj (app_attrs o l)) /\
             (forall z, z <> x -> assoc z e' = assoc z e).
Proof.
  induction l as [|a r IH]; intros x o e H.
  - exists e. simpl. rewrite app_attrs_nil. auto.
  - simpl. rewrite H.
    destruct (IH x (add_attr o a) ((x, VObj (add_attr o a)) :: e)) as (e' & R & A & F).
    { apply assoc_hd. }
    exists e'. splits; [exact R| rewrite A, app_attrs_cons; reflexivity|].
    intros z Hz. rewrite (F z Hz). apply assoc_tl. exact Hz.
Qed.

(* ===================================================================== *)
(* (b) the commands of a variable (properties, netCDF name, data)        *)
(* ===================================================================== *)
Definition obj_of_s (s : sobj) : fobj := mkO (mkC s None None) [].

Lemma compile_data_inv x d cs : compile_data x d = Ok cs -> cs = [CData x d].
Proof. unfold compile_data. destruct (snd d && (x =? "mask")); congruence. Qed.

Lemma run_var : forall x dn v cs e,
  compile_var x dn v = Ok cs ->
  exists e', run cs e = Some e' /\
             assoc x e' = Some (VObj (obj_of_s (den_var v))) /\
             (forall z, z <> x -> z <> dn -> assoc z e' = assoc z e).
Proof.
  intros x dn [cls head data tail] cs e. unfold compile_var; simpl.
  destruct data as [d|].
  - destruct (x =? dn) eqn:E; [discriminate|]. apply String.eqb_neq in E.
    destruct (compile_data dn d) as [cd|] eqn:CD; simpl; [|discriminate].
    apply compile_data_inv in CD; subst cd. intro H; inversion H; subst cs; clear H.
    rewrite run_cons. cbn [step]. rewrite run_app.
    destruct (run_attrs head x (empty_obj cls) ((x, VObj (empty_obj cls)) :: e)) as (e1 & R1 & A1' & F1).
    { apply assoc_hd. }
    rewrite R1. cbn [app]. rewrite run_cons. cbn [step]. rewrite run_cons. cbn [step].
    assert (Hx : assoc x ((dn, VData d) :: e1) = Some (VObj (app_attrs (empty_obj cls) head))).
    { rewrite assoc_tl by exact E. exact A1'. }
    rewrite Hx, assoc_hd, String.eqb_refl.
    set (o2 := with_data (app_attrs (empty_obj cls) head) d).
    destruct (run_attrs tail x o2 ((x, VObj o2) :: (dn, VData d) :: e1)) as (e2 & R2 & A2' & F2).
    { apply assoc_hd. }
    exists e2. splits; [exact R2| |].
    + rewrite A2'. unfold o2, obj_of_s, den_var, app_attrs, with_data, empty_obj; simpl.
      reflexivity.
    + intros z Hz Hd. rewrite (F2 z Hz), assoc_tl by exact Hz.
      rewrite assoc_tl by exact Hd. rewrite (F1 z Hz). apply assoc_tl; exact Hz.
  - intro H; inversion H; subst cs; clear H. rewrite run_cons. cbn [step]. rewrite <- map_app.
    destruct (run_attrs (head ++ tail) x (empty_obj cls) ((x, VObj (empty_obj cls)) :: e)) as (e1 & R1 & A1' & F1).
    { apply assoc_hd. }
    exists e1. splits; [exact R1| |].
    + rewrite A1'. reflexivity.
    + intros z Hz _. rewrite (F1 z Hz). apply assoc_tl; exact Hz.
Qed.

(* bounds / interior ring *)
Definition put_sub (setter : string) (o : fobj) (b : sobj) : fobj :=
  if setter =? "set_bounds" then with_bounds o b else with_ring o b.

Lemma run_sub : forall x setter sub dn ov cs e o,
  (setter = "set_bounds" \/ setter = "set_interior_ring") ->
  compile_sub x setter sub dn ov = Ok cs ->
  x <> sub -> x <> dn ->
  assoc x e = Some (VObj o) ->
  exists e', run cs e = Some e' /\
             assoc x e' = Some (VObj (match ov with
                                      | Some b => put_sub setter o (den_var b)
                                      | None => o end)) /\
             (forall z, z <> x -> z <> sub -> z <> dn -> assoc z e' = assoc z e).
Proof.
  intros x setter sub dn ov cs e o Hs. unfold compile_sub. destruct ov as [b|].
  - destruct (compile_var sub dn b) as [cb|] eqn:CB; simpl; [|discriminate].
    intro H; inversion H; subst cs; clear H. intros Hxs Hxd Hx.
    destruct (run_var sub dn b cb e CB) as (e1 & R1 & A1' & F1).
    rewrite run_app, R1. rewrite run_cons. cbn [step].
    rewrite (F1 x Hxs Hxd), Hx, A1'.
    exists ((x, VObj (put_sub setter o (den_var b))) :: e1).
    splits; [destruct Hs; subst setter; reflexivity|apply assoc_hd|].
    intros z Hz Hzs Hzd. rewrite assoc_tl by exact Hz. apply F1; assumption.
  - intro H; inversion H; subst cs. intros _ _ Hx. exists e. simpl. auto.
Qed.

(* ===================================================================== *)
(* (b) one metadata construct                                            *)
(* ===================================================================== *)
Lemma mem_false_3 x a b c : mem x [a; b; c] = false -> x <> a /\ x <> b /\ x <> c.
Proof.
  unfold mem; simpl. intro H.
  apply orb_false_iff in H as [H1 H]. apply orb_false_iff in H as [H2 H].
  apply orb_false_iff in H as [H3 _].
  splits; apply String.eqb_neq; assumption.
Qed.

Definition written (n : names) (z : string) : Prop :=
  z <> n_name n /\ z <> n_data n /\ z <> n_bounds n /\ z <> n_ring n.

Lemma run_acon : forall n a cs e,
  compile_acon true n a = Ok cs -> wf_acon a = true ->
  exists e', run cs e = Some e' /\
             assoc (n_name n) e' = Some (VObj (lift (den_acon a))) /\
             (forall z, written n z -> assoc z e' = assoc z e).
Proof.
  intros [x dn bn rn] [[cls head data tail] fam pre bo ro post] cs e.
  unfold compile_acon, wf_acon; simpl.
  assert (IN : inner_names true fam (mkN x dn bn rn) = mkN x dn bn rn) by (destruct fam; reflexivity).
  rewrite IN; simpl.
  destruct (refused (mkN x dn bn rn) fam) eqn:RF; [discriminate|].
  destruct fam.
  - (* FPlain *)
    intros H W. inversion H; subst cs; clear H.
    destruct data; [discriminate|]. destruct bo; [discriminate|]. destruct ro; [discriminate|].
    simpl.
    destruct (run_attrs (head ++ tail ++ pre ++ post) x (empty_obj cls)
                        ((x, VObj (empty_obj cls)) :: e)) as (e1 & R1 & A1' & F1).
    { apply assoc_hd. }
    exists e1. splits; [exact R1|rewrite A1'; reflexivity|].
    intros z (Hz & _). rewrite (F1 z Hz). apply assoc_tl; exact Hz.
  - (* FData *)
    intros H W. destruct bo; [discriminate|]. destruct ro; [discriminate|].
    simpl in RF. apply String.eqb_neq in RF.
    destruct (compile_var x dn (mkV cls head data tail)) as [cv|] eqn:CV; simpl in H; [|discriminate].
    inversion H; subst cs; clear H.
    destruct (run_var x dn _ cv e CV) as (e1 & R1 & A1' & F1).
    rewrite run_app, R1. simpl. rewrite <- map_app.
    destruct (run_attrs (pre ++ post) x _ e1 A1') as (e2 & R2 & A2' & F2).
    exists e2. splits; [exact R2| |].
    + rewrite A2'. unfold lift, den_acon, obj_of_s, den_var, app_attrs; simpl.
      rewrite <- !app_assoc. reflexivity.
    + intros z (Hz & Hd & _). rewrite (F2 z Hz). apply F1; assumption.
  - (* FBounds *)
    intros H _. simpl in RF. apply orb_false_iff in RF as [RF1 RF2].
    apply mem_false_3 in RF1 as (Hxd & Hxb & Hxr). apply mem_false_3 in RF2 as (_ & Hdb & Hdr).
    destruct (compile_var x dn (mkV cls head data tail)) as [cv|] eqn:CV; simpl in H; [|discriminate].
    destruct (compile_sub x "set_bounds" bn dn bo) as [cb|] eqn:CB; simpl in H; [|discriminate].
    destruct (compile_sub x "set_interior_ring" rn dn ro) as [cr|] eqn:CR; simpl in H; [|discriminate].
    inversion H; subst cs; clear H.
    destruct (run_var x dn _ cv e CV) as (e1 & R1 & A1' & F1).
    rewrite run_app, R1.
    destruct (run_attrs pre x _ e1 A1') as (e2 & R2 & A2' & F2).
    rewrite run_app, R2.
    destruct (run_sub x "set_bounds" bn dn bo cb e2 _ (or_introl eq_refl) CB Hxb Hxd A2')
      as (e3 & R3 & A3' & F3).
    rewrite run_app, R3.
    destruct (run_sub x "set_interior_ring" rn dn ro cr e3 _ (or_intror eq_refl) CR Hxr Hxd A3')
      as (e4 & R4 & A4' & F4).
    rewrite run_app, R4.
    destruct (run_attrs post x _ e4 A4') as (e5 & R5 & A5' & F5).
    exists e5. splits; [exact R5| |].
    + rewrite A5'. f_equal. f_equal.
      unfold lift, den_acon, obj_of_s, app_attrs; simpl.
      destruct bo, ro; unfold put_sub, with_bounds, with_ring; simpl;
        rewrite <- !app_assoc; reflexivity.
    + intros z (Hz & Hd & Hb & Hr).
      rewrite (F5 z Hz), (F4 z Hz Hr Hd), (F3 z Hz Hb Hd), (F2 z Hz). apply F1; assumption.
  - (* FCoord, repaired: identical to FBounds *)
    intros H _. simpl in RF. apply orb_false_iff in RF as [RF1 RF2].
    apply mem_false_3 in RF1 as (Hxd & Hxb & Hxr). apply mem_false_3 in RF2 as (_ & Hdb & Hdr).
    destruct (compile_var x dn (mkV cls head data tail)) as [cv|] eqn:CV; simpl in H; [|discriminate].
    destruct (compile_sub x "set_bounds" bn dn bo) as [cb|] eqn:CB; simpl in H; [|discriminate].
    destruct (compile_sub x "set_interior_ring" rn dn ro) as [cr|] eqn:CR; simpl in H; [|discriminate].
    inversion H; subst cs; clear H.
    destruct (run_var x dn _ cv e CV) as (e1 & R1 & A1' & F1).
    rewrite run_app, R1.
    destruct (run_attrs pre x _ e1 A1') as (e2 & R2 & A2' & F2).
    rewrite run_app, R2.
    destruct (run_sub x "set_bounds" bn dn bo cb e2 _ (or_introl eq_refl) CB Hxb Hxd A2')
      as (e3 & R3 & A3' & F3).
    rewrite run_app, R3.
    destruct (run_sub x "set_interior_ring" rn dn ro cr e3 _ (or_intror eq_refl) CR Hxr Hxd A3')
      as (e4 & R4 & A4' & F4).
    rewrite run_app, R4.
    destruct (run_attrs post x _ e4 A4') as (e5 & R5 & A5' & F5).
    exists e5. splits; [exact R5| |].
    + rewrite A5'. f_equal. f_equal.
      unfold lift, den_acon, obj_of_s, app_attrs; simpl.
      destruct bo, ro; unfold put_sub, with_bounds, with_ring; simpl;
        rewrite <- !app_assoc; reflexivity.
    + intros z (Hz & Hd & Hb & Hr).
      rewrite (F5 z Hz), (F4 z Hz Hr Hd), (F3 z Hz Hb Hd), (F2 z Hz). apply F1; assumption.
Qed.

(* ===================================================================== *)
(* (b) fields and domains: induction over the constructs                 *)
(* ===================================================================== *)
Definition app_items (o : fobj) (l : list entry) : fobj := mkO (o_c o) (o_items o ++ l).

Lemma app_items_nil o : app_items o [] = o.
Proof. destruct o. unfold app_items; simpl. rewrite app_nil_r. reflexivity. Qed.

Lemma app_items_cons o x l : app_items (add_item o x) l = app_items o (x :: l).
Proof. destruct o. unfold app_items, add_item; simpl. rewrite <- app_assoc. reflexivity. Qed.

Lemma run_items : forall l x dn cs e o,
  compile_items true x dn l = Ok cs ->
  forallb (fun it => wf_acon (i_con it)) l = true ->
  x <> "c" -> x <> "b" -> x <> "i" -> x <> dn ->
  assoc x e = Some (VObj o) ->
  exists e', run cs e = Some e' /\
             assoc x e' = Some (VObj (app_items o (map den_item l))).
Proof.
  induction l as [|it r IH]; intros x dn cs e o H W Hc Hb Hi Hd Hx.
  - simpl in H. inversion H; subst cs. exists e. simpl. rewrite app_items_nil. auto.
  - simpl in H, W. apply andb_true_iff in W as [W1 W2].
    unfold compile_item in H.
    destruct (compile_acon true (item_names dn) (i_con it)) as [cc|] eqn:CC; simpl in H; [|discriminate].
    destruct (compile_items true x dn r) as [cr|] eqn:CR; simpl in H; [|discriminate].
    inversion H; subst cs; clear H.
    destruct (run_acon (item_names dn) (i_con it) cc e CC W1) as (e1 & R1 & A1' & F1).
    rewrite run_app, run_app, R1. simpl in A1'. simpl.
    assert (Hx1 : assoc x e1 = Some (VObj o)).
    { rewrite F1; [exact Hx|]. unfold written, item_names; simpl. auto. }
    rewrite Hx1, A1'. simpl.
    destruct (IH x dn cr ((x, VObj (add_item o (den_acon (i_con it), i_axes it, i_key it))) :: e1)
                 (add_item o (den_acon (i_con it), i_axes it, i_key it)) CR W2 Hc Hb Hi Hd)
      as (e2 & R2 & A2').
    { apply assoc_hd. }
    exists e2. split; [exact R2|]. rewrite A2', app_items_cons. reflexivity.
Qed.

Lemma mem_false_4 x a b c d : mem x [a; b; c; d] = false -> x <> a /\ x <> b /\ x <> c /\ x <> d.
Proof.
  unfold mem; simpl. intro H.
  apply orb_false_iff in H as [H1 H]. apply orb_false_iff in H as [H2 H].
  apply orb_false_iff in H as [H3 H]. apply orb_false_iff in H as [H4 _].
  splits; apply String.eqb_neq; assumption.
Qed.

Theorem commands_roundtrip_field : forall x dn f cs,
  compile_fld true x dn f = Ok cs -> wf_fld f = true ->
  exists e, run cs [] = Some e /\ assoc x e = Some (VObj (den_fld f)).
Proof.
  intros x dn [fv mid items post] cs. unfold compile_fld, wf_fld; cbn [f_var f_mid f_items f_post].
  destruct (mem x ["b"; "c"; "mask"; "i"]) eqn:M; [discriminate|].
  apply mem_false_4 in M as (Hb & Hc & _ & Hi).
  destruct (x =? dn) eqn:E; [discriminate|]. apply String.eqb_neq in E.
  destruct (compile_var x dn fv) as [cv|] eqn:CV; simpl; [|discriminate].
  destruct (compile_items true x dn items) as [ci|] eqn:CI; simpl; [|discriminate].
  intros H W. inversion H; subst cs; clear H.
  destruct (run_var x dn fv cv [] CV) as (e1 & R1 & A1' & _).
  rewrite run_app, R1.
  destruct (run_attrs mid x _ e1 A1') as (e2 & R2 & A2' & _).
  rewrite run_app, R2.
  destruct (run_items items x dn ci e2 _ CI W Hc Hb Hi E A2') as (e3 & R3 & A3').
  rewrite run_app, R3.
  destruct (run_attrs post x _ e3 A3') as (e4 & R4 & A4' & _).
  exists e4. split; [exact R4|]. rewrite A4'. f_equal.
  destruct fv as [cls head data tail].
  unfold den_fld, app_attrs, app_items, obj_of_s, den_var; simpl.
  rewrite <- !app_assoc. reflexivity.
Qed.

Theorem commands_roundtrip_construct : forall n a cs,
  compile_acon true n a = Ok cs -> wf_acon a = true ->
  exists e, run cs [] = Some e /\ assoc (n_name n) e = Some (VObj (lift (den_acon a))).
Proof.
  intros n a cs H W. destruct (run_acon n a cs [] H W) as (e & R & A & _). eauto.
Qed.

Theorem commands_roundtrip_data : forall x d cs,
  compile_data x d = Ok cs ->
  exists e, run cs [] = Some e /\ assoc x e = Some (VData d).
Proof.
  intros x d cs H. apply compile_data_inv in H; subst cs. simpl.
  eexists; split; [reflexivity|]. apply assoc_hd.
Qed.

(* ---- which names are accepted ---- *)
Definition good_names (x dn : string) : bool :=
  negb (mem x ["b"; "c"; "mask"; "i"]) && negb (x =? dn) && negb (mem dn ["c"; "b"; "i"; "mask"]).

Lemma compile_var_ok x dn v :
  x <> dn -> dn <> "mask" -> exists cs, compile_var x dn v = Ok cs.
Proof.
  intros H M. unfold compile_var. destruct (v_data v) as [d|]; [|eauto].
  apply String.eqb_neq in H. rewrite H. unfold compile_data.
  apply String.eqb_neq in M. rewrite M, andb_false_r. simpl. eauto.
Qed.

Lemma compile_sub_ok x setter sub dn o :
  sub <> dn -> dn <> "mask" -> exists cs, compile_sub x setter sub dn o = Ok cs.
Proof.
  intros H M. unfold compile_sub. destruct o as [b|]; [|eauto].
  destruct (compile_var_ok sub dn b H M) as (cb & E). rewrite E. simpl. eauto.
Qed.

Lemma compile_acon_ok dn a :
  dn <> "c" -> dn <> "b" -> dn <> "i" -> dn <> "mask" ->
  exists cs, compile_acon true (item_names dn) a = Ok cs.
Proof.
  intros Hc Hb Hi Hm. unfold compile_acon.
  assert (IN : inner_names true (a_fam a) (item_names dn) = item_names dn) by (destruct (a_fam a); reflexivity).
  rewrite IN.
  assert (Ecd : ("c" =? dn) = false) by (apply String.eqb_neq; congruence).
  assert (Edc : (dn =? "c") = false) by (apply String.eqb_neq; congruence).
  assert (Edb : (dn =? "b") = false) by (apply String.eqb_neq; congruence).
  assert (Edi : (dn =? "i") = false) by (apply String.eqb_neq; congruence).
  assert (RF : refused (item_names dn) (a_fam a) = false).
  { assert (M3 : forall x p q r, mem x [p; q; r] = (x =? p) || ((x =? q) || ((x =? r) || false)))
      by reflexivity.
    unfold refused. destruct (a_fam a); cbn [item_names n_name n_data n_bounds n_ring]; try reflexivity.
    - exact Ecd.
    - rewrite !M3, Ecd, Edc, Edb, Edi. reflexivity.
    - rewrite !M3, Ecd, Edc, Edb, Edi. reflexivity. }
  rewrite RF. cbn [item_names n_name n_data n_bounds n_ring].
  destruct (compile_var_ok "c" dn (a_var a)) as (cv & E1); [congruence|exact Hm|].
  destruct (compile_sub_ok "c" "set_bounds" "b" dn (a_bounds a)) as (cb & E2); [congruence|exact Hm|].
  destruct (compile_sub_ok "c" "set_interior_ring" "i" dn (a_ring a)) as (cr & E3); [congruence|exact Hm|].
  destruct (a_fam a); [eauto| | |]; rewrite E1, E2, E3; simpl; eauto.
Qed.

Lemma compile_items_ok x dn l :
  dn <> "c" -> dn <> "b" -> dn <> "i" -> dn <> "mask" ->
  exists cs, compile_items true x dn l = Ok cs.
Proof.
  intros Hc Hb Hi Hm. induction l as [|it r (cr & IH)]; simpl; [eauto|].
  unfold compile_item. destruct (compile_acon_ok dn (i_con it) Hc Hb Hi Hm) as (cc & E).
  rewrite E. simpl. rewrite IH. simpl. eauto.
Qed.

Theorem commands_accepted : forall x dn f,
  good_names x dn = true -> exists cs, compile_fld true x dn f = Ok cs.
Proof.
  intros x dn f G. unfold good_names in G.
  apply andb_true_iff in G as [G G3]. apply andb_true_iff in G as [G1 G2].
  apply negb_true_iff in G1, G2, G3.
  apply mem_false_4 in G3 as (Hc & Hb & Hi & Hm).
  unfold compile_fld. rewrite G1, G2.
  destruct (compile_var_ok x dn (f_var f)) as (cv & E1); [apply String.eqb_neq; exact G2|exact Hm|].
  destruct (compile_items_ok x dn (f_items f) Hc Hb Hi Hm) as (ci & E2).
  rewrite E1, E2. simpl. eauto.
Qed.

(* every keyword variant with admissible names rebuilds the field *)
Theorem commands_rebuild_field : forall x dn f,
  good_names x dn = true -> wf_fld f = true ->
  exists cs e, compile_fld true x dn f = Ok cs /\ run cs [] = Some e /\
               assoc x e = Some (VObj (den_fld f)).
Proof.
  intros x dn f G W. destruct (commands_accepted x dn f G) as (cs & C).
  destruct (commands_roundtrip_field x dn f cs C W) as (e & R & A). eauto 6.
Qed.

(* a refusal never depends on the content of the field beyond masked data:
   reserved or coinciding names are refused whatever the field is *)
Theorem commands_refuse_reserved : forall x dn f,
  mem x ["b"; "c"; "mask"; "i"] = true \/ x = dn -> compile_fld true x dn f = Err ValueErr.
Proof.
  intros x dn f [H|H]; unfold compile_fld.
  - rewrite H. reflexivity.
  - subst dn. rewrite String.eqb_refl. destruct (mem x _); reflexivity.
Qed.

Example commands_example :
  exists f cs e, wf_fld f = true /\ length (f_items f) = 3%nat /\
    compile_fld true "f" "d" f = Ok cs /\ run cs [] = Some e /\
    assoc "f" e = Some (VObj (den_fld f)).
Proof.
  set (ax := mkI (mkA (mkV "DomainAxis" [] None []) FPlain [] None None [A1 "set_size" 3%Z]) None (Some "domainaxis0")).
  set (dc := mkI (mkA (mkV "DimensionCoordinate" [A1 "set_properties" 11%Z; A1 "nc_set_variable" 12%Z]
                           (Some (13%Z, true)) []) FCoord [A1 "set_climatology" 1%Z]
                      (Some (mkV "Bounds" [] (Some (14%Z, false)) [A1 "nc_set_dimension" 15%Z])) None [])
                 (Some ["domainaxis0"]) (Some "dimensioncoordinate0")).
  set (cm := mkI (mkA (mkV "CellMethod" [] None []) FPlain [] None None
                      [A1 "set_method" 21%Z; A2 "set_qualifier" "where" 22%Z]) None None).
  exists (mkF (mkV "Field" [A1 "set_properties" 1%Z] (Some (2%Z, false)) []) [A1 "nc_set_global_attributes" 3%Z]
              [ax; dc; cm] [A1 "set_data_axes" 4%Z]).
  eexists. eexists. splits; try reflexivity.
Qed.

(* ===================================================================== *)
(* (a) the descriptions are total on the weak invariant                  *)
(* ===================================================================== *)
Lemma mapM_ok {A B} (f : A -> result B) l :
  (forall x, In x l -> exists y, f x = Ok y) -> exists ys, mapM f l = Ok ys.
Proof.
  induction l as [|x r IH]; intro H; simpl; [eauto|].
  destruct (H x (or_introl eq_refl)) as (y & E). rewrite E. simpl.
  destruct IH as (ys & E2). { intros z Hz. apply H. right; exact Hz. }
  rewrite E2. simpl. eauto.
Qed.

Lemma mapM_keys {A} (key : A -> string) (h : A -> result string) l r :
  mapM (fun a => rbind (h a) (fun n => Ok (key a, n))) l = Ok r -> map fst r = map key l.
Proof.
  revert r; induction l as [|a l IH]; intros r; simpl.
  - intro H; inversion H; reflexivity.
  - destruct (h a) as [n|]; simpl; [|discriminate].
    destruct (mapM _ l) as [ys|] eqn:E; simpl; [|discriminate].
    intro H; inversion H; subst r. simpl. f_equal. apply IH. reflexivity.
Qed.

Lemma assoc_of_key {B} k (r : list (string * B)) :
  In k (map fst r) -> exists v, assoc k r = Some v.
Proof.
  induction r as [|[k' v] r IH]; simpl; [tauto|].
  intros [H|H].
  - subst k'. rewrite String.eqb_refl. eauto.
  - destruct (k =? k'); [eauto|apply IH; exact H].
Qed.

Lemma tag_of_total key : exists t, tag_of true key = Ok t.
Proof. unfold tag_of. destruct (digits_of key); eauto. Qed.

Lemma axis_name_total axes a : exists n, axis_name true axes a = Ok n.
Proof.
  unfold axis_name. destruct (Nat.eqb _ 1); [eauto|].
  destruct (tag_of_total (ax_key a)) as (t & E). rewrite E. simpl. eauto.
Qed.

Lemma axis_names_total s :
  exists names, axis_names true s = Ok names /\ map fst names = map ax_key (ds_axes s).
Proof.
  unfold axis_names.
  destruct (mapM_ok (fun a => rbind (axis_name true (ds_axes s) a) (fun n => Ok (ax_key a, n))) (ds_axes s))
    as (names & E).
  { intros a _. destruct (axis_name_total (ds_axes s) a) as (n & En). rewrite En. simpl. eauto. }
  exists names. split; [exact E|]. eapply mapM_keys. exact E.
Qed.

Lemma has_axis_in s k : has_axis s k = true -> In k (map ax_key (ds_axes s)).
Proof.
  unfold has_axis. intro H. apply existsb_exists in H as (a & Ha & E).
  apply String.eqb_eq in E. subst k. apply in_map. exact Ha.
Qed.

Lemma names_total s names l :
  map fst names = map ax_key (ds_axes s) ->
  forallb (has_axis s) l = true ->
  exists ns, mapM (name_of names) l = Ok ns.
Proof.
  intros K H. apply mapM_ok. intros k Hk.
  rewrite forallb_forall in H. specialize (H k Hk). apply has_axis_in in H.
  rewrite <- K in H. destruct (assoc_of_key k names H) as (v & E).
  unfold name_of. rewrite E. eauto.
Qed.

Lemma caxes_inv s k :
  forallb (fun kv => forallb (has_axis s) (snd kv)) (ds_caxes s) = true ->
  exists ao, caxes_of true s k = Ok ao /\ forallb (has_axis s) (or_nil ao) = true.
Proof.
  intro H. unfold caxes_of.
  destruct (assoc k (ds_caxes s)) as [l|] eqn:E.
  - exists (Some l). split; [reflexivity|]. simpl.
    rewrite forallb_forall in H.
    assert (IN : In (k, l) (ds_caxes s) \/ exists k', In (k', l) (ds_caxes s)).
    { clear H. induction (ds_caxes s) as [|[k' v] r IH]; simpl in E; [discriminate|].
      destruct (k =? k') eqn:Ek.
      - inversion E; subst. right. exists k'. left; reflexivity.
      - destruct (IH E) as [I|(k2 & I)]; [left; right; exact I|right; exists k2; right; exact I]. }
    destruct IN as [I|(k2 & I)]; [exact (H _ I)|exact (H _ I)].
  - exists None. split; reflexivity.
Qed.

Section Total.
Variable s : dstate.
Hypothesis INV : inv_partial s = true.

Let I1 : forallb (fun kv => forallb (has_axis s) (snd kv)) (ds_caxes s) = true.
Proof. unfold inv_partial in INV. apply andb_true_iff in INV as [H _]. apply andb_true_iff in H as [H _]. exact H. Qed.
Let I2 : forallb (has_axis s) (or_nil (ds_data_axes s)) = true.
Proof. unfold inv_partial in INV. apply andb_true_iff in INV as [H _]. apply andb_true_iff in H as [_ H]. exact H. Qed.
Let I3 : forallb (dim_axis_sized s) (ds_caxes s) = true.
Proof. unfold inv_partial in INV. apply andb_true_iff in INV as [_ H]. exact H. Qed.

Variable names : list (string * string).
Hypothesis NAMES : map fst names = map ax_key (ds_axes s).

Lemma print_item_total c : exists it, print_item true s names c = Ok it.
Proof.
  unfold print_item. destruct (caxes_inv s (dc_key c) I1) as (ao & E & H). rewrite E. simpl.
  destruct (names_total s names (or_nil ao) NAMES H) as (ns & En).
  destruct (dc_shape c).
  - rewrite En. simpl. eauto.
  - destruct (dc_bshape c); [|eauto].
    destruct (ctype_eqb (dc_type c) TAux || ctype_eqb (dc_type c) TDanc); [|eauto].
    rewrite En. simpl. eauto.
Qed.

Lemma print_fanc_total c : exists it, print_fanc true s names c = Ok it.
Proof.
  unfold print_fanc. destruct (caxes_inv s (dc_key c) I1) as (ao & E & H). rewrite E. simpl.
  destruct (names_total s names (or_nil ao) NAMES H) as (ns & En).
  destruct (dc_shape c); [rewrite En; simpl; eauto|eauto].
Qed.

Lemma assoc_in {B} k (l : list (string * B)) v : assoc k l = Some v -> exists k', In (k', v) l /\ (k =? k') = true.
Proof.
  induction l as [|[k' w] r IH]; simpl; [discriminate|].
  destruct (k =? k') eqn:E.
  - intro H; inversion H; subst. exists k'. split; [left; reflexivity|exact E].
  - intro H. destruct (IH H) as (k2 & I & E2). exists k2. split; [right; exact I|exact E2].
Qed.

Lemma dims_of_axis_total a : In a (ds_axes s) -> exists l, dims_of_axis true s names a = Ok l.
Proof.
  intro Ha. unfold dims_of_axis.
  match goal with |- context [mapM ?f (ds_cons s)] => destruct (mapM_ok f (ds_cons s)) as (ls & E) end.
  - intros c Hc. destruct (ctype_eqb (dc_type c) TDim) eqn:T; [|eauto].
    unfold caxes_of. destruct (assoc (dc_key c) (ds_caxes s)) as [l|] eqn:EA; simpl; [|eauto].
    destruct (list_eqb_s l [ax_key a]) eqn:EL; [|eauto].
    assert (l = [ax_key a]).
    { apply (list_eqb_eq String.eqb); [intros; apply String.eqb_eq|exact EL]. }
    subst l. unfold dim_line.
    (* the axis has a size *)
    destruct (assoc_in _ _ _ EA) as (k' & IN & EK). apply String.eqb_eq in EK. subst k'.
    rewrite forallb_forall in I3. specialize (I3 _ IN). simpl in I3.
    assert (EX : existsb (fun c0 => (dc_key c0 =? dc_key c) && is_type TDim c0) (ds_cons s) = true).
    { apply existsb_exists. exists c. split; [exact Hc|]. rewrite String.eqb_refl. unfold is_type. rewrite T. reflexivity. }
    rewrite EX in I3. rewrite forallb_forall in I3. specialize (I3 a Ha).
    rewrite String.eqb_refl in I3. simpl in I3.
    destruct (ax_size a) as [sz|]; [|discriminate].
    assert (HN : In (ax_key a) (map fst names)). { rewrite NAMES. apply in_map. exact Ha. }
    destruct (assoc_of_key _ names HN) as (an & EN). unfold name_of. rewrite EN. simpl.
    destruct (String.eqb _ an); simpl; eauto.
  - rewrite E. simpl. eauto.
Qed.

Lemma str_domain_total' : exists l,
  rbind (mapM (dims_of_axis true s names) (ds_axes s)) (fun dims =>
  rbind (mapM (print_item true s names)
              (filter (fun c => negb (is_type TDim c) && negb (is_type TFanc c)) (ds_cons s)))
        (fun others => Ok (concat dims ++ others))) = Ok l.
Proof.
  destruct (mapM_ok (dims_of_axis true s names) (ds_axes s)) as (dims & E1).
  { intros a Ha. apply dims_of_axis_total. exact Ha. }
  rewrite E1. simpl.
  match goal with |- context [mapM ?f ?l] => destruct (mapM_ok f l) as (oth & E2) end.
  { intros c _. apply print_item_total. }
  rewrite E2. simpl. eauto.
Qed.

Lemma construct_name_total c : exists n, construct_name true s c = Ok n.
Proof.
  unfold construct_name. destruct (Nat.leb _ 1); [eauto|].
  destruct (tag_of_total (dc_key c)) as (t & E). rewrite E. simpl. eauto.
Qed.

Lemma dump_shape_total ao sh :
  forallb (has_axis s) (or_nil ao) = true -> exists x, dump_shape names ao sh = Ok x.
Proof.
  intro H. unfold dump_shape. destruct ao as [[|a l]|]; [eauto| |eauto].
  destruct (names_total s names (a :: l) NAMES H) as (ns & E).
  destruct names as [|p q]; [eauto|]. rewrite E. simpl. eauto.
Qed.

Lemma opt_shape_total ao sh :
  forallb (has_axis s) (or_nil ao) = true -> exists x, opt_shape names ao sh = Ok x.
Proof.
  intro H. unfold opt_shape. destruct sh as [l|]; [|eauto].
  destruct (dump_shape_total ao l H) as (x & E). rewrite E. simpl. eauto.
Qed.

Lemma dump_item_total c : exists it, dump_item true s names c = Ok it.
Proof.
  unfold dump_item. destruct (caxes_inv s (dc_key c) I1) as (ao & E & H). rewrite E. simpl.
  assert (N : exists nm, (if ctype_eqb (dc_type c) TFanc then Ok (dc_id c) else construct_name true s c) = Ok nm).
  { destruct (ctype_eqb (dc_type c) TFanc); [eauto|apply construct_name_total]. }
  destruct N as (nm & EN). rewrite EN. simpl.
  destruct (opt_shape_total ao (dc_shape c) H) as (d & E1). rewrite E1. simpl.
  destruct (opt_shape_total ao (dc_bshape c) H) as (b & E2). rewrite E2. simpl. eauto.
Qed.

End Total.

Theorem describe_total : forall s,
  inv_partial s = true -> exists d, describe true s = Ok d.
Proof.
  intros s INV. unfold describe.
  assert (I2 : forallb (has_axis s) (or_nil (ds_data_axes s)) = true).
  { unfold inv_partial in INV. apply andb_true_iff in INV as [H _]. apply andb_true_iff in H as [_ H]. exact H. }
  destruct (axis_names_total s) as (names & EN & K).
  (* str *)
  assert (SD : exists l, str_domain true s = Ok l).
  { unfold str_domain. rewrite EN. simpl. apply (str_domain_total' s INV names K). }
  assert (S : exists a, describe_str true s = Ok a).
  { unfold describe_str. destruct (ds_field s); [|exact SD].
    unfold str_field. rewrite EN. simpl.
    assert (DL : exists dl, (if ds_has_data s
         then rbind (mapM (name_of names) (or_nil (ds_data_axes s)))
                    (fun ns => Ok [("data", "", match ns with [] => None | _ => Some ns end)])
         else Ok []) = Ok (dl : list sitem)).
    { destruct (ds_has_data s); [|eauto].
      destruct (names_total s names _ K I2) as (ns & E). rewrite E. simpl. eauto. }
    destruct DL as (dl & E1). rewrite E1. simpl.
    match goal with |- context [mapM ?f ?l] => destruct (mapM_ok f l) as (fa & E2) end.
    { intros c _. apply (print_fanc_total s INV names K). }
    rewrite E2. simpl. destruct SD as (dom & E3). rewrite E3. simpl. eauto. }
  destruct S as (a & ES). rewrite ES. simpl.
  (* dump *)
  unfold describe_dump. rewrite EN. simpl.
  destruct (mapM_ok (construct_name true s) (ds_cons s)) as (cn & E1).
  { intros c _. apply construct_name_total. }
  rewrite E1. simpl.
  assert (DL : exists dl, (if ds_field s && ds_has_data s
         then rbind (mapM (name_of names) (or_nil (ds_data_axes s)))
                    (fun ns => Ok [("data", "", Some ns, None)])
         else Ok []) = Ok (dl : list ditem)).
  { destruct (ds_field s && ds_has_data s); [|eauto].
    destruct (names_total s names _ K I2) as (ns & E). rewrite E. simpl. eauto. }
  destruct DL as (dl & E2). rewrite E2. simpl.
  destruct (mapM_ok (dump_item true s names) (ds_cons s)) as (items & E3).
  { intros c _. apply (dump_item_total s INV names K). }
  rewrite E3. simpl. eauto.
Qed.

(* every construct of the state is mentioned by dump (nothing is dropped
   silently): one item per construct, after the Data line and the axes *)
Theorem dump_mentions_all : forall s l,
  describe_dump true s = Ok l ->
  length l = ((if ds_field s && ds_has_data s then 1 else 0) + length (ds_axes s) + length (ds_cons s))%nat.
Proof.
  intros s l. unfold describe_dump.
  destruct (axis_names true s) as [names|] eqn:EN; simpl; [|discriminate].
  destruct (mapM (construct_name true s) (ds_cons s)); simpl; [|discriminate].
  assert (LN : length names = length (ds_axes s)).
  { unfold axis_names in EN. apply mapM_keys in EN.
    rewrite <- (map_length fst names), EN, map_length. reflexivity. }
  assert (ML : forall A B (f : A -> result B) xs ys, mapM f xs = Ok ys -> length ys = length xs).
  { intros A B f xs. induction xs as [|x r IH]; intros ys; simpl.
    - intro H; inversion H; reflexivity.
    - destruct (f x); simpl; [|discriminate]. destruct (mapM f r) eqn:E; simpl; [|discriminate].
      intro H; inversion H; subst. simpl. f_equal. apply IH. reflexivity. }
  destruct (ds_field s && ds_has_data s).
  - destruct (mapM (name_of names) _); simpl; [|discriminate].
    destruct (mapM (dump_item true s names) (ds_cons s)) as [items|] eqn:EI; simpl; [|discriminate].
    intro H; inversion H; subst l. cbn [length]. rewrite app_length, map_length, LN.
    f_equal. f_equal. exact (ML _ _ _ _ _ EI).
  - destruct (mapM (dump_item true s names) (ds_cons s)) as [items|] eqn:EI; simpl; [|discriminate].
    intro H; inversion H; subst l. cbn [app]. rewrite app_length, map_length, LN.
    cbn [Nat.add]. f_equal. exact (ML _ _ _ _ _ EI).
Qed.

Example describe_example :
  exists s d, inv_partial s = true /\ describe true s = Ok d /\
    (* a construct without axes, an axis without size, a field without data axes,
       two axes sharing name and size, two constructs sharing a name under custom keys *)
    length (ds_cons s) = 3%nat.
Proof.
  exists (mkDs [mkAx "domainaxis0" "ncdim%x" (Some "3"); mkAx "domainaxis1" "ncdim%x" (Some "3");
                mkAx "nosize" "key%nosize" None]
               [mkDc "dimensioncoordinate0" TDim "" (Some ["3"]) None;
                mkDc "p" TAux "long_name=q" (Some ["3"; "2"]) None;
                mkDc "q" TAux "long_name=q" None (Some ["3"; "4"])]
               [("q", ["domainaxis1"])] true true None).
  eexists. splits; try reflexivity.
Qed.

(* the commands of a construct assign only the variable names they were given *)
Theorem commands_frame : forall n a cs e e',
  compile_acon true n a = Ok cs -> wf_acon a = true -> run cs e = Some e' ->
  forall z, z <> n_name n -> z <> n_data n -> z <> n_bounds n -> z <> n_ring n ->
  assoc z e' = assoc z e.
Proof.
  intros n a cs e e' H W R z H1 H2 H3 H4.
  destruct (run_acon n a cs e H W) as (e2 & R2 & _ & F). rewrite R in R2. inversion R2; subst e2.
  apply F. unfold written. auto.
Qed.

(* without referential integrity of the container (C02) the repaired
   descriptions still fail: the guard of describe_total is needed *)
Lemma describe_needs_integrity :
  exists s, inv_partial s = false /\ describe true s = Err KeyErr.
Proof.
  exists (mkDs [mkAx "domainaxis0" "key%domainaxis0" (Some "3")]
               [mkDc "auxiliarycoordinate0" TAux "latitude" (Some ["3"]) None]
               [("auxiliarycoordinate0", ["domainaxis7"])] true false None).
  split; reflexivity.
Qed.

(* ===================================================================== *)
(* (c) Data.__str__ is total: every element look-up it performs is defined *)
(* ===================================================================== *)
Lemma item_at_ok d i :
  wf_ddata d = true -> dd_array d = true -> (i < dsize d)%nat -> exists e, item_at d i = Ok e.
Proof.
  unfold wf_ddata, item_at. intros W A L. rewrite A in W. simpl in W. apply Nat.eqb_eq in W.
  destruct (nth_error (dd_elems d) i) as [e|] eqn:E; [eauto|].
  apply nth_error_None in E. lia.
Qed.

Lemma guarded_ok {A} catch (c : cres A) dflt :
  cres_caught catch c = true -> exists a, guarded catch c dflt = Ok a.
Proof.
  unfold cres_caught, guarded. destruct c as [a|e]; [eauto|]. intro H. rewrite H. eauto.
Qed.

(* when the first element exists, so does the last one; the second one exists
   as soon as the size is neither 0 nor 1 - the only case in which __str__
   asks for it *)
Lemma first_element_inv d e :
  first_element d = Ok e -> dd_array d = true /\ dsize d <> 0%nat.
Proof.
  unfold first_element. destruct (dd_array d); simpl; [|discriminate].
  destruct (Nat.eqb (dsize d) 0) eqn:E; [discriminate|]. apply Nat.eqb_neq in E. auto.
Qed.

Lemma last_element_ok d :
  wf_ddata d = true -> dd_array d = true -> dsize d <> 0%nat -> exists e, last_element d = Ok e.
Proof.
  intros W A N. unfold last_element. rewrite A. simpl.
  apply Nat.eqb_neq in N. rewrite N. apply Nat.eqb_neq in N.
  apply item_at_ok; [exact W|exact A|lia].
Qed.

Lemma second_element_ok d :
  wf_ddata d = true -> dd_array d = true -> dsize d <> 0%nat -> dsize d <> 1%nat ->
  exists e, second_element d = Ok e.
Proof.
  intros W A N0 N1. unfold second_element. rewrite A. simpl.
  destruct (Nat.leb (dsize d) 1) eqn:E.
  - apply Nat.leb_le in E. lia.
  - apply item_at_ok; [exact W|exact A|lia].
Qed.

Theorem data_str_total : forall k d,
  wf_ddata d = true -> conversions_caught k d = true -> exists t, data_str k d = Ok t.
Proof.
  intros k d W C. unfold conversions_caught in C.
  apply andb_true_iff in C as [C C3]. apply andb_true_iff in C as [C1 C2].
  unfold data_str.
  destruct (first_element d) as [first|] eqn:F; [|eauto].
  destruct (first_element_inv d first F) as (A & N0).
  match goal with |- exists t, rbind ?X ?K = Ok t =>
    assert (H : exists out, X = Ok out); [|destruct H as (out & E); rewrite E; simpl; eauto] end.
  destruct (Nat.eqb (dsize d) 1) eqn:E1.
  - destruct (is_reftime (dd_units d)).
    + destruct (guarded_ok (k_single k) (dd_conv1 d) "??" C1) as (a & G). rewrite G. simpl. eauto.
    + simpl. eauto.
  - apply Nat.eqb_neq in E1.
    destruct (last_element_ok d W A N0) as (last & L). rewrite L. simpl.
    assert (P : exists fl, (if is_reftime (dd_units d)
                            then guarded (k_pair k) (dd_conv2 d) ("??", "??")
                            else Ok (elem_txt first, elem_txt last)) = Ok fl).
    { destruct (is_reftime (dd_units d)); [apply guarded_ok; exact C2|eauto]. }
    destruct P as (fl & P). rewrite P. simpl.
    destruct (Nat.ltb 3 (dsize d)); [eauto|].
    destruct (last_dim_3 (dd_shape d)).
    + destruct (second_element_ok d W A N0 E1) as (mid & M). rewrite M. simpl.
      assert (Q : exists m, (if is_reftime (dd_units d)
                             then guarded (k_middle k) (dd_convm d) "??"
                             else Ok (elem_txt mid)) = Ok m).
      { destruct (is_reftime (dd_units d)); [apply guarded_ok; exact C3|eauto]. }
      destruct Q as (m & Q). rewrite Q. simpl. eauto.
    + destruct (Nat.eqb (dsize d) 3); eauto.
Qed.

Lemma repaired_catches_all d : conversions_caught k_repaired d = true.
Proof.
  unfold conversions_caught, cres_caught, k_repaired; simpl.
  destruct (dd_conv1 d), (dd_conv2 d), (dd_convm d); reflexivity.
Qed.

(* the repaired code: whatever the conversions raise *)
Theorem data_str_total_repaired : forall d,
  wf_ddata d = true -> exists t, data_str k_repaired d = Ok t.
Proof. intros d W. apply data_str_total; [exact W|apply repaired_catches_all]. Qed.

(* data that are not reference times never reach a conversion *)
Theorem data_str_total_plain : forall k d,
  wf_ddata d = true -> is_reftime (dd_units d) = false -> exists t, data_str k d = Ok t.
Proof.
  intros k d W R.
  set (d' := mkDD (dd_array d) (dd_units d) (dd_cal d) (dd_shape d) (dd_elems d)
                  (COk "") (COk ("", "")) (COk "")).
  assert (E : data_str k d = data_str k d').
  { unfold data_str. change (dd_units d') with (dd_units d). rewrite R.
    reflexivity. }
  rewrite E. apply data_str_total; [exact W|reflexivity].
Qed.

(* non-vacuity and what the text looks like: sizes 0, 1, 2, 3, 3 as a column, 4;
   a masked element; reference times with an unconvertible middle element *)
Example data_str_examples :
  let plain sh els := mkDD true (UStr "K") None sh els (COk "") (COk ("", "")) (COk "") in
  data_str k_repaired (plain [0%nat] []) = Ok " K" /\
  data_str k_repaired (plain [] [EVal "9"]) = Ok "9 K" /\
  data_str k_repaired (plain [2%nat] [EVal "1"; EMasked]) = Ok "[1, --] K" /\
  data_str k_repaired (plain [1%nat; 3%nat] [EVal "1"; EVal "2"; EVal "3"]) = Ok "[[1, 2, 3]] K" /\
  data_str k_repaired (plain [3%nat; 1%nat] [EVal "1"; EVal "2"; EVal "3"]) = Ok "[[1, ..., 3]] K" /\
  data_str k_repaired (plain [2%nat; 2%nat] [EVal "1"; EVal "2"; EVal "3"; EVal "4"]) = Ok "[[1, ..., 4]] K" /\
  data_str k_repaired (mkDD true (UStr "days since 2000-01-01") (Some "noleap") [3%nat]
                            [EVal "1.0"; EVal "1e+20"; EVal "3.0"]
                            (COk "a") (COk ("a", "c")) (CErr XOverflow)) = Ok "[a, ??, c] noleap" /\
  data_str k_repaired (mkDD false UOther (Some "x") [] [] (COk "") (COk ("", "")) (COk "")) = Ok " ?? x".
Proof. cbv zeta. splits; reflexivity. Qed.

(* ---- the descriptions of a field or domain including every Data they format ---- *)
Theorem describe_all_total : forall s,
  inv_full s = true -> exists d, describe_all true k_repaired s = Ok d.
Proof.
  intros s I. unfold inv_full in I. apply andb_true_iff in I as [I1 I2].
  unfold describe_all. destruct (describe_total _ I1) as (a & E). rewrite E. simpl.
  destruct (mapM_ok (data_str k_repaired) (df_datas s)) as (t & E2).
  { intros d Hd. rewrite forallb_forall in I2. apply data_str_total_repaired. exact (I2 d Hd). }
  rewrite E2. simpl. eauto.
Qed.

(* the same for the code before the repair, under the guard that the
   conversions raise nothing but ValueError / OverflowError *)
Theorem describe_all_total_before : forall s,
  inv_full s = true -> forallb (conversions_caught k_before) (df_datas s) = true ->
  exists d, describe_all true k_before s = Ok d.
Proof.
  intros s I G. unfold inv_full in I. apply andb_true_iff in I as [I1 I2].
  unfold describe_all. destruct (describe_total _ I1) as (a & E). rewrite E. simpl.
  destruct (mapM_ok (data_str k_before) (df_datas s)) as (t & E2).
  { intros d Hd. rewrite forallb_forall in I2, G. apply data_str_total; [exact (I2 d Hd)|exact (G d Hd)]. }
  rewrite E2. simpl. eauto.
Qed.

(* ===================================================================== *)
(* (d) the cell methods come back in the order in which they are applied  *)
(* ===================================================================== *)
Lemma filter_map_den l :
  filter unkeyed_entry (map den_item l) = map den_item (filter unkeyed_item l).
Proof.
  induction l as [|it r IH]; simpl; [reflexivity|].
  unfold unkeyed_entry at 1, unkeyed_item at 1, den_item at 1; simpl.
  destruct (i_key it); simpl; rewrite IH; reflexivity.
Qed.

Theorem commands_preserve_order : forall x dn f cs,
  compile_fld true x dn f = Ok cs -> wf_fld f = true ->
  exists e o, run cs [] = Some e /\ assoc x e = Some (VObj o) /\
    filter unkeyed_entry (o_items o) = map den_item (filter unkeyed_item (f_items f)).
Proof.
  intros x dn f cs C W. destruct (commands_roundtrip_field x dn f cs C W) as (e & R & A).
  exists e, (den_fld f). splits; [exact R|exact A|]. unfold den_fld; simpl. apply filter_map_den.
Qed.

Lemma filter_unkeyed_cm cms : filter unkeyed_item (cm_items cms) = cm_items cms.
Proof. induction cms as [|kc r IH]; simpl; [reflexivity|]. rewrite IH. reflexivity. Qed.

Lemma filter_unkeyed_app a b : filter unkeyed_item (a ++ b) = filter unkeyed_item a ++ filter unkeyed_item b.
Proof. apply filter_app. Qed.

(* a field whose keyed constructs are [keyed] and whose cell methods, in
   application order and under ANY keys, are [cms]: the rebuilt field holds
   exactly those cell methods, in that order *)
Theorem commands_cell_methods_in_order : forall x dn fv mid keyed cms post cs,
  forallb (fun it => negb (unkeyed_item it)) keyed = true ->
  let f := mkF fv mid (keyed ++ cm_items cms) post in
  compile_fld true x dn f = Ok cs -> wf_fld f = true ->
  exists e o, run cs [] = Some e /\ assoc x e = Some (VObj o) /\
    filter unkeyed_entry (o_items o) = map (fun kc => (den_acon (snd kc), None, None)) cms.
Proof.
  intros x dn fv mid keyed cms post cs K f C W.
  destruct (commands_preserve_order x dn f cs C W) as (e & o & R & A & F).
  exists e, o. splits; [exact R|exact A|]. rewrite F. unfold f; cbn [f_items].
  rewrite filter_unkeyed_app, filter_unkeyed_cm.
  assert (Z : filter unkeyed_item keyed = []).
  { clear -K. induction keyed as [|it r IH]; simpl; [reflexivity|]. simpl in K.
    apply andb_true_iff in K as [K1 K2]. apply negb_true_iff in K1. rewrite K1. apply IH. exact K2. }
  rewrite Z. simpl. unfold cm_items. rewrite map_map. reflexivity.
Qed.
