(* C19 - executable model of (a) the look-ups performed by the description
   methods of cfdm.Field / cfdm.Domain (str, dump) on states that may lack
   pieces, and (b) creation_commands as a compiler into a small command
   language, with an interpreter for that language.

   Transcribed from (repaired tree, see handoff/C19-fix-*.diff):
     cfdm/domain.py        Domain.__str__, _print_item, dump, creation_commands
     cfdm/field.py         Field.__str__, _print_item, dump, creation_commands
     cfdm/mixin/fielddomain.py  _unique_domain_axis_identities, _unique_construct_names
     cfdm/mixin/properties.py, propertiesdata.py, propertiesdatabounds.py,
     cfdm/mixin/coordinate.py, cellmeasure.py, domainaxis.py, cellmethod.py,
     coordinatereference.py, data/data.py      creation_commands
   The behaviour of the pinned commit is kept as the [..._old] definitions
   ([fixed := false]); witnesses against them are in Refuted.v.

   Text layout is not modelled: only which items are looked up / emitted.
   Values printed as literals (property dictionaries, arrays, parameters) are
   opaque tokens. *)
From CfdmV Require Import Common.Base.
Open Scope string_scope.

(* ===================================================================== *)
(* (a) description look-ups                                              *)
(* ===================================================================== *)

Inductive ctype := TDim | TAux | TMsr | TDanc | TTopo | TConn | TFanc.

Definition ctype_eqb (a b : ctype) : bool :=
  match a, b with
  | TDim, TDim | TAux, TAux | TMsr, TMsr | TDanc, TDanc
  | TTopo, TTopo | TConn, TConn | TFanc, TFanc => true
  | _, _ => false
  end.

(* a domain axis: key, Constructs.domain_axis_identity(key) (an input: it is
   computed by cfdm/constructs.py, outside the anchored code), size as text
   (None = size never set) *)
Record dax := mkAx { ax_key : string; ax_id : string; ax_size : option string }.

(* a metadata construct that can hold data: key, type, identity("") (the
   empty string = no identity), data shape as text (None = no data), shape of
   the bounds data (None = no bounds or bounds without data) *)
Record dcon := mkDc { dc_key : string; dc_type : ctype; dc_id : string;
                      dc_shape : option (list string);
                      dc_bshape : option (list string) }.

(* the state str/dump look at.  [ds_caxes] is Constructs.data_axes(): a
   construct whose axes were never set has NO entry. *)
Record dstate := mkDs { ds_axes : list dax; ds_cons : list dcon;
                        ds_caxes : list (string * list string);
                        ds_field : bool; ds_has_data : bool;
                        ds_data_axes : option (list string) }.

Fixpoint rev_chars (s acc : string) : string :=
  match s with EmptyString => acc | String c r => rev_chars r (String c acc) end.

Definition is_digit (c : ascii) : bool :=
  let n := nat_of_ascii c in (48 <=? n)%nat && (n <=? 57)%nat.

Fixpoint take_digits (s : string) : string :=
  match s with
  | String c r => if is_digit c then String c (take_digits r) else EmptyString
  | EmptyString => EmptyString
  end.

(* re.findall(r"\d+$", key): the trailing run of digits, None when there is none *)
Definition digits_of (key : string) : option string :=
  match rev_chars (take_digits (rev_chars key "")) "" with
  | EmptyString => None
  | d => Some d
  end.

(* the disambiguating tag put in braces.  Pinned commit: [re.findall(..)[0]],
   an IndexError when the key does not end with a digit; repaired: the whole key. *)
Definition tag_of (fixed : bool) (key : string) : result string :=
  match digits_of key with
  | Some d => Ok d
  | None => if fixed then Ok key else Err IndexErr
  end.

Definition size_txt (a : dax) : string :=
  match ax_size a with Some s => s | None => "" end.

Definition same_name_size (a b : dax) : bool :=
  String.eqb (ax_id a) (ax_id b) && String.eqb (size_txt a) (size_txt b).

Definition count_if {A} (p : A -> bool) (l : list A) : nat := length (filter p l).

(* _unique_domain_axis_identities: one entry per domain axis *)
Definition axis_name (fixed : bool) (axes : list dax) (a : dax) : result string :=
  if Nat.eqb (count_if (same_name_size a) axes) 1 then
    Ok (ax_id a ++ "(" ++ size_txt a ++ ")")
  else
    rbind (tag_of fixed (ax_key a)) (fun t =>
    Ok (ax_id a ++ "{" ++ t ++ "}(" ++ size_txt a ++ ")")).

Fixpoint mapM {A B} (f : A -> result B) (l : list A) : result (list B) :=
  match l with
  | [] => Ok []
  | x :: r => rbind (f x) (fun y => rbind (mapM f r) (fun ys => Ok (y :: ys)))
  end.

Definition axis_names (fixed : bool) (s : dstate) : result (list (string * string)) :=
  mapM (fun a => rbind (axis_name fixed (ds_axes s) a) (fun n => Ok (ax_key a, n))) (ds_axes s).

(* axis_names[axis]: KeyError when the axis is not a domain axis of the state *)
Definition name_of (names : list (string * string)) (axis : string) : result string :=
  match assoc axis names with Some n => Ok n | None => Err KeyErr end.

(* construct_data_axes[cid] (pinned: KeyError when never set) versus
   construct_data_axes.get(cid, ()) / .get(cid) (repaired) *)
Definition caxes_of (fixed : bool) (s : dstate) (key : string) : result (option (list string)) :=
  match assoc key (ds_caxes s) with
  | Some l => Ok (Some l)
  | None => if fixed then Ok None else Err KeyErr
  end.

Definition or_nil (o : option (list string)) : list string :=
  match o with Some l => l | None => [] end.

(* shape[:ndim] then extended with the sizes of the remaining dimensions *)
Definition clip_extend (names shape : list string) : list string :=
  let x := firstn (length shape) names in (x ++ skipn (length x) shape)%list.

Definition section (t : ctype) : string :=
  match t with
  | TDim => "dim" | TAux => "aux" | TMsr => "msr" | TDanc => "danc"
  | TTopo => "topo" | TConn => "conn" | TFanc => "fanc"
  end.

(* one line of str(): section, name, the axis names/sizes in the parentheses
   (None = no parentheses) *)
Definition sitem := (string * string * option (list string))%type.

(* Domain.__str__ : _print_item *)
Definition print_item (fixed : bool) (s : dstate) (names : list (string * string))
           (c : dcon) : result sitem :=
  rbind (caxes_of fixed s (dc_key c)) (fun ao =>
  let axes := or_nil ao in
  let ident := if String.eqb (dc_id c) "" then "key%" ++ dc_key c else dc_id c in
  match dc_shape c with
  | Some shp =>
      rbind (mapM (name_of names) axes) (fun ns =>
      Ok (section (dc_type c), ident, Some (clip_extend ns shp)))
  | None =>
      match dc_bshape c with
      | Some bs =>
          if ctype_eqb (dc_type c) TAux || ctype_eqb (dc_type c) TDanc then
            rbind (mapM (name_of names) axes) (fun ns =>
            Ok (section (dc_type c), ident, Some (ns ++ skipn (length axes) bs)%list))
          else Ok (section (dc_type c), ident, None)
      | None => Ok (section (dc_type c), ident, None)
      end
  end).

(* Field.__str__ : _print_item (field ancillaries): no clipping *)
Definition print_fanc (fixed : bool) (s : dstate) (names : list (string * string))
           (c : dcon) : result sitem :=
  rbind (caxes_of fixed s (dc_key c)) (fun ao =>
  let ident := if String.eqb (dc_id c) "" then dc_key c else dc_id c in
  match dc_shape c with
  | Some _ =>
      rbind (mapM (name_of names) (or_nil ao)) (fun ns => Ok ("fanc", ident, Some ns))
  | None => Ok ("fanc", ident, None)
  end).

(* the dimension-coordinate lines: for every axis, every dimension coordinate
   whose axes are exactly that axis *)
Definition dim_line (names : list (string * string)) (a : dax) (c : dcon) : result sitem :=
  let name := if String.eqb (dc_id c) "" then "key%0" else dc_id c in
  match ax_size a with
  | None => Err ValueErr                       (* axis.get_size() without default *)
  | Some sz =>
      rbind (name_of names (ax_key a)) (fun an =>
      if String.eqb (name ++ "(" ++ sz ++ ")") an
      then Ok ("dim", name, Some [sz])
      else Ok ("dim", name, Some [an]))
  end.

Definition list_eqb_s := list_eqb String.eqb.

Definition dims_of_axis (fixed : bool) (s : dstate) (names : list (string * string))
           (a : dax) : result (list sitem) :=
  rbind (mapM (fun c =>
           if ctype_eqb (dc_type c) TDim then
             rbind (caxes_of fixed s (dc_key c)) (fun ao =>
             match ao with
             | Some l => if list_eqb_s l [ax_key a]
                         then rbind (dim_line names a c) (fun it => Ok [it]) else Ok []
             | None => Ok []
             end)
           else Ok []) (ds_cons s)) (fun ls => Ok (concat ls)).

Definition is_type (t : ctype) (c : dcon) : bool := ctype_eqb (dc_type c) t.

(* str(domain) *)
Definition str_domain (fixed : bool) (s : dstate) : result (list sitem) :=
  rbind (axis_names fixed s) (fun names =>
  rbind (mapM (dims_of_axis fixed s names) (ds_axes s)) (fun dims =>
  rbind (mapM (print_item fixed s names)
              (filter (fun c => negb (is_type TDim c) && negb (is_type TFanc c)) (ds_cons s)))
        (fun others => Ok (concat dims ++ others)%list))).

(* str(field): the Data line, the field ancillaries, then str(domain) *)
Definition str_field (fixed : bool) (s : dstate) : result (list sitem) :=
  rbind (axis_names fixed s) (fun names =>
  rbind (if ds_has_data s
         then rbind (mapM (name_of names) (or_nil (ds_data_axes s)))
                    (fun ns => Ok [("data", "", match ns with [] => None | _ => Some ns end)])
         else Ok []) (fun dline =>
  rbind (mapM (print_fanc fixed s names) (filter (is_type TFanc) (ds_cons s))) (fun fa =>
  rbind (str_domain fixed s) (fun dom => Ok (dline ++ fa ++ dom)%list)))).

Definition describe_str (fixed : bool) (s : dstate) : result (list sitem) :=
  if ds_field s then str_field fixed s else str_domain fixed s.

(* ---- dump ---- *)

(* _unique_construct_names, restricted to the constructs that hold data:
   identity(default "key%"+key); names shared inside one construct type get
   the tag in braces *)
Definition base_name (c : dcon) : string :=
  if String.eqb (dc_id c) "" then "key%" ++ dc_key c else dc_id c.

Definition same_type_name (c d : dcon) : bool :=
  ctype_eqb (dc_type c) (dc_type d) && String.eqb (base_name c) (base_name d).

Definition construct_name (fixed : bool) (s : dstate) (c : dcon) : result string :=
  if Nat.leb (count_if (same_type_name c) (ds_cons s)) 1 then Ok (base_name c)
  else rbind (tag_of fixed (dc_key c)) (fun t => Ok (base_name c ++ "{" ++ t ++ "}")).

(* PropertiesData.dump: the names inside Data(...) *)
Definition dump_shape (names : list (string * string)) (axes : option (list string))
           (shape : list string) : result (list string) :=
  match axes, names with
  | Some (a :: l), _ :: _ =>
      rbind (mapM (name_of names) (a :: l)) (fun ns => Ok (clip_extend ns shape))
  | _, _ => Ok shape
  end.

Definition opt_shape (names : list (string * string)) (axes : option (list string))
           (shape : option (list string)) : result (option (list string)) :=
  match shape with
  | Some sh => rbind (dump_shape names axes sh) (fun x => Ok (Some x))
  | None => Ok None
  end.

(* one construct of dump(): type, title name, Data(...) names, Bounds:Data(...) names *)
Definition ditem := (string * string * option (list string) * option (list string))%type.

Definition dump_item (fixed : bool) (s : dstate) (names : list (string * string))
           (c : dcon) : result ditem :=
  rbind (caxes_of fixed s (dc_key c)) (fun ao =>
  rbind (if ctype_eqb (dc_type c) TFanc then Ok (dc_id c) else construct_name fixed s c) (fun nm =>
  rbind (opt_shape names ao (dc_shape c)) (fun d =>
  rbind (opt_shape names ao (dc_bshape c)) (fun b =>
  Ok (section (dc_type c), nm, d, b))))).

Definition describe_dump (fixed : bool) (s : dstate) : result (list ditem) :=
  rbind (axis_names fixed s) (fun names =>
  (* _unique_construct_names is evaluated for every construct, also for a Field
     (whose own dump shows only the field ancillaries before the domain's) *)
  rbind (mapM (construct_name fixed s) (ds_cons s)) (fun _ =>
  rbind (if ds_field s && ds_has_data s
         then rbind (mapM (name_of names) (or_nil (ds_data_axes s)))
                    (fun ns => Ok [("data", "", Some ns, None)])
         else Ok []) (fun dline =>
  rbind (mapM (dump_item fixed s names) (ds_cons s)) (fun items =>
  Ok (dline ++ map (fun n => ("axis", snd n, None, None)) names ++ items)%list)))).

(* the three descriptions of one state *)
Definition describe (fixed : bool) (s : dstate)
  : result (list sitem * list ditem) :=
  rbind (describe_str fixed s) (fun a =>
  rbind (describe_dump fixed s) (fun b => Ok (a, b))).

(* The weak invariant under which the descriptions are total: every axis key
   mentioned by a construct's axes or by the field's data axes is a domain
   axis of the state (C02's referential integrity); an axis spanned by a
   dimension coordinate alone has a size (set_construct checks the shape
   against it).  Missing data, missing axes assignments, missing identities
   and missing sizes elsewhere are all admitted. *)
Definition has_axis (s : dstate) (k : string) : bool :=
  existsb (fun a => String.eqb (ax_key a) k) (ds_axes s).

Definition dim_axis_sized (s : dstate) (kv : string * list string) : bool :=
  match kv with
  | (k, [a]) =>
      if existsb (fun c => String.eqb (dc_key c) k && is_type TDim c) (ds_cons s)
      then forallb (fun x => negb (String.eqb (ax_key x) a) ||
                             match ax_size x with Some _ => true | None => false end) (ds_axes s)
      else true
  | _ => true
  end.

Definition inv_partial (s : dstate) : bool :=
  forallb (fun kv => forallb (has_axis s) (snd kv)) (ds_caxes s) &&
  forallb (has_axis s) (or_nil (ds_data_axes s)) &&
  forallb (dim_axis_sized s) (ds_caxes s).

(* ===================================================================== *)
(* (b) creation commands: abstract values, compiler, interpreter         *)
(* ===================================================================== *)
Open Scope list_scope.

Definition tok := Z.

(* x.setter(<literal>)  |  x.setter('key', <literal>) *)
Inductive attr := A1 (setter : string) (v : tok) | A2 (setter key : string) (v : tok).

(* a Data literal: token of its value; does it have masked elements *)
Definition dtok := (tok * bool)%type.

(* properties / netCDF variable name ([v_head], emitted before the data), data,
   and what the class emits after the data ([v_tail]: Bounds and, since
   handoff/C19-fix2-4.diff, InteriorRing - the name of the trailing netCDF
   dimension) *)
Record var := mkV { v_cls : string; v_head : list attr; v_data : option dtok;
                    v_tail : list attr }.

(* which creation_commands method the class inherits (decides the refusals):
   FPlain  DomainAxis, CellMethod, CoordinateReference
   FData   mixin.PropertiesData (FieldAncillary, CellMeasure, Bounds, ...)
   FBounds mixin.PropertiesDataBounds (DomainAncillary, ...)
   FCoord  mixin.Coordinate (DimensionCoordinate, AuxiliaryCoordinate) *)
Inductive family := FPlain | FData | FBounds | FCoord.

(* a metadata construct: [a_pre] = geometry type, climatology (emitted before
   the bounds); [a_post] = measure, external flag (C19-fix2-4), cell type, connectivity, size, netCDF
   dimension, method, axes, qualifiers, coordinates, parameters, ... *)
Record acon := mkA { a_var : var; a_fam : family; a_pre : list attr;
                     a_bounds : option var; a_ring : option var; a_post : list attr }.

Record item := mkI { i_con : acon; i_axes : option (list string); i_key : option string }.

(* a field or domain: [f_mid] = mesh id, netCDF global attributes;
   [f_post] = the field's data axes *)
Record fld := mkF { f_var : var; f_mid : list attr; f_items : list item; f_post : list attr }.

Inductive cmd :=
| CNew (x cls : string)                         (* x = ns.Cls()                 *)
| CData (x : string) (d : dtok)                 (* x = ns.Data(...)             *)
| CAttr (x : string) (a : attr)                 (* x.setter(...)                *)
| CSub (x setter y : string)                    (* x.set_data(y) / set_bounds(y) / set_interior_ring(y) *)
| CInsert (f x : string) (axes : option (list string)) (key : option string).
                                                (* f.set_construct(x, axes=, key=, copy=False) *)

Record names := mkN { n_name : string; n_data : string; n_bounds : string; n_ring : string }.

Definition mem (x : string) (l : list string) : bool := existsb (String.eqb x) l.

(* Data.creation_commands refuses name "mask" for masked data *)
Definition compile_data (x : string) (d : dtok) : result (list cmd) :=
  if snd d && String.eqb x "mask" then Err ValueErr else Ok [CData x d].

(* mixin.Properties / PropertiesData .creation_commands *)
Definition compile_var (x dn : string) (v : var) : result (list cmd) :=
  match v_data v with
  | None => Ok (CNew x (v_cls v) :: map (CAttr x) (v_head v) ++ map (CAttr x) (v_tail v))
  | Some d =>
      if String.eqb x dn then Err ValueErr else
      rbind (compile_data dn d) (fun cd =>
      Ok (CNew x (v_cls v) :: map (CAttr x) (v_head v) ++ cd ++ [CSub x "set_data" dn] ++
          map (CAttr x) (v_tail v)))
  end.

Definition compile_sub (x setter sub dn : string) (o : option var) : result (list cmd) :=
  match o with
  | None => Ok []
  | Some b => rbind (compile_var sub dn b) (fun cb => Ok (cb ++ [CSub x setter sub]))
  end.

Definition refused (n : names) (fam : family) : bool :=
  match fam with
  | FPlain => false
  | FData => String.eqb (n_name n) (n_data n)
  | FBounds | FCoord =>
      mem (n_name n) [n_data n; n_bounds n; n_ring n] ||
      mem (n_data n) [n_name n; n_bounds n; n_ring n]
  end.

(* [fixed = false]: mixin.Coordinate.creation_commands of the pinned commit
   passes the literal names "c", "data", "b", "i" to its parent and uses the
   caller's name only for the trailing commands *)
Definition inner_names (fixed : bool) (fam : family) (n : names) : names :=
  match fam with
  | FCoord => if fixed then n else mkN "c" "data" "b" "i"
  | _ => n
  end.

Definition compile_acon (fixed : bool) (n : names) (a : acon) : result (list cmd) :=
  let m := inner_names fixed (a_fam a) n in
  if refused m (a_fam a) then Err ValueErr else
  match a_fam a with
  | FPlain =>
      Ok (CNew (n_name n) (v_cls (a_var a)) ::
          map (CAttr (n_name n)) (v_head (a_var a) ++ v_tail (a_var a) ++ a_pre a ++ a_post a))
  | _ =>
      rbind (compile_var (n_name m) (n_data m) (a_var a)) (fun cv =>
      rbind (compile_sub (n_name m) "set_bounds" (n_bounds m) (n_data m) (a_bounds a)) (fun cb =>
      rbind (compile_sub (n_name m) "set_interior_ring" (n_ring m) (n_data m) (a_ring a)) (fun cr =>
      Ok (cv ++ map (CAttr (n_name m)) (a_pre a) ++ cb ++ cr ++
          map (CAttr (n_name n)) (a_post a)))))
  end.

(* Field.creation_commands / Domain.creation_commands: the constructs are all
   created under the name "c" (bounds "b", interior ring "i") and inserted *)
Definition item_names (dn : string) : names := mkN "c" dn "b" "i".

Definition compile_item (fixed : bool) (x dn : string) (it : item) : result (list cmd) :=
  rbind (compile_acon fixed (item_names dn) (i_con it)) (fun cc =>
  Ok (cc ++ [CInsert x "c" (i_axes it) (i_key it)])).

Fixpoint compile_items (fixed : bool) (x dn : string) (l : list item) : result (list cmd) :=
  match l with
  | [] => Ok []
  | it :: r => rbind (compile_item fixed x dn it) (fun c =>
               rbind (compile_items fixed x dn r) (fun cr => Ok (c ++ cr)))
  end.

Definition compile_fld (fixed : bool) (x dn : string) (f : fld) : result (list cmd) :=
  if mem x ["b"; "c"; "mask"; "i"] then Err ValueErr else
  if String.eqb x dn then Err ValueErr else
  rbind (compile_var x dn (f_var f)) (fun cv =>
  rbind (compile_items fixed x dn (f_items f)) (fun ci =>
  Ok (cv ++ map (CAttr x) (f_mid f) ++ ci ++ map (CAttr x) (f_post f)))).

(* ---- the objects the commands build, and the interpreter ---- *)

Record sobj := mkS { s_cls : string; s_attrs : list attr; s_data : option dtok }.
Record cobj := mkC { c_s : sobj; c_bounds : option sobj; c_ring : option sobj }.
Definition entry := (cobj * option (list string) * option string)%type.
Record fobj := mkO { o_c : cobj; o_items : list entry }.

Inductive value := VData (d : dtok) | VObj (o : fobj).
Definition env := list (string * value).

Definition empty_obj (cls : string) : fobj := mkO (mkC (mkS cls [] None) None None) [].

Definition add_attr (o : fobj) (a : attr) : fobj :=
  let c := o_c o in let s := c_s c in
  mkO (mkC (mkS (s_cls s) (s_attrs s ++ [a]) (s_data s)) (c_bounds c) (c_ring c)) (o_items o).

Definition with_data (o : fobj) (d : dtok) : fobj :=
  let c := o_c o in let s := c_s c in
  mkO (mkC (mkS (s_cls s) (s_attrs s) (Some d)) (c_bounds c) (c_ring c)) (o_items o).

Definition with_bounds (o : fobj) (b : sobj) : fobj :=
  let c := o_c o in mkO (mkC (c_s c) (Some b) (c_ring c)) (o_items o).

Definition with_ring (o : fobj) (b : sobj) : fobj :=
  let c := o_c o in mkO (mkC (c_s c) (c_bounds c) (Some b)) (o_items o).

Definition add_item (o : fobj) (e : entry) : fobj := mkO (o_c o) (o_items o ++ [e]).

(* a Bounds / InteriorRing object: no bounds of its own, nothing inserted *)
Definition simple (o : fobj) : option sobj :=
  match c_bounds (o_c o), c_ring (o_c o), o_items o with
  | None, None, [] => Some (c_s (o_c o))
  | _, _, _ => None
  end.

Definition step (e : env) (c : cmd) : option env :=
  match c with
  | CNew x cls => Some ((x, VObj (empty_obj cls)) :: e)
  | CData x d => Some ((x, VData d) :: e)
  | CAttr x a =>
      match assoc x e with
      | Some (VObj o) => Some ((x, VObj (add_attr o a)) :: e)
      | _ => None
      end
  | CSub x setter y =>
      match assoc x e, assoc y e with
      | Some (VObj o), Some (VData d) =>
          if String.eqb setter "set_data" then Some ((x, VObj (with_data o d)) :: e) else None
      | Some (VObj o), Some (VObj oy) =>
          match simple oy with
          | Some b =>
              if String.eqb setter "set_bounds" then Some ((x, VObj (with_bounds o b)) :: e)
              else if String.eqb setter "set_interior_ring" then Some ((x, VObj (with_ring o b)) :: e)
              else None
          | None => None
          end
      | _, _ => None
      end
  | CInsert f x axes key =>
      match assoc f e, assoc x e with
      | Some (VObj o), Some (VObj ox) =>
          match o_items ox with
          | [] => Some ((f, VObj (add_item o (o_c ox, axes, key))) :: e)
          | _ => None
          end
      | _, _ => None
      end
  end.

Fixpoint run (cs : list cmd) (e : env) : option env :=
  match cs with
  | [] => Some e
  | c :: r => match step e c with Some e' => run r e' | None => None end
  end.

(* ---- what an abstract value denotes ---- *)
Definition den_var (v : var) : sobj := mkS (v_cls v) (v_head v ++ v_tail v) (v_data v).

Definition den_acon (a : acon) : cobj :=
  mkC (mkS (v_cls (a_var a)) (v_head (a_var a) ++ v_tail (a_var a) ++ a_pre a ++ a_post a)
           (v_data (a_var a)))
      (option_map den_var (a_bounds a)) (option_map den_var (a_ring a)).

Definition den_item (it : item) : entry := (den_acon (i_con it), i_axes it, i_key it).

Definition den_fld (f : fld) : fobj :=
  mkO (mkC (mkS (v_cls (f_var f)) (v_head (f_var f) ++ v_tail (f_var f) ++ f_mid f ++ f_post f)
                (v_data (f_var f)))
           None None)
      (map den_item (f_items f)).

Definition lift (c : cobj) : fobj := mkO c [].

(* classes without data / bounds hold none *)
Definition wf_acon (a : acon) : bool :=
  match a_fam a with
  | FPlain => match v_data (a_var a), a_bounds a, a_ring a with None, None, None => true | _, _, _ => false end
  | FData => match a_bounds a, a_ring a with None, None => true | _, _ => false end
  | _ => true
  end.

Definition wf_fld (f : fld) : bool := forallb (fun it => wf_acon (i_con it)) (f_items f).

(* ===================================================================== *)
(* (c) Data.__str__ (cfdm/data/data.py): the element look-ups as partial  *)
(*     operations, the three date-time conversion sites, the layout       *)
(* ===================================================================== *)
Open Scope string_scope.

(* classes of exception a date-time conversion
   (Data(value, units, calendar).datetime_array) can raise *)
Inductive cerr := XValue | XOverflow | XAttr | XType | XOther.

Inductive cres (A : Type) := COk (a : A) | CErr (e : cerr).
Arguments COk {A} a.
Arguments CErr {A} e.

(* get_units(None): not set, a string, something that is not a string *)
Inductive units_k := UNone | UStr (s : string) | UOther.

(* an element of the array as f"{x}" shows it *)
Inductive elem := EMasked | EVal (txt : string).

(* what Data.__str__ looks at.  [dd_array = false]: Data() without an array.
   [dd_elems]: the elements in C order.  The outcomes of the conversions are
   inputs (netCDF4.num2date is outside the anchored code): of the first
   element as a scalar, of [first, last] as a vector (one failure fails
   both), of the second element as a scalar. *)
Record ddata := mkDD {
  dd_array : bool; dd_units : units_k; dd_cal : option string;
  dd_shape : list nat; dd_elems : list elem;
  dd_conv1 : cres string; dd_conv2 : cres (string * string); dd_convm : cres string }.

Fixpoint contains (p s : string) : bool :=
  String.prefix p s || match s with EmptyString => false | String _ r => contains p r end.

Definition dsize (d : ddata) : nat := fold_right Nat.mul 1%nat (dd_shape d).

(* array.item() of a one-element selection *)
Definition item_at (d : ddata) (i : nat) : result elem :=
  match nth_error (dd_elems d) i with Some e => Ok e | None => Err IndexErr end.

(* first_element: _item((slice(0, 1, 1),) * ndim); ValueError from .item()
   when the selection is empty (a dimension of size 0) or there is no array *)
Definition first_element (d : ddata) : result elem :=
  if negb (dd_array d) then Err ValueErr
  else if Nat.eqb (dsize d) 0 then Err ValueErr else item_at d 0.

(* last_element: _item((slice(-1, None, 1),) * ndim) *)
Definition last_element (d : ddata) : result elem :=
  if negb (dd_array d) then Err ValueErr
  else if Nat.eqb (dsize d) 0 then Err ValueErr else item_at d (dsize d - 1).

(* second_element: _item(np.unravel_index(1, shape)); ValueError when the
   flat index 1 is out of bounds *)
Definition second_element (d : ddata) : result elem :=
  if negb (dd_array d) then Err ValueErr
  else if Nat.leb (dsize d) 1 then Err ValueErr else item_at d 1.

Fixpoint rep (n : nat) (s : string) : string :=
  match n with O => "" | S k => s ++ rep k s end.

Definition elem_txt (e : elem) : string := match e with EMasked => "--" | EVal t => t end.

Definition cerr_errk (e : cerr) : errk :=
  match e with XValue => ValueErr | XType => TypeErr | _ => OtherErr end.

(* try: <conversion>  except <classes caught>: <default> *)
Definition guarded {A} (catch : cerr -> bool) (c : cres A) (dflt : A) : result A :=
  match c with
  | COk a => Ok a
  | CErr e => if catch e then Ok dflt else Err (cerr_errk e)
  end.

(* which classes each of the three sites catches *)
Record catches := mkK { k_single : cerr -> bool; k_pair : cerr -> bool; k_middle : cerr -> bool }.

(* except (ValueError, OverflowError): the code before handoff/C19-fix2-1.diff *)
Definition catch_vo (e : cerr) : bool := match e with XValue | XOverflow => true | _ => false end.
Definition k_before : catches := mkK catch_vo catch_vo catch_vo.
(* except Exception: the repaired code *)
Definition k_repaired : catches := mkK (fun _ => true) (fun _ => true) (fun _ => true).

Definition truthy (s : string) : bool := match s with EmptyString => false | _ => true end.

Definition units_txt (u : units_k) : string :=
  match u with UNone => "" | UStr s => s | UOther => "??" end.

Definition cal_txt (c : option string) : string := match c with Some s => s | None => "" end.

Definition is_reftime (u : units_k) : bool :=
  match u with UStr s => contains "since" s | _ => false end.

Definition last_dim_3 (shape : list nat) : bool :=
  match rev shape with 3%nat :: _ => true | _ => false end.

Definition data_str (k : catches) (d : ddata) : result string :=
  let isref := is_reftime (dd_units d) in
  let u := units_txt (dd_units d) in
  let c := cal_txt (dd_cal d) in
  match first_element d with
  | Err _ =>
      (* except Exception: no elements to show *)
      Ok ((if truthy u && negb isref then " " ++ u else "") ++ (if truthy c then " " ++ c else ""))
  | Ok first =>
      let ob := rep (length (dd_shape d)) "[" in
      let cb := rep (length (dd_shape d)) "]" in
      rbind
        (if Nat.eqb (dsize d) 1 then
           rbind (if isref then guarded (k_single k) (dd_conv1 d) "??" else Ok (elem_txt first))
                 (fun f => Ok (ob ++ f ++ cb))
         else
           rbind (last_element d) (fun last =>
           rbind (if isref then guarded (k_pair k) (dd_conv2 d) ("??", "??")
                  else Ok (elem_txt first, elem_txt last)) (fun fl =>
           let f := fst fl in let l := snd fl in
           if Nat.ltb 3 (dsize d) then Ok (ob ++ f ++ ", ..., " ++ l ++ cb)
           else if last_dim_3 (dd_shape d) then
             rbind (second_element d) (fun mid =>
             rbind (if isref then guarded (k_middle k) (dd_convm d) "??" else Ok (elem_txt mid))
                   (fun m => Ok (ob ++ f ++ ", " ++ m ++ ", " ++ l ++ cb)))
           else if Nat.eqb (dsize d) 3 then Ok (ob ++ f ++ ", ..., " ++ l ++ cb)
           else Ok (ob ++ f ++ ", " ++ l ++ cb))))
        (fun out =>
           Ok (out ++ (if isref then (if truthy c then " " ++ c else "")
                       else if truthy u then " " ++ u else "")))
  end.

(* the array (when there is one) holds as many elements as its shape says *)
Definition wf_ddata (d : ddata) : bool :=
  negb (dd_array d) || Nat.eqb (length (dd_elems d)) (dsize d).

Definition cres_caught {A} (catch : cerr -> bool) (c : cres A) : bool :=
  match c with COk _ => true | CErr e => catch e end.

(* every class of exception the conversions of this Data raise is caught at
   the site that performs it *)
Definition conversions_caught (k : catches) (d : ddata) : bool :=
  cres_caught (k_single k) (dd_conv1 d) && cres_caught (k_pair k) (dd_conv2 d) &&
  cres_caught (k_middle k) (dd_convm d).

(* a field or domain together with every Data object its descriptions format
   (the field's data, the data and the bounds data of every construct) *)
Record dfull := mkDF { df_state : dstate; df_datas : list ddata }.

Definition describe_all (fixed : bool) (k : catches) (s : dfull)
  : result (list sitem * list ditem * list string) :=
  rbind (describe fixed (df_state s)) (fun a =>
  rbind (mapM (data_str k) (df_datas s)) (fun t => Ok (a, t))).

Definition inv_full (s : dfull) : bool :=
  inv_partial (df_state s) && forallb wf_ddata (df_datas s).

(* ===================================================================== *)
(* (d) the order of the cell methods                                      *)
(* ===================================================================== *)
Open Scope list_scope.

(* Field.creation_commands: for key, c in self.cell_methods(todict=True).items():
   the cell methods in the order in which they are applied (Constructs.ordered),
   each inserted by  f.set_construct(c)  without a key *)
Definition cm_items (cms : list (string * acon)) : list item :=
  map (fun kc => mkI (snd kc) None None) cms.

Definition key_leb (a b : string) : bool :=
  match String.compare a b with Gt => false | _ => true end.

Fixpoint insert_by_key (x : string * acon) (l : list (string * acon)) : list (string * acon) :=
  match l with
  | [] => [x]
  | y :: r => if key_leb (fst x) (fst y) then x :: l else y :: insert_by_key x r
  end.

(* sorted(self.cell_methods(todict=True).items()): what dump() does, and what
   creation_commands must not do *)
Definition sort_by_key (l : list (string * acon)) : list (string * acon) :=
  fold_right insert_by_key [] l.

Definition unkeyed_item (it : item) : bool := match i_key it with None => true | Some _ => false end.
Definition unkeyed_entry (e : entry) : bool := match snd e with None => true | Some _ => false end.
