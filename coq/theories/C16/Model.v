(* C16 - executable model of the reconstitution of coordinates compressed by
   subsampling (CF 8.3, Appendix J), transcribed from

     cfdm/data/subsampledarray.py            SubsampledArray.subarrays, __getitem__
     cfdm/data/abstract/compressedarray.py   _first_or_last_element
     cfdm/data/subarray/abstract/subsampledsubarray.py   _s, _trim, _broadcast_bounds
     cfdm/data/subarray/mixin/{linear,bilinear,quadratic}interpolation.py
     cfdm/data/subarray/{linear,bilinear,quadratic}subarray.py

   Definitions only.  Arithmetic is exact (Q): the harness generates tie
   point values and subarea lengths for which every float64 operation of the
   implementation is exact, so the model agrees with the implementation
   bit-for-bit on those cases.  Arrays are modelled as finite maps
   (index -> optional cell); a numpy slice assignment  u[lo:hi+1] = block  is
   the pointwise update  u[i] := block[i-lo]  for lo <= i <= hi.  A cell is the
   list of its values: [x] for a coordinate, [b0;b1] or [b0;b1;b2;b3] for the
   bounds of a cell.

   Out of the model: the trigonometric methods (quadratic_latitude_longitude,
   bi_quadratic_latitude_longitude), interpolation_subarea_flags, masked tie
   points, float rounding for subarea lengths that are not powers of two.
   Extra non-interpolated dimensions are reduced to independent lanes by the
   harness (each lane is one case of this model). *)
From CfdmV Require Import Common.Base.
From Coq Require Import QArith Qabs.
Open Scope nat_scope.

(* ------------------------------------------------------------------ *)
(* SubsampledArray.subarrays: the bookkeeping of one subsampled dimension.
   One record per interpolation subarea:
     a_ia, a_ib  the two tie point indices (index0, index1 of the loop)
     a_k         position of the first of them in the tie point dimension
                 (c_index = slice(a_k, a_k + 2))
     a_j         number of the subarea along the subarea dimension (location)
     a_first     the subarea starts a continuous area *)
Record area := mkA { a_ia : nat; a_ib : nat; a_k : nat; a_j : nat; a_first : bool }.

(* for i, (index0, index1) in enumerate(zip(indices[:-1], indices[1:])):
       if index1 - index0 <= 1: first = True; continue
       ... append ...; j += 1; first = False                              *)
Fixpoint areas_from (k j : nat) (first : bool) (l : list nat) : list area :=
  match l with
  | a :: r =>
      match r with
      | b :: _ =>
          if b - a <=? 1 then areas_from (S k) j true r
          else mkA a b k j first :: areas_from (S k) (S j) false r
      | [] => []
      end
  | [] => []
  end.

Definition subareas (tpi : list nat) : list area := areas_from 0 0 true tpi.

(* u_index = slice(index0 (+1 if not first), index1 + 1) *)
Definition a_lo (A : area) : nat := if a_first A then a_ia A else S (a_ia A).
(* u_shape entry: index1 - index0 + 1, minus 1 if not first *)
Definition a_shape (A : area) : nat :=
  if a_first A then a_ib A - a_ia A + 1 else a_ib A - a_ia A.
Definition cov (A : area) (i : nat) : bool := (a_lo A <=? i) && (i <=? a_ib A).

(* ------------------------------------------------------------------ *)
(* SubsampledSubarray._s:  size = shape[d]; if bounds or not first: size += 1;
   numpy.linspace(0, 1, size) - element j is j/(size-1), and [0] for size 1
   (x/0 = 0 in Coq's Q, which is what numpy returns for size 1). *)
Definition s_size (bounds : bool) (A : area) : nat :=
  if bounds || negb (a_first A) then a_shape A + 1 else a_shape A.

Definition qn (n : nat) : Q := inject_Z (Z.of_nat n).

Definition linspace (size : nat) : list Q :=
  map (fun j => (qn j / qn (size - 1))%Q) (seq 0 size).

(* LinearInterpolation._linear_interpolation:  u = ua + s * (ub - ua) *)
(* (Qred only normalises the fraction - same rational number - so that numerators
   and denominators stay small when the formulas are nested) *)
Definition fl (ua ub s : Q) : Q := Qred (ua + s * (ub - ua))%Q.
(* QuadraticInterpolation._quadratic_interpolation:
   u = ua + s * (ub - ua + 4 * w * (1 - s)), or the linear formula if w is None *)
Definition fq (ua ub w s : Q) : Q := Qred (ua + s * (ub - ua + 4 * w * (1 - s)))%Q.

Inductive meth := Linear | Quadratic (w : option (list Q)).

Definition tpv (tp : list Q) (k : nat) : Q := nth k tp 0%Q.

Definition f1 (m : meth) (A : area) (ua ub s : Q) : Q :=
  match m with
  | Linear => fl ua ub s
  | Quadratic None => fl ua ub s
  | Quadratic (Some ws) => fq ua ub (nth (a_j A) ws 0%Q) s
  end.

(* the raw interpolation of a subarea, tie point locations included *)
Definition raw1 (bounds : bool) (m : meth) (tp : list Q) (A : area) : list Q :=
  map (f1 m A (tpv tp (a_k A)) (tpv tp (S (a_k A)))) (linspace (s_size bounds A)).

(* _trim: drop the first point along a dimension where the subarea is not first *)
Definition trim {X} (first : bool) (l : list X) : list X := if first then l else tl l.
(* _broadcast_bounds, one subsampled dimension:
   bounds[..., 0] = u[0:-1]; bounds[..., 1] = u[1:] *)
Definition pairs {X} (l : list X) : list (X * X) := combine (removelast l) (tl l).

Definition cell := list Q.

(* _post_process = _trim after _broadcast_bounds (no trimming of bounds) *)
Definition block1 (bounds : bool) (m : meth) (tp : list Q) (A : area) : list cell :=
  if bounds then map (fun p => [fst p; snd p]) (pairs (raw1 true m tp A))
  else map (fun x => [x]) (trim (a_first A) (raw1 false m tp A)).

(* SubsampledArray.__getitem__:  u = masked_all(shape);
   for each subarea:  u[u_indices] = subarray[...]   (in order, later wins) *)
Definition store1 := nat -> option cell.
Definition step1 (bounds : bool) (m : meth) (tp : list Q) (u : store1) (A : area) : store1 :=
  (* subarray[...] is computed once, then assigned *)
  let blk := block1 bounds m tp A in
  fun i => if cov A i then Some (nth (i - a_lo A) blk []) else u i.
Definition dec1 (bounds : bool) (m : meth) (tpi : list nat) (tp : list Q) : store1 :=
  fold_left (step1 bounds m tp) (subareas tpi) (fun _ => None).

(* a slice reaching beyond the uncompressed dimension is clipped by numpy and
   the block no longer fits: ValueError *)
Definition overflow (n : nat) (tpi : list nat) : bool :=
  existsb (fun A => n <=? a_ib A) (subareas tpi).

(* ------------------------------------------------------------------ *)
(* Two subsampled dimensions (bi_linear).  T[k2][k1]; A2 along the dimension
   in the lower position (d2), A1 along the higher (d1):
     ua = T[k2][k1]  ub = T[k2][k1+1]  uc = T[k2+1][k1]  ud = T[k2+1][k1+1]
     uac = fl(ua,uc,s2)  ubd = fl(ub,ud,s2)  u = fl(uac,ubd,s1)            *)
Definition tpv2 (T : list (list Q)) (k2 k1 : nat) : Q := nth k1 (nth k2 T []) 0%Q.

Definition raw2 (bounds : bool) (T : list (list Q)) (A2 A1 : area) : list (list Q) :=
  let ua := tpv2 T (a_k A2) (a_k A1) in
  let ub := tpv2 T (a_k A2) (S (a_k A1)) in
  let uc := tpv2 T (S (a_k A2)) (a_k A1) in
  let ud := tpv2 T (S (a_k A2)) (S (a_k A1)) in
  map (fun s2 => let uac := fl ua uc s2 in let ubd := fl ub ud s2 in
                 map (fun s1 => fl uac ubd s1) (linspace (s_size bounds A1)))
      (linspace (s_size bounds A2)).

(* _broadcast_bounds, two subsampled dimensions:
   0: u[:-1,:-1]   1: u[:-1,1:]   2: u[1:,1:]   3: u[1:,:-1] *)
Definition quads (r : list (list Q)) : list (list cell) :=
  map (fun rr => map (fun pq => [fst (fst pq); snd (fst pq); snd (snd pq); fst (snd pq)])
                     (combine (pairs (fst rr)) (pairs (snd rr))))
      (pairs r).

Definition block2 (bounds : bool) (T : list (list Q)) (A2 A1 : area) : list (list cell) :=
  if bounds then quads (raw2 true T A2 A1)
  else map (fun row => map (fun x => [x]) (trim (a_first A1) row))
           (trim (a_first A2) (raw2 false T A2 A1)).

Definition store2 := nat -> nat -> option cell.
Definition step2 (bounds : bool) (T : list (list Q)) (u : store2) (AA : area * area) : store2 :=
  let blk := block2 bounds T (fst AA) (snd AA) in
  fun i2 i1 =>
    if cov (fst AA) i2 && cov (snd AA) i1
    then Some (nth (i1 - a_lo (snd AA)) (nth (i2 - a_lo (fst AA)) blk []) [])
    else u i2 i1.
(* itertools.product: the last dimension varies fastest = list_prod *)
Definition dec2 (bounds : bool) (tpi2 tpi1 : list nat) (T : list (list Q)) : store2 :=
  fold_left (step2 bounds T) (list_prod (subareas tpi2) (subareas tpi1)) (fun _ _ => None).

(* ------------------------------------------------------------------ *)
(* Subspaces.  Data._parse_indices has already turned every index into a
   slice or a list; what matters here is whether it is literally
   slice(0,1,1) (IFirst), slice(-1,None,1) (ILast), or anything else, given
   as the list of selected positions (computed by Python's own slice.indices
   in the harness). *)
Inductive idx := IFirst | ILast | IPos (l : list nat).

Definition positions (n : nat) (ix : idx) : list nat :=
  match ix with IFirst => [0] | ILast => [n - 1] | IPos l => l end.

Definition all_first (ix : list idx) : bool :=
  forallb (fun i => match i with IFirst => true | _ => false end) ix.
Definition all_last (ix : list idx) : bool :=
  forallb (fun i => match i with ILast => true | _ => false end) ix.

Inductive obs := ObsErr | ObsArr (shape : list nat) (vals : list (option Q)).

Definition nvals (c : option cell) (vpos : list nat) : list (option Q) :=
  match c with
  | Some c => map (fun v => Some (nth v c 0%Q)) vpos
  | None => map (fun _ => None) vpos
  end.

(* orthogonal selection (netcdf_indexer, orthogonal_indexing=True) *)
Definition take1 (u : store1) (pos vpos : list nat) : list (option Q) :=
  flat_map (fun i => nvals (u i) vpos) pos.
Definition take2 (u : store2) (pos2 pos1 vpos : list nat) : list (option Q) :=
  flat_map (fun i2 => flat_map (fun i1 => nvals (u i2 i1) vpos) pos1) pos2.

(* one subsampled dimension; ix has one entry (coordinates) or two (bounds:
   the trailing entry indexes the bounds dimension of size 2).
   [shortcut_bounds] = true is the code as it was at the pinned commit: the
   first/last-element shortcut also taken for bounds tie points. *)
Definition getitem1_gen (shortcut_bounds : bool) (bounds : bool) (m : meth) (n : nat)
           (tpi : list nat) (tp : list Q) (ix : list idx) : obs :=
  if (negb bounds || shortcut_bounds) && all_first ix then
    (* data[(slice(0,1,1),) * data.ndim] *)
    ObsArr [1] [Some (tpv tp 0)]
  else if (negb bounds || shortcut_bounds) && all_last ix then
    ObsArr [1] [Some (tpv tp (length tp - 1))]
  else if overflow n tpi then ObsErr
  else
    let u := dec1 bounds m tpi tp in
    match ix with
    | [i] => if bounds then ObsErr
             else ObsArr [length (positions n i)] (take1 u (positions n i) [0])
    | [i; v] => if bounds
                then ObsArr [length (positions n i); length (positions 2 v)]
                            (take1 u (positions n i) (positions 2 v))
                else ObsErr
    | _ => ObsErr
    end.

Definition getitem1 := getitem1_gen false.
Definition getitem1_old := getitem1_gen true.

(* two subsampled dimensions (bi_linear); bounds have 4 vertices.
   [swap]: _broadcast_bounds took the two subsampled dimensions in descending
   order, (d1, d2) = (1, 0): bounds[..., 1] is then u[i2+1, i1] and
   bounds[..., 3] is u[i2, i1+1], i.e. vertices 1 and 3 of every cell change
   places (see bb_swapped below; never the case for the current code). *)
Definition vswap (swap : bool) (c : cell) : cell :=
  if swap then match c with [a; b; c'; d] => [a; d; c'; b] | _ => c end else c.

Definition getitem2_gen (shortcut_bounds swap : bool) (bounds : bool) (n2 n1 : nat)
           (tpi2 tpi1 : list nat) (T : list (list Q)) (ix : list idx) : obs :=
  if (negb bounds || shortcut_bounds) && all_first ix then
    ObsArr [1; 1] [Some (tpv2 T 0 0)]
  else if (negb bounds || shortcut_bounds) && all_last ix then
    ObsArr [1; 1] [Some (tpv2 T (length T - 1) (length (nth 0 T []) - 1))]
  else if overflow n2 tpi2 || overflow n1 tpi1 then ObsErr
  else
    let u := dec2 bounds tpi2 tpi1 T in
    match ix with
    | [i2; i1] => if bounds then ObsErr
                  else ObsArr [length (positions n2 i2); length (positions n1 i1)]
                              (take2 u (positions n2 i2) (positions n1 i1) [0])
    | [i2; i1; v] => if bounds
                     then ObsArr [length (positions n2 i2); length (positions n1 i1); length (positions 4 v)]
                                 (take2 (fun a b => option_map (vswap swap) (u a b))
                                        (positions n2 i2) (positions n1 i1) (positions 4 v))
                     else ObsErr
    | _ => ObsErr
    end.

Definition getitem2 := getitem2_gen false false.
Definition getitem2_old := getitem2_gen true false.

(* the whole array *)
Definition full_ix (n : nat) : idx := IPos (seq 0 n).

(* ------------------------------------------------------------------ *)
(* The constructor arguments of SubsampledArray.

   Stored tie points.  The tie point array is stored in some netCDF type; a
   stored number is an integer or m * 2^e.  SubsampledSubarray._select_data
   converts the selected tie points to the type of the uncompressed data
   (float64) before any arithmetic; that conversion is exact for 16/32-bit
   integers, 32/64-bit floats and 64-bit integers below 2^53, so the values
   that enter the interpolation are the injections of the stored numbers. *)
Inductive sty := SI16 | SI32 | SI64 | SF32 | SF64.
Inductive snum := NInt (z : Z) | NFlt (m e : Z).

Definition inj_raw (x : snum) : Q :=
  match x with
  | NInt z => inject_Z z
  | NFlt m e => (inject_Z m * Qpower 2 e)%Q
  end.
(* the value of a stored number, as a fraction in lowest terms *)
Definition inj (x : snum) : Q := Qred (inj_raw x).

Inductive tparr := TP1 (tp : list snum) | TP2 (T : list (list snum)).
Inductive tparrQ := TQ1 (tp : list Q) | TQ2 (T : list (list Q)).
Definition tp_inj (t : tparr) : tparrQ :=
  match t with
  | TP1 tp => TQ1 (map inj tp)
  | TP2 T => TQ2 (map (map inj) T)
  end.

(* Dictionaries (tie_point_indices, parameters, parameter_dimensions) are
   association lists in insertion order, keys distinct. *)
Fixpoint glook {K V} (eqb : K -> K -> bool) (k : K) (l : list (K * V)) : option V :=
  match l with
  | [] => None
  | (k', v) :: r => if eqb k k' then Some v else glook eqb k r
  end.

(* sorted(...) *)
Fixpoint insert (x : nat) (l : list nat) : list nat :=
  match l with
  | [] => [x]
  | y :: r => if x <=? y then x :: l else y :: insert x r
  end.
Fixpoint isort (l : list nat) : list nat :=
  match l with [] => [] | x :: r => insert x (isort r) end.

(* SubsampledArray.__init__:  compressed_dimensions = {d: (d,) for d in sorted(tie_point_indices)}
   SubsampledSubarray._broadcast_bounds:  subsampled_dimensions = sorted(self.compressed_dimensions())
   [srt_init] / [srt_bb] = false model a variant without the respective sorted(). *)
Definition cdims (srt_init : bool) (tpis : list (nat * list nat)) : list nat :=
  if srt_init then isort (map fst tpis) else map fst tpis.
Definition bb_swapped (srt_init srt_bb : bool) (tpis : list (nat * list nat)) : bool :=
  let cd := cdims srt_init tpis in
  match (if srt_bb then isort cd else cd) with
  | [d1; d2] => d2 <? d1
  | _ => false
  end.

Inductive iname := ILinear | IQuadratic | IBilinear.

Definition meth_of (name : iname) (params : list (string * list Q)) : meth :=
  match name with
  | IQuadratic => Quadratic (glook String.eqb "w"%string params)
  | _ => Linear
  end.

(* canonical layouts: the subsampled dimensions are 0 (TP1) or 0 and 1 (TP2);
   LinearSubarray: (d1,) = tuple(compressed_dimensions());
   BiLinearSubarray: (d2, d1) = sorted(compressed_dimensions()).
   parameter_dimensions and computational_precision are stored but do not
   enter the computation of the modelled methods (float64 throughout). *)
Definition getitem_sa_gen (srt_init srt_bb : bool) (name : iname) (bounds : bool) (shape : list nat)
           (ty : sty) (tp : tparr) (tpis : list (nat * list nat))
           (params : list (string * list Q)) (pdims : list (string * list nat))
           (prec : option string) (ix : list idx) : obs :=
  match name, isort (map fst tpis), tp_inj tp with
  | IBilinear, [0; 1], TQ2 T =>
      match glook Nat.eqb 0 tpis, glook Nat.eqb 1 tpis with
      | Some t2, Some t1 =>
          getitem2_gen false (bb_swapped srt_init srt_bb tpis) bounds (nth 0 shape 0) (nth 1 shape 0) t2 t1 T ix
      | _, _ => ObsErr
      end
  | IBilinear, _, _ => ObsErr
  | _, [0], TQ1 vals =>
      match glook Nat.eqb 0 tpis with
      | Some t => getitem1 bounds (meth_of name params) (nth 0 shape 0) t vals ix
      | None => ObsErr
      end
  | _, _, _ => ObsErr
  end.

Definition getitem_sa := getitem_sa_gen true true.

(* ------------------------------------------------------------------ *)
(* Superseded / seeded variants of the arithmetic (one subsampled dimension,
   linear, coordinates), for Refuted.v.
   [sub]: how ub - ua is formed; [srnd]: rounding applied to the coefficient s. *)
Definition raw1_g (sub : Q -> Q -> Q) (srnd : Q -> Q) (tp : list Q) (A : area) : list Q :=
  map (fun s => (tpv tp (a_k A) + srnd s * sub (tpv tp (S (a_k A))) (tpv tp (a_k A)))%Q)
      (linspace (s_size false A)).
Definition dec1_g (sub : Q -> Q -> Q) (srnd : Q -> Q) (tpi : list nat) (tp : list Q) : store1 :=
  fold_left (fun u A i => if cov A i
                          then Some (nth (i - a_lo A) (map (fun x => [x]) (trim (a_first A) (raw1_g sub srnd tp A))) [])
                          else u i)
            (subareas tpi) (fun _ => None).

(* two's complement wrap-around of an n-bit integer *)
Definition wrap (n : Z) (z : Z) : Z := ((z + 2 ^ (n - 1)) mod 2 ^ n - 2 ^ (n - 1))%Z.

(* round to nearest, ties to even *)
Definition round_half_even (q : Q) : Z :=
  let n := Qnum q in let d := Zpos (Qden q) in
  let f := (n / d)%Z in
  let r2 := (2 * (n - f * d))%Z in
  if (r2 <? d)%Z then f else if (d <? r2)%Z then (f + 1)%Z else if Z.even f then f else (f + 1)%Z.

(* rounding of a rational to IEEE binary32 (normal range only) *)
Definition round_f32 (q : Q) : Q :=
  if Qeq_bool q 0 then 0%Q else
  let a := Qabs q in
  let e0 := (Z.log2 (Qnum a) - Z.log2 (Zpos (Qden a)))%Z in
  let e := if Qle_bool (Qpower 2 e0) a then e0 else (e0 - 1)%Z in
  let sh := (e - 23)%Z in
  let r := (inject_Z (round_half_even (a / Qpower 2 sh)) * Qpower 2 sh)%Q in
  if Qle_bool 0 q then r else (- r)%Q.

(* the code before handoff/C16-fix3-1: ub - ua was formed in the stored type *)
Definition sub_stored (ty : sty) (ub ua : Q) : Q :=
  let zi (n : Z) := inject_Z (wrap n (Qnum (Qred (ub - ua)))) in
  match ty with
  | SI16 => zi 16%Z | SI32 => zi 32%Z | SI64 => zi 64%Z
  | SF32 => round_f32 (ub - ua)
  | SF64 => (ub - ua)%Q
  end.
Definition dec1_stored_arith (ty : sty) := dec1_g (sub_stored ty) (fun s => s).

(* a variant in which the coefficient s is computed in
   numpy.result_type(stored type, float32) *)
Definition s_in_result_type (ty : sty) (s : Q) : Q :=
  match ty with SF32 | SI16 => round_f32 s | _ => s end.
Definition dec1_s32 (ty : sty) := dec1_g Qminus (s_in_result_type ty).
