(* C16 - the property theorems, nothing else.  Each is closed by [exact] of a
   lemma from Lemmas.v and followed by Print Assumptions.

   Vocabulary (Lemmas.v):  incr = strictly increasing tie point indices;
   areas_ok = every continuous area holds at least two tie points;
   span A = the uncompressed indices assigned by subarea A;
   cell_eq c x = the cell is present, holds one value, and that value == x (in Q);
   dec1 bounds method tpi tp = the uncompressed array (index -> optional cell)
   along one subsampled dimension. *)
From CfdmV Require Import Common.Base C16.Model C16.Lemmas.
From Coq Require Import QArith.
Open Scope nat_scope.

(* The subarea bookkeeping partitions the uncompressed dimension: the index
   ranges assigned by the subareas, in order, are exactly 0 .. last tie point
   index, each index once - for every strictly increasing tie point index
   vector starting at 0 in which every continuous area has at least two tie
   points. *)
Theorem C16_partition :
  forall tpi, incr tpi -> hd 0 tpi = 0 -> areas_ok tpi ->
  concat (map span (subareas tpi)) = seq 0 (S (last tpi 0)).
Proof. exact partition. Qed.
Print Assumptions C16_partition.

(* Without the guard the statement is false of the faithful model (F16a):
   tie point indices [0;1;5] leave index 0 unassigned. *)
Theorem C16_partition_unguarded_refuted :
  exists tpi, incr tpi /\ hd 0 tpi = 0 /\
    concat (map span (subareas tpi)) <> seq 0 (S (last tpi 0)).
Proof. exact partition_unguarded_refuted. Qed.
Print Assumptions C16_partition_unguarded_refuted.

(* Non-vacuity: the vector of cfdm's own unit test meets the hypotheses and
   splits into three blocks (the second one without its shared first point). *)
Theorem C16_partition_example :
  incr [0; 4; 7; 8; 11] /\ hd 0 [0; 4; 7; 8; 11] = 0 /\ areas_ok [0; 4; 7; 8; 11] /\
  map span (subareas [0; 4; 7; 8; 11]) = [[0; 1; 2; 3; 4]; [5; 6; 7]; [8; 9; 10; 11]].
Proof. exact partition_example. Qed.
Print Assumptions C16_partition_example.

(* Linear interpolation equals the CF Appendix J formula: for every pair of
   consecutive tie point indices a < b more than one apart (an interpolation
   subarea) and every index i with a <= i <= b - both tie points included, so
   also where two subareas share a tie point - the uncompressed value is
   ua + s (ub - ua) with s = (i - a) / (b - a).  No guard is needed. *)
Theorem C16_linear_spec :
  forall tpi tp m a b i,
  incr tpi -> nth_error tpi m = Some a -> nth_error tpi (S m) = Some b -> 2 <= b - a ->
  a <= i <= b ->
  cell_eq (dec1 false Linear tpi tp i) (fl (tpv tp m) (tpv tp (S m)) (qn (i - a) / qn (b - a))).
Proof. exact linear_spec. Qed.
Print Assumptions C16_linear_spec.

(* Quadratic interpolation: the same with the coefficient w of that subarea,
   subareas being numbered along the subarea dimension (nsub tpi m = number of
   interpolation subareas before pair m). *)
Theorem C16_quadratic_spec :
  forall tpi tp ws m a b i,
  incr tpi -> nth_error tpi m = Some a -> nth_error tpi (S m) = Some b -> 2 <= b - a ->
  a <= i <= b ->
  cell_eq (dec1 false (Quadratic (Some ws)) tpi tp i)
          (fq (tpv tp m) (tpv tp (S m)) (nth (nsub tpi m) ws 0%Q) (qn (i - a) / qn (b - a))).
Proof. exact quadratic_spec. Qed.
Print Assumptions C16_quadratic_spec.

Theorem C16_linear_spec_example :
  cell_eq (dec1 false Linear [0; 4; 7; 8; 11] [15#1; 135#1; 225#1; 255#1; 345#1]%Q 5) (165#1)%Q.
Proof. exact linear_spec_example. Qed.
Print Assumptions C16_linear_spec_example.

(* Every tie point is reproduced exactly at its tie point index (any of the
   modelled methods), provided every continuous area has two tie points. *)
Theorem C16_tie_exact :
  forall meth tpi tp m a,
  incr tpi -> areas_ok tpi -> nth_error tpi m = Some a ->
  cell_eq (dec1 false meth tpi tp a) (tpv tp m).
Proof. exact tie_exact. Qed.
Print Assumptions C16_tie_exact.

(* F16a: without the guard the tie point of a one-point area is missing. *)
Theorem C16_tie_exact_unguarded_refuted :
  exists tpi tp m a, incr tpi /\ hd 0 tpi = 0 /\ nth_error tpi m = Some a /\
                     dec1 false Linear tpi tp a = None.
Proof. exact tie_exact_unguarded_refuted. Qed.
Print Assumptions C16_tie_exact_unguarded_refuted.

(* No element of the target dimension is left missing (coordinates and bounds). *)
Theorem C16_no_missing :
  forall bounds meth tpi tp i,
  incr tpi -> hd 0 tpi = 0 -> areas_ok tpi -> i <= last tpi 0 ->
  exists c, dec1 bounds meth tpi tp i = Some c.
Proof. exact no_missing. Qed.
Print Assumptions C16_no_missing.

(* Bounds, one subsampled dimension (cfdm's reading of CF 8.3.9): a subarea
   that starts a continuous area covers cells a..b, any other a+1..b; the
   bounds of cell i are two consecutive points of n+1 equally spaced points
   between the two bounds tie points, n the number of cells. *)
Theorem C16_bounds_spec :
  forall meth tpi tp m a b i,
  incr tpi -> nth_error tpi m = Some a -> nth_error tpi (S m) = Some b -> 2 <= b - a ->
  let lo := if first_at true tpi m then a else S a in
  let f := f1 meth (mkA a b m (nsub tpi m) (first_at true tpi m)) (tpv tp m) (tpv tp (S m)) in
  lo <= i <= b ->
  dec1 true meth tpi tp i =
  Some [f (qn (i - lo) / qn (b + 1 - lo))%Q; f (qn (S (i - lo)) / qn (b + 1 - lo))%Q].
Proof. exact bounds_spec. Qed.
Print Assumptions C16_bounds_spec.

(* Consecutive cells of a subarea share a bound (identical terms, not merely equal values). *)
Theorem C16_bounds_contiguous :
  forall meth tpi tp m a b i,
  incr tpi -> nth_error tpi m = Some a -> nth_error tpi (S m) = Some b -> 2 <= b - a ->
  (if first_at true tpi m then a else S a) <= i -> S i <= b ->
  exists x y z, dec1 true meth tpi tp i = Some [x; y] /\ dec1 true meth tpi tp (S i) = Some [y; z].
Proof. exact bounds_contiguous. Qed.
Print Assumptions C16_bounds_contiguous.

(* Bounds tie points are reproduced exactly: the lower bound of the first cell
   of a subarea and the upper bound of its last cell are its two bounds tie
   points; hence subareas sharing a tie point agree at the shared boundary. *)
Theorem C16_bounds_tie :
  forall meth tpi tp m a b,
  incr tpi -> nth_error tpi m = Some a -> nth_error tpi (S m) = Some b -> 2 <= b - a ->
  let lo := if first_at true tpi m then a else S a in
  exists x0 y0 x1 y1,
    dec1 true meth tpi tp lo = Some [x0; y0] /\ (x0 == tpv tp m)%Q /\
    dec1 true meth tpi tp b = Some [x1; y1] /\ (y1 == tpv tp (S m))%Q.
Proof. exact bounds_tie. Qed.
Print Assumptions C16_bounds_tie.

Theorem C16_bounds_example :
  map (dec1 true Linear [0; 3; 7] [0#1; 16#1; 32#1]%Q) [0; 3; 4; 7] =
  [Some [0#1; 4#1]; Some [12#1; 16#1]; Some [16#1; 20#1]; Some [28#1; 32#1]]%Q.
Proof. exact bounds_example. Qed.
Print Assumptions C16_bounds_example.

(* Which subareas exist: every pair of consecutive tie point indices more
   than one apart, with its position in the tie point dimension, its number
   along the subarea dimension, and flagged first iff it is the first pair or
   follows a pair of adjacent indices. *)
Theorem C16_subareas_spec :
  forall tpi m a b,
  nth_error tpi m = Some a -> nth_error tpi (S m) = Some b -> 2 <= b - a ->
  In (mkA a b m (nsub tpi m) (first_at true tpi m)) (subareas tpi).
Proof. exact subareas_spec. Qed.
Print Assumptions C16_subareas_spec.

(* Bi-linear interpolation, per block: every element assigned by a pair of
   subareas (one per subsampled dimension) holds
   fl(fl(ua,uc,s2), fl(ub,ud,s2), s1) computed from that pair's four tie points. *)
Theorem C16_bilinear_block :
  forall tpi2 tpi1 T A2 A1 i2 i1,
  incr tpi2 -> incr tpi1 -> In A2 (subareas tpi2) -> In A1 (subareas tpi1) ->
  cov A2 i2 = true -> cov A1 i1 = true ->
  dec2 false tpi2 tpi1 T i2 i1 =
  let s2 := (qn (i2 - a_ia A2) / qn (a_ib A2 - a_ia A2))%Q in
  let s1 := (qn (i1 - a_ia A1) / qn (a_ib A1 - a_ia A1))%Q in
  Some [fl (fl (tpv2 T (a_k A2) (a_k A1)) (tpv2 T (S (a_k A2)) (a_k A1)) s2)
           (fl (tpv2 T (a_k A2) (S (a_k A1))) (tpv2 T (S (a_k A2)) (S (a_k A1))) s2) s1].
Proof. exact bilinear_spec. Qed.
Print Assumptions C16_bilinear_block.

(* Bi-linear interpolation equals the CF Appendix J formula: for every
   interpolation subarea in each of the two subsampled dimensions (pairs of
   consecutive tie point indices more than one apart) and every element inside
   it, all four edges and corners included - so also where up to four
   subareas share a tie point - the value is
   fl(fl(ua,uc,s2), fl(ub,ud,s2), s1), s_d = (i_d - a_d)/(b_d - a_d).  No guard. *)
Theorem C16_bilinear_spec :
  forall tpi2 tpi1 T m2 a2 b2 i2 m1 a1 b1 i1,
  incr tpi2 -> incr tpi1 ->
  nth_error tpi2 m2 = Some a2 -> nth_error tpi2 (S m2) = Some b2 -> 2 <= b2 - a2 -> a2 <= i2 <= b2 ->
  nth_error tpi1 m1 = Some a1 -> nth_error tpi1 (S m1) = Some b1 -> 2 <= b1 - a1 -> a1 <= i1 <= b1 ->
  let s2 := (qn (i2 - a2) / qn (b2 - a2))%Q in
  let s1 := (qn (i1 - a1) / qn (b1 - a1))%Q in
  cell_eq (dec2 false tpi2 tpi1 T i2 i1)
          (fl (fl (tpv2 T m2 m1) (tpv2 T (S m2) m1) s2)
              (fl (tpv2 T m2 (S m1)) (tpv2 T (S m2) (S m1)) s2) s1).
Proof. exact bilinear_full. Qed.
Print Assumptions C16_bilinear_spec.

Theorem C16_bilinear_example :
  exists x, dec2 false [0; 4] [0; 4; 8] [[0#1; 64#1; 128#1]; [1024#1; 2048#1; 4096#1]]%Q 1 5 = Some [x]
            /\ (x == 700#1)%Q.
Proof. exact bilinear_example. Qed.
Print Assumptions C16_bilinear_example.

(* Any subspace of the coordinates equals the same orthogonal selection of the
   whole uncompressed array - including the two index patterns for which
   __getitem__ returns the first / last tie point without uncompressing. *)
Theorem C16_subspace :
  forall meth tpi tp n ix,
  incr tpi -> hd 0 tpi = 0 -> areas_ok tpi -> length tp = length tpi -> n = S (last tpi 0) ->
  obs_equiv (getitem1 false meth n tpi tp [ix])
            (ObsArr [length (positions n ix)]
                    (take1 (dec1 false meth tpi tp) (positions n ix) [0])).
Proof. exact subspace1. Qed.
Print Assumptions C16_subspace.

(* F16a again: with a one-point first area, coord[0] is the tie point while
   coord.array[0] is missing. *)
Theorem C16_subspace_unguarded_refuted :
  exists tpi tp n ix, incr tpi /\ hd 0 tpi = 0 /\ length tp = length tpi /\ n = S (last tpi 0) /\
    ~ obs_equiv (getitem1 false Linear n tpi tp [ix])
                (ObsArr [length (positions n ix)]
                        (take1 (dec1 false Linear tpi tp) (positions n ix) [0])).
Proof. exact subspace1_unguarded_refuted. Qed.
Print Assumptions C16_subspace_unguarded_refuted.

(* ------------------------------------------------------------------ *)
(* Third pass: the constructor arguments of SubsampledArray. *)

(* The reconstituted array (whole or any subspace) is invariant under the
   insertion order of every dictionary argument: tie_point_indices,
   parameters, parameter_dimensions (association lists with distinct keys,
   any permutation). *)
Theorem C16_dict_order_invariant :
  forall name bounds shape ty tp tpis tpis' params params' pdims pdims' prec ix,
  NoDup (map fst tpis) -> Permutation.Permutation tpis tpis' ->
  NoDup (map fst params) -> Permutation.Permutation params params' ->
  Permutation.Permutation pdims pdims' ->
  getitem_sa name bounds shape ty tp tpis params pdims prec ix =
  getitem_sa name bounds shape ty tp tpis' params' pdims' prec ix.
Proof. exact dict_order_invariant. Qed.
Print Assumptions C16_dict_order_invariant.

(* Non-vacuity: tie_point_indices given as {1: ..., 0: ...}; the four bounds of
   cell (0,0) come out in the order (i,j) (i,j+1) (i+1,j+1) (i+1,j). *)
Theorem C16_dict_order_example :
  getitem_sa IBilinear true [4; 8] SF64
    (TP2 [[NInt 0; NInt 64; NInt 128]; [NInt 1024; NInt 2048; NInt 4096]])
    [(1, [0; 3; 7]); (0, [0; 3])] [] [] None [IPos [0]; IPos [0]; IPos [0; 1; 2; 3]] =
  ObsArr [1; 1; 4] [Some (0#1); Some (16#1); Some (332#1); Some (256#1)]%Q.
Proof. exact dict_order_example. Qed.
Print Assumptions C16_dict_order_example.

(* The type in which the tie points are stored does not enter: two tie point
   arrays of any storage types (int16/32/64, float32/64) holding the same
   numbers give the same uncompressed array, which is therefore the double
   precision Appendix J value of the injected tie points (C16_linear_spec,
   C16_quadratic_spec, C16_bilinear_spec, C16_tie_exact, C16_bounds_* are
   stated over those injected values). *)
Theorem C16_stored_type_irrelevant :
  forall name bounds shape ty ty' tp tp' tpis params pdims prec ix,
  tp_same tp tp' ->
  getitem_sa name bounds shape ty tp tpis params pdims prec ix =
  getitem_sa name bounds shape ty' tp' tpis params pdims prec ix.
Proof. exact stored_type_irrelevant. Qed.
Print Assumptions C16_stored_type_irrelevant.

Theorem C16_stored_type_example :
  tp_same (TP1 [NInt 3; NInt 8]) (TP1 [NFlt 6 (-1); NFlt 1 3]).
Proof. exact stored_type_example. Qed.
Print Assumptions C16_stored_type_example.
