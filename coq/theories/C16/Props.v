(* C16 - the property theorems, nothing else.  Each is closed by [exact] of a
   lemma from Lemmas.v and followed by Print Assumptions.

   Vocabulary (Lemmas.v):  incr = strictly increasing tie point indices;
   areas_ok = every continuous area holds at least two tie points;
   span A = the uncompressed indices assigned by subarea A;
   cell_eq c x = the cell is present, holds one value, and that value == x (in Q);
   dec1 bounds method tpi tp = the uncompressed array (index -> optional cell)
   along one subsampled dimension. *)
From CfdmV Require Import Common.Base C16.Model C16.Lemmas.
From Coq Require Import QArith.
Open Scope nat_scope.

(* The subarea bookkeeping partitions the uncompressed dimension: the index
   ranges assigned by the subareas, in order, are exactly 0 .. last tie point
   index, each index once - for every strictly increasing tie point index
   vector starting at 0 in which every continuous area has at least two tie
   points. *)
Theorem C16_partition :
  forall tpi, incr tpi -> hd 0 tpi = 0 -> areas_ok tpi ->
  concat (map span (subareas tpi)) = seq 0 (S (last tpi 0)).
Proof. exact partition. Qed.
Print Assumptions C16_partition.

(* Without the guard the statement is false of the faithful model (F16a):
   tie point indices [0;1;5] leave index 0 unassigned. *)
Theorem C16_partition_unguarded_refuted :
  exists tpi, incr tpi /\ hd 0 tpi = 0 /\
    concat (map span (subareas tpi)) <> seq 0 (S (last tpi 0)).
Proof. exact partition_unguarded_refuted. Qed.
Print Assumptions C16_partition_unguarded_refuted.

(* Non-vacuity: the vector of cfdm's own unit test meets the hypotheses and
   splits into three blocks (the second one without its shared first point). *)
Theorem C16_partition_example :
  incr [0; 4; 7; 8; 11] /\ hd 0 [0; 4; 7; 8; 11] = 0 /\ areas_ok [0; 4; 7; 8; 11] /\
  map span (subareas [0; 4; 7; 8; 11]) = [[0; 1; 2; 3; 4]; [5; 6; 7]; [8; 9; 10; 11]].
Proof. exact partition_example. Qed.
Print Assumptions C16_partition_example.

(* Linear interpolation equals the CF Appendix J formula: for every pair of
   consecutive tie point indices a < b more than one apart (an interpolation
   subarea) and every index i with a <= i <= b - both tie points included, so
   also where two subareas share a tie point - the uncompressed value is
   ua + s (ub - ua) with s = (i - a) / (b - a).  No guard is needed. *)
Theorem C16_linear_spec :
  forall tpi tp m a b i,
  incr tpi -> nth_error tpi m = Some a -> nth_error tpi (S m) = Some b -> 2 <= b - a ->
  a <= i <= b ->
  cell_eq (dec1 false Linear tpi tp i) (fl (tpv tp m) (tpv tp (S m)) (qn (i - a) / qn (b - a))).
Proof. exact linear_spec. Qed.
Print Assumptions C16_linear_spec.

(* Quadratic interpolation: the same with the coefficient w of that subarea,
   subareas being numbered along the subarea dimension (nsub tpi m = number of
   interpolation subareas before pair m). *)
Theorem C16_quadratic_spec :
  forall tpi tp ws m a b i,
  incr tpi -> nth_error tpi m = Some a -> nth_error tpi (S m) = Some b -> 2 <= b - a ->
  a <= i <= b ->
  cell_eq (dec1 false (Quadratic (Some ws)) tpi tp i)
          (fq (tpv tp m) (tpv tp (S m)) (nth (nsub tpi m) ws 0%Q) (qn (i - a) / qn (b - a))).
Proof. exact quadratic_spec. Qed.
Print Assumptions C16_quadratic_spec.

Theorem C16_linear_spec_example :
  cell_eq (dec1 false Linear [0; 4; 7; 8; 11] [15#1; 135#1; 225#1; 255#1; 345#1]%Q 5) (165#1)%Q.
Proof. exact linear_spec_example. Qed.
Print Assumptions C16_linear_spec_example.

(* Every tie point is reproduced exactly at its tie point index (any of the
   modelled methods), provided every continuous area has two tie points. *)
Theorem C16_tie_exact :
  forall meth tpi tp m a,
  incr tpi -> areas_ok tpi -> nth_error tpi m = Some a ->
  cell_eq (dec1 false meth tpi tp a) (tpv tp m).
Proof. exact tie_exact. Qed.
Print Assumptions C16_tie_exact.

(* F16a: without the guard the tie point of a one-point area is missing. *)
Theorem C16_tie_exact_unguarded_refuted :
  exists tpi tp m a, incr tpi /\ hd 0 tpi = 0 /\ nth_error tpi m = Some a /\
                     dec1 false Linear tpi tp a = None.
Proof. exact tie_exact_unguarded_refuted. Qed.
Print Assumptions C16_tie_exact_unguarded_refuted.

(* No element of the target dimension is left missing (coordinates and bounds). *)
Theorem C16_no_missing :
  forall bounds meth tpi tp i,
  incr tpi -> hd 0 tpi = 0 -> areas_ok tpi -> i <= last tpi 0 ->
  exists c, dec1 bounds meth tpi tp i = Some c.
Proof. exact no_missing. Qed.
Print Assumptions C16_no_missing.
