(* C16 - proofs about the model of subsampled-coordinate reconstitution. *)
From CfdmV Require Import Common.Base C16.Model.
From Coq Require Import QArith Sorted.
Open Scope nat_scope.

(* ------------------------------------------------------------------ *)
(* Vocabulary of the statements *)

(* strictly increasing tie point indices *)
Definition incr (l : list nat) : Prop := StronglySorted lt l.

(* every continuous area holds at least two tie points.  [joined]: the head
   of the list is joined to its predecessor by an interpolation subarea *)
Fixpoint ok_from (joined : bool) (l : list nat) : bool :=
  match l with
  | [] => joined
  | a :: r =>
      match r with
      | [] => joined
      | b :: _ => if b - a <=? 1 then joined && ok_from false r else ok_from true r
      end
  end.
Definition areas_ok (l : list nat) : Prop := ok_from false l = true.

(* the uncompressed indices assigned by a subarea *)
Definition span (A : area) : list nat := seq (a_lo A) (a_ib A + 1 - a_lo A).

(* number of interpolation subareas before pair m *)
Fixpoint nsub (l : list nat) (m : nat) : nat :=
  match m, l with
  | S m', a :: r =>
      match r with
      | b :: _ => (if b - a <=? 1 then 0 else 1) + nsub r m'
      | [] => 0
      end
  | _, _ => 0
  end.

(* is pair m the first subarea of a continuous area *)
Definition first_at (f : bool) (l : list nat) (m : nat) : bool :=
  match m with
  | 0 => f
  | S m' => nth m l 0 - nth m' l 0 <=? 1
  end.

(* ------------------------------------------------------------------ *)
(* basic facts *)

Lemma incr_tail a r : incr (a :: r) -> incr r.
Proof. intro H. inversion H; assumption. Qed.

Lemma incr_head a b r : incr (a :: b :: r) -> a < b.
Proof. intro H. inversion H as [|? ? ? HF]; subst. inversion HF; assumption. Qed.

Lemma incr_last_ge l : forall a, incr (a :: l) -> a <= last (a :: l) 0.
Proof.
  induction l as [|b r IH]; intros a H; [simpl; lia|].
  pose proof (incr_head _ _ _ H). apply incr_tail in H. specialize (IH b H).
  change (last (a :: b :: r) 0) with (last (b :: r) 0). lia.
Qed.

Definition start (f : bool) (a : nat) : nat := if f then a else S a.

(* every subarea produced from a list lies to the right of its head *)
Lemma areas_lo_ge : forall l k j f A, incr l -> In A (areas_from k j f l) ->
  start f (hd 0 l) <= a_lo A /\ a_lo A <= a_ib A /\ a_ia A < a_ib A.
Proof.
  induction l as [|a r IH]; intros k j f A HI HA; [destruct HA|].
  destruct r as [|b r']; [destruct HA|].
  pose proof (incr_head _ _ _ HI) as Hab. pose proof (incr_tail _ _ HI) as HI'.
  cbn [areas_from] in HA. destruct (b - a <=? 1) eqn:E.
  - apply (IH _ _ _ _ HI') in HA. unfold start in *; cbn [hd] in *. destruct f; lia.
  - apply Nat.leb_gt in E. destruct HA as [HA|HA].
    + subst A. unfold a_lo, start; cbn. destruct f; cbn; lia.
    + apply (IH _ _ _ _ HI') in HA. unfold start in *; cbn [hd] in *. destruct f; lia.
Qed.

(* two subareas of the same list never assign the same element *)
Lemma cov_unique : forall l k j f A A' i, incr l ->
  In A (areas_from k j f l) -> In A' (areas_from k j f l) ->
  cov A i = true -> cov A' i = true -> A = A'.
Proof.
  induction l as [|a r IH]; intros k j f A A' i HI HA HA' HC HC'; [destruct HA|].
  destruct r as [|b r']; [destruct HA|].
  pose proof (incr_tail _ _ HI) as HI'.
  cbn [areas_from] in HA, HA'. destruct (b - a <=? 1) eqn:E.
  - eapply IH; eauto.
  - unfold cov in HC, HC'. apply andb_true_iff in HC as [H1 H2]. apply andb_true_iff in HC' as [H3 H4].
    apply Nat.leb_le in H1, H2, H3, H4.
    destruct HA as [HA|HA]; destruct HA' as [HA'|HA'].
    + congruence.
    + subst A. apply (areas_lo_ge _ _ _ _ _ HI') in HA'. cbn in *. lia.
    + subst A'. apply (areas_lo_ge _ _ _ _ _ HI') in HA. cbn in *. lia.
    + eapply (IH (S k) (S j) false A A' i HI' HA HA');
        unfold cov; apply andb_true_iff; split; apply Nat.leb_le; lia.
Qed.

(* membership: pair m of the list, when more than one apart, is a subarea
   with the expected tie point position, number and first flag *)
Lemma areas_member : forall l k j f m a b,
  nth_error l m = Some a -> nth_error l (S m) = Some b -> 2 <= b - a ->
  In (mkA a b (k + m) (j + nsub l m) (first_at f l m)) (areas_from k j f l).
Proof.
  induction l as [|x r IH]; intros k j f m a b Ha Hb Hg; [destruct m; discriminate|].
  destruct r as [|y r']; [destruct m; [discriminate|destruct m; discriminate]|].
  destruct m as [|m'].
  - cbn in Ha, Hb. inversion Ha; inversion Hb; subst.
    cbn [areas_from]. destruct (b - a <=? 1) eqn:E; [apply Nat.leb_le in E; lia|].
    left. cbn. f_equal; lia.
  - cbn [nth_error] in Ha, Hb.
    cbn [areas_from]. destruct (y - x <=? 1) eqn:E.
    + specialize (IH (S k) j true m' a b Ha Hb Hg).
      replace (k + S m') with (S k + m') by lia.
      replace (j + nsub (x :: y :: r') (S m')) with (j + nsub (y :: r') m')
        by (cbn [nsub]; rewrite E; lia).
      replace (first_at f (x :: y :: r') (S m')) with (first_at true (y :: r') m'); [exact IH|].
      destruct m'; cbn; [rewrite E; reflexivity|reflexivity].
    + right. specialize (IH (S k) (S j) false m' a b Ha Hb Hg).
      replace (k + S m') with (S k + m') by lia.
      replace (j + nsub (x :: y :: r') (S m')) with (S j + nsub (y :: r') m')
        by (cbn [nsub]; rewrite E; lia).
      replace (first_at f (x :: y :: r') (S m')) with (first_at false (y :: r') m'); [exact IH|].
      destruct m'; cbn; [rewrite E; reflexivity|reflexivity].
Qed.

(* ------------------------------------------------------------------ *)
(* C16_partition *)

Lemma areas_from_cons2 k j f a b r :
  areas_from k j f (a :: b :: r) =
  if b - a <=? 1 then areas_from (S k) j true (b :: r)
  else mkA a b k j f :: areas_from (S k) (S j) false (b :: r).
Proof. reflexivity. Qed.

Lemma ok_from_cons2 joined a b r :
  ok_from joined (a :: b :: r) =
  if b - a <=? 1 then joined && ok_from false (b :: r) else ok_from true (b :: r).
Proof. reflexivity. Qed.

Lemma partition_gen : forall l k j joined, incr l -> l <> [] -> ok_from joined l = true ->
  concat (map span (areas_from k j (negb joined) l)) =
  seq (start (negb joined) (hd 0 l)) (S (last l 0) - start (negb joined) (hd 0 l)).
Proof.
  induction l as [|a r IH]; intros k j joined HI HN HO; [congruence|].
  destruct r as [|b r'].
  - cbn in HO. subst joined. cbn. replace (a - a) with 0 by lia. reflexivity.
  - pose proof (incr_head _ _ _ HI) as Hab. pose proof (incr_tail _ _ HI) as HI'.
    pose proof (incr_last_ge _ _ HI') as HL.
    change (last (a :: b :: r') 0) with (last (b :: r') 0).
    rewrite ok_from_cons2 in HO. rewrite areas_from_cons2. cbn [hd]. destruct (b - a <=? 1) eqn:E.
    + apply andb_true_iff in HO as [HJ HO]. subst joined.
      apply Nat.leb_le in E. assert (b = S a) by lia. subst b.
      pose proof (IH (S k) j false HI' ltac:(discriminate) HO) as P. cbn [negb] in P.
      rewrite P. unfold start. cbn [negb hd]. reflexivity.
    + apply Nat.leb_gt in E.
      cbn [map concat]. pose proof (IH (S k) (S j) true HI' ltac:(discriminate) HO) as P. cbn [negb] in P.
      rewrite P. unfold start. cbn [negb hd]. unfold span, a_lo; cbn [a_first a_ia a_ib].
      set (lo := if negb joined then a else S a).
      assert (lo <= b) by (unfold lo; destruct joined; cbn; lia).
      replace (S (last (b :: r') 0) - lo) with ((b + 1 - lo) + (S (last (b :: r') 0) - S b)) by lia.
      rewrite seq_app. f_equal. f_equal. lia.
Qed.

Lemma partition : forall tpi, incr tpi -> hd 0 tpi = 0 -> areas_ok tpi ->
  concat (map span (subareas tpi)) = seq 0 (S (last tpi 0)).
Proof.
  intros tpi HI H0 HO. destruct tpi as [|a r]; [discriminate HO|].
  pose proof (partition_gen (a :: r) 0 0 false HI ltac:(discriminate) HO) as P.
  cbn [negb start] in P. rewrite H0 in P. rewrite Nat.sub_0_r in P. exact P.
Qed.

Lemma partition_unguarded_refuted :
  exists tpi, incr tpi /\ hd 0 tpi = 0 /\
    concat (map span (subareas tpi)) <> seq 0 (S (last tpi 0)).
Proof.
  exists [0; 1; 5]. split; [|split; [reflexivity|vm_compute; discriminate]].
  repeat constructor.
Qed.

Lemma partition_example :
  incr [0; 4; 7; 8; 11] /\ hd 0 [0; 4; 7; 8; 11] = 0 /\ areas_ok [0; 4; 7; 8; 11] /\
  map span (subareas [0; 4; 7; 8; 11]) = [[0; 1; 2; 3; 4]; [5; 6; 7]; [8; 9; 10; 11]].
Proof. split; [repeat constructor|split; [reflexivity|split; reflexivity]]. Qed.

(* ------------------------------------------------------------------ *)
(* the uncompressed array is determined by the covering subarea *)

Lemma find_app {X} (p : X -> bool) (l1 l2 : list X) :
  find p (l1 ++ l2) = match find p l1 with Some x => Some x | None => find p l2 end.
Proof. induction l1 as [|x r IH]; cbn; [reflexivity|]. destruct (p x); auto. Qed.

Lemma fold_step1 b m tp : forall L u i,
  fold_left (step1 b m tp) L u i =
  match find (fun A => cov A i) (rev L) with
  | Some A => Some (nth (i - a_lo A) (block1 b m tp A) [])
  | None => u i
  end.
Proof.
  induction L as [|A L IH]; intros u i; cbn [fold_left rev find]; [reflexivity|].
  rewrite IH, find_app. destruct (find (fun A0 => cov A0 i) (rev L)); [reflexivity|].
  cbn [find]. unfold step1. cbv zeta beta. destruct (cov A i); reflexivity.
Qed.

Lemma dec1_at b m tpi tp A i : incr tpi -> In A (subareas tpi) -> cov A i = true ->
  dec1 b m tpi tp i = Some (nth (i - a_lo A) (block1 b m tp A) []).
Proof.
  intros HI HA HC. unfold dec1. rewrite fold_step1.
  destruct (find (fun A0 => cov A0 i) (rev (subareas tpi))) as [A'|] eqn:F.
  - apply find_some in F as [F1 F2]. apply in_rev in F1.
    rewrite (cov_unique _ _ _ _ _ _ _ HI HA F1 HC F2). reflexivity.
  - pose proof (find_none _ _ F A (proj1 (in_rev _ _) HA)) as F'. cbn in F'. congruence.
Qed.

Lemma dec1_none b m tpi tp i : (forall A, In A (subareas tpi) -> cov A i = false) ->
  dec1 b m tpi tp i = None.
Proof.
  intros H. unfold dec1. rewrite fold_step1.
  destruct (find (fun A0 => cov A0 i) (rev (subareas tpi))) as [A'|] eqn:F; [|reflexivity].
  apply find_some in F as [F1 F2]. apply in_rev in F1. rewrite (H _ F1) in F2. discriminate.
Qed.

(* ------------------------------------------------------------------ *)
(* values inside a subarea *)

Lemma nth_map_seq {X} (g : nat -> X) size jj d : jj < size -> nth jj (map g (seq 0 size)) d = g jj.
Proof.
  intro H. rewrite (nth_indep _ d (g 0)) by (rewrite map_length, seq_length; exact H).
  rewrite map_nth, seq_nth by exact H. reflexivity.
Qed.

Lemma linspace_length size : length (linspace size) = size.
Proof. unfold linspace. rewrite map_length, seq_length. reflexivity. Qed.

Lemma raw1_nth b m tp A jj : jj < s_size b A ->
  nth jj (raw1 b m tp A) 0%Q =
  f1 m A (tpv tp (a_k A)) (tpv tp (S (a_k A))) (qn jj / qn (s_size b A - 1))%Q.
Proof.
  intro H. unfold raw1, linspace. rewrite map_map. rewrite nth_map_seq by exact H. reflexivity.
Qed.

Lemma raw1_length b m tp A : length (raw1 b m tp A) = s_size b A.
Proof. unfold raw1. rewrite map_length, linspace_length. reflexivity. Qed.

Lemma nth_tl {X} (l : list X) n d : nth n (tl l) d = nth (S n) l d.
Proof. destruct l; [destruct n; reflexivity|reflexivity]. Qed.

Lemma nth_map_gen {X Y} (f : X -> Y) (l : list X) d d' : forall n, n < length l ->
  nth n (map f l) d' = f (nth n l d).
Proof.
  induction l as [|x r IH]; intros n H; cbn in H; [lia|].
  destruct n; cbn; [reflexivity|]. apply IH. lia.
Qed.

Lemma nth_map_cell (l : list Q) n : n < length l -> nth n (map (fun x => [x]) l) [] = [nth n l 0%Q].
Proof. intro H. apply (nth_map_gen (fun x : Q => [x])). exact H. Qed.

(* coordinates: the element at uncompressed index i of a subarea is raw point i - ia *)
Lemma block1_coord m tp A i : a_ia A < a_ib A -> cov A i = true ->
  nth (i - a_lo A) (block1 false m tp A) [] =
  [f1 m A (tpv tp (a_k A)) (tpv tp (S (a_k A))) (qn (i - a_ia A) / qn (a_ib A - a_ia A))%Q].
Proof.
  intros Hab HC. unfold cov in HC. apply andb_true_iff in HC as [H1 H2].
  apply Nat.leb_le in H1, H2. unfold block1.
  assert (HS : s_size false A = a_ib A - a_ia A + 1)
    by (unfold s_size, a_shape; destruct (a_first A); cbn; lia).
  unfold a_lo in *. destruct (a_first A) eqn:EF; cbn [trim].
  - rewrite nth_map_cell by (rewrite raw1_length; lia).
    rewrite raw1_nth by lia. rewrite HS.
    replace (a_ib A - a_ia A + 1 - 1) with (a_ib A - a_ia A) by lia. reflexivity.
  - rewrite nth_map_cell by (destruct (raw1 false m tp A) eqn:ER;
      [pose proof (raw1_length false m tp A) as L; rewrite ER in L; cbn in L; lia|
       pose proof (raw1_length false m tp A) as L; rewrite ER in L; cbn in L; cbn; lia]).
    rewrite nth_tl. rewrite raw1_nth by lia. rewrite HS.
    replace (a_ib A - a_ia A + 1 - 1) with (a_ib A - a_ia A) by lia.
    replace (S (i - S (a_ia A))) with (i - a_ia A) by lia. reflexivity.
Qed.

(* ------------------------------------------------------------------ *)
(* rational arithmetic of the interpolation functions *)

Lemma qn_nonzero d : d <> 0 -> ~ (qn d == 0)%Q.
Proof. intros H E. unfold qn, Qeq in E. cbn in E. lia. Qed.

Lemma s_zero d : (qn 0 / qn d == 0)%Q.
Proof. unfold Qdiv. change (qn 0) with 0%Q. ring. Qed.

Lemma s_one d : d <> 0 -> (qn d / qn d == 1)%Q.
Proof. intro H. field. apply qn_nonzero; exact H. Qed.

Lemma f1_morph m A ua ub s s' : (s == s')%Q -> (f1 m A ua ub s == f1 m A ua ub s')%Q.
Proof. intro E. unfold f1, fl, fq. destruct m as [|[ws|]]; rewrite !Qred_correct, E; reflexivity. Qed.

Lemma f1_at_0 m A ua ub : (f1 m A ua ub 0 == ua)%Q.
Proof. unfold f1, fl, fq. destruct m as [|[ws|]]; rewrite Qred_correct; ring. Qed.

Lemma f1_at_1 m A ua ub : (f1 m A ua ub 1 == ub)%Q.
Proof. unfold f1, fl, fq. destruct m as [|[ws|]]; rewrite Qred_correct; ring. Qed.

(* ------------------------------------------------------------------ *)
(* C16_interp_spec: inside every interpolation subarea, both tie points
   included, the uncompressed value is the Appendix J formula *)

Definition cell_eq (c : option cell) (x : Q) : Prop :=
  exists y, c = Some [y] /\ (y == x)%Q.

Lemma first_at_false_prev f l m : first_at f l m = false -> f = true ->
  exists m', m = S m' /\ 2 <= nth m l 0 - nth m' l 0.
Proof.
  destruct m as [|m']; cbn; intros H Hf; [congruence|].
  exists m'. split; [reflexivity|]. apply Nat.leb_gt in H. lia.
Qed.

Lemma nth_error_nth (l : list nat) m a : nth_error l m = Some a -> nth m l 0 = a.
Proof. revert m; induction l; destruct m; cbn; intros; try discriminate; [congruence|auto]. Qed.

Lemma nth_error_prev (l : list nat) m a : nth_error l (S m) = Some a -> nth_error l m = Some (nth m l 0).
Proof.
  revert m; induction l as [|x r IH]; intros m H; [destruct m; discriminate|].
  destruct m as [|m]; [reflexivity|]. cbn [nth_error nth]. apply IH. exact H.
Qed.

Lemma cov_mk a b k j (f : bool) i : (if f then a else S a) <= i <= b -> cov (mkA a b k j f) i = true.
Proof.
  intro H. unfold cov, a_lo. cbn [a_first a_ia a_ib].
  apply andb_true_iff; split; apply Nat.leb_le; lia.
Qed.

Lemma interp_spec meth tpi tp m a b i :
  incr tpi -> nth_error tpi m = Some a -> nth_error tpi (S m) = Some b -> 2 <= b - a ->
  a <= i <= b ->
  cell_eq (dec1 false meth tpi tp i)
          (f1 meth (mkA a b m (nsub tpi m) (first_at true tpi m)) (tpv tp m) (tpv tp (S m))
              (qn (i - a) / qn (b - a))).
Proof.
  intros HI Ha Hb Hg Hi.
  pose proof (areas_member tpi 0 0 true m a b Ha Hb Hg) as HM. cbn [plus] in HM.
  set (A := mkA a b m (nsub tpi m) (first_at true tpi m)) in *.
  destruct (Nat.eq_dec i a) as [Eia|Nia].
  2: { (* strictly inside, or the right tie point: this subarea assigns it *)
    assert (HC : cov A i = true).
    { apply cov_mk. destruct (first_at true tpi m); lia. }
    rewrite (dec1_at false meth tpi tp A i HI HM HC).
    rewrite (block1_coord meth tp A i) by (cbn; try lia; exact HC).
    eexists; split; [reflexivity|]. cbn [a_ia a_ib a_k]. reflexivity. }
  subst i. destruct (first_at true tpi m) eqn:EF.
  - (* first subarea of a continuous area: it assigns its own left tie point *)
    assert (HC : cov A a = true).
    { apply cov_mk. try rewrite EF. cbn. lia. }
    rewrite (dec1_at false meth tpi tp A a HI HM HC).
    rewrite (block1_coord meth tp A a) by (cbn; try lia; exact HC).
    eexists; split; [reflexivity|]. cbn [a_ia a_ib a_k]. reflexivity.
  - (* shared tie point: assigned by the previous subarea, at s = 1 *)
    destruct (first_at_false_prev _ _ _ EF eq_refl) as [m' [Em Hg']]. subst m.
    rewrite (nth_error_nth _ _ _ Ha) in Hg'.
    pose proof (nth_error_prev _ _ _ Ha) as Ha'.
    pose proof (areas_member tpi 0 0 true m' (nth m' tpi 0) a Ha' Ha Hg') as HM'. cbn [plus] in HM'.
    set (A' := mkA (nth m' tpi 0) a m' (nsub tpi m') (first_at true tpi m')) in *.
    assert (HC' : cov A' a = true).
    { apply cov_mk. destruct (first_at true tpi m'); lia. }
    rewrite (dec1_at false meth tpi tp A' a HI HM' HC').
    rewrite (block1_coord meth tp A' a) by (cbn; try lia; exact HC').
    eexists; split; [reflexivity|]. subst A A'. cbn [a_ia a_ib a_k].
    transitivity (tpv tp (S m')).
    + etransitivity; [apply f1_morph; apply s_one; lia|apply f1_at_1].
    + symmetry. rewrite Nat.sub_diag.
      etransitivity; [apply f1_morph; apply s_zero|apply f1_at_0].
Qed.

Lemma linear_spec tpi tp m a b i :
  incr tpi -> nth_error tpi m = Some a -> nth_error tpi (S m) = Some b -> 2 <= b - a ->
  a <= i <= b ->
  cell_eq (dec1 false Linear tpi tp i) (fl (tpv tp m) (tpv tp (S m)) (qn (i - a) / qn (b - a))).
Proof. intros. exact (interp_spec Linear tpi tp m a b i H H0 H1 H2 H3). Qed.

Lemma quadratic_spec tpi tp ws m a b i :
  incr tpi -> nth_error tpi m = Some a -> nth_error tpi (S m) = Some b -> 2 <= b - a ->
  a <= i <= b ->
  cell_eq (dec1 false (Quadratic (Some ws)) tpi tp i)
          (fq (tpv tp m) (tpv tp (S m)) (nth (nsub tpi m) ws 0%Q) (qn (i - a) / qn (b - a))).
Proof. intros. exact (interp_spec (Quadratic (Some ws)) tpi tp m a b i H H0 H1 H2 H3). Qed.

Lemma linear_spec_example :
  cell_eq (dec1 false Linear [0; 4; 7; 8; 11] [15#1; 135#1; 225#1; 255#1; 345#1]%Q 5) (165#1)%Q.
Proof. eexists; split; [vm_compute; reflexivity|reflexivity]. Qed.

(* ------------------------------------------------------------------ *)
(* C16_tie_exact, C16_no_missing *)

Lemma ok_adjacent : forall l joined m a, ok_from joined l = true -> nth_error l m = Some a ->
  (m = 0 /\ joined = true) \/
  (exists m' a', m = S m' /\ nth_error l m' = Some a' /\ 2 <= a - a') \/
  (exists b, nth_error l (S m) = Some b /\ 2 <= b - a).
Proof.
  induction l as [|x r IH]; intros joined m a HO Hm; [destruct m; discriminate|].
  destruct r as [|y r'].
  - destruct m as [|m]; [|destruct m; discriminate]. cbn in HO. left. split; [reflexivity|exact HO].
  - rewrite ok_from_cons2 in HO. destruct m as [|m'].
    + cbn in Hm. inversion Hm; subst x. destruct (y - a <=? 1) eqn:E.
      * apply andb_true_iff in HO as [HJ _]. left. split; [reflexivity|exact HJ].
      * apply Nat.leb_gt in E. right. right. exists y. split; [reflexivity|lia].
    + cbn [nth_error] in Hm. destruct (y - x <=? 1) eqn:E.
      * apply andb_true_iff in HO as [_ HO].
        destruct (IH false m' a HO Hm) as [[_ C]|[[m'' [a' [E1 [E2 E3]]]]|[b [E1 E2]]]]; [discriminate| |].
        -- right. left. exists (S m''), a'. subst m'. split; [reflexivity|split; [exact E2|exact E3]].
        -- right. right. exists b. split; [exact E1|exact E2].
      * apply Nat.leb_gt in E.
        destruct (IH true m' a HO Hm) as [[C _]|[[m'' [a' [E1 [E2 E3]]]]|[b [E1 E2]]]].
        -- subst m'. cbn in Hm. inversion Hm; subst y. right. left. exists 0, x.
           split; [reflexivity|split; [reflexivity|lia]].
        -- right. left. exists (S m''), a'. subst m'. split; [reflexivity|split; [exact E2|exact E3]].
        -- right. right. exists b. split; [exact E1|exact E2].
Qed.

Lemma cell_eq_trans c x y : cell_eq c x -> (x == y)%Q -> cell_eq c y.
Proof. intros [z [E1 E2]] E. exists z. split; [exact E1|]. rewrite E2. exact E. Qed.

Lemma tie_exact meth tpi tp m a :
  incr tpi -> areas_ok tpi -> nth_error tpi m = Some a ->
  cell_eq (dec1 false meth tpi tp a) (tpv tp m).
Proof.
  intros HI HO Hm.
  destruct (ok_adjacent tpi false m a HO Hm) as [[_ C]|[[m' [a' [E1 [E2 E3]]]]|[b [E1 E2]]]]; [discriminate| |].
  - subst m.
    eapply cell_eq_trans; [apply (interp_spec meth tpi tp m' a' a a HI E2 Hm E3); lia|].
    etransitivity; [apply f1_morph; apply s_one; lia|apply f1_at_1].
  - eapply cell_eq_trans; [apply (interp_spec meth tpi tp m a b a HI Hm E1 E2); lia|].
    rewrite Nat.sub_diag. etransitivity; [apply f1_morph; apply s_zero|apply f1_at_0].
Qed.

Lemma tie_exact_unguarded_refuted :
  exists tpi tp m a, incr tpi /\ hd 0 tpi = 0 /\ nth_error tpi m = Some a /\
                     dec1 false Linear tpi tp a = None.
Proof.
  exists [0; 1; 5], [0#1; 16#1; 32#1]%Q, 0, 0.
  split; [repeat constructor|split; [reflexivity|split; reflexivity]].
Qed.

Lemma in_span_cov A i : In i (span A) -> cov A i = true.
Proof.
  unfold span, cov. intro H. apply in_seq in H.
  apply andb_true_iff; split; apply Nat.leb_le; lia.
Qed.

Lemma no_missing b meth tpi tp i :
  incr tpi -> hd 0 tpi = 0 -> areas_ok tpi -> i <= last tpi 0 ->
  exists c, dec1 b meth tpi tp i = Some c.
Proof.
  intros HI H0 HO Hi.
  assert (HS : In i (seq 0 (S (last tpi 0)))) by (apply in_seq; lia).
  rewrite <- (partition tpi HI H0 HO) in HS.
  apply in_concat in HS as [s [Hs1 Hs2]]. apply in_map_iff in Hs1 as [A [EA HA]]. subst s.
  eexists. apply (dec1_at b meth tpi tp A i HI HA (in_span_cov _ _ Hs2)).
Qed.

(* ------------------------------------------------------------------ *)
(* bounds (one subsampled dimension) *)

Lemma pairs_cons2 {X} (x y : X) r : pairs (x :: y :: r) = (x, y) :: pairs (y :: r).
Proof. reflexivity. Qed.

Lemma nth_pairs {X} (d : X) : forall (l : list X) c, S c < length l ->
  nth c (pairs l) (d, d) = (nth c l d, nth (S c) l d).
Proof.
  induction l as [|x r IH]; intros c H; [cbn in H; lia|].
  destruct r as [|y r']; [cbn in H; lia|].
  rewrite pairs_cons2. destruct c as [|c]; [reflexivity|].
  cbn [nth]. rewrite IH by (cbn in *; lia). reflexivity.
Qed.

Lemma pairs_length {X} : forall (l : list X), length (pairs l) = length l - 1.
Proof.
  induction l as [|x r IH]; [reflexivity|]. destruct r as [|y r']; [reflexivity|].
  rewrite pairs_cons2. cbn [length]. rewrite IH. cbn [length]. lia.
Qed.

Definition ncells (A : area) : nat := a_ib A + 1 - a_lo A.

Lemma block1_bounds m tp A i : a_ia A < a_ib A -> cov A i = true ->
  nth (i - a_lo A) (block1 true m tp A) [] =
  [f1 m A (tpv tp (a_k A)) (tpv tp (S (a_k A))) (qn (i - a_lo A) / qn (ncells A))%Q;
   f1 m A (tpv tp (a_k A)) (tpv tp (S (a_k A))) (qn (S (i - a_lo A)) / qn (ncells A))%Q].
Proof.
  intros Hab HC. unfold cov in HC. apply andb_true_iff in HC as [H1 H2].
  apply Nat.leb_le in H1, H2. unfold block1.
  assert (HS : s_size true A = ncells A + 1).
  { unfold s_size, a_shape, ncells, a_lo in *. destruct (a_first A); cbn; lia. }
  assert (HN : 1 <= ncells A) by (unfold ncells; lia).
  assert (HI : i - a_lo A < ncells A) by (unfold ncells; lia).
  rewrite (nth_map_gen (fun p : Q * Q => [fst p; snd p]) _ (0%Q, 0%Q))
    by (rewrite pairs_length, raw1_length; lia).
  rewrite nth_pairs by (rewrite raw1_length; lia).
  cbn [fst snd]. rewrite !raw1_nth by lia. rewrite HS.
  replace (ncells A + 1 - 1) with (ncells A) by lia. reflexivity.
Qed.

(* cfdm's reading of CF 8.3.9: the cells of a subarea are a..b if it starts a
   continuous area and a+1..b otherwise; their bounds are n+1 equally spaced
   points between the two bounds tie points *)
Lemma bounds_spec meth tpi tp m a b i :
  incr tpi -> nth_error tpi m = Some a -> nth_error tpi (S m) = Some b -> 2 <= b - a ->
  let lo := if first_at true tpi m then a else S a in
  let f := f1 meth (mkA a b m (nsub tpi m) (first_at true tpi m)) (tpv tp m) (tpv tp (S m)) in
  lo <= i <= b ->
  dec1 true meth tpi tp i =
  Some [f (qn (i - lo) / qn (b + 1 - lo))%Q; f (qn (S (i - lo)) / qn (b + 1 - lo))%Q].
Proof.
  intros HI Ha Hb Hg lo f Hi.
  pose proof (areas_member tpi 0 0 true m a b Ha Hb Hg) as HM. cbn [plus] in HM.
  assert (HC : cov (mkA a b m (nsub tpi m) (first_at true tpi m)) i = true) by (apply cov_mk; exact Hi).
  rewrite (dec1_at true meth tpi tp _ i HI HM HC).
  rewrite block1_bounds by (cbn; try lia; exact HC).
  unfold ncells, a_lo. cbn [a_ia a_ib a_k a_first]. reflexivity.
Qed.

(* consecutive cells of one subarea share a bound *)
Lemma bounds_contiguous meth tpi tp m a b i :
  incr tpi -> nth_error tpi m = Some a -> nth_error tpi (S m) = Some b -> 2 <= b - a ->
  (if first_at true tpi m then a else S a) <= i -> S i <= b ->
  exists x y z, dec1 true meth tpi tp i = Some [x; y] /\ dec1 true meth tpi tp (S i) = Some [y; z].
Proof.
  intros HI Ha Hb Hg H1 H2.
  pose proof (bounds_spec meth tpi tp m a b i HI Ha Hb Hg ltac:(lia)) as P1.
  pose proof (bounds_spec meth tpi tp m a b (S i) HI Ha Hb Hg ltac:(lia)) as P2.
  cbv zeta in P1, P2.
  replace (S i - (if first_at true tpi m then a else S a))
    with (S (i - (if first_at true tpi m then a else S a))) in P2 by lia.
  eexists _, _, _. split; [exact P1|exact P2].
Qed.

(* the bounds tie points are reproduced: the lower bound of the first cell of
   a continuous area, and the upper bound of the last cell of every subarea -
   which is also the lower bound of the next cell when the next subarea
   belongs to the same continuous area *)
Lemma bounds_tie meth tpi tp m a b :
  incr tpi -> nth_error tpi m = Some a -> nth_error tpi (S m) = Some b -> 2 <= b - a ->
  let lo := if first_at true tpi m then a else S a in
  exists x0 y0 x1 y1,
    dec1 true meth tpi tp lo = Some [x0; y0] /\ (x0 == tpv tp m)%Q /\
    dec1 true meth tpi tp b = Some [x1; y1] /\ (y1 == tpv tp (S m))%Q.
Proof.
  intros HI Ha Hb Hg lo.
  assert (Hlo : lo <= b) by (unfold lo; destruct (first_at true tpi m); lia).
  pose proof (bounds_spec meth tpi tp m a b lo HI Ha Hb Hg ltac:(fold lo; lia)) as P1.
  pose proof (bounds_spec meth tpi tp m a b b HI Ha Hb Hg ltac:(fold lo; lia)) as P2.
  cbv zeta in P1, P2. fold lo in P1, P2.
  eexists _, _, _, _. split; [exact P1|]. split; [|split; [exact P2|]].
  - rewrite Nat.sub_diag. etransitivity; [apply f1_morph; apply s_zero|apply f1_at_0].
  - replace (S (b - lo)) with (b + 1 - lo) by lia.
    etransitivity; [apply f1_morph; apply s_one; lia|apply f1_at_1].
Qed.

Lemma bounds_example :
  map (dec1 true Linear [0; 3; 7] [0#1; 16#1; 32#1]%Q) [0; 3; 4; 7] =
  [Some [0#1; 4#1]; Some [12#1; 16#1]; Some [16#1; 20#1]; Some [28#1; 32#1]]%Q.
Proof. vm_compute. reflexivity. Qed.

(* ------------------------------------------------------------------ *)
(* subspaces, and the first/last-element shortcut (coordinates) *)

Definition oq_equiv (a b : option Q) : Prop :=
  match a, b with
  | Some x, Some y => (x == y)%Q
  | None, None => True
  | _, _ => False
  end.

Definition obs_equiv (a b : obs) : Prop :=
  match a, b with
  | ObsErr, ObsErr => True
  | ObsArr s v, ObsArr s' v' => s = s' /\ Forall2 oq_equiv v v'
  | _, _ => False
  end.

Lemma oq_equiv_refl_list : forall v, Forall2 oq_equiv v v.
Proof.
  induction v as [|x r IH]; constructor; [|exact IH].
  destruct x; cbn; [reflexivity|exact I].
Qed.

Lemma areas_ib_le_last : forall l k j f A, incr l -> In A (areas_from k j f l) -> a_ib A <= last l 0.
Proof.
  induction l as [|a r IH]; intros k j f A HI HA; [destruct HA|].
  destruct r as [|b r']; [destruct HA|].
  pose proof (incr_tail _ _ HI) as HI'. pose proof (incr_last_ge _ _ HI') as HL.
  change (last (a :: b :: r') 0) with (last (b :: r') 0).
  rewrite areas_from_cons2 in HA. destruct (b - a <=? 1).
  - exact (IH _ _ _ _ HI' HA).
  - destruct HA as [HA|HA]; [subst A; cbn; exact HL|exact (IH _ _ _ _ HI' HA)].
Qed.

Lemma no_overflow tpi n : incr tpi -> n = S (last tpi 0) -> overflow n tpi = false.
Proof.
  intros HI Hn. unfold overflow. destruct (existsb _ _) eqn:E; [|reflexivity].
  apply existsb_exists in E as [A [HA HB]]. apply Nat.leb_le in HB.
  pose proof (areas_ib_le_last _ _ _ _ _ HI HA). lia.
Qed.

Lemma nth_error_last (l : list nat) : l <> [] -> nth_error l (length l - 1) = Some (last l 0).
Proof.
  induction l as [|x r IH]; [congruence|]. intros _. destruct r as [|y r']; [reflexivity|].
  change (last (x :: y :: r') 0) with (last (y :: r') 0).
  replace (length (x :: y :: r') - 1) with (S (length (y :: r') - 1)) by (cbn; lia).
  cbn [nth_error]. apply IH. discriminate.
Qed.

Lemma subspace1 meth tpi tp n ix :
  incr tpi -> hd 0 tpi = 0 -> areas_ok tpi -> length tp = length tpi -> n = S (last tpi 0) ->
  obs_equiv (getitem1 false meth n tpi tp [ix])
            (ObsArr [length (positions n ix)]
                    (take1 (dec1 false meth tpi tp) (positions n ix) [0])).
Proof.
  intros HI H0 HO HL Hn. unfold getitem1, getitem1_gen.
  assert (HNE : tpi <> []) by (intro E; subst tpi; discriminate HO).
  destruct ix as [| |l]; cbn [negb orb andb all_first all_last forallb positions length].
  - (* slice(0,1,1): the first tie point *)
    assert (H00 : nth_error tpi 0 = Some 0) by (destruct tpi; [congruence|cbn in *; congruence]).
    destruct (tie_exact meth tpi tp 0 0 HI HO H00) as [y [E1 E2]].
    cbn [take1 flat_map]. rewrite E1. cbn. split; [reflexivity|].
    constructor; [cbn; symmetry; exact E2|constructor].
  - (* slice(-1,None,1): the last tie point *)
    pose proof (nth_error_last tpi HNE) as HLast.
    destruct (tie_exact meth tpi tp _ _ HI HO HLast) as [y [E1 E2]].
    subst n. replace (S (last tpi 0) - 1) with (last tpi 0) by lia.
    cbn [take1 flat_map]. rewrite E1. cbn. split; [reflexivity|].
    constructor; [cbn; rewrite HL; symmetry; exact E2|constructor].
  - rewrite (no_overflow tpi n HI Hn). split; [reflexivity|apply oq_equiv_refl_list].
Qed.

Lemma subspace1_unguarded_refuted :
  exists tpi tp n ix, incr tpi /\ hd 0 tpi = 0 /\ length tp = length tpi /\ n = S (last tpi 0) /\
    ~ obs_equiv (getitem1 false Linear n tpi tp [ix])
                (ObsArr [length (positions n ix)]
                        (take1 (dec1 false Linear tpi tp) (positions n ix) [0])).
Proof.
  exists [0; 1; 5], [0#1; 16#1; 32#1]%Q, 6, IFirst.
  split; [repeat constructor|]. split; [reflexivity|]. split; [reflexivity|]. split; [reflexivity|].
  vm_compute. intros [_ H]. inversion H as [|? ? ? ? H1 _]. exact H1.
Qed.

(* ------------------------------------------------------------------ *)
(* two subsampled dimensions (bi_linear) *)

Lemma fold_step2 b T : forall L u i2 i1,
  fold_left (step2 b T) L u i2 i1 =
  match find (fun AA => cov (fst AA) i2 && cov (snd AA) i1) (rev L) with
  | Some AA => Some (nth (i1 - a_lo (snd AA))
                         (nth (i2 - a_lo (fst AA)) (block2 b T (fst AA) (snd AA)) []) [])
  | None => u i2 i1
  end.
Proof.
  induction L as [|A L IH]; intros u i2 i1; cbn [fold_left rev find]; [reflexivity|].
  rewrite IH, find_app.
  destruct (find (fun AA => cov (fst AA) i2 && cov (snd AA) i1) (rev L)); [reflexivity|].
  cbn [find]. unfold step2. cbv zeta beta. destruct (cov (fst A) i2 && cov (snd A) i1); reflexivity.
Qed.

Lemma dec2_at b tpi2 tpi1 T A2 A1 i2 i1 :
  incr tpi2 -> incr tpi1 -> In A2 (subareas tpi2) -> In A1 (subareas tpi1) ->
  cov A2 i2 = true -> cov A1 i1 = true ->
  dec2 b tpi2 tpi1 T i2 i1 =
  Some (nth (i1 - a_lo A1) (nth (i2 - a_lo A2) (block2 b T A2 A1) []) []).
Proof.
  intros HI2 HI1 HA2 HA1 HC2 HC1. unfold dec2. rewrite fold_step2.
  destruct (find _ (rev (list_prod (subareas tpi2) (subareas tpi1)))) as [[B2 B1]|] eqn:F.
  - apply find_some in F as [F1 F2]. apply in_rev in F1. apply in_prod_iff in F1 as [G2 G1].
    cbn [fst snd] in *. apply andb_true_iff in F2 as [F2 F3].
    rewrite (cov_unique _ _ _ _ _ _ _ HI2 HA2 G2 HC2 F2).
    rewrite (cov_unique _ _ _ _ _ _ _ HI1 HA1 G1 HC1 F3). reflexivity.
  - assert (HIn : In (A2, A1) (rev (list_prod (subareas tpi2) (subareas tpi1))))
      by (apply in_rev; rewrite rev_involutive; apply in_prod; assumption).
    pose proof (find_none _ _ F _ HIn) as F'. cbn [fst snd] in F'. rewrite HC2, HC1 in F'. discriminate.
Qed.

Lemma nth_trim {X} (f : bool) (l : list X) ia i d :
  (if f then ia else S ia) <= i -> nth (i - (if f then ia else S ia)) (trim f l) d = nth (i - ia) l d.
Proof.
  destruct f; cbn [trim]; intro H; [reflexivity|].
  rewrite nth_tl. f_equal. lia.
Qed.

Lemma trim_length {X} (f : bool) (l : list X) : length (trim f l) = if f then length l else length l - 1.
Proof. destruct f; cbn [trim]; [reflexivity|]. destruct l; cbn; lia. Qed.

Lemma linspace_nth size jj : jj < size -> nth jj (linspace size) 0%Q = (qn jj / qn (size - 1))%Q.
Proof. intro H. unfold linspace. rewrite nth_map_seq by exact H. reflexivity. Qed.

Lemma s_size_coord A : a_ia A < a_ib A -> s_size false A = a_ib A - a_ia A + 1.
Proof. intro H. unfold s_size, a_shape. destruct (a_first A); cbn; lia. Qed.

(* every element assigned by a pair of subareas holds the Appendix J
   bi-linear value  fl(fl(ua,uc,s2), fl(ub,ud,s2), s1) *)
Lemma block2_coord T A2 A1 i2 i1 :
  a_ia A2 < a_ib A2 -> a_ia A1 < a_ib A1 -> cov A2 i2 = true -> cov A1 i1 = true ->
  nth (i1 - a_lo A1) (nth (i2 - a_lo A2) (block2 false T A2 A1) []) [] =
  let s2 := (qn (i2 - a_ia A2) / qn (a_ib A2 - a_ia A2))%Q in
  let s1 := (qn (i1 - a_ia A1) / qn (a_ib A1 - a_ia A1))%Q in
  [fl (fl (tpv2 T (a_k A2) (a_k A1)) (tpv2 T (S (a_k A2)) (a_k A1)) s2)
      (fl (tpv2 T (a_k A2) (S (a_k A1))) (tpv2 T (S (a_k A2)) (S (a_k A1))) s2) s1].
Proof.
  intros H2 H1 HC2 HC1. unfold cov in HC2, HC1.
  apply andb_true_iff in HC2 as [L2 U2]. apply andb_true_iff in HC1 as [L1 U1].
  apply Nat.leb_le in L2, U2, L1, U1. unfold a_lo in *.
  pose proof (s_size_coord A2 H2) as S2. pose proof (s_size_coord A1 H1) as S1.
  unfold block2.
  assert (LR : length (raw2 false T A2 A1) = a_ib A2 - a_ia A2 + 1)
    by (unfold raw2; rewrite map_length, linspace_length; exact S2).
  rewrite (nth_map_gen _ _ []) by (rewrite trim_length, LR; destruct (a_first A2); lia).
  rewrite nth_trim by exact L2.
  unfold raw2. cbv zeta.
  match goal with |- context [nth (i2 - a_ia A2) (map ?F (linspace ?sz)) []] =>
    rewrite (nth_map_gen F (linspace sz) 0%Q []) by (rewrite linspace_length; lia) end.
  rewrite linspace_nth by lia.
  rewrite (nth_map_gen (fun x : Q => [x]) _ 0%Q)
    by (rewrite trim_length, map_length, linspace_length; destruct (a_first A1); lia).
  rewrite nth_trim by exact L1.
  rewrite (nth_map_gen _ _ 0%Q) by (rewrite linspace_length; lia).
  rewrite linspace_nth by lia.
  rewrite S2, S1.
  replace (a_ib A2 - a_ia A2 + 1 - 1) with (a_ib A2 - a_ia A2) by lia.
  replace (a_ib A1 - a_ia A1 + 1 - 1) with (a_ib A1 - a_ia A1) by lia.
  reflexivity.
Qed.

Lemma bilinear_spec tpi2 tpi1 T A2 A1 i2 i1 :
  incr tpi2 -> incr tpi1 -> In A2 (subareas tpi2) -> In A1 (subareas tpi1) ->
  cov A2 i2 = true -> cov A1 i1 = true ->
  dec2 false tpi2 tpi1 T i2 i1 =
  let s2 := (qn (i2 - a_ia A2) / qn (a_ib A2 - a_ia A2))%Q in
  let s1 := (qn (i1 - a_ia A1) / qn (a_ib A1 - a_ia A1))%Q in
  Some [fl (fl (tpv2 T (a_k A2) (a_k A1)) (tpv2 T (S (a_k A2)) (a_k A1)) s2)
           (fl (tpv2 T (a_k A2) (S (a_k A1))) (tpv2 T (S (a_k A2)) (S (a_k A1))) s2) s1].
Proof.
  intros HI2 HI1 HA2 HA1 HC2 HC1.
  rewrite (dec2_at false tpi2 tpi1 T A2 A1 i2 i1 HI2 HI1 HA2 HA1 HC2 HC1).
  pose proof (areas_lo_ge _ _ _ _ _ HI2 HA2) as [_ [_ G2]].
  pose proof (areas_lo_ge _ _ _ _ _ HI1 HA1) as [_ [_ G1]].
  rewrite (block2_coord T A2 A1 i2 i1 G2 G1 HC2 HC1). reflexivity.
Qed.

(* which pairs of subareas exist: every pair of consecutive tie point indices
   more than one apart, flagged first iff it is the first pair or follows a
   pair of adjacent indices *)
Lemma subareas_spec tpi m a b :
  nth_error tpi m = Some a -> nth_error tpi (S m) = Some b -> 2 <= b - a ->
  In (mkA a b m (nsub tpi m) (first_at true tpi m)) (subareas tpi).
Proof. intros Ha Hb Hg. exact (areas_member tpi 0 0 true m a b Ha Hb Hg). Qed.

Lemma bilinear_example :
  exists x, dec2 false [0; 4] [0; 4; 8] [[0#1; 64#1; 128#1]; [1024#1; 2048#1; 4096#1]]%Q 1 5 = Some [x]
            /\ (x == 700#1)%Q.
Proof. eexists; split; [vm_compute; reflexivity|reflexivity]. Qed.


(* ------------------------------------------------------------------ *)
(* the bi-linear formula also at shared tie points *)

Lemma fl_morph12 x x' y y' s : (x == x')%Q -> (y == y')%Q -> (fl x y s == fl x' y' s)%Q.
Proof. intros E1 E2. unfold fl. rewrite !Qred_correct, E1, E2. reflexivity. Qed.

Lemma fl_at_0 x y : (fl x y 0 == x)%Q.
Proof. unfold fl. rewrite Qred_correct. ring. Qed.

Lemma fl_at_1 x y : (fl x y 1 == y)%Q.
Proof. unfold fl. rewrite Qred_correct. ring. Qed.

Lemma fl_morph3 x y s s' : (s == s')%Q -> (fl x y s == fl x y s')%Q.
Proof. intro E. unfold fl. rewrite !Qred_correct, E. reflexivity. Qed.

(* for an index inside subarea m (tie points included) there is a subarea
   that assigns it, and linear interpolation along any lane of tie points
   gives, from that subarea, the value of the formula for subarea m *)
Lemma locate1 tpi m a b i :
  incr tpi -> nth_error tpi m = Some a -> nth_error tpi (S m) = Some b -> 2 <= b - a ->
  a <= i <= b ->
  exists A, In A (subareas tpi) /\ cov A i = true /\
    forall lane : nat -> Q,
      (fl (lane (a_k A)) (lane (S (a_k A))) (qn (i - a_ia A) / qn (a_ib A - a_ia A)) ==
       fl (lane m) (lane (S m)) (qn (i - a) / qn (b - a)))%Q.
Proof.
  intros HI Ha Hb Hg Hi.
  pose proof (subareas_spec tpi m a b Ha Hb Hg) as HM.
  destruct (Nat.eq_dec i a) as [Eia|Nia].
  2: { eexists; split; [exact HM|]. split.
       - apply cov_mk. destruct (first_at true tpi m); lia.
       - intro lane. cbn [a_k a_ia a_ib]. reflexivity. }
  subst i. destruct (first_at true tpi m) eqn:EF.
  - eexists; split; [exact HM|]. split.
    + apply cov_mk. try rewrite EF. cbn. lia.
    + intro lane. cbn [a_k a_ia a_ib]. reflexivity.
  - destruct (first_at_false_prev _ _ _ EF eq_refl) as [m' [Em Hg']]. subst m.
    rewrite (nth_error_nth _ _ _ Ha) in Hg'.
    pose proof (nth_error_prev _ _ _ Ha) as Ha'.
    pose proof (subareas_spec tpi m' (nth m' tpi 0) a Ha' Ha Hg') as HM'.
    eexists; split; [exact HM'|]. split.
    + apply cov_mk. destruct (first_at true tpi m'); lia.
    + intro lane. cbn [a_k a_ia a_ib].
      transitivity (lane (S m')).
      * etransitivity; [apply fl_morph3; apply s_one; lia|apply fl_at_1].
      * symmetry. rewrite Nat.sub_diag. etransitivity; [apply fl_morph3; apply s_zero|apply fl_at_0].
Qed.

Lemma bilinear_full tpi2 tpi1 T m2 a2 b2 i2 m1 a1 b1 i1 :
  incr tpi2 -> incr tpi1 ->
  nth_error tpi2 m2 = Some a2 -> nth_error tpi2 (S m2) = Some b2 -> 2 <= b2 - a2 -> a2 <= i2 <= b2 ->
  nth_error tpi1 m1 = Some a1 -> nth_error tpi1 (S m1) = Some b1 -> 2 <= b1 - a1 -> a1 <= i1 <= b1 ->
  let s2 := (qn (i2 - a2) / qn (b2 - a2))%Q in
  let s1 := (qn (i1 - a1) / qn (b1 - a1))%Q in
  cell_eq (dec2 false tpi2 tpi1 T i2 i1)
          (fl (fl (tpv2 T m2 m1) (tpv2 T (S m2) m1) s2)
              (fl (tpv2 T m2 (S m1)) (tpv2 T (S m2) (S m1)) s2) s1).
Proof.
  intros HI2 HI1 Ha2 Hb2 Hg2 Hi2 Ha1 Hb1 Hg1 Hi1 s2 s1.
  destruct (locate1 tpi2 m2 a2 b2 i2 HI2 Ha2 Hb2 Hg2 Hi2) as [A2 [HA2 [HC2 L2]]].
  destruct (locate1 tpi1 m1 a1 b1 i1 HI1 Ha1 Hb1 Hg1 Hi1) as [A1 [HA1 [HC1 L1]]].
  rewrite (bilinear_spec tpi2 tpi1 T A2 A1 i2 i1 HI2 HI1 HA2 HA1 HC2 HC1). cbv zeta.
  eexists; split; [reflexivity|].
  set (P := fun k1 : nat => fl (tpv2 T m2 k1) (tpv2 T (S m2) k1) s2).
  transitivity (fl (P (a_k A1)) (P (S (a_k A1))) (qn (i1 - a_ia A1) / qn (a_ib A1 - a_ia A1))).
  - apply fl_morph12.
    + exact (L2 (fun k => tpv2 T k (a_k A1))).
    + exact (L2 (fun k => tpv2 T k (S (a_k A1)))).
  - exact (L1 P).
Qed.

(* ------------------------------------------------------------------ *)
(* the constructor arguments: dictionaries and stored tie points *)
From Coq Require Import Permutation.

Ltac leb_all :=
  repeat match goal with
         | H : (_ <=? _) = true |- _ => apply Nat.leb_le in H
         | H : (_ <=? _) = false |- _ => apply Nat.leb_gt in H
         end.

Lemma insert_comm x y : forall l, insert x (insert y l) = insert y (insert x l).
Proof.
  induction l as [|a r IH].
  - cbn. destruct (x <=? y) eqn:E1, (y <=? x) eqn:E2; leb_all; try reflexivity; try lia.
    assert (x = y) by lia. subst. reflexivity.
  - cbn [insert].
    destruct (y <=? a) eqn:Eya, (x <=? a) eqn:Exa; cbn [insert]; rewrite ?Eya, ?Exa.
    + destruct (x <=? y) eqn:E1, (y <=? x) eqn:E2; leb_all; try reflexivity; try lia.
      assert (x = y) by lia. subst. reflexivity.
    + destruct (x <=? y) eqn:E1; leb_all; [lia|reflexivity].
    + destruct (y <=? x) eqn:E1; leb_all; [lia|reflexivity].
    + rewrite IH. reflexivity.
Qed.

Lemma isort_perm l l' : Permutation l l' -> isort l = isort l'.
Proof.
  induction 1; cbn [isort].
  - reflexivity.
  - rewrite IHPermutation. reflexivity.
  - apply insert_comm.
  - congruence.
Qed.

Section Dict.
  Context {K V : Type} (eqb : K -> K -> bool).
  Hypothesis eqb_spec : forall a b, eqb a b = true <-> a = b.

  Lemma glook_perm (k : K) (l l' : list (K * V)) :
    Permutation l l' -> NoDup (map fst l) -> glook eqb k l = glook eqb k l'.
  Proof.
    induction 1 as [|[k1 v1] l l' HP IH|[k1 v1] [k2 v2] l|l l' l'' H1 IH1 H2 IH2]; intro ND.
    - reflexivity.
    - cbn. destruct (eqb k k1); [reflexivity|]. apply IH. inversion ND; assumption.
    - cbn. destruct (eqb k k2) eqn:E2, (eqb k k1) eqn:E1; try reflexivity.
      apply eqb_spec in E1, E2. subst. cbn in ND. inversion ND as [|? ? HN _]. exfalso. apply HN. left. reflexivity.
    - rewrite IH1 by exact ND. apply IH2.
      eapply Permutation_NoDup; [apply Permutation_map; exact H1|exact ND].
  Qed.
End Dict.

Lemma string_eqb_spec a b : String.eqb a b = true <-> a = b.
Proof. apply String.eqb_eq. Qed.
Lemma nat_eqb_spec a b : Nat.eqb a b = true <-> a = b.
Proof. apply Nat.eqb_eq. Qed.

(* the reconstituted array does not depend on the insertion order of
   tie_point_indices, parameters and parameter_dimensions *)
Lemma dict_order_invariant name bounds shape ty tp tpis tpis' params params' pdims pdims' prec ix :
  NoDup (map fst tpis) -> Permutation tpis tpis' ->
  NoDup (map fst params) -> Permutation params params' ->
  Permutation pdims pdims' ->
  getitem_sa name bounds shape ty tp tpis params pdims prec ix =
  getitem_sa name bounds shape ty tp tpis' params' pdims' prec ix.
Proof.
  intros ND1 P1 ND2 P2 _.
  assert (E1 : isort (map fst tpis') = isort (map fst tpis))
    by (symmetry; apply isort_perm, Permutation_map, P1).
  assert (E2 : forall k, glook Nat.eqb k tpis' = glook Nat.eqb k tpis)
    by (intro k; symmetry; apply (glook_perm Nat.eqb nat_eqb_spec); assumption).
  assert (E3 : meth_of name params' = meth_of name params).
  { unfold meth_of. destruct name; try reflexivity.
    rewrite (glook_perm String.eqb string_eqb_spec "w"%string params params' P2 ND2). reflexivity. }
  assert (E4 : bb_swapped true true tpis' = bb_swapped true true tpis)
    by (unfold bb_swapped, cdims; rewrite E1; reflexivity).
  unfold getitem_sa, getitem_sa_gen. rewrite E1, !E2, E3, E4. reflexivity.
Qed.

Lemma dict_order_example :
  getitem_sa IBilinear true [4; 8] SF64
    (TP2 [[NInt 0; NInt 64; NInt 128]; [NInt 1024; NInt 2048; NInt 4096]])
    [(1, [0; 3; 7]); (0, [0; 3])] [] [] None [IPos [0]; IPos [0]; IPos [0; 1; 2; 3]] =
  ObsArr [1; 1; 4] [Some (0#1); Some (16#1); Some (332#1); Some (256#1)]%Q.
Proof. vm_compute. reflexivity. Qed.

(* stored tie points enter only through their values *)
Lemma inj_eq a b : (inj a == inj b)%Q -> inj a = inj b.
Proof.
  unfold inj. intro E. apply Qred_complete. rewrite !Qred_correct in E. exact E.
Qed.

Definition same_values (l l' : list snum) : Prop := Forall2 (fun a b => (inj a == inj b)%Q) l l'.
Definition tp_same (t t' : tparr) : Prop :=
  match t, t' with
  | TP1 l, TP1 l' => same_values l l'
  | TP2 T, TP2 T' => Forall2 same_values T T'
  | _, _ => False
  end.

Lemma same_values_map l l' : same_values l l' -> map inj l = map inj l'.
Proof. induction 1; cbn; [reflexivity|]. f_equal; [apply inj_eq; assumption|assumption]. Qed.

Lemma stored_type_irrelevant name bounds shape ty ty' tp tp' tpis params pdims prec ix :
  tp_same tp tp' ->
  getitem_sa name bounds shape ty tp tpis params pdims prec ix =
  getitem_sa name bounds shape ty' tp' tpis params pdims prec ix.
Proof.
  intro H. assert (E : tp_inj tp = tp_inj tp').
  { destruct tp as [l|T], tp' as [l'|T']; cbn in H; try contradiction; cbn [tp_inj]; f_equal.
    - apply same_values_map; exact H.
    - induction H; cbn; [reflexivity|]. f_equal; [apply same_values_map; assumption|assumption]. }
  unfold getitem_sa, getitem_sa_gen. rewrite E. reflexivity.
Qed.

(* the same numbers stored as int16 and as float32 (6 * 2^-1 = 3, 1 * 2^3 = 8) *)
Lemma stored_type_example :
  tp_same (TP1 [NInt 3; NInt 8]) (TP1 [NFlt 6 (-1); NFlt 1 3]).
Proof. cbn. repeat constructor. Qed.
