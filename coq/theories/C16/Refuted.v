(* C16 - SubsampledArray.__getitem__ as it stood at the pinned commit took the
   first/last-element shortcut (CompressedArray._first_or_last_element) also
   for bounds tie points.  Witnesses, each replayed against the implementation
   before the proposed repair (handoff/C16-fix-1.diff). *)
From CfdmV Require Import Common.Base C16.Model C16.Run.
From Coq Require Import QArith.
Open Scope nat_scope.

(* F16b: bounds[0, 0] of a subsampled bounds array has shape (1,) instead of
   (1, 1): the tie point array is indexed with data.ndim slices. *)
Theorem C16_old_bounds_first_shape_refuted :
  exists tpi tp, getitem1_old true Linear 8 tpi tp [IFirst; IFirst] = ObsArr [1] [Some (tpv tp 0)]
                 /\ exists v, getitem1 true Linear 8 tpi tp [IFirst; IFirst] = ObsArr [1; 1] v.
Proof.
  exists [0; 3; 7], [0#1; 16#1; 32#1]%Q. split; [reflexivity|]. eexists. vm_compute. reflexivity.
Qed.

(* F16c: two subsampled dimensions: the last element of the uncompressed
   bounds is vertex 3 of the last cell, which is not the last bounds tie point,
   so last_element() / str() showed a value that is not in the array. *)
Theorem C16_old_bounds_last_value_refuted :
  exists tpi2 tpi1 T,
    obs_eqb (getitem2_old true 4 8 tpi2 tpi1 T [ILast; ILast; ILast])
            (getitem2 true 4 8 tpi2 tpi1 T [IPos [3]; IPos [7]; IPos [3]]) = false
    /\ getitem2_old true 4 8 tpi2 tpi1 T [ILast; ILast; ILast] = ObsArr [1; 1] [Some (4096#1)%Q]
    /\ obs_eqb (getitem2 true 4 8 tpi2 tpi1 T [ILast; ILast; ILast])
               (ObsArr [1; 1; 1] [Some (3584#1)%Q]) = true.
Proof.
  exists [0; 3], [0; 3; 7], [[0#1; 64#1; 128#1]; [1024#1; 2048#1; 4096#1]]%Q.
  split; [vm_compute; reflexivity|split; vm_compute; reflexivity].
Qed.
