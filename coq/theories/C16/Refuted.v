(* C16 - SubsampledArray.__getitem__ as it stood at the pinned commit took the
   first/last-element shortcut (CompressedArray._first_or_last_element) also
   for bounds tie points.  Witnesses, each replayed against the implementation
   before the proposed repair (handoff/C16-fix-1.diff). *)
From CfdmV Require Import Common.Base C16.Model C16.Run.
From Coq Require Import QArith Permutation.
Open Scope nat_scope.

(* F16b: bounds[0, 0] of a subsampled bounds array has shape (1,) instead of
   (1, 1): the tie point array is indexed with data.ndim slices. *)
Theorem C16_old_bounds_first_shape_refuted :
  exists tpi tp, getitem1_old true Linear 8 tpi tp [IFirst; IFirst] = ObsArr [1] [Some (tpv tp 0)]
                 /\ exists v, getitem1 true Linear 8 tpi tp [IFirst; IFirst] = ObsArr [1; 1] v.
Proof.
  exists [0; 3; 7], [0#1; 16#1; 32#1]%Q. split; [reflexivity|]. eexists. vm_compute. reflexivity.
Qed.

(* F16c: two subsampled dimensions: the last element of the uncompressed
   bounds is vertex 3 of the last cell, which is not the last bounds tie point,
   so last_element() / str() showed a value that is not in the array. *)
Theorem C16_old_bounds_last_value_refuted :
  exists tpi2 tpi1 T,
    obs_eqb (getitem2_old true 4 8 tpi2 tpi1 T [ILast; ILast; ILast])
            (getitem2 true 4 8 tpi2 tpi1 T [IPos [3]; IPos [7]; IPos [3]]) = false
    /\ getitem2_old true 4 8 tpi2 tpi1 T [ILast; ILast; ILast] = ObsArr [1; 1] [Some (4096#1)%Q]
    /\ obs_eqb (getitem2 true 4 8 tpi2 tpi1 T [ILast; ILast; ILast])
               (ObsArr [1; 1; 1] [Some (3584#1)%Q]) = true.
Proof.
  exists [0; 3], [0; 3; 7], [[0#1; 64#1; 128#1]; [1024#1; 2048#1; 4096#1]]%Q.
  split; [vm_compute; reflexivity|split; vm_compute; reflexivity].
Qed.

(* ------------------------------------------------------------------ *)
(* Third pass. *)

(* F16d: before handoff/C16-fix3-1 the difference ub - ua was formed in the
   type in which the tie points are stored.  int16 tie points -30000, 30000:
   the difference wraps to -5536 and the second tie point comes back as -35536. *)
Theorem C16_old_stored_arith_int16_refuted :
  exists tpi tp, oq_eqb (hd None (take1 (dec1_stored_arith SI16 tpi tp) [4] [0])) (Some (-35536 # 1)%Q) = true
                 /\ oq_eqb (hd None (take1 (dec1 false Linear tpi tp) [4] [0])) (Some (30000 # 1)%Q) = true.
Proof.
  exists [0; 4], [inject_Z (-30000); inject_Z 30000]. split; vm_compute; reflexivity.
Qed.

(* F16d, float32 tie points 0.1f and 1000.7f: ub - ua rounded to float32 is off
   by 2^-15, so the tie point at index 4 is not reproduced (the repaired code
   reproduces it). *)
Theorem C16_old_stored_arith_float32_refuted :
  exists tpi tp, oq_eqb (hd None (take1 (dec1_stored_arith SF32 tpi tp) [4] [0])) (Some (tpv tp 1)) = false
                 /\ oq_eqb (hd None (take1 (dec1 false Linear tpi tp) [4] [0])) (Some (tpv tp 1)) = true.
Proof.
  exists [0; 4], [inj (NFlt 13421773 (-27)); inj (NFlt 16395469 (-14))]. split; vm_compute; reflexivity.
Qed.

(* Seeded variant (coefficient s computed in result_type(stored type, float32)):
   float32 tie points 0 and 3 over 3 intervals: element 1 is 3 * float32(1/3),
   not the Appendix J value 1. *)
Theorem C16_s_in_float32_refuted :
  exists tpi tp, oq_eqb (hd None (take1 (dec1_s32 SF32 tpi tp) [1] [0])) (Some (1 # 1)%Q) = false
                 /\ oq_eqb (hd None (take1 (dec1 false Linear tpi tp) [1] [0])) (Some (1 # 1)%Q) = true.
Proof.
  exists [0; 3], [0 # 1; 3 # 1]%Q. split; vm_compute; reflexivity.
Qed.

(* Seeded variant (no sorted() in __init__ nor in _broadcast_bounds): the result
   depends on the insertion order of tie_point_indices - vertices 1 and 3 of
   every bounds cell change places. *)
Theorem C16_unsorted_dict_order_refuted :
  exists tp tpis tpis' ix,
    Permutation.Permutation tpis tpis' /\ NoDup (map fst tpis) /\
    obs_eqb (getitem_sa_gen false false IBilinear true [4; 8] SF64 tp tpis [] [] None ix)
            (getitem_sa_gen false false IBilinear true [4; 8] SF64 tp tpis' [] [] None ix) = false.
Proof.
  exists (TP2 [[NInt 0; NInt 64; NInt 128]; [NInt 1024; NInt 2048; NInt 4096]]),
         [(0, [0; 3]); (1, [0; 3; 7])], [(1, [0; 3; 7]); (0, [0; 3])],
         [IPos [0]; IPos [0]; IPos [0; 1; 2; 3]].
  split; [apply Permutation.perm_swap|]. split; [repeat constructor; cbn; intuition congruence|].
  vm_compute. reflexivity.
Qed.
