(* C16 - evaluation entry points for the correspondence harness. *)
From CfdmV Require Import Common.Base C16.Model.
From Coq Require Import QArith.
Open Scope nat_scope.

Definition oq_eqb (a b : option Q) : bool :=
  match a, b with
  | Some x, Some y => Qeq_bool x y
  | None, None => true
  | _, _ => false
  end.

Definition obs_eqb (a b : obs) : bool :=
  match a, b with
  | ObsErr, ObsErr => true
  | ObsArr s1 v1, ObsArr s2 v2 => list_eqb Nat.eqb s1 s2 && list_eqb oq_eqb v1 v2
  | _, _ => false
  end.

(* a case: the canonical-layout inputs of one SubsampledArray (or one lane of
   one with extra dimensions), the parsed indices, and what the
   implementation returned *)
Inductive case :=
| C1 (bounds : bool) (m : meth) (n : nat) (tpi : list nat) (tp : list Q) (ix : list idx) (o : obs)
| C2 (bounds : bool) (n2 n1 : nat) (tpi2 tpi1 : list nat) (T : list (list Q)) (ix : list idx) (o : obs)
(* a whole SubsampledArray in canonical layout with its constructor arguments:
   stored tie points and their type, the dictionaries in insertion order *)
| C3 (name : iname) (bounds : bool) (shape : list nat) (ty : sty) (tp : tparr)
     (tpis : list (nat * list nat)) (params : list (string * list Q)) (pdims : list (string * list nat))
     (prec : option string) (ix : list idx) (o : obs).

Definition run_case (c : case) : obs :=
  match c with
  | C1 b m n tpi tp ix _ => getitem1 b m n tpi tp ix
  | C2 b n2 n1 tpi2 tpi1 T ix _ => getitem2 b n2 n1 tpi2 tpi1 T ix
  | C3 nm b sh ty tp tpis ps pd pr ix _ => getitem_sa nm b sh ty tp tpis ps pd pr ix
  end.

Definition observed (c : case) : obs :=
  match c with C1 _ _ _ _ _ _ o => o | C2 _ _ _ _ _ _ _ o => o | C3 _ _ _ _ _ _ _ _ _ _ o => o end.

Definition check_case (c : case) : bool := obs_eqb (run_case c) (observed c).

(* the same against the code as it was at the pinned commit *)
Definition run_case_old (c : case) : obs :=
  match c with
  | C1 b m n tpi tp ix _ => getitem1_old b m n tpi tp ix
  | C2 b n2 n1 tpi2 tpi1 T ix _ => getitem2_old b n2 n1 tpi2 tpi1 T ix
  | C3 nm b sh ty tp tpis ps pd pr ix _ => getitem_sa nm b sh ty tp tpis ps pd pr ix
  end.
Definition check_case_old (c : case) : bool := obs_eqb (run_case_old c) (observed c).

(* the arithmetic as it was before handoff/C16-fix3-1 (difference of tie points
   formed in the stored type): whole array of a 1-d linear coordinate case *)
Definition check_case_stored_arith (c : case) : bool :=
  match c with
  | C3 ILinear false [n] ty (TP1 tp) [(0, tpi)] _ _ _ _ o =>
      obs_eqb (ObsArr [n] (take1 (dec1_stored_arith ty tpi (map inj tp)) (seq 0 n) [0])) o
  | _ => true
  end.
