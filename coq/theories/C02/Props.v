(* C02 - the property theorems, nothing else.  Each is closed by [exact] of a
   lemma from Lemmas.v and followed by Print Assumptions.

   Inv (Lemmas.v) is the property's internal consistency of a field:
     (i)   every held construct is registered under its own type, carries the
           payload kind of that type and is the only construct under its key;
           every registered key holds a construct of the registered type;
     (ii)  recorded data axes belong to an array construct, name existing
           domain axes, and the axis sizes equal the construct's shape;
     (iii) the field's data axes exist and their sizes equal the data shape;
     (iv)  coordinate references name existing constructs, cell methods name
           existing domain axes;
     (v)   the domain view is a function of the same state (Model.domain_view);
     (vi)  follows: everything repr / str / dump look up exists. *)
From CfdmV Require Import Common.Base C02.Model C02.Lemmas.

(* The empty field is consistent. *)
Theorem C02_inv_init : Inv init.
Proof. exact inv_init. Qed.
Print Assumptions C02_inv_init.

(* One call - completed or rejected, through the field, the core route or the
   domain view, with any argument choice - preserves consistency.
   Full statement:  forall s o, Inv s -> Inv (fst (step s o)).
   Proved for every operation except Subspace, Convert and the constructs=True
   forms of Transpose / InsertDimension (modelled and compared with the
   implementation on every run, preservation not proved); an inserted
   coordinate reference / cell method must name existing constructs / axes
   (exact: C02_unguarded_refuted). *)
Theorem C02_inv_step_partial :
  forall s o, Inv s -> op_ok s o -> Inv (fst (step s o)).
Proof. exact step_inv. Qed.
Print Assumptions C02_inv_step_partial.

(* Every history of such calls from the empty field ends in a consistent
   state, whatever its length ... *)
Theorem C02_inv_reachable_partial :
  forall ops, ops_ok init ops -> Inv (run ops).
Proof. exact run_inv. Qed.
Print Assumptions C02_inv_reachable_partial.

(* ... and so does every state on the way (after each call, rejected ones included). *)
Theorem C02_inv_every_prefix_partial :
  forall ops n, ops_ok init ops -> Inv (run (firstn n ops)).
Proof. exact run_inv_prefix. Qed.
Print Assumptions C02_inv_every_prefix_partial.

(* Deleting a construct - by any of the three routes, from any consistent
   state, whether the call completes or is rejected - keeps consistency:
   a domain axis that a construct, the field's data or a cell method still
   uses is refused (also through the domain view, which hides field
   ancillaries, cell methods and the data), and references to a deleted
   construct are removed from every coordinate reference.  No side condition. *)
Theorem C02_delete_safe :
  forall v k s, Inv s -> Inv (fst (del_construct v k s)).
Proof. exact del_construct_inv. Qed.
Print Assumptions C02_delete_safe.

(* Squeeze, transpose and insert_dimension (in place or not, any axes /
   position, valid or not) never leave the data shape and the data axes out
   of step - in particular no rejected in-place call leaves a half-updated field. *)
Theorem C02_reshape_safe :
  forall s, Inv s ->
  (forall a i, Inv (fst (squeeze a i s))) /\
  (forall a i, Inv (fst (transpose a false i s))) /\
  (forall ax p i, Inv (fst (insert_dimension ax p false i s))).
Proof.
  exact (fun s I => conj (fun a i => squeeze_inv a i s I)
                   (conj (fun a i => transpose_inv a i s I)
                         (fun ax p i => insert_dimension_inv ax p i s I))).
Qed.
Print Assumptions C02_reshape_safe.

(* A rejected insertion / replacement, set_data, del_data, set_data_axes,
   del_data_axes or copy leaves the state exactly as it was. *)
Theorem C02_rejected_unchanged :
  forall s o e,
  match o with
  | SetConstruct _ _ _ _ _ | SetData _ _ | DelData | SetDataAxes _ _ _ | DelDataAxes _ _ | Copy => True
  | _ => False
  end ->
  snd (step s o) = Rejected e -> fst (step s o) = s.
Proof. exact rejected_unchanged. Qed.
Print Assumptions C02_rejected_unchanged.

(* Clause (i): in a consistent state a key belongs to one construct of one type. *)
Theorem C02_key_unique :
  forall s t t' k p p', Inv s -> In (t, k, p) (cons s) -> In (t', k, p') (cons s) -> t = t' /\ p = p'.
Proof. exact key_unique. Qed.
Print Assumptions C02_key_unique.

(* Clauses (ii) and (iii): recorded axes exist and their sizes are the shape. *)
Theorem C02_shapes_match :
  forall s, Inv s ->
  (forall k axs, assoc k (caxes s) = Some axs ->
     exists t p, In (t, k, p) (cons s) /\ is_array t = true /\
       (exists szs, axes_sizes (cons s) axs = Some szs /\ forall sh, pshape p = Some sh -> sh = szs)) /\
  (forall ax sh, faxes s = Some ax -> fshape s = Some sh -> axes_sizes (cons s) ax = Some sh).
Proof. exact (fun s I => conj (fun k axs => shapes_match s k axs I) (fun ax sh => field_matches s ax sh I)). Qed.
Print Assumptions C02_shapes_match.

(* Clause (vi): in a consistent state every lookup of repr / str / dump succeeds;
   clause (v): the domain view shows exactly the field's constructs of the
   types it does not ignore. *)
Theorem C02_describe_total :
  forall s, Inv s -> describe_ok s = true /\
  (forall e, In e (domain_view s) <-> In e (cons s) /\ ignored (fst (fst e)) = false).
Proof. exact (fun s I => conj (inv_describe s I) (domain_view_spec s)). Qed.
Print Assumptions C02_describe_total.

(* The guard on inserted references is exact: the container does not validate
   the contents of a coordinate reference (by design), so a completed call can
   insert a dangling name. *)
Theorem C02_unguarded_refuted :
  exists s o, Inv s /\ snd (step s o) = Done /\ ~ Inv (fst (step s o)).
Proof. exact unguarded_refuted. Qed.
Print Assumptions C02_unguarded_refuted.

(* Non-vacuity: a 12-step history meeting the hypotheses, in which the domain
   view refuses to delete an axis the field data spans, and deleting a domain
   ancillary clears the term of the coordinate reference that named it. *)
Theorem C02_example :
  ops_ok init example_history /\
  snd (step (run (firstn 8 example_history)) (DelConstruct VDomain "domainaxis0")) = Rejected ValueErr /\
  cget CoordRef "coordinatereference0" (cons (run example_history)) = Some (PRef [] [("a"%string, None)]) /\
  axis_size (cons (run example_history)) "domainaxis0" = Some 5%Z.
Proof. exact example_ok. Qed.
Print Assumptions C02_example.
