(* C02 - the property theorems, nothing else.  Each is closed by [exact] of a
   lemma from Lemmas.v and followed by Print Assumptions.

   Inv (Lemmas.v) is the property's internal consistency of a field:
     (i)   every held construct is registered under its own type, carries the
           payload kind of that type and is the only construct under its key;
           every registered key holds a construct of the registered type;
     (ii)  recorded data axes belong to an array construct, name existing
           domain axes, and the axis sizes equal the construct's shape;
     (iii) the field's data axes exist and their sizes equal the data shape;
     (iv)  coordinate references name existing coordinate constructs (as
           coordinates) and domain ancillary constructs (as terms), cell
           methods name existing domain axes;
     (v)   the domain view is a function of the same state (Model.domain_view);
     (vi)  follows: everything repr / str / dump look up exists. *)
From CfdmV Require Import Common.Base C02.Model C02.Lemmas.

(* The empty field is consistent. *)
Theorem C02_inv_init : Inv init.
Proof. exact inv_init. Qed.
Print Assumptions C02_inv_init.

(* One call - completed or rejected, through the field, the core route or the
   domain view, with any argument choice - preserves consistency.  Every
   operation of the model: set / replace / delete a construct, set_data,
   del_data, set_data_axes, del_data_axes, copy, f[...], squeeze, transpose and
   insert_dimension (constructs=True included, also when the loop over the
   metadata constructs is left by an exception part-way, for every order in
   which the loop may have run), convert.
   The only hypothesis (op_ok) is about the caller's data: an inserted
   coordinate reference names existing coordinate constructs as coordinates and
   existing domain ancillary constructs as terms, an inserted cell method
   names existing domain axes.  The hypothesis is exact:
   C02_unguarded_refuted, C02_untyped_reference_refuted. *)
Theorem C02_inv_step :
  forall s o, Inv s -> op_ok s o -> Inv (fst (step s o)).
Proof. exact step_inv. Qed.
Print Assumptions C02_inv_step.

(* Every history of calls from the empty field ends in a consistent state,
   whatever its length ... *)
Theorem C02_inv_reachable :
  forall ops, ops_ok init ops -> Inv (run ops).
Proof. exact run_inv. Qed.
Print Assumptions C02_inv_reachable.

(* ... and so does every state on the way (after each call, rejected ones included). *)
Theorem C02_inv_every_prefix :
  forall ops n, ops_ok init ops -> Inv (run (firstn n ops)).
Proof. exact run_inv_prefix. Qed.
Print Assumptions C02_inv_every_prefix.

(* Deleting a construct - by any of the three routes, from any consistent
   state, whether the call completes or is rejected - keeps consistency:
   a domain axis that a construct, the field's data or a cell method still
   uses is refused (also through the domain view, which hides field
   ancillaries, cell methods and the data), and references to a deleted
   construct are removed from every coordinate reference.  No side condition. *)
Theorem C02_delete_safe :
  forall v k s, Inv s -> Inv (fst (del_construct v k s)).
Proof. exact del_construct_inv. Qed.
Print Assumptions C02_delete_safe.

(* Squeeze, transpose and insert_dimension (in place or not, any axes /
   position, valid or not, with or without constructs=True) never leave the
   data shape and the data axes out of step - no rejected in-place call leaves
   a half-updated field - and with constructs=True every metadata construct
   that was transposed / expanded has its recorded axes updated with it, also
   when the loop stops at a construct it cannot deal with ([d]: the
   constructs dealt with before that, any choice). *)
Theorem C02_reshape_safe :
  forall s, Inv s ->
  (forall a i, Inv (fst (squeeze a i s))) /\
  (forall a c i d, Inv (fst (transpose a c i d s))) /\
  (forall ax p c i d, Inv (fst (insert_dimension ax p c i d s))).
Proof.
  exact (fun s I => conj (fun a i => squeeze_inv a i s I)
                   (conj (fun a c i d => transpose_inv_full a c i d s I)
                         (fun ax p c i d => insert_dimension_inv_full ax p c i d s I))).
Qed.
Print Assumptions C02_reshape_safe.

(* The operations that derive a new field: f[indices] (any selected sizes,
   also with an axis spanned twice) and convert(key, full_domain) give a
   consistent field or are rejected leaving the original as it was; in
   particular the coordinate references that convert carries over name only
   constructs that it carried over as well. *)
Theorem C02_derive_safe :
  forall s, Inv s ->
  (forall sel, Inv (fst (subspace sel s))) /\
  (forall k full, Inv (fst (convert k full s))).
Proof. exact (fun s I => conj (fun sel => subspace_inv sel s I) (fun k full => convert_inv k full s I)). Qed.
Print Assumptions C02_derive_safe.

(* A rejected insertion / replacement, set_data, del_data, set_data_axes,
   del_data_axes or copy leaves the state exactly as it was. *)
Theorem C02_rejected_unchanged :
  forall s o e,
  match o with
  | SetConstruct _ _ _ _ _ | SetData _ _ | DelData | SetDataAxes _ _ _ | DelDataAxes _ _ | Copy => True
  | _ => False
  end ->
  snd (step s o) = Rejected e -> fst (step s o) = s.
Proof. exact rejected_unchanged. Qed.
Print Assumptions C02_rejected_unchanged.

(* Clause (i): in a consistent state a key belongs to one construct of one type. *)
Theorem C02_key_unique :
  forall s t t' k p p', Inv s -> In (t, k, p) (cons s) -> In (t', k, p') (cons s) -> t = t' /\ p = p'.
Proof. exact key_unique. Qed.
Print Assumptions C02_key_unique.

(* Clauses (ii) and (iii): recorded axes exist and their sizes are the shape. *)
Theorem C02_shapes_match :
  forall s, Inv s ->
  (forall k axs, assoc k (caxes s) = Some axs ->
     exists t p, In (t, k, p) (cons s) /\ is_array t = true /\
       (exists szs, axes_sizes (cons s) axs = Some szs /\ forall sh, pshape p = Some sh -> sh = szs)) /\
  (forall ax sh, faxes s = Some ax -> fshape s = Some sh -> axes_sizes (cons s) ax = Some sh).
Proof. exact (fun s I => conj (fun k axs => shapes_match s k axs I) (fun ax sh => field_matches s ax sh I)). Qed.
Print Assumptions C02_shapes_match.

(* Clause (vi): in a consistent state every lookup of repr / str / dump succeeds;
   clause (v): the domain view shows exactly the field's constructs of the
   types it does not ignore. *)
Theorem C02_describe_total :
  forall s, Inv s -> describe_ok s = true /\
  (forall e, In e (domain_view s) <-> In e (cons s) /\ ignored (fst (fst e)) = false).
Proof. exact (fun s I => conj (inv_describe s I) (domain_view_spec s)). Qed.
Print Assumptions C02_describe_total.

(* Clauses (v) and (vi) in every reachable state: after any history the
   look-ups of repr / str / dump succeed, the domain view shows exactly the
   field's constructs of the types it does not ignore, and each of them is
   registered in the field under the same key and type. *)
Theorem C02_view_and_describe_reachable :
  forall ops, ops_ok init ops ->
  describe_ok (run ops) = true /\
  (forall t k p, In (t, k, p) (domain_view (run ops)) <-> In (t, k, p) (cons (run ops)) /\ ignored t = false) /\
  (forall t k p, In (t, k, p) (domain_view (run ops)) ->
     assoc k (ctys (run ops)) = Some t /\ cget t k (cons (run ops)) = Some p).
Proof. exact reachable_view_describe. Qed.
Print Assumptions C02_view_and_describe_reachable.

(* Every dimension coordinate has 1-dimensional data: preserved by every
   operation with every argument choice, no hypothesis on the caller's data
   (set_construct refuses any other rank - the constructor raises -,
   transpose / f[...] keep the rank, insert_dimension(constructs=True) leaves
   dimension coordinates and their data axes as they are, convert carries them
   unchanged). *)
Theorem C02_dimcoord_1d_step :
  forall s o, Inv s -> Dim1 s -> Dim1 (fst (step s o)).
Proof. exact step_dim1. Qed.
Print Assumptions C02_dimcoord_1d_step.

(* Hence in every reachable state (register language: field, views of any
   depth, sibling fields) the field can be copied, and every dimension
   coordinate that has data and recorded data axes spans exactly ONE domain
   axis, whose size is the length of its data.  The code as it stood
   (insert_dimension(constructs=True) expanding dimension coordinates too) is
   refuted in Refuted.v: C02_insert_dimension_2d_dimcoord_refuted. *)
Theorem C02_dimcoord_one_axis_reachable :
  forall ops, wops_ok winit ops ->
  let s := root (wrun ops) in
  copyable s = true /\
  forall k sh b axs, In (DimCoord, k, PArr (Some sh) true b) (cons s) -> assoc k (caxes s) = Some axs ->
    exists a n, axs = [a] /\ sh = [n] /\ axis_size (cons s) a = Some n.
Proof. exact reachable_dimcoord. Qed.
Print Assumptions C02_dimcoord_one_axis_reachable.

(* What convert carries: every coordinate (whatever its rank - a scalar
   coordinate set with axes=() included) and every domain ancillary that a
   coordinate reference of the derived field names is held by the derived
   field.  The variant that skips coordinates with an empty axes tuple is
   refuted in Refuted.v (C02_convert_drops_scalar_coordinate_refuted). *)
Theorem C02_convert_carries_named :
  forall s k full rk cs ancs,
  Inv s -> In (CoordRef, rk, PRef cs ancs) (cons (fst (convert k full s))) ->
  (forall c, In c cs -> exists t p, In (t, c, p) (cons (fst (convert k full s))) /\ is_coord t = true) /\
  (forall term a, In (term, Some a) ancs -> exists p, In (DomainAnc, a, p) (cons (fst (convert k full s)))).
Proof. exact convert_carries_named. Qed.
Print Assumptions C02_convert_carries_named.

(* Views of views.  The history language has registers: the field, and views
   taken of any register by f.domain / Domain.fromconstructs(x.constructs) /
   Domain(source=x, copy=False), to any depth (Model.wstate, wstep).  A view
   records the container it is transitively a view of (_view_source) and has
   its own, stale, _field_data_axes attribute.
   (a) after any history every view's _view_source is the field's own container; *)
Theorem C02_view_source_is_root :
  forall ops, Forall (fun v => vsrc v = O) (views (wrun ops)).
Proof. exact wrun_wf. Qed.
Print Assumptions C02_view_source_is_root.

(* (b) hence a set_construct / del_construct / set_data_axes / del_data_axes
   issued through ANY view register - whatever its nesting depth and the route
   by which it was taken - is the same call on the root: it mutates the
   field's collection and every guard (spanned by a construct the view hides,
   spanned by the field's data, named by a cell method) is evaluated against
   the field's current state; two registers cannot be told apart; *)
Theorem C02_views_act_on_root :
  forall ops i j vi vj o,
  nth_error (views (wrun ops)) i = Some vi -> nth_error (views (wrun ops)) j = Some vj ->
  viewable o = true ->
  wstep (wrun ops) (Through (S i) o) = wstep (wrun ops) (Through (S j) o) /\
  root (fst (wstep (wrun ops) (Through (S i) o))) = fst (step (root (wrun ops)) o) /\
  snd (wstep (wrun ops) (Through (S i) o)) = snd (step (root (wrun ops)) o).
Proof. exact through_any_depth. Qed.
Print Assumptions C02_views_act_on_root.

(* (c) and consistency is preserved over every history of the register
   language (calls on the field, taking views, calls through views).  The
   variant "_view_source = source" is refuted in Refuted.v
   (C02_view_source_immediate_refuted). *)
Theorem C02_inv_reachable_views :
  forall ops, wops_ok winit ops -> Inv (root (wrun ops)).
Proof. exact wrun_inv. Qed.
Print Assumptions C02_inv_reachable_views.

(* (d) a field made with Field(source=f, copy=False) has its own container
   (repaired code: handoff/C02-fix3-1.diff): calls on its collection leave this
   field's registered keys, data axes of every construct, data shape, data
   axes and every construct other than the shared coordinate reference objects
   as they were (a deletion there removes the name from the shared objects,
   which is what copy=False asks for) - and this field stays consistent
   (C02_inv_reachable_views covers OnSibling). *)
Theorem C02_sibling_field_separate :
  forall w ks, let w' := fst (wstep w (OnSibling ks)) in
  views w' = views w /\ ctys (root w') = ctys (root w) /\ caxes (root w') = caxes (root w) /\
  fshape (root w') = fshape (root w) /\ faxes (root w') = faxes (root w) /\
  (forall t k, t <> CoordRef -> cget t k (cons (root w')) = cget t k (cons (root w))) /\
  (Inv (root w) -> Inv (root w')).
Proof.
  exact (fun w ks =>
    match clean_names_frame ks (root w) with
    | conj A (conj B (conj C (conj D E))) =>
        conj eq_refl (conj A (conj B (conj C (conj D (conj E (clean_names_inv ks (root w)))))))
    end).
Qed.
Print Assumptions C02_sibling_field_separate.

(* non-vacuity: views at depth 1, 2, 3 (both routes, one taken before the data
   axes changed); the views at depth 2 and 3 refuse to delete / resize an axis
   that only the field's data span, and accept a consistent insertion. *)
Theorem C02_nested_example :
  map (fun n => snd (wstep (wrun (firstn n nested_history)) (nth n nested_history (TakeView 0 RSource))))
      [6; 7; 8]%nat = [Rejected ValueErr; Rejected ValueErr; Done] /\
  map vsrc (views (wrun nested_history)) = [O; O; O] /\
  map vparent (views (wrun nested_history)) = [0; 1; 2]%nat /\
  faxes (root (wrun nested_history)) = Some ["domainaxis1"%string; "domainaxis0"%string] /\
  cget AuxCoord "auxiliarycoordinate0" (cons (root (wrun nested_history))) = Some (PArr (Some [1; 4]%Z) true None).
Proof. exact nested_example. Qed.
Print Assumptions C02_nested_example.

(* The guard on inserted references is exact: the container does not validate
   the contents of a coordinate reference (by design), so a completed call can
   insert a dangling name. *)
Theorem C02_unguarded_refuted :
  exists s o, Inv s /\ snd (step s o) = Done /\ ~ Inv (fst (step s o)).
Proof. exact unguarded_refuted. Qed.
Print Assumptions C02_unguarded_refuted.

(* ... and so is its typing: four completed calls, the third inserts a
   coordinate reference whose coordinates() names an existing field ancillary;
   convert(full_domain=True) then returns a field whose reference names a
   construct the field does not hold (replayed on cfdm: same result). *)
Theorem C02_untyped_reference_refuted :
  map (fun n => snd (step (run (firstn n untyped_history)) (nth n untyped_history Copy))) [0; 1; 2; 3]%nat
    = [Done; Done; Done; Done] /\
  assoc "fieldancillary0"%string (ctys (run (firstn 3 untyped_history))) = Some FieldAnc /\
  cget CoordRef "coordinatereference0" (cons (run untyped_history)) = Some (PRef ["fieldancillary0"%string] []) /\
  assoc "fieldancillary0"%string (ctys (run untyped_history)) = None.
Proof. exact untyped_reference_refuted. Qed.
Print Assumptions C02_untyped_reference_refuted.

(* Non-vacuity: a 17-step history meeting the hypotheses, in which the domain
   view refuses to delete an axis the field data spans, deleting a domain
   ancillary clears the term of the coordinate reference that named it, and
   insert_dimension / transpose with constructs=True, a subspace and a convert
   complete. *)
Theorem C02_example :
  ops_ok init example_history /\
  snd (step (run (firstn 8 example_history)) (DelConstruct VDomain "domainaxis0")) = Rejected ValueErr /\
  cget CoordRef "coordinatereference0" (cons (run (firstn 12 example_history))) = Some (PRef [] [("a"%string, None)]) /\
  axis_size (cons (run (firstn 12 example_history))) "domainaxis0" = Some 5%Z /\
  map (fun n => snd (step (run (firstn n example_history)) (nth n example_history Copy))) [12; 13; 14; 15; 16]%nat
    = [Done; Done; Done; Done; Done] /\
  fshape (run example_history) = Some [2; 1]%Z /\
  cget AuxCoord "auxiliarycoordinate0" (cons (run example_history)) = Some (PArr (Some [2; 1]%Z) true None).
Proof. exact example_ok. Qed.
Print Assumptions C02_example.
